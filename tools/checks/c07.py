"""C07 Weak topological orderings are well-formed for every graph.
Design level: spec/WtoModel (reference Bourdoncle model is well-formed on all small graphs).
Implementation level: real ikos::wto on enumerated/random graphs (CFGs and call graphs),
every record judged by TLC against spec/WtoDefs!WellFormed (spec/WtoJudge)."""
import json, os
import vlib
from vlib import Check, build, tlc, workdir, read_ndjson


def random_jobs(rng, count, nmin, nmax, kind):
    jobs = []
    for _ in range(count):
        n = rng.randint(nmin, nmax)
        dens = rng.choice([0.15, 0.25, 0.4])
        succ = []
        for u in range(1, n + 1):
            s = [v for v in range(1, n + 1) if rng.random() < dens]
            rng.shuffle(s)
            succ.append(s)
        jobs.append({"kind": kind, "n": n, "entry": rng.randint(1, n), "succ": succ})
    return jobs


def judge(ck, wd, jobs, label, chunk_timeout=1500):
    jp, op = os.path.join(wd, label + ".jobs.json"), os.path.join(wd, label + ".ndjson")
    json.dump(jobs, open(jp, "w"))
    rc, out = vlib.sh([os.path.join(vlib.BUILD, "bin", "wto_runner"), jp, op], timeout=1200)
    if rc != 0:
        raise vlib.Broken("wto_runner failed (%d): %s" % (rc, out[-2000:]))
    r = tlc("WtoJudge", "WtoJudge", "c07-" + label, env={"WTO_RECORDS": op}, cont=True, timeout=chunk_timeout)
    ck.add_tlc(r, "WtoJudge/" + label)
    recs = read_ndjson(op)
    ck.cov["traces_validated_against_impl"] += len(recs)
    ck.cov["evaluations"] += len(recs)
    ck.cov["distinct_nontrivial"] += len({json.dumps([x["kind"], x["n"], x["entry"], x["succ"]]) for x in recs if x["comps"]})
    for x in recs[len(recs) // 2: len(recs) // 2 + 1]:
        ck.sample(x)
    ck.cov.setdefault("model_drift", 0)
    ck.cov["model_drift"] += len(r.tuples("MODEL-DRIFT"))
    if r.is_violation:
        bad = sorted({int(v) for v in r.state_var("i")})
        for i in bad[:5]:
            rec = recs[i - 1]
            # confirm in isolation before reporting
            one = dict(kind=rec["kind"], n=rec["n"], entry=rec["entry"], succ=rec["succ"], id=rec["id"])
            jp1, op1 = os.path.join(wd, "confirm.json"), os.path.join(wd, "confirm.ndjson")
            json.dump([one], open(jp1, "w"))
            vlib.sh([os.path.join(vlib.BUILD, "bin", "wto_runner"), jp1, op1], timeout=60)
            r1 = tlc("WtoJudge", "WtoJudge", "c07-confirm", env={"WTO_RECORDS": op1}, workers=1, timeout=300)
            if r1.is_violation:
                ck.violation("ikos::wto result is not a well-formed WTO (violated: %s) for graph %s" %
                             (",".join(sorted(set(r1.violated))), json.dumps(one)), read_ndjson(op1)[0])
    return r


def run(tier, seed):
    ck = Check("C07", tier, seed)
    build("wto_runner")
    wd = workdir("c07")
    # design level
    for cfg in (["WtoModel3"] if tier == "quick" else ["WtoModel3", "WtoModel4"]):
        r = tlc("WtoModel", cfg, "c07-" + cfg, timeout=1500)
        ck.add_tlc(r, cfg)
        if r.is_violation:
            ck.violation("reference WTO model violates the contract: " + r.out[-1500:], {"cfg": cfg})
    # implementation level
    small = [{"gen": "all", "kind": k, "n": n, "entries": "all", "order": o}
             for k in ("cfg", "cg") for n in (1, 2, 3) for o in ("asc", "desc", "rot")]
    judge(ck, wd, small, "small")
    judge(ck, wd, [{"gen": "all", "kind": "cfg", "n": 4, "entries": "first", "order": "asc"}], "n4-cfg-asc")
    nrand = 4000 if tier == "quick" else 60000
    judge(ck, wd, random_jobs(ck.rng, nrand, 5, 9, "cfg") + random_jobs(ck.rng, nrand // 4, 4, 7, "cg"), "random")
    if tier == "thorough":
        for o in ("desc", "rot"):
            judge(ck, wd, [{"gen": "all", "kind": "cfg", "n": 4, "entries": "all", "order": o}], "n4-cfg-" + o)
        judge(ck, wd, [{"gen": "all", "kind": "cg", "n": 4, "entries": "all", "order": "asc"}], "n4-cg")
    ck.cov["rule"] = ("all digraphs on 1..3 nodes x every entry x 3 successor orders, as CFG and as call graph; all 65536 "
                      "4-node CFG graphs; seeded random 5-9 node graphs. non-trivial = distinct (kind,graph,entry) whose WTO has "
                      "at least one component (cycle)")
    ck.cov["exhaustive"] = False
    ck.assumptions += ["graphs beyond 4 nodes are sampled, not enumerated",
                       "the flat projection (order, component intervals, nesting lists) is produced by harness/wto_runner.cpp "
                       "through the public visitor API"]
    return ck.finish()


def replay(path):
    case = json.load(open(path))["case"]
    ck = Check("C07", "quick", 0)
    build("wto_runner")
    wd = workdir("c07-replay")
    judge(ck, wd, [dict(kind=case["kind"], n=case["n"], entry=case["entry"], succ=case["succ"])], "replay")
    return ck.finish()
