SPECIFICATION Spec
INVARIANT Exact
INVARIANT InLanguage
CHECK_DEADLOCK FALSE
ALIAS Compact
