// Replays operation histories (DomainOps behaviours) on a real abstract domain
// and records, after every step, the projection obs() of the register that was
// written (and of any other register whose projection text changed), plus the
// answers of queries. Used by C03, C04, C05(chains), C12, C16.
#pragma once
#include "crabir.hpp"
#include <crab/domains/abstract_domain_operators.hpp>
#include <crab/fixpoint/thresholds.hpp>
#include <functional>
#include <map>

namespace vh {

using crab::domains::arith_operation_t;
using crab::domains::bitwise_operation_t;
using crab::domains::bool_operation_t;

inline arith_operation_t arith_op(const std::string &f) {
  if (f == "add") return crab::domains::OP_ADDITION;
  if (f == "sub") return crab::domains::OP_SUBTRACTION;
  if (f == "mul") return crab::domains::OP_MULTIPLICATION;
  if (f == "sdiv") return crab::domains::OP_SDIV;
  if (f == "udiv") return crab::domains::OP_UDIV;
  if (f == "srem") return crab::domains::OP_SREM;
  return crab::domains::OP_UREM;
}
inline bitwise_operation_t bitw_op(const std::string &f) {
  if (f == "and") return crab::domains::OP_AND;
  if (f == "or") return crab::domains::OP_OR;
  if (f == "xor") return crab::domains::OP_XOR;
  if (f == "shl") return crab::domains::OP_SHL;
  if (f == "lshr") return crab::domains::OP_LSHR;
  return crab::domains::OP_ASHR;
}
inline bool_operation_t bool_op(const std::string &f) {
  if (f == "and") return crab::domains::OP_BAND;
  if (f == "or") return crab::domains::OP_BOR;
  return crab::domains::OP_BXOR;
}

// Apply one CrabIR statement (JSON) to an abstract value through the public API.
template <typename D> void apply_stmt(D &d, const vj::Value &st, const VarTab &vt) {
  const std::string &op = st["op"].str();
  if (op == "assign") {
    d.assign(vt.v(st["x"].i()), lin_exp(st["e"], vt));
  } else if (op == "arith") {
    if (st["zk"].i())
      d.apply(arith_op(st["f"].str()), vt.v(st["x"].i()), vt.v(st["y"].i()), num(st["z"]));
    else
      d.apply(arith_op(st["f"].str()), vt.v(st["x"].i()), vt.v(st["y"].i()), vt.v(st["z"].i()));
  } else if (op == "bitw") {
    if (st["zk"].i())
      d.apply(bitw_op(st["f"].str()), vt.v(st["x"].i()), vt.v(st["y"].i()), num(st["z"]));
    else
      d.apply(bitw_op(st["f"].str()), vt.v(st["x"].i()), vt.v(st["y"].i()), vt.v(st["z"].i()));
  } else if (op == "assume" || op == "assert") {
    z_lin_cst_sys_t sys;
    sys += lin_cst(st["c"], vt);
    d += sys;
  } else if (op == "havoc") {
    d -= vt.v(st["x"].i());
  } else if (op == "select") {
    d.select(vt.v(st["x"].i()), lin_cst(st["c"], vt), lin_exp(st["e1"], vt), lin_exp(st["e2"], vt));
  } else if (op == "unreach") {
    d.set_to_bottom();
  } else if (op == "bassign_cst") {
    d.assign_bool_cst(vt.v(st["x"].i()), lin_cst(st["c"], vt));
  } else if (op == "bassign_var") {
    d.assign_bool_var(vt.v(st["x"].i()), vt.v(st["y"].i()), st["neg"].i() != 0);
  } else if (op == "bop") {
    d.apply_binary_bool(bool_op(st["f"].str()), vt.v(st["x"].i()), vt.v(st["y"].i()), vt.v(st["z"].i()));
  } else if (op == "bassume" || op == "bassert") {
    d.assume_bool(vt.v(st["x"].i()), op == "bassume" && st["neg"].i() != 0);
  } else if (op == "bselect") {
    d.select_bool(vt.v(st["x"].i()), vt.v(st["c"].i()), vt.v(st["y"].i()), vt.v(st["z"].i()));
  } else if (op == "cast") {
    const std::string &f = st["f"].str();
    d.apply(f == "zext" ? crab::domains::OP_ZEXT : f == "sext" ? crab::domains::OP_SEXT : crab::domains::OP_TRUNC,
            vt.v(st["x"].i()), vt.v(st["y"].i()));
  } else if (op == "nop") {
  } else {
    std::cerr << "apply_stmt: unknown op " << op << "\n";
    std::exit(4);
  }
}

template <typename D> struct Replayer {
  typedef std::function<D()> factory_t;
  factory_t make_top;
  VarTab vt;
  std::vector<D> regs; // index 0 unused
  std::vector<std::string> last; // last emitted obs text per register
  std::vector<int> qvars;
  bool with_disj = false; // only for domains whose disjunctive export says more than the conjunctive one

  Replayer(variable_factory_t &vfac, factory_t f) : make_top(f), vt(vfac) {}

  std::vector<z_var> varlist(const vj::Value &a) {
    std::vector<z_var> r;
    for (size_t i = 0; i < a.size(); ++i) r.push_back(vt.v(a[i].i()));
    return r;
  }

  std::string obs_of(int r, bool on_copy) {
    std::ostringstream s;
    if (on_copy) {
      D c(regs[r]);
      emit_obs(s, c, vt, qvars, with_disj);
    } else
      emit_obs(s, regs[r], vt, qvars, with_disj);
    return s.str();
  }

  // returns the JSON text of the step's outcome
  bool force_stutter = false; // domain name suffix "#s": all observations are made on the registers themselves
  void run(const vj::Value &h, std::ostream &o, const std::string &dom) {
    crab::domains::crab_domain_params_man::get() = crab::domains::crab_domain_params();
    if (h.has("params")) set_domain_params(h["params"]);
    vt.declare(h["vars"]);
    qvars.clear();
    for (size_t i = 1; i <= vt.n(); ++i) qvars.push_back(i);
    int nregs = h["nregs"].i();
    // stutter = 1: queries are made on the registers themselves (C16: must not change meaning)
    bool on_copy = h.geti("stutter", 0) == 0 && !force_stutter;
    regs.clear();
    last.clear();
    for (int r = 0; r <= nregs; ++r) {
      regs.push_back(make_top());
      last.push_back("");
    }
    o << "{\"id\":" << h["id"].i() << ",\"dom\":" << vj::q(dom) << ",\"steps\":[";
    const vj::Value &steps = h["steps"];
    for (size_t k = 0; k < steps.size(); ++k) {
      const vj::Value &st = steps[k];
      const std::string &op = st["op"].str();
      int r = st.geti("r", 0);
      long ans = -1;
      if (op == "stmt") {
        apply_stmt(regs[r], st["s"], vt);
      } else if (op == "forget") {
        regs[r].forget(varlist(st["vs"]));
      } else if (op == "project") {
        regs[r].project(varlist(st["vs"]));
      } else if (op == "rename") {
        // the `to` variables must be unconstrained: forget them first
        // "raw": the generator guarantees that `to` was never constrained in this register, so rename/expand is
        // the first (and only) operation applied (needed to exercise copy-on-write detaching in these operations)
        if (!st.geti("raw", 0)) regs[r].forget(varlist(st["to"]));
        regs[r].rename(varlist(st["from"]), varlist(st["to"]));
      } else if (op == "expand") {
        if (!st.geti("raw", 0)) regs[r] -= vt.v(st["y"].i());
        regs[r].expand(vt.v(st["x"].i()), vt.v(st["y"].i()));
      } else if (op == "join") {
        if (st.geti("inplace", 0) && r == st["a"].i())
          regs[r] |= regs[st["b"].i()];
        else
          regs[r] = regs[st["a"].i()] | regs[st["b"].i()];
      } else if (op == "meet") {
        if (st.geti("inplace", 0) && r == st["a"].i())
          regs[r] &= regs[st["b"].i()];
        else
          regs[r] = regs[st["a"].i()] & regs[st["b"].i()];
      } else if (op == "widen") {
        if (st.has("ts")) {
          crab::thresholds<z_number> ts(50);
          for (size_t q = 0; q < st["ts"].size(); ++q) ts.add(ikos::bound<z_number>(num(st["ts"][q])));
          regs[r] = regs[st["a"].i()].widening_thresholds(regs[st["b"].i()], ts);
        } else
          regs[r] = regs[st["a"].i()] || regs[st["b"].i()];
      } else if (op == "widenjoin") { // acc := acc widen (acc join b): the engine's use of widening
        D j = regs[st["a"].i()] | regs[st["b"].i()];
        if (st.has("ts")) {
          crab::thresholds<z_number> ts(50);
          for (size_t q = 0; q < st["ts"].size(); ++q) ts.add(ikos::bound<z_number>(num(st["ts"][q])));
          regs[r] = regs[st["a"].i()].widening_thresholds(j, ts);
        } else
          regs[r] = regs[st["a"].i()] || j;
      } else if (op == "narrow") { // a && (a & b): narrowing of a decreasing pair
        D m = regs[st["a"].i()] & regs[st["b"].i()];
        regs[r] = regs[st["a"].i()] && m;
      } else if (op == "copy") {
        regs[r] = regs[st["a"].i()];
      } else if (op == "top") {
        if (st.geti("inplace", 0)) regs[r].set_to_top();
        else regs[r] = regs[r].make_top();
      } else if (op == "bottom") {
        if (st.geti("inplace", 0)) regs[r].set_to_bottom();
        else regs[r] = regs[r].make_bottom();
      } else if (op == "normalize") {
        regs[r].normalize();
      } else if (op == "minimize") {
        regs[r].minimize();
      } else if (op == "query") { // read-only queries on the register itself
        (void)regs[r].is_bottom();
        (void)regs[r].is_top();
        for (int v : qvars) (void)regs[r][vt.v(v)];
        (void)regs[r].to_linear_constraint_system();
        if (with_disj) (void)regs[r].to_disjunctive_linear_constraint_system();
      } else if (op == "leq") {
        ans = (regs[st["a"].i()] <= regs[st["b"].i()]) ? 1 : 0;
      } else if (op == "entails") {
        ans = regs[r].entails(lin_cst(st["c"], vt)) ? 1 : 0;
      } else if (op == "isbot") {
        ans = regs[r].is_bottom() ? 1 : 0;
      } else if (op == "istop") {
        ans = regs[r].is_top() ? 1 : 0;
      } else {
        std::cerr << "dom_replay: unknown op " << op << "\n";
        std::exit(4);
      }
      // outcome: obs of every register whose projection text changed
      o << (k ? "," : "") << "{\"ans\":" << ans << ",\"ch\":[";
      bool first = true;
      for (int q = 1; q <= nregs; ++q) {
        std::string t = obs_of(q, on_copy);
        if (t != last[q]) {
          o << (first ? "" : ",") << "{\"r\":" << q << ",\"o\":" << t << "}";
          first = false;
          last[q] = t;
        }
      }
      o << "]}";
    }
    o << "]}\n";
  }
};

bool &stutter_flag();
// registry: domain name -> function(history, out)
typedef std::function<void(const vj::Value &, std::ostream &)> runner_t;
std::map<std::string, runner_t> &registry();
struct Registrar {
  Registrar(const std::string &name, runner_t f) { registry()[name] = f; }
};

template <typename D> runner_t plain_runner(const std::string &name, bool with_disj = false) {
  return [name, with_disj](const vj::Value &h, std::ostream &o) {
    variable_factory_t vfac;
    Replayer<D> rp(vfac, []() { return D(); });
    rp.with_disj = with_disj;
    rp.force_stutter = stutter_flag();
    rp.run(h, o, name + (stutter_flag() ? "#s" : ""));
  };
}

#define VH_REGISTER_DOMAIN(NAME, TYPE) static vh::Registrar reg_##NAME(#NAME, vh::plain_runner<TYPE>(#NAME));
#define VH_REGISTER_DOMAIN_DISJ(NAME, TYPE) static vh::Registrar reg_##NAME(#NAME, vh::plain_runner<TYPE>(#NAME, true));

} // namespace vh
