"""C15 The region/reference domain is sound for loads and reference queries: region_domain over several base domains x
region_domain_params settings, checked on every concrete execution of seeded region programs (spec/RegionSound.tla =
spec/ProgSound.tla + the reference queries, with the region/reference statements of spec/CrabIR.tla)."""
import json, os, collections
import vlib, regiongen
from vlib import Check, build
from checks import progsound

DOMS = ["rgn_int", "rgn_sdbm", "rgn_const", "rgn_sign", "rgn_bool_int", "rgn_bool_sdbm", "rgn_aa_int"]
T, F = "true", "false"
# region_domain_params: allocation_sites, deallocation, tag_analysis, is_dereferenceable, skip_unknown_regions
PARAMS = [None,
          {"region.allocation_sites": T, "region.deallocation": T, "region.tag_analysis": T, "region.is_dereferenceable": F, "region.skip_unknown_regions": T},
          {"region.allocation_sites": T, "region.deallocation": T, "region.tag_analysis": T, "region.is_dereferenceable": T, "region.skip_unknown_regions": F},
          {"region.allocation_sites": F, "region.deallocation": F, "region.tag_analysis": F, "region.is_dereferenceable": F, "region.skip_unknown_regions": T},
          {"region.allocation_sites": T, "region.deallocation": F, "region.tag_analysis": F, "region.is_dereferenceable": T, "region.skip_unknown_regions": F},
          {"region.allocation_sites": F, "region.deallocation": T, "region.tag_analysis": T, "region.is_dereferenceable": F, "region.skip_unknown_regions": F},
          {"region.is_dereferenceable": T}, {"region.deallocation": T}, {"region.skip_unknown_regions": F}]


def run_configs(rng):
    runs = []
    for d in DOMS:
        c = {"dom": d, "wd": rng.choice([0, 1, 2]), "desc": rng.choice([0, 1, 2]), "th": rng.choice([0, 0, 5]), "live": 0}
        pr = rng.choice(PARAMS)
        if pr:
            c["params"] = pr
        runs.append(c)
    return runs


def count_answers(merged, cnt):
    for p in merged:
        for r in p["runs"]:
            if r["err"]:
                continue
            for key in ("rq_pre", "rq_post"):
                for blk in r[key]:
                    for n, ok, sites in blk:
                        cnt["ref_queries"] += 1
                        if n in (0, 1):
                            cnt["definite_null_answers" if n == 1 else "definite_nonnull_answers"] += 1
                        if ok:
                            cnt["allocation_site_answers"] += 1
                            if sites:
                                cnt["nonempty_allocation_site_answers"] += 1
            for key in ("tq_pre", "tq_post"):
                for blk in r[key]:
                    for ok, tags in blk:
                        if ok:
                            cnt["tag_answers"] += 1
                            if tags:
                                cnt["nonempty_tag_answers"] += 1


def describe(v):
    what = []
    for key, txt in (("bad_invariant", "invariant does not contain the reachable state"), ("bad_verdict", "wrong assertion verdict"),
                     ("bad_query", "wrong answer to a reference query (is_null_ref / get_allocation_sites / get_tags)")):
        if v.get(key):
            what.append("%s for %s" % (txt, ", ".join("%s(run %d)" % (d, r) for r, d in v[key][:4])))
    return "; ".join(what)


def report(ck, viols):
    for v in viols:
        bad = v["bad_invariant"] + v["bad_verdict"] + v.get("bad_query", [])
        seen = set()
        for run_, dom in bad:
            if run_ in seen or len(seen) >= 2:
                continue
            seen.add(run_)
            cfg = v["program"]["runs"][run_ - 1]
            prog = dict(v["program"])
            prog["runs"] = [cfg]
            ck.violation("C15: region domain %s (config %s), program %d (%s, ssa=%s): %s at block b%d idx %d; concrete state %s "
                         "(scalars, bools, regions [cells 1..8, then tag masks 1..8], references, allocator); execution tail %s" %
                         (dom, json.dumps(cfg), prog["id"], prog.get("shape"), prog.get("ssa"), describe(v), v["block"], v["idx"], v["state"],
                          v["execution"][-8:]),
                         {"program": prog, "execution": v["execution"], "state": v["state"], "violated": v["violated"]})


def run(tier, seed):
    ck = Check("C15", tier, seed + 15000)
    build("prog_runner")
    # groups of programs: (label, number, ssa) - "ssa": a reference variable is the target of at most one make_ref statement and
    # of nothing else; "reassign": reference variables are re-assigned freely (make_ref into a variable that already has a value)
    if tier == "quick":
        groups = [("ssa", 260, True), ("reassign", 60, False)]
    else:
        groups = [("ssa", 300, True), ("reassign", 100, False)] * 6
    if os.environ.get("C15_N"):
        groups = [("mixed", int(os.environ["C15_N"]), None)]
    pid = k = 0
    ops = collections.Counter()
    cnt = collections.Counter()
    shapes = collections.Counter()
    for label, m, ssa in groups:
        ps = []
        for i in range(m):
            pid += 1
            p = regiongen.program(ck.rng, pid, ssa=ssa)
            p["runs"] = run_configs(ck.rng)
            ops.update(regiongen.count_ops(p))
            shapes[p["shape"] + ("/ssa" if p["ssa"] else "/reassign")] += 1
            ps.append(p)
        # every reported violation costs one more TLC run of the batch: stop looking for further ones once many are known
        viols, merged, _ = progsound.explore(ck, "b%d-%s" % (k, label), ps, box=1, univ=12, spec="RegionSound",
                                             max_iter=(2 if tier == "quick" else 3) if len(ck.violations) < 10 else 1)
        count_answers(merged, cnt)
        ck.cov["distinct_nontrivial"] += sum(1 for p in merged for r in p["runs"] if r["err"] == 0 and
                                             any(o["bot"] == 0 and o["top"] == 0 for o in r["post"]))
        if k < 2:
            ck.sample({"group": label, "program": {x: ps[0][x] for x in ("shape", "ssa", "layoutA", "vars", "blocks")}, "run_configs": ps[0]["runs"][:3]})
        report(ck, viols)
        k += 1
    crashed = sum(v for key, v in ck.cov.get("harness_no_claim", {}).items() if key.endswith(":crash"))
    if crashed:
        vlib.log("NOTE: %d analyzer runs ended with a signal (no claim made about them); see C15_findings.md D5 (dangling `this` in the "
                 "region domain's ghost variable manager, unknown regions with region.skip_unknown_regions=false)" % crashed)
    ck.cov["statements_in_programs"] = dict(ops)
    ck.cov["loads_in_programs"] = ops["rload"]
    ck.cov["program_shapes"] = dict(shapes)
    ck.cov["query_answers"] = dict(cnt)
    ck.cov["rule"] = ("seeded region programs (regions A:int, B:int|bool, RR:ref, copies A2/A3, unknown region UK; 4-5 references; objects "
                      "plain/struct (fields in two regions)/array; make_ref, gep_ref offset 0/1/symbolic, store/load, null, assume_ref/assert_ref, "
                      "select_ref, bool_assign(ref cst), remove_ref, region_copy, region_cast, ref_to_int/int_to_ref, add_tag, is_dereferenceable, "
                      "is_unfreed_or_null; line/diamond/loop/allocating loop) x 7 region domains x region_domain_params settings; every concrete "
                      "execution from the 3^3 x 2^3 initial valuations explored; at every block boundary: the state lies in the invariant "
                      "(loaded scalars in at()/constraints), definite is_null_ref answers and reported allocation sites / tags agree with the "
                      "concrete reference, assert_ref verdicts hold. non-trivial = (program, run) with a non-top non-bottom post-invariant")
    ck.assumptions += ["loads of never-written cells, dereferences of null / freed / foreign-region addresses, use of an unassigned reference and "
                       "gep_ref leaving the object are outside the model (execution not followed)",
                       "addresses are abstract cell units (gep offsets 0/1, objects of 1-2 cells, 8 addresses, never reused); make_ref returns a fresh non-null address",
                       "tags: weakest reading (a store clears the tags of the overwritten cell; no flow through scalar variables)"]
    return ck.finish()


def replay(path):
    case = json.load(open(path))["case"]
    ck = Check("C15", "quick", 0)
    build("prog_runner")
    viols, _, _ = progsound.explore(ck, "replay", [case["program"]], box=1, univ=12, spec="RegionSound")
    for v in viols:
        ck.violation("replayed: %s; %s" % (v["violated"], describe(v)), case)
    return ck.finish()
