SPECIFICATION FairSpec
PROPERTY Termination
CHECK_DEADLOCK FALSE
