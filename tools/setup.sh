#!/bin/sh
# MANIFEST.setup_cmd: build libCrab.a from /repo and every harness runner, offline.
cd "$(dirname "$0")/.." || exit 2
make -s -j"$(nproc)" all || exit 2
echo "setup ok"
