SPECIFICATION Spec
INVARIANT InvariantsSound
INVARIANT VerdictsSound
INVARIANT RefQueriesSound
INVARIANT RefVerdictsSound
CHECK_DEADLOCK FALSE
ALIAS CompactR
