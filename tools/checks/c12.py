"""C12 Intervals, zones and octagons are exact on their own constraint language; liftings and
products never report looser variable bounds than their base domain on straight-line code.

Seeded histories that stay INSIDE a domain's constraint language and inside the box -R..R are replayed
on the real domains (harness/dom_replay); TLC computes the exact meaning of every register as a finite
set of integer points (spec/ExactOps.tla) and demands EQUALITIES: is_bottom <=> empty, exported meaning
= exact set on the box of radius R+2, at(v) = [min, max], entails(c) <=> c holds on the set, leq <=>
inclusion; join = hull in the domain's own language.  Python only generates, expands and transports."""
import collections, json, os
import vlib, hist
from vlib import Check, build, tlc, workdir

PID = "C12"
R = 3
MAX_ROUNDS = 4      # TLC stops at the first failing step; failing histories are set aside and TLC is run again
DOM_LANG = collections.OrderedDict([("intervals", "itv"), ("sparse_dbm", "zone"), ("split_dbm", "zone"), ("split_oct", "oct")])
LANGS = ["itv", "zone", "oct"]
LANG_ORDER = {"itv": 0, "zone": 1, "oct": 2}
# (lifting or product, base domain): both replay the same straight-line history
LIFT_PAIRS = [("bool_int", "intervals"), ("bool_dbm", "sparse_dbm"), ("aa_int", "intervals"), ("as_sdbm", "split_dbm"),
              ("rgn_int", "intervals"), ("num_product", "split_dbm"), ("num_product", "term_dis_int"),
              ("ref_intervals", "intervals"), ("ref_split_dbm", "split_dbm"), ("ref_split_oct", "split_oct")]
PARAMS = [None, None,
          {"zones.chrome_dijkstra": "false", "oct.chrome_dijkstra": "false"},
          {"zones.widen_restabilize": "false", "oct.widen_restabilize": "false"},
          {"zones.special_assign": "false", "oct.special_assign": "false"},
          {"zones.close_bounds_inline": "true", "oct.close_bounds_inline": "true"},
          {"zones.chrome_dijkstra": "false", "oct.chrome_dijkstra": "false",
           "zones.close_bounds_inline": "true", "oct.close_bounds_inline": "true"}]
RULE = ("seeded histories over 3 registers and 2-3 integer variables, every register boxed to -3..3, then <= L steps of: assume of a "
        "constraint of the language (unit coefficients, constants -6..6, <=, ==, <), meet, join, forget+re-box, copy, entails, leq, "
        "is_bottom; one family per language (intervals / zones / octagons), each judged on every domain whose language contains it, "
        "x closure-related domain parameters; plus straight-line histories (assume/assign/arith/havoc/select) replayed on liftings "
        "and products paired with their base domain. non-trivial = exact history with >= 1 join or meet, >= 2 assumes and (zones, "
        "octagons) >= 1 two-variable constraint; counted per distinct history")


# ---------------------------------------------------------------- generation (no judgement in here)
def lang_cst(rng, lang, nv, rels=("le",) * 7 + ("eq", "eq", "lt", "lt")):
    """a constraint of the language: +-x <= k | x - y <= k | +-x +- y <= k, written  e r 0"""
    two = lang != "itv" and nv >= 2 and rng.random() < 0.65
    k = rng.randint(-R, R) if rng.random() < 0.7 else rng.randint(-2 * R, 2 * R)
    if not two:
        t = [[rng.choice([-1, 1]), rng.randint(1, nv)]]
    else:
        x, y = rng.sample(range(1, nv + 1), 2)
        if lang == "zone":
            t = [[1, x], [-1, y]]
        else:
            t = [[rng.choice([-1, 1]), x], [rng.choice([-1, 1]), y]]
        rng.shuffle(t)
    return {"e": {"k": -k, "t": t}, "r": rng.choice(rels)}


def box_order(rng, nv):
    o = [[s, v] for v in range(1, nv + 1) for s in (1, -1)]
    rng.shuffle(o)
    return o


def exact_history(rng, hid, lang, maxlen, params):
    """maxlen bounds the number of state-changing steps; queries on the register just written are interleaved"""
    nv = rng.choice([2, 3, 3])
    regs = [1, 2, 3]
    steps = [{"op": "box", "r": r, "ord": box_order(rng, nv)} for r in regs]
    focus = rng.choice(regs)        # most steps work on one register so that constraints accumulate
    for _ in range(rng.randint(max(3, maxlen - 3), maxlen)):
        r = focus if rng.random() < 0.6 else rng.choice(regs)
        p = rng.random()
        if p < 0.55:
            steps.append({"op": "assume", "r": r, "c": lang_cst(rng, lang, nv)})
        elif p < 0.82:
            a = r if rng.random() < 0.7 else rng.choice(regs)
            b = rng.choice(regs)
            if rng.random() < 0.5:
                a, b = b, a
            d = {"op": "join" if p < 0.69 else "meet", "r": r, "a": a, "b": b}
            if rng.random() < 0.4:
                d["r"] = r = a
                d["inplace"] = 1
            steps.append(d)
        elif p < 0.92:
            v = rng.randint(1, nv)
            steps.append({"op": "forgetbox", "r": r, "v": v, "how": rng.choice(["forget", "havoc"]), "ord": rng.choice([[1, -1], [-1, 1]])})
        else:
            steps.append({"op": "copy", "r": r, "a": rng.choice(regs)})
        for _ in range(rng.choice([0, 0, 1, 1, 2])):
            q = rng.random()
            if q < 0.7:
                steps.append({"op": "entails", "r": r, "c": lang_cst(rng, lang, nv, rels=("le",) * 6 + ("eq", "lt", "lt"))})
            elif q < 0.92:
                o = rng.choice(regs)
                a, b = (r, o) if rng.random() < 0.5 else (o, r)
                steps.append({"op": "leq", "r": 0, "a": a, "b": b})
            else:
                steps.append({"op": "isbot", "r": r})
        if rng.random() < 0.15:
            focus = rng.choice(regs)
    h = {"id": hid, "mode": "exact", "lang": lang, "R": R, "nv": nv, "nregs": 3, "steps": steps}
    if params:
        h["params"] = params
    return h


R4 = 2      # box radius of the four-variable family (9^4 points in the comparison box)


def closure4_history(rng, hid, lang, params):
    """directed family over FOUR variables (the closure of a path through all variables): a chain
    s_2 v_2 - s_1 v_1 <= k_1, ..., s_4 v_4 - s_3 v_3 <= k_3  (all signs + for zones) and weaker, redundant constraints between
    the same and more distant end points, added to two registers in two different orders (redundant ones often FIRST, so
    that a later constraint tightens an edge that already exists); then the implied constraints between distant variables
    are queried, both registers are compared in both directions, and joined / met / projected."""
    nv = 4
    perm = rng.sample([1, 2, 3, 4], 4)
    sg = {v: (1 if lang == "zone" or rng.random() < 0.6 else -1) for v in perm}
    ks = [rng.randint(-1, 1) for _ in range(3)]

    def edge(i, j, k):      # s_j v_j - s_i v_i <= k
        return {"e": {"k": -k, "t": [[sg[perm[j]], perm[j]], [-sg[perm[i]], perm[i]]]}, "r": "le"}
    tight = [edge(i, i + 1, ks[i]) for i in range(3)]
    redundant = []
    for i in range(4):
        for j in range(i + 1, 4):
            if rng.random() < 0.6:
                redundant.append(edge(i, j, sum(ks[i:j]) + rng.randint(1, 4)))
    if rng.random() < 0.4:
        i, j = sorted(rng.sample(range(4), 2))
        redundant.append(edge(j, i, rng.randint(0, 4)))     # an edge in the other direction
    steps = [{"op": "box", "r": r, "ord": box_order(rng, nv)} for r in (1, 2, 3)]
    orders = []
    for r in (1, 2):
        if rng.random() < 0.6:
            a, b = redundant[:], tight[:]
            rng.shuffle(a)
            rng.shuffle(b)
            o = a + b
        else:
            o = redundant + tight
            rng.shuffle(o)
        orders.append(o)
    for r, o in zip((1, 2), orders):
        for c in o:
            steps.append({"op": "assume", "r": r, "c": c})
    implied = [edge(i, j, sum(ks[i:j])) for i in range(4) for j in range(i + 1, 4) if j - i >= 2]
    for r in (1, 2):
        for c in implied:
            steps.append({"op": "entails", "r": r, "c": c})
        c = rng.choice(implied)
        steps.append({"op": "entails", "r": r, "c": {"e": {"k": c["e"]["k"] + 1, "t": c["e"]["t"]}, "r": "le"}})   # one tighter: not implied
    steps.append({"op": "leq", "r": 0, "a": 1, "b": 2})
    steps.append({"op": "leq", "r": 0, "a": 2, "b": 1})
    tail = rng.choice(["join", "meet", "forget", "none"])
    if tail == "join":
        steps.append({"op": "assume", "r": 3, "c": rng.choice(tight)})
        steps.append({"op": "join", "r": 3, "a": 1, "b": 3})
    elif tail == "meet":
        steps.append({"op": "assume", "r": 3, "c": lang_cst(rng, lang, nv)})
        steps.append({"op": "meet", "r": 3, "a": 3, "b": rng.choice([1, 2])})
    elif tail == "forget":
        steps.append({"op": "forgetbox", "r": 1, "v": perm[rng.choice([1, 2])], "how": "forget", "ord": [1, -1]})
        steps.append({"op": "entails", "r": 1, "c": implied[-1]})
    h = {"id": hid, "mode": "exact", "lang": lang, "R": R4, "nv": nv, "nregs": 3, "steps": steps, "family": "closure4"}
    if params:
        h["params"] = params
    return h


def stale_join_history(rng, hid, lang, params):
    """directed family: JOIN of two values over 2-3 variables in which a relational constraint was assumed BEFORE bounds that
    make it redundant (an explicit but stale edge), against a value holding a relational constraint on the same pair that
    is tighter than its own bounds; both operand orders, in place and not; then the constraints of the language between the
    two variables are queried around the exact answer (the join must be the LEAST value above both)."""
    nv = 3
    s_, d_ = rng.sample([1, 2, 3], 2)
    sgd, sgs = (1, -1) if lang == "zone" or rng.random() < 0.6 else rng.choice([(1, 1), (-1, -1), (-1, 1)])
    rel = lambda k: {"e": {"k": -k, "t": [[sgd, d_], [sgs, s_]]}, "r": "le"}          # sgd*d + sgs*s <= k
    bnd = lambda v, sg, k: {"e": {"k": -k, "t": [[sg, v]]}, "r": "le"}                # sg*v <= k
    steps = [{"op": "box", "r": r, "ord": box_order(rng, nv)} for r in (1, 2, 3)]

    def operand(r, stale_first):
        lo_s, lo_d = rng.randint(-R, R - 1), rng.randint(-R, R - 1)
        hi_s, hi_d = rng.randint(lo_s, R), rng.randint(lo_d, R)
        bounds = [bnd(s_, 1, hi_s), bnd(s_, -1, -lo_s), bnd(d_, 1, hi_d), bnd(d_, -1, -lo_d)]
        rng.shuffle(bounds)
        # what the bounds imply for sgd*d + sgs*s
        imp = (hi_d if sgd == 1 else -lo_d) + (hi_s if sgs == 1 else -lo_s)
        k = imp + rng.randint(1, 3) if stale_first else imp - rng.randint(0, 2)
        cs = [rel(k)] + bounds if stale_first else bounds + [rel(k)]
        for c in cs:
            steps.append({"op": "assume", "r": r, "c": c})
    a_stale = rng.random() < 0.8
    operand(1, a_stale)
    operand(2, rng.random() < 0.3)
    a, b = (1, 2) if rng.random() < 0.5 else (2, 1)
    if rng.random() < 0.4:
        steps.append({"op": "join", "r": a, "a": a, "b": b, "inplace": 1})
        j = a
    else:
        steps.append({"op": "join", "r": 3, "a": a, "b": b})
        j = 3
    for k in range(-2 * R, 2 * R + 1, 1):
        if rng.random() < 0.45:
            steps.append({"op": "entails", "r": j, "c": rel(k)})
    steps.append({"op": "leq", "r": 0, "a": 1 if j != 1 else 2, "b": j})
    h = {"id": hid, "mode": "exact", "lang": lang, "R": R, "nv": nv, "nregs": 3, "steps": steps, "family": "stalejoin"}
    if params:
        h["params"] = params
    return h


def lift_history(rng, hid, maxlen, params):
    nv = 3
    ints = [1, 2, 3]
    regs = [1, 2]
    steps = [{"op": "box", "r": r, "ord": box_order(rng, nv)} for r in regs]
    for _ in range(rng.randint(max(3, maxlen - 3), maxlen + 2)):
        p = rng.random()
        r = rng.choice(regs)
        if p < 0.30:
            steps.append({"op": "stmt", "r": r, "s": {"op": "assume", "c": lang_cst(rng, "oct", nv)}})
        elif p < 0.95:
            steps.append({"op": "stmt", "r": r, "s": hist.stmt(rng, ints, [], "linear")})
        else:
            steps.append({"op": "copy", "r": r, "a": rng.choice(regs)})
    h = {"id": hid, "mode": "lift", "lang": "oct", "R": R, "nv": nv, "nregs": 2, "steps": steps}
    if params:
        h["params"] = params
    return h


def bound_cst(sign, v, rad=R):
    return {"e": {"k": -rad, "t": [[sign, v]]}, "r": "le"}     # sign*v - rad <= 0


def expand(h):
    """spec-level history -> primitive dom_replay history; last[k] = index of the primitive step whose
    observation is the outcome of spec-level step k"""
    prim, last = [], []
    for st in h["steps"]:
        op = st["op"]
        if op == "box":
            prim.append({"op": "top", "r": st["r"], "inplace": 0})
            for s, v in st["ord"]:
                prim.append({"op": "stmt", "r": st["r"], "s": {"op": "assume", "c": bound_cst(s, v, h["R"])}})
        elif op == "assume":
            prim.append({"op": "stmt", "r": st["r"], "s": {"op": "assume", "c": st["c"]}})
        elif op == "forgetbox":
            if st.get("how") == "havoc":
                prim.append({"op": "stmt", "r": st["r"], "s": {"op": "havoc", "x": st["v"]}})
            else:
                prim.append({"op": "forget", "r": st["r"], "vs": [st["v"]]})
            for s in st.get("ord", [1, -1]):
                prim.append({"op": "stmt", "r": st["r"], "s": {"op": "assume", "c": bound_cst(s, st["v"], h["R"])}})
        else:   # join meet copy entails leq isbot stmt: same primitive step
            prim.append({k: v for k, v in st.items()})
        last.append(len(prim) - 1)
    names = ["x", "y", "z", "w", "u"]
    ph = {"id": h["id"], "vars": [{"n": names[i], "t": "int"} for i in range(h["nv"])], "nregs": h["nregs"], "steps": prim, "stutter": 0}
    if h.get("params"):
        ph["params"] = h["params"]
    return ph, last


def slim(o, mode):
    # lift mode compares the exported at(v) intervals only
    return {"bot": o["bot"], "itv": o["itv"], "csts": o["csts"] if mode == "exact" else [], "disj": [[]]}


def domains_of(h):
    if h["mode"] == "exact":
        return [d for d, l in DOM_LANG.items() if LANG_ORDER[l] >= LANG_ORDER[h["lang"]]]
    ds = []
    for a, b in LIFT_PAIRS:
        for x in (a, b):
            if x not in ds:
                ds.append(x)
    return ds


def to_traces(hs, prims, recs, only_doms=None):
    """transport: spec-level histories + recorded observations -> trace records of spec/ExactOps.tla"""
    merged = {m["id"]: m for m in hist.merge([p for p, _ in prims], recs)}
    traces = []
    for h, (ph, last) in zip(hs, prims):
        m = merged[h["id"]]
        obs = []
        for o in m["obs"]:
            if only_doms is not None and o["dom"] not in only_doms:
                continue
            ent = {"dom": o["dom"], "err": o["err"], "lang": DOM_LANG.get(o["dom"], "none"), "judged": 1, "steps": []}
            if not o["err"]:
                for k in last:
                    rec = o["steps"][k]
                    ent["steps"].append({"ans": rec["ans"], "o": slim(rec["o"], h["mode"])})
            obs.append(ent)
        names = [o["dom"] for o in obs]
        pairs = []
        if h["mode"] == "lift":
            pairs = [[names.index(a) + 1, names.index(b) + 1] for a, b in LIFT_PAIRS if a in names and b in names]
            for i, o in enumerate(obs):
                o["judged"] = 1 if any(p[0] == i + 1 for p in pairs) else 0
        langs = sorted({o["lang"] for o in obs if o["lang"] != "none"}, key=lambda l: LANG_ORDER[l]) if h["mode"] == "exact" else ["oct"]
        traces.append({"id": h["id"], "mode": h["mode"], "lang": h["lang"], "langs": langs or [h["lang"]], "R": h["R"], "nv": h["nv"],
                       "nregs": h["nregs"], "steps": h["steps"], "obs": obs, "pairs": pairs})
    return traces


# ---------------------------------------------------------------- pipeline
def tuples_ml(out, tag):
    """PrintT tuples of TLC's output, including those the pretty-printer wrapped over several lines"""
    res, cur, depth = [], None, 0
    for ln in out.splitlines():
        s = ln.strip()
        if cur is None:
            if not s.startswith("<<"):
                continue
            cur, depth = "", 0
        cur += s + " "
        depth += s.count("<<") - s.count(">>")
        if depth <= 0:
            t = " ".join(cur.split()).replace("<< ", "<<").replace(" >>", ">>")
            cur = None
            if t.startswith('<<"%s"' % tag) and t.endswith(">>"):
                res.append([json.loads(x) if x.strip().startswith('"') else vlib._num(x) for x in vlib._split(t[2:-2])][1:])
    return res


def replay_real(label, hs, doms_by_group):
    """runs dom_replay once per group of histories that share a domain list"""
    wd = workdir("c12-" + label)
    prims = [expand(h) for h in hs]
    groups = collections.OrderedDict()
    for h, (ph, _) in zip(hs, prims):
        groups.setdefault(tuple(doms_by_group(h)), []).append(ph)
    recs = []
    for gi, (doms, phs) in enumerate(groups.items()):
        hp, op_ = os.path.join(wd, "h%d.ndjson" % gi), os.path.join(wd, "o%d.ndjson" % gi)
        vlib.write_ndjson(hp, phs)
        rc, out = vlib.sh([os.path.join(vlib.BUILD, "bin", "dom_replay"), hp, op_] + list(doms), timeout=3000, env={"VH_STEP_TIMEOUT": 20})
        if rc != 0:
            raise vlib.Broken("dom_replay failed (%d): %s" % (rc, out[-2000:]))
        recs += vlib.read_ndjson(op_)
    return wd, prims, recs


def judge(ck, label, traces, timeout=1500, count=True, rounds=None):
    """TLC on the traces; stops at the first failing step (no -continue: deep behaviours); the failing
    histories are then set aside and TLC is run again so that distinct failures are all seen"""
    wd = os.path.join(vlib.BUILD, "work", "c12-" + label)
    os.makedirs(wd, exist_ok=True)
    kp = os.path.join(wd, "known.json")
    vlib.write_known_for_spec(kp)
    fails, knowns, seen = [], [], set()
    todo = list(traces)
    byid = {t["id"]: t for t in traces}
    classes = []          # failure classes already collected: later TLC runs report their instances as SEEN and go on
    sp = os.path.join(wd, "seen.json")
    for rnd in range(rounds or MAX_ROUNDS):
        tp = os.path.join(wd, "traces%d.ndjson" % rnd)
        vlib.write_ndjson(tp, todo)
        with open(sp, "w") as f:
            json.dump(classes, f)
        r = tlc("ExactOps", "ExactOps", "c12-%s-%d" % (label, rnd),
                env={"EXACT_TRACES": tp, "KNOWN_FINDINGS": kp, "SEEN_SIGS": sp, "EXACT_R": traces[0]["R"]}, cont=False, timeout=timeout)
        if count:
            ck.add_tlc(r, "ExactOps/%s/%d" % (label, rnd))
        if "InLanguage" in r.violated:
            raise vlib.Broken("a generated history is outside its language (generator/spec mismatch):\n" + r.out[-3000:])
        for f in tuples_ml(r.out, "KNOWN"):
            key = json.dumps(f[:5])
            if key not in seen:
                seen.add(key)
                knowns.append({"id": f[0], "trace": f[1], "step": f[2], "dom": f[3], "why": f[4]})
        new = []
        for tag in ("FAIL", "SEEN"):
            for f in tuples_ml(r.out, tag):
                key = json.dumps(f[:4])
                if key not in seen:
                    seen.add(key)
                    new.append({"trace": f[0], "step": f[1], "dom": f[2], "why": f[3], "witness": f[4] if len(f) > 4 else None,
                                "first_of_class": tag == "FAIL"})
        if r.is_violation and not any(x["first_of_class"] for x in new):
            raise vlib.Broken("TLC reported a violation but printed no FAIL record:\n" + r.out[-3000:])
        fails += new
        if not r.is_violation:
            break
        for x in new:
            c = {"dom": x["dom"], "op": byid[x["trace"]]["steps"][x["step"] - 1]["op"], "why": x["why"]}
            if c not in classes:
                classes.append(c)
        gone = {f["trace"] for f in new if f["first_of_class"]}
        todo = [t for t in todo if t["id"] not in gone]
        if not todo:
            break
    return fails, knowns


def run_batch(ck, label, hs, only_doms=None, count=True, rounds=None):
    wd, prims, recs = replay_real(label, hs, (lambda h: only_doms) if only_doms else domains_of)
    traces = to_traces(hs, prims, recs, only_doms)
    if count:
        ok = sum(1 for x in recs if "err" not in x)
        ck.cov["traces_validated_against_impl"] += ok
        ck.cov["evaluations"] += sum(len(o["steps"]) for t in traces for o in t["obs"] if o["judged"])
        nc = ck.cov.setdefault("harness_no_claim", {})
        for x in recs:
            if "err" in x:
                k = "%s:%s" % (x["dom"], x["err"])
                nc[k] = nc.get(k, 0) + 1
    fails, knowns = judge(ck, label, traces, count=count, rounds=rounds)
    byid = {h["id"]: h for h in hs}
    for f in fails:
        f["history"] = byid[f["trace"]]
    for k in knowns:
        k["op"] = byid[k["trace"]]["steps"][k["step"] - 1]
    return fails, knowns, traces


def cut(h, step):
    c = dict(h)
    c["steps"] = h["steps"][:step]
    return c


def doms_for_failure(f):
    if f["history"]["mode"] == "lift":
        return [f["dom"]] + [b for a, b in LIFT_PAIRS if a == f["dom"]]
    return [f["dom"]]


def confirm(ck, f):
    """the failing history, cut at the failing step, alone, on the failing domain only"""
    sub = Check(PID, ck.tier, ck.seed)
    fails, _, _ = run_batch(sub, "confirm", [cut(f["history"], f["step"])], only_doms=doms_for_failure(f), count=False)
    return any(x["dom"] == f["dom"] and x["step"] == f["step"] and x["why"] == f["why"] for x in fails)


def nontrivial(h):
    if h["mode"] != "exact":
        return False
    ops = [s["op"] for s in h["steps"]]
    two = any(s["op"] == "assume" and len(s["c"]["e"]["t"]) == 2 for s in h["steps"])
    return ("join" in ops or "meet" in ops) and ops.count("assume") >= 2 and (h["lang"] == "itv" or two)


DESIGN = {"quick": [("Zones", 2, 3, 2), ("Octagons", 2, 3, 2)],          # (module, box radius, constants, constraints)
          "thorough": [("Zones", 2, 4, 3), ("Octagons", 2, 2, 3)]}


def design_models(ck, tier):
    """design level: DBM + incremental closure (zones) and DBM + tight closure (octagons) for n = 2 satisfy the
    same equalities, and the Hull-by-enumeration of ExactOps.tla is the entry-wise maximum of closed matrices"""
    out = []
    for mod, r_, k_, n_ in DESIGN[tier]:
        r = tlc(mod, mod, "c12-design-" + mod.lower(), env={"ZR": r_, "ZK": k_, "ZMAXC": n_}, cont=False, timeout=1500)
        ck.add_tlc(r, "%s(R=%d,K=%d,constraints<=%d)" % (mod, r_, k_, n_))
        out.append({"model": mod, "box": r_, "constants": k_, "max_constraints": n_, "distinct_states": r.distinct,
                    "invariants": ["AssumeExact", "ForgetExact", "JoinIsHull", "MeetExact", "LeqExact"], "ok": r.ok})
        if not r.ok:
            raise vlib.Broken("design-level model %s violates %s (the oracle's notion of exactness is not satisfiable by the "
                              "textbook algorithm: spec mistake):\n%s" % (mod, r.violated, r.out[-2500:]))
    ck.cov["design_level_models"] = out


def run(tier, seed):
    ck = Check(PID, tier, seed)
    build("dom_replay")
    if not os.environ.get("C12_ONLY"):
        design_models(ck, tier)
    n_lang, n_lift, maxlen = (400, 300, 8) if tier == "quick" else (2000, 1200, 10)
    chunk_lang, chunk_lift = (400, 300) if tier == "quick" else (1000, 600)
    stats = {"histories": collections.Counter(), "ops": collections.Counter(), "params": collections.Counter(),
             "answers": collections.Counter(), "bottom_results": 0}
    nontriv = set()
    allf, allk = [], []
    hid = 0
    batches = []
    done = 0
    while done < n_lang:
        m = min(chunk_lang, n_lang - done)
        for lang in LANGS:
            hs = []
            for _ in range(m):
                hid += 1
                hs.append(exact_history(ck.rng, hid, lang, maxlen if ck.rng.random() < 0.8 else maxlen + 4, ck.rng.choice(PARAMS)))
            batches.append((lang + str(done // chunk_lang), hs))
        done += m
    done = 0
    while done < n_lift:
        m = min(chunk_lift, n_lift - done)
        hs = []
        for _ in range(m):
            hid += 1
            hs.append(lift_history(ck.rng, hid, maxlen, ck.rng.choice(PARAMS)))
        if done == 0:       # fixed regression histories (replays of earlier findings; ids 99xxxx)
            rd = os.path.join(vlib.ROOT, "tools", "regress")
            hs += [json.load(open(os.path.join(rd, f))) for f in sorted(os.listdir(rd)) if f.startswith("c12_")]
        batches.append(("lift" + str(done // chunk_lift), hs))
        done += m
    n4 = 60 if tier == "quick" else 600
    for lang in ("zone", "oct"):
        for c0 in range(0, n4, 300):
            hs = []
            for _ in range(min(300, n4 - c0)):
                hid += 1
                hs.append(closure4_history(ck.rng, hid, lang, ck.rng.choice(PARAMS)))
            batches.append(("%sclosure4_%d" % (lang, c0 // 300), hs))
    nsj = 120 if tier == "quick" else 1200
    for lang in ("zone", "oct"):
        for c0 in range(0, nsj, 400):
            hs = []
            for _ in range(min(400, nsj - c0)):
                hid += 1
                hs.append(stale_join_history(ck.rng, hid, lang, ck.rng.choice(PARAMS)))
            batches.append(("%sstalejoin_%d" % (lang, c0 // 400), hs))
    failed_fams = set()
    only = os.environ.get("C12_ONLY")       # developer option: restrict to one family (itv|zone|oct|lift)
    for label, hs in batches:
        if only and not label.startswith(only):
            continue
        # later batches of a family that already failed get fewer re-runs (they only add similar cases)
        fam = label.rstrip("0123456789")
        fails, knowns, traces = run_batch(ck, label, hs, rounds=2 if fam in failed_fams else None)
        if fails:
            failed_fams.add(fam)
        allf += fails
        allk += knowns
        for h in hs:
            stats["histories"][h["lang"] if h["mode"] == "exact" else "lift"] += 1
            stats["params"][json.dumps(h.get("params"), sort_keys=True)] += 1
            for s in h["steps"]:
                stats["ops"][h["mode"] + ":" + (s["op"] if s["op"] != "stmt" else "stmt." + s["s"]["op"])] += 1
            if nontrivial(h):
                nontriv.add(json.dumps(h["steps"], sort_keys=True))
        for t in traces:     # measured on the recorded observations (what the real code answered)
            for o in t["obs"]:
                if o["err"] or not o["judged"]:
                    continue
                for st, rec in zip(t["steps"], o["steps"]):
                    if st["op"] in ("entails", "leq", "isbot"):
                        stats["answers"]["%s:%s=%d" % (o["dom"], st["op"], rec["ans"])] += 1
                    elif rec["o"]["bot"]:
                        stats["bottom_results"] += 1
        if len(ck.cov["samples"]) < 4 and (label.endswith("0")):
            ck.sample({"history": hs[0], "domains": domains_of(hs[0])})
    ck.cov["distinct_nontrivial"] = len(nontriv)
    ck.cov["rule"] = RULE
    ck.cov["histories"] = dict(stats["histories"])
    ck.cov["steps_by_kind"] = dict(stats["ops"])
    ck.cov["parameter_settings"] = dict(stats["params"])
    ck.cov["recorded_answers"] = dict(stats["answers"])
    ck.cov["bottom_results"] = stats["bottom_results"]
    ck.cov["judged_domains"] = {"exact": dict(DOM_LANG), "lifting_pairs": LIFT_PAIRS}
    ck.cov["box_radius"] = R
    ck.cov["comparison_box_radius"] = R + 2
    ck.assumptions += ["exactness is decided inside the box -%d..%d (2-3 variables, 3 registers); the exported meaning is compared with the exact "
                       "set on the box of radius %d" % (R, R, R + 2),
                       "constants of generated constraints lie in -%d..%d; coefficients are units" % (2 * R, 2 * R),
                       "lifting/product comparison uses the exported at(v) intervals of the paired replays (bounds beyond 2^30 are clamped "
                       "identically on both sides)",
                       "a step on which the real code calls CRAB_ERROR or times out yields no claim (counted in harness_no_claim)",
                       "TLC stops at the first failing step of a class (domain, operation, judgement) not yet reported; it is then re-run (at most %d "
                       "times per batch) and counts further instances of reported classes as SEEN without stopping" % MAX_ROUNDS]
    for k in allk:
        ck.known(k["id"], {"domain": k["dom"], "step": k["op"], "judgement": k["why"]})
    # one report per (domain, judgement, spec-level operation)
    groups = collections.OrderedDict()
    for f in sorted(allf, key=lambda x: (not x.get("first_of_class", True), x["step"], x["trace"])):
        st = f["history"]["steps"][f["step"] - 1]
        key = (f["dom"], f["why"], st["op"], st.get("s", {}).get("op"), st.get("c", {}).get("r"))
        groups.setdefault(key, []).append(f)
    n = 0
    for key, fs in groups.items():
        if n >= 10:
            break
        f = fs[0]
        if not confirm(ck, f):
            vlib.log("NOTE: failure %s did not repeat in isolation; not reported" % (key,))
            continue
        h = cut(f["history"], f["step"])
        ck.violation("domain %s: %s at step %d (%s) of %s-history %d (params %s); disagreeing point %s; %d similar case(s)" %
                     (f["dom"], f["why"], f["step"], json.dumps(h["steps"][-1]), h["lang"] if h["mode"] == "exact" else "lift", f["trace"],
                      json.dumps(h.get("params")), f["witness"], len(fs)),
                     {"domain": f["dom"], "domains": doms_for_failure(f), "judgement": f["why"], "witness": f["witness"], "history": h})
        n += 1
    return ck.finish()


def replay(path):
    case = json.load(open(path))["case"]
    ck = Check(PID, "quick", 0)
    build("dom_replay")
    fails, knowns, _ = run_batch(ck, "replay", [case["history"]], only_doms=case.get("domains") or [case["domain"]])
    for f in fails:
        ck.violation("replayed: %s %s at step %d" % (f["dom"], f["why"], f["step"]), case)
    return ck.finish()
