"""Seeded generator of CrabIR programs over arrays (C14): variables x,y,z (ints) and arrays A,B (4 cells, one uniform
element size per program), initialisations, strong/weak stores at constant and symbolic indices, range stores, array
copies, loads, in straight-line code, diamonds and loops."""
import hist
from proggen import negate

X, Y, Z, A, B_ = 1, 2, 3, 4, 5


def le_const(c):
    return {"k": c, "t": []}


def le_var(v, k=0, coef=1):
    return {"k": k, "t": [[coef, v]]}


def program(rng, pid):
    es = rng.choice([1, 1, 4])
    ints = [X, Y, Z]
    # B is either a second 4-cell array or a SINGLE-cell array: only there a store may be flagged as a strong update
    # (is_strong_update is the client's promise that the abstract array can be overwritten; cfg.hpp array_store_stmt)
    b1 = rng.random() < 0.4
    # the adaptive array domain requires the scalar receiving a load to have the bit-width of the element size
    w = 8 * es
    vars_ = [{"n": "x", "t": "int", "w": w}, {"n": "y", "t": "int", "w": w}, {"n": "z", "t": "int", "w": w},
             {"n": "A", "t": "arr"}, {"n": "B", "t": "arr"}]
    blocks = []

    def blk(st=None):
        blocks.append({"succ": [], "stmts": st or []})
        return len(blocks)

    def edge(a, b):
        blocks[a - 1]["succ"].append(b)

    def val():
        # the CFG type checker requires the stored value to be a number or a variable
        if rng.random() < 0.5:
            return le_const(rng.randint(-2, 2))
        return le_var(rng.choice(ints))

    def cidx():
        return le_const(es * rng.randint(0, 3))

    def sym_idx_setup(v):
        """statements that make v a valid (aligned, in range) symbolic index"""
        lo, hi = sorted(rng.sample(range(0, 4), 2)) if rng.random() < 0.5 else (0, 3)
        st = [{"op": "havoc", "x": v},
              {"op": "assume", "c": {"e": le_var(v, -hi), "r": "le"}},          # v <= hi
              {"op": "assume", "c": {"e": le_var(v, lo, -1), "r": "le"}}]       # v >= lo
        if es == 1:
            return st, le_var(v)
        return st, {"k": 0, "t": [[es, v]]}

    def arr():
        return rng.choice([A, A, B_])

    def store(a=None, idx=None, strong=None):
        a = a or arr()
        if a == B_ and b1:
            return {"op": "astore", "a": a, "i": le_const(0), "v": val(), "es": es, "strong": rng.choice([0, 1])}
        return {"op": "astore", "a": a, "i": idx or cidx(), "v": val(), "es": es, "strong": 0}

    def load(x=None, a=None, idx=None):
        a = a or arr()
        if a == B_ and b1:
            return {"op": "aload", "x": x or rng.choice(ints), "a": a, "i": le_const(0), "es": es}
        return {"op": "aload", "x": x or rng.choice(ints), "a": a, "i": idx or cidx(), "es": es}

    def init(a):
        return {"op": "ainit", "a": a, "es": es, "lb": le_const(0), "ub": le_const(0 if (a == B_ and b1) else 3 * es), "v": val()}

    def scalar():
        return hist.stmt(rng, ints, [], "c17")

    def some(n):
        out = []
        for _ in range(n):
            r = rng.random()
            if r < 0.3:
                out.append(store())
            elif r < 0.55:
                out.append(load())
            elif r < 0.62:
                lo, hi = sorted([rng.randint(0, 3), rng.randint(0, 3)])
                out.append({"op": "astore_range", "a": A, "i": le_const(lo * es), "j": le_const(hi * es), "v": val(), "es": es})
            elif r < 0.68 and not b1:
                out.append({"op": "aassign", "a": B_, "b": A} if rng.random() < 0.7 else {"op": "aassign", "a": A, "b": B_})
            elif r < 0.8:
                v = rng.choice(ints)
                st, ix = sym_idx_setup(v)
                out += st
                out.append(store(a=A, idx=ix) if rng.random() < 0.6 else load(x=rng.choice([w for w in ints if w != v]), a=A, idx=ix))
            else:
                out.append(scalar())
        return out

    shape = rng.choice(["line", "diamond", "loop", "loop", "fill", "partial", "lostcopy"])
    if shape == "lostcopy":
        # a store at a symbolic index (which array_adaptive may have to IGNORE, depending on its parameters and on the cells
        # the array has at that moment), then constant-index stores, an array copy (possibly a copy of the copy, or one copy
        # per branch of a diamond), and a load at a symbolic or constant index FROM THE COPY
        b1 = False
        vars_[4]["t"] = "arr"
        first = rng.choice(["init", "partial", "partial", "cells", "virgin", "virgin"])
        st = []
        v = rng.choice(ints)
        if first == "init":
            st.append(init(A))
            s1, ix = sym_idx_setup(v)
        else:
            # only the first cells exist when the symbolic store arrives; it writes (also) cells that do not exist yet
            k = rng.choice([0, 1])
            if first == "virgin":       # the symbolic store is the very first write to the array (no cell exists)
                k = -1
            elif first == "partial":
                st.append({"op": "ainit", "a": A, "es": es, "lb": le_const(0), "ub": le_const(k * es), "v": val()})
            else:
                for c in range(k + 1):
                    st.append({"op": "astore", "a": A, "i": le_const(c * es), "v": val(), "es": es, "strong": 0})
            lo = rng.randint(max(k, 0), 3)
            hi = rng.randint(max(lo, k + 1), 3)
            s1 = [{"op": "havoc", "x": v}, {"op": "assume", "c": {"e": le_var(v, -hi), "r": "le"}},
                  {"op": "assume", "c": {"e": le_var(v, lo, -1), "r": "le"}}]
            ix = le_var(v) if es == 1 else {"k": 0, "t": [[es, v]]}
        st.append(init(B_))
        st += s1
        st.append({"op": "astore", "a": A, "i": ix, "v": le_const(rng.choice([-2, 2, 1])), "es": es, "strong": 0})
        for _ in range(rng.randint(1 if first == "virgin" else 0, 2)):
            st.append({"op": "astore", "a": A, "i": cidx(), "v": val(), "es": es, "strong": 0})
        u = rng.choice([q for q in ints if q != v])
        w2 = rng.choice([q for q in ints if q != u])
        s2, ix2 = sym_idx_setup(w2)
        rd = s2 + [{"op": "aload", "x": u, "a": B_, "i": ix2, "es": es}] if rng.random() < 0.7 else [{"op": "aload", "x": u, "a": B_, "i": cidx(), "es": es}]
        copy = [{"op": "aassign", "a": B_, "b": A}]
        if rng.random() < 0.3:      # copy of a copy
            copy += [{"op": "aassign", "a": A, "b": B_}, {"op": "aassign", "a": B_, "b": A}]
        if rng.random() < 0.5:
            blk(st + copy + rd)
        else:
            e = blk(st)
            g = hist.cst(rng, ints, rels=("le", "le", "lt", "eq", "ne"))
            t = blk([{"op": "assume", "c": g}] + copy)
            f = blk([{"op": "assume", "c": negate(g)}] + copy + ([{"op": "astore", "a": B_, "i": cidx(), "v": val(), "es": es, "strong": 0}] if rng.random() < 0.5 else []))
            x = blk(rd)
            edge(e, t)
            edge(e, f)
            edge(t, x)
            edge(f, x)
        return {"id": pid, "shape": "array-" + shape, "es": es, "vars": vars_, "kinds": ["int", "int", "int", "arr", "arr"], "nv": len(vars_),
                "entry": 1, "exit": len(blocks), "blocks": blocks, "init": []}
    if shape == "partial":
        # A is only PARTLY initialised; further cells are written on one branch only, so the two values joined at x know
        # different cells; then a symbolic load (or a symbolic store followed by a load) covers a cell written on one side.
        # (executions that read a never-written cell are outside the model and not followed)
        k = rng.choice([0, 0, 1])
        e = blk([{"op": "ainit", "a": A, "es": es, "lb": le_const(0), "ub": le_const(k * es), "v": val()}, init(B_)])
        g = hist.cst(rng, ints, rels=("le", "le", "lt", "eq", "ne")) if rng.random() < 0.6 else None
        c1 = rng.randint(k + 1, 3)
        tst = [{"op": "astore", "a": A, "i": le_const(c1 * es), "v": le_const(rng.choice([-2, 2, 1])), "es": es, "strong": 0}]
        fst = []
        if rng.random() < 0.4:
            c2 = rng.choice([c for c in range(k + 1, 4) if c != c1])
            fst = [{"op": "astore", "a": A, "i": le_const(c2 * es), "v": val(), "es": es, "strong": 0}]
        t = blk(([{"op": "assume", "c": g}] if g else []) + tst)
        f = blk(([{"op": "assume", "c": negate(g)}] if g else []) + fst)
        v = rng.choice(ints)
        u = rng.choice([q for q in ints if q != v])
        lo = rng.randint(0, c1)
        hi = rng.randint(c1, 3)
        st = [{"op": "havoc", "x": v}, {"op": "assume", "c": {"e": le_var(v, -hi), "r": "le"}}, {"op": "assume", "c": {"e": le_var(v, lo, -1), "r": "le"}}]
        ix = le_var(v) if es == 1 else {"k": 0, "t": [[es, v]]}
        if rng.random() < 0.6:
            tail = st + [{"op": "aload", "x": u, "a": A, "i": ix, "es": es}]
        else:       # a symbolic store (may smash the array), then a load of the cell written on one side
            tail = st + [{"op": "astore", "a": A, "i": ix, "v": val(), "es": es, "strong": 0},
                         {"op": "aload", "x": u, "a": A, "i": le_const(c1 * es), "es": es}]
        x = blk(tail)
        edge(e, t)
        edge(e, f)
        edge(t, x)
        edge(f, x)
        kinds = ["int", "int", "int", "arr", "arr1" if b1 else "arr"]
        return {"id": pid, "shape": "array-" + shape, "es": es, "vars": vars_, "kinds": kinds, "nv": len(vars_),
                "entry": 1, "exit": len(blocks), "blocks": blocks, "init": []}
    e = blk([init(A), init(B_)] + some(rng.randint(0, 2)))
    if shape == "line":
        m = blk(some(rng.randint(1, 3)))
        x = blk(some(rng.randint(0, 2)) + [load()])
        edge(e, m)
        edge(m, x)
    elif shape == "diamond":
        g = hist.cst(rng, ints, rels=("le", "le", "lt", "eq", "ne"))
        t = blk([{"op": "assume", "c": g}] + some(rng.randint(1, 2)))
        f = blk([{"op": "assume", "c": negate(g)}] + some(rng.randint(1, 2)))
        x = blk([load()] + some(rng.randint(0, 1)) + [load()])
        edge(e, t)
        edge(e, f)
        edge(t, x)
        edge(f, x)
    elif shape == "loop":
        v = rng.choice(ints)
        blocks[e - 1]["stmts"].append({"op": "assign", "x": v, "e": le_const(0)})
        h = blk([])
        g = {"e": le_var(v, -rng.randint(1, 3)), "r": "le"}
        body = blk([{"op": "assume", "c": g}] + some(rng.randint(1, 2)) + [{"op": "arith", "f": "add", "x": v, "y": v, "zk": 1, "z": 1}])
        x = blk([{"op": "assume", "c": negate(g)}] + some(rng.randint(0, 1)) + [load()])
        edge(e, h)
        edge(h, body)
        edge(h, x)
        edge(body, h)
    else:  # fill loop: for (i = 0; i <= 3; i++) A[i*es] := val
        v = rng.choice(ints)
        w = rng.choice([u for u in ints if u != v])
        blocks[e - 1]["stmts"].append({"op": "assign", "x": v, "e": le_const(0)})
        h = blk([])
        g = {"e": le_var(v, -3), "r": "le"}
        ix = le_var(v) if es == 1 else {"k": 0, "t": [[es, v]]}
        body = blk([{"op": "assume", "c": g}, {"op": "astore", "a": A, "i": ix, "v": val(), "es": es, "strong": 0},
                    {"op": "arith", "f": "add", "x": v, "y": v, "zk": 1, "z": 1}])
        st, ix2 = sym_idx_setup(w)
        x = blk([{"op": "assume", "c": negate(g)}] + st + [{"op": "aload", "x": rng.choice([u for u in ints if u != w]), "a": A, "i": ix2, "es": es}])
        edge(e, h)
        edge(h, body)
        edge(h, x)
        edge(body, h)
    kinds = ["int", "int", "int", "arr", "arr1" if b1 else "arr"]
    return {"id": pid, "shape": "array-" + shape, "es": es, "vars": vars_, "kinds": kinds, "nv": len(vars_),
            "entry": 1, "exit": len(blocks), "blocks": blocks, "init": []}
