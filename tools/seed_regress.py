#!/usr/bin/env python3
"""usage: tools/seed_regress.py [lanes] [seed-id-prefix ...]
Re-runs, for every seeded change under seeded/, the quick tier of the check that is recorded to catch it, against a scratch
worktree of /repo HEAD with the change applied (never touches /repo).  Writes seeded/REGRESSION.json."""
import json, os, subprocess, sys, threading, queue, time
ROOT = os.path.dirname(os.path.dirname(os.path.abspath(__file__)))
OVERRIDE = {"C09-joined-ctx-redundancy-pre-only": "C02", "C03-soct-split-rels": "C04"}


def sh(cmd, **kw):
    return subprocess.run(cmd, shell=True, stdout=subprocess.PIPE, stderr=subprocess.STDOUT, universal_newlines=True, **kw)


def lane(k, q, res):
    wt, bd = "/tmp/wt_reg%d" % k, "/tmp/build_reg%d" % k
    while True:
        try:
            sid = q.get_nowait()
        except queue.Empty:
            break
        chk = OVERRIDE.get(sid, sid.split("-")[0])
        sh("git -C /repo worktree remove --force %s" % wt)
        sh("git -C /repo worktree add -q --detach %s HEAD" % wt)
        r = sh("git -C %s apply %s/seeded/%s/patch.diff" % (wt, ROOT, sid))
        if r.returncode != 0:
            res[sid] = {"check": chk, "result": "PATCH-DOES-NOT-APPLY"}
            continue
        t0 = time.time()
        r = sh("VERIF_REPO=%s VERIF_BUILD=%s VERIF_TIER=quick timeout 3000 %s/tools/check %s" % (wt, bd, ROOT, chk))
        lines = [l for l in r.stdout.splitlines() if l.startswith(("VIOLATION", "OK", "BROKEN"))]
        res[sid] = {"check": chk, "result": (lines[0].split()[0] if lines else "NO-OUTPUT"), "line": (lines[0][:160] if lines else r.stdout[-300:]),
                    "wall_s": round(time.time() - t0)}
        print(sid, res[sid]["result"], res[sid]["wall_s"], flush=True)
    sh("git -C /repo worktree remove --force %s" % wt)
    sh("rm -rf %s" % bd)


def main():
    lanes = int(sys.argv[1]) if len(sys.argv) > 1 else 3
    pref = sys.argv[2:]
    ids = sorted(d for d in os.listdir(os.path.join(ROOT, "seeded")) if os.path.isdir(os.path.join(ROOT, "seeded", d)))
    if pref:
        ids = [i for i in ids if any(i.startswith(p) for p in pref)]
    q = queue.Queue()
    for i in ids:
        q.put(i)
    res = {}
    ts = [threading.Thread(target=lane, args=(k, q, res)) for k in range(lanes)]
    [t.start() for t in ts]
    [t.join() for t in ts]
    head = sh("git -C /repo rev-parse --short HEAD").stdout.strip()
    vh = sh("git -C %s rev-parse --short HEAD" % ROOT).stdout.strip()
    out = {"repo_head": head, "verif_head": vh, "results": res,
           "missed": sorted(s for s, r in res.items() if r["result"] != "VIOLATION")}
    p = os.path.join(ROOT, "seeded", "REGRESSION.json")
    old = {}
    if pref and os.path.exists(p):
        old = json.load(open(p))
        old.get("results", {}).update(res)
        out["results"] = old["results"]
        out["missed"] = sorted(s for s, r in out["results"].items() if r["result"] != "VIOLATION")
    json.dump(out, open(p, "w"), indent=1, sort_keys=True)
    print("missed:", out["missed"])


main()
