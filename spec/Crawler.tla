----------------------------- MODULE Crawler -----------------------------
(* C18 (assertion crawler): for every block b the real crab::analyzer::assertion_crawler reports, at the ENTRY of b
   (assertion_crawler::get_results(b) = IN fact of the backward analysis), a map  assertion -> set of variables.
   Contract: the map lists every assertion reachable from b, and for a listed assertion a at least every variable
   whose value at the entry of b can flow into a's condition (data dependence) or decide whether a is executed
   (control dependence).

   Self-composition (style of NonInterf.tla).  An initial state = a program, a block ob, an assertion a listed for ob,
   a variable v NOT listed for (ob, a), two box states at the entry of ob that differ only in v.  Both copies run in
   lock-step (mode "L"): same goto choices, same havoc values.

   Blocks are entered through *guarded gotos*: the maximal prefix of assume statements of a block is its guard (this
   is how CrabIR encodes branches: `goto t, f` with t: assume(c); ...  f: assume(not c); ...); a goto into q is only
   possible for a copy whose state satisfies the guard of q.  Every other assume / assert / unreachable is a filter:
   a copy that fails it stops, and nothing is claimed about that pair any more (termination-insensitive, like the
   classical dependence notions).

   * DataFlow: while both copies took the same guarded gotos and passed the same filters, whenever they stand at
     assertion a the value of a's condition is the same in both copies.
   * Divergence: at the end of block q the chosen successor's guard holds in one copy only.  The branch outcome
     depends on v.  The other copy takes any successor whose guard it satisfies and the first copy does not (the
     outcomes must be mutually exclusive: otherwise the goto choice, not v, decided; if there is none: no claim).
     The two copies now run independently (mode "R", own choices) until each has entered the re-join block
     rj = the immediate post-dominator of q (first block that lies on every path from q to the exit; no exit
     reachable from q: no claim).
   * ControlDep: a copy that stands at assertion a before it has reached the re-join block executes a because of
     the branch outcome: whether a is executed depends on v, and v is not listed  ->  violation.
   * After both copies have entered rj they continue in lock-step (same choices again).
     ImplicitFlow: whenever they then stand at a, the value of a's condition agrees (otherwise the value of v
     decided, through the branch taken, which definitions reach a's condition).
   * ReachedListed (a = 0, v = 0, one copy): every assertion at which an execution from the entry of ob stands is
     listed for ob.  (So initial states with an assertion that is not listed for ob at all need no pairs.)  *)
EXTENDS Gamma, TLC, Json, IOUtils

Progs == ndJsonDeserialize(IOEnv.PROGRAMS)
B == atoi(IOEnv.BOX)
U == atoi(IOEnv.UNIV)
MaxSteps == atoi(IOEnv.MAXSTEPS)

VARIABLES p, ob, a, v,          \* program, block at whose entry the copies start, assertion id (0: reach mode), changed variable
          mode,                 \* "L" lock-step (b1 = b2, i1 = i2),  "R" copies run separately towards block rj
          b1, i1, s1, b2, i2, s2,
          rj, w1, w2,           \* re-join block; copy k has entered it (waits)
          dv,                   \* 1 once the copies have taken different branches
          n
vars == <<p, ob, a, v, mode, b1, i1, s1, b2, i2, s2, rj, w1, w2, dv, n>>

P == Progs[p]
SeqSet(q) == {q[k] : k \in DOMAIN q}
StmtsOf(q) == P.blocks[q].stmts
Succs(q) == SeqSet(P.blocks[q].succ)
Nodes == DOMAIN P.blocks
Box == (-B)..B

(* ---- what the crawler reported ---- *)
FactsOf(pr, q) == pr.crawl[q]
ListedIdsOf(pr, q) == {FactsOf(pr, q)[k].a : k \in DOMAIN FactsOf(pr, q)}
ListedVarsOf(pr, q, aid) == UNION {SeqSet(FactsOf(pr, q)[k].vs) : k \in {k2 \in DOMAIN FactsOf(pr, q) : FactsOf(pr, q)[k2].a = aid}}

(* ---- guards ---- *)
RECURSIVE GuardLen(_, _)
GuardLen(st, k) == IF k <= Len(st) /\ st[k].op = "assume" THEN GuardLen(st, k + 1) ELSE k - 1
GLen(q) == GuardLen(StmtsOf(q), 1)
GuardOk(q, s) == \A k \in 1..GLen(q) : Holds(StmtsOf(q)[k].c, s)

(* ---- re-join block: immediate post-dominator, from the definition ---- *)
RECURSIVE Closure(_, _, _)
Closure(S, x, k) == IF k = 0 THEN S
                    ELSE LET T == S \cup (UNION {Succs(q) : q \in S} \ {x}) IN IF T = S THEN S ELSE Closure(T, x, k - 1)
ReachAvoid(q, x) == Closure({q}, x, Cardinality(Nodes))          \* blocks reachable from q without entering x
SPdom(q) == IF P.exit \notin ReachAvoid(q, 0) THEN {}             \* strict post-dominators of q
            ELSE {j \in Nodes \ {q} : P.exit \notin ReachAvoid(q, j)}
Rejoin(q) == LET S == SPdom(q) IN IF S = {} THEN 0 ELSE CHOOSE j \in S : \A j2 \in S \ {j} : j2 \in SPdom(j)

(* ---- initial states ---- *)
Init == /\ p \in DOMAIN Progs
        /\ Progs[p].err = 0
        /\ ob \in DOMAIN Progs[p].blocks
        /\ Progs[p].ctop[ob] = 0                                   \* top = "everything listed": nothing to refute
        /\ s1 \in [1..Progs[p].nv -> Box]
        /\ \/ a = 0 /\ v = 0 /\ s2 = s1
           \/ /\ a \in ListedIdsOf(Progs[p], ob)
              /\ v \in (1..Progs[p].nv) \ ListedVarsOf(Progs[p], ob, a)
              /\ \E w \in Box \ {s1[v]} : s2 = [s1 EXCEPT ![v] = w]
        /\ mode = "L" /\ b1 = ob /\ i1 = 1 /\ b2 = ob /\ i2 = 1
        /\ rj = 0 /\ w1 = FALSE /\ w2 = FALSE /\ dv = 0 /\ n = 0

(* ---- lock-step ---- *)
AtEnd(bq, iq) == iq = Len(StmtsOf(bq)) + 1
StepL == /\ mode = "L" /\ ~AtEnd(b1, i1) /\ n < MaxSteps
         /\ LET st == StmtsOf(b1)[i1]
            IN IF st.op = "havoc"
                 THEN \E w \in Box : s1' = Upd(s1, st.x, w) /\ s2' = Upd(s2, st.x, w)
                 ELSE /\ s1' \in Succ(st, s1, U, LAMBDA x : Box)
                      /\ s2' \in Succ(st, s2, U, LAMBDA x : Box)
         /\ i1' = i1 + 1 /\ i2' = i2 + 1 /\ n' = n + 1
         /\ UNCHANGED <<p, ob, a, v, mode, b1, b2, rj, w1, w2, dv>>
GotoL == /\ mode = "L" /\ AtEnd(b1, i1) /\ n < MaxSteps
         /\ \E q \in Succs(b1) :
              LET ok1 == GuardOk(q, s1)
                  ok2 == GuardOk(q, s2)
              IN \/ /\ ok1 /\ ok2
                    /\ b1' = q /\ b2' = q /\ i1' = GLen(q) + 1 /\ i2' = GLen(q) + 1
                    /\ UNCHANGED <<mode, rj, w1, w2, dv>>
                 \/ /\ ok1 # ok2
                    /\ LET r == Rejoin(b1)
                       IN /\ r # 0
                          /\ \E q2 \in Succs(b1) :               \* where the copy that cannot enter q goes instead:
                               /\ GuardOk(q2, IF ok1 THEN s2 ELSE s1)      \* the outcomes are mutually exclusive
                               /\ ~GuardOk(q2, IF ok1 THEN s1 ELSE s2)     \* (otherwise the choice, not v, decided)
                               /\ LET t1 == IF ok1 THEN q ELSE q2
                                      t2 == IF ok1 THEN q2 ELSE q
                                  IN /\ b1' = t1 /\ i1' = GLen(t1) + 1 /\ w1' = (t1 = r)
                                     /\ b2' = t2 /\ i2' = GLen(t2) + 1 /\ w2' = (t2 = r)
                          /\ rj' = r /\ mode' = "R" /\ dv' = 1
         /\ n' = n + 1
         /\ UNCHANGED <<p, ob, a, v, s1, s2>>

(* ---- separate runs towards the re-join block: copy 1 first, then copy 2 ---- *)
Mover == IF ~w1 THEN 1 ELSE 2
Rejoined(x1, x2) == x1 /\ x2
StepR == /\ mode = "R" /\ n < MaxSteps
         /\ LET k  == Mover
                bq == IF k = 1 THEN b1 ELSE b2
                iq == IF k = 1 THEN i1 ELSE i2
                sq == IF k = 1 THEN s1 ELSE s2
            IN IF ~AtEnd(bq, iq)
                 THEN \E t \in Succ(StmtsOf(bq)[iq], sq, U, LAMBDA x : Box) :
                        /\ IF k = 1 THEN s1' = t /\ i1' = i1 + 1 /\ UNCHANGED <<s2, i2>>
                                    ELSE s2' = t /\ i2' = i2 + 1 /\ UNCHANGED <<s1, i1>>
                        /\ UNCHANGED <<b1, b2, w1, w2, mode, rj>>
                 ELSE \E q \in Succs(bq) :
                        /\ GuardOk(q, sq)
                        /\ IF q = rj
                             THEN IF k = 1
                                    THEN /\ b1' = q /\ i1' = GLen(q) + 1 /\ w1' = TRUE
                                         /\ UNCHANGED <<b2, i2, w2, mode, rj>>
                                    ELSE \* copy 1 waits there already: back to lock-step
                                         /\ b2' = q /\ i2' = GLen(q) + 1 /\ w1' = FALSE /\ w2' = FALSE
                                         /\ mode' = "L" /\ rj' = 0
                                         /\ UNCHANGED <<b1, i1>>
                             ELSE /\ IF k = 1 THEN b1' = q /\ i1' = GLen(q) + 1 /\ UNCHANGED <<b2, i2>>
                                              ELSE b2' = q /\ i2' = GLen(q) + 1 /\ UNCHANGED <<b1, i1>>
                                  /\ UNCHANGED <<w1, w2, mode, rj>>
                        /\ UNCHANGED <<s1, s2>>
         /\ n' = n + 1
         /\ UNCHANGED <<p, ob, a, v, dv>>
(* copy 2 entered rj at the divergence itself and copy 1 arrives: handled by StepR with k = 1 setting w1; then both wait *)
Resume == /\ mode = "R" /\ w1 /\ w2
          /\ mode' = "L" /\ w1' = FALSE /\ w2' = FALSE /\ rj' = 0
          /\ UNCHANGED <<p, ob, a, v, b1, i1, s1, b2, i2, s2, dv, n>>

Next == StepL \/ GotoL \/ (mode = "R" /\ ~(w1 /\ w2) /\ StepR) \/ Resume
Spec == Init /\ [][Next]_vars

(* ---- contract ---- *)
AtAssert(bq, iq) == ~AtEnd(bq, iq) /\ StmtsOf(bq)[iq].op = "assert"
AtA(bq, iq) == AtAssert(bq, iq) /\ StmtsOf(bq)[iq].id = a
SameCond == Holds(StmtsOf(b1)[i1].c, s1) = Holds(StmtsOf(b1)[i1].c, s2)

(* PrintT lines are coverage counters only (collected by tools/checks/c18.py): RA = an execution stands at an
   assertion, PA = a pair of copies stands at the tracked assertion (third field: 1 after a divergence) *)
DataFlow      == (a # 0 /\ mode = "L" /\ dv = 0 /\ AtA(b1, i1)) => (PrintT(<<"PA", P.id, 0, ob, a, v>>) /\ SameCond)
ImplicitFlow  == (a # 0 /\ mode = "L" /\ dv = 1 /\ AtA(b1, i1)) => (PrintT(<<"PA", P.id, 1, ob, a, v>>) /\ SameCond)
ControlDep    == (a # 0 /\ mode = "R") => /\ ~(~w1 /\ AtA(b1, i1))
                                          /\ ~(~w2 /\ AtA(b2, i2))
ReachedListed == (a = 0 /\ AtAssert(b1, i1)) => (PrintT(<<"RA", P.id, ob, StmtsOf(b1)[i1].id>>) /\ StmtsOf(b1)[i1].id \in ListedIdsOf(P, ob))

Compact == [prog |-> P.id, from_block |-> ob, assertion |-> a, variable |-> v, md |-> mode, diverged |-> dv, rejoin |-> rj,
            blk1 |-> b1, idx1 |-> i1, state1 |-> s1, blk2 |-> b2, idx2 |-> i2, state2 |-> s2]
===========================================================================
