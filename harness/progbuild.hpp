// JSON program -> crab CFG. Program format (see DESIGN.md section 2):
//  {"id":k,"vars":[{"n","t","w"}],"entry":1,"exit":m|0,
//   "blocks":[{"succ":[..],"stmts":[STMT,...]},...],   block i has label "b<i>"
//   "fn":{"name":"f","in":[vars],"out":[vars]}  (optional function declaration)}
#pragma once
#include "crabir.hpp"

namespace vh {

inline std::string blabel(long i) { return "b" + std::to_string(i); }
inline long bindex(const std::string &l) { return std::atol(l.c_str() + 1); }

inline std::vector<z_var> var_vec(const vj::Value &a, const VarTab &vt) {
  std::vector<z_var> r;
  for (size_t i = 0; i < a.size(); ++i) r.push_back(vt.v(a[i].i()));
  return r;
}

// ---- regions / references (C15) ------------------------------------------
// allocation sites: make_ref statement with "site":k uses the k-th tag of one process-wide tag_manager
// (tag_manager hands out ids 0,1,2,...: the id of site k is k, which is what get_allocation_sites reports)
inline crab::tag site_tag(long k) {
  static crab::tag_manager man;
  static std::vector<crab::tag> tags;
  while ((long)tags.size() <= k) tags.push_back(man.mk_tag());
  return tags[k];
}
// RC = {"k":"eq"|"ne"|"lt"|"le"|"gt"|"ge","p":var,"q":var|0 (null),"off":n}   meaning  p k q + off
inline z_ref_cst_t ref_cst(const vj::Value &c, const VarTab &vt) {
  const std::string &k = c["k"].str();
  z_var p = vt.v(c["p"].i());
  if (c["q"].i() == 0) {
    if (k == "eq") return z_ref_cst_t::mk_null(p);
    if (k == "ne") return z_ref_cst_t::mk_not_null(p);
    if (k == "lt") return z_ref_cst_t::mk_lt_null(p);
    if (k == "le") return z_ref_cst_t::mk_le_null(p);
    if (k == "gt") return z_ref_cst_t::mk_gt_null(p);
    return z_ref_cst_t::mk_ge_null(p);
  }
  z_var q = vt.v(c["q"].i());
  z_number off(c.geti("off", 0));
  if (k == "eq") return z_ref_cst_t::mk_eq(p, q, off);
  if (k == "ne") return z_ref_cst_t::mk_not_eq(p, q, off);
  if (k == "lt") return z_ref_cst_t::mk_lt(p, q, off);
  if (k == "le") return z_ref_cst_t::mk_le(p, q, off);
  if (k == "gt") return z_ref_cst_t::mk_gt(p, q, off);
  return z_ref_cst_t::mk_ge(p, q, off);
}
inline z_var_or_cst_t int_cst(long n, unsigned w = 32) { return z_var_or_cst_t(z_number(n), crab::variable_type(crab::INT_TYPE, w)); }

inline void add_stmt(z_basic_block_t &bb, const vj::Value &st, const VarTab &vt) {
  const std::string &op = st["op"].str();
  auto X = [&](const char *k) { return vt.v(st[k].i()); };
  if (op == "assign") {
    bb.assign(X("x"), lin_exp(st["e"], vt));
  } else if (op == "arith" || op == "bitw") {
    const std::string &f = st["f"].str();
    bool k = st["zk"].i() != 0;
    z_var x = X("x"), y = X("y");
#define VH_BIN(NAME, METH)                                                                                            \
  if (f == NAME) {                                                                                                    \
    if (k) bb.METH(x, y, num(st["z"]));                                                                               \
    else bb.METH(x, y, vt.v(st["z"].i()));                                                                            \
    return;                                                                                                           \
  }
    if (op == "arith") {
      VH_BIN("add", add) VH_BIN("sub", sub) VH_BIN("mul", mul) VH_BIN("sdiv", div) VH_BIN("udiv", udiv)
      VH_BIN("srem", rem) VH_BIN("urem", urem)
    } else {
      VH_BIN("and", bitwise_and) VH_BIN("or", bitwise_or) VH_BIN("xor", bitwise_xor) VH_BIN("shl", shl)
      VH_BIN("lshr", lshr) VH_BIN("ashr", ashr)
    }
#undef VH_BIN
    std::cerr << "add_stmt: unknown binary op " << f << "\n";
    std::exit(4);
  } else if (op == "assume") {
    bb.assume(lin_cst(st["c"], vt));
  } else if (op == "assert") {
    bb.assertion(lin_cst(st["c"], vt), crab::cfg::debug_info(st["id"].i()));
  } else if (op == "havoc") {
    bb.havoc(X("x"));
  } else if (op == "select") {
    bb.select(X("x"), lin_cst(st["c"], vt), lin_exp(st["e1"], vt), lin_exp(st["e2"], vt));
  } else if (op == "unreach") {
    bb.unreachable();
  } else if (op == "bassign_cst") {
    bb.bool_assign(X("x"), lin_cst(st["c"], vt));
  } else if (op == "bassign_var") {
    bb.bool_assign(X("x"), X("y"), st["neg"].i() != 0);
  } else if (op == "bop") {
    const std::string &f = st["f"].str();
    if (f == "and") bb.bool_and(X("x"), X("y"), X("z"));
    else if (f == "or") bb.bool_or(X("x"), X("y"), X("z"));
    else bb.bool_xor(X("x"), X("y"), X("z"));
  } else if (op == "bassume") {
    if (st["neg"].i()) bb.bool_not_assume(X("x"));
    else bb.bool_assume(X("x"));
  } else if (op == "bassert") {
    bb.bool_assert(X("x"), crab::cfg::debug_info(st["id"].i()));
  } else if (op == "bselect") {
    bb.bool_select(X("x"), X("c"), X("y"), X("z"));
  } else if (op == "cast") {
    const std::string &f = st["f"].str();
    if (f == "zext") bb.zext(X("y"), X("x"));
    else if (f == "sext") bb.sext(X("y"), X("x"));
    else bb.truncate(X("y"), X("x"));
  } else if (op == "callx") { // external function: the intra-procedural transformer havocs the outputs
    bb.callsite("ext_fn", var_vec(st["lhs"], vt), var_vec(st["args"], vt));
  } else if (op == "call") {
    bb.callsite(st["fn"].str(), var_vec(st["lhs"], vt), var_vec(st["args"], vt));
  } else if (op == "ainit") {
    bb.array_init(X("a"), lin_exp(st["lb"], vt), lin_exp(st["ub"], vt), lin_exp(st["v"], vt),
                  z_lin_exp_t(z_number(st.geti("es", 1))));
  } else if (op == "astore") {
    bb.array_store(X("a"), lin_exp(st["i"], vt), lin_exp(st["v"], vt), z_lin_exp_t(z_number(st.geti("es", 1))),
                   st.geti("strong", 0) != 0);
  } else if (op == "astore_range") {
    bb.array_store_range(X("a"), lin_exp(st["i"], vt), lin_exp(st["j"], vt), lin_exp(st["v"], vt),
                         z_lin_exp_t(z_number(st.geti("es", 1))));
  } else if (op == "aload") {
    bb.array_load(X("x"), X("a"), lin_exp(st["i"], vt), z_lin_exp_t(z_number(st.geti("es", 1))));
  } else if (op == "aassign") {
    bb.array_assign(X("a"), X("b"));
  } else if (op == "rinit") {
    bb.region_init(X("r"));
  } else if (op == "rcopy") {
    bb.region_copy(X("l"), X("r"));
  } else if (op == "rcast") {
    bb.region_cast(X("r"), X("l"));
  } else if (op == "mkref") {
    bb.make_ref(X("x"), X("r"), int_cst(st["sz"].i()), site_tag(st["site"].i()));
  } else if (op == "rnull") {
    if (st.geti("hv", 0)) bb.havoc(X("x"));
    bb.assume_ref(z_ref_cst_t::mk_null(X("x")));
  } else if (op == "rmref") {
    bb.remove_ref(X("r"), X("x"));
  } else if (op == "rstore") {
    z_var r = X("r");
    if (st["vk"].i() == 0) bb.store_to_ref(X("ref"), r, z_var_or_cst_t(X("v")));
    else if (r.get_type().is_bool_region())
      bb.store_to_ref(X("ref"), r, st["v"].i() ? z_var_or_cst_t::make_bool_true() : z_var_or_cst_t::make_bool_false());
    else if (r.get_type().is_reference_region()) bb.store_to_ref(X("ref"), r, z_var_or_cst_t::make_reference_null());
    else bb.store_to_ref(X("ref"), r, int_cst(st["v"].i(), st.geti("w", 32)));
  } else if (op == "rload") {
    bb.load_from_ref(X("x"), X("ref"), X("r"));
  } else if (op == "gep") {
    bb.gep_ref(X("x"), X("xr"), X("y"), X("yr"), lin_exp(st["off"], vt));
  } else if (op == "rassume") {
    bb.assume_ref(ref_cst(st["c"], vt));
  } else if (op == "rassert") {
    bb.assert_ref(ref_cst(st["c"], vt), crab::cfg::debug_info(st["id"].i()));
  } else if (op == "bassign_ref") {
    bb.bool_assign(X("x"), ref_cst(st["c"], vt));
  } else if (op == "rselect") {
    if (st["y"].i() == 0) bb.select_ref_null_true_value(X("x"), X("xr"), X("c"), X("z"), X("zr"));
    else if (st["z"].i() == 0) bb.select_ref_null_false_value(X("x"), X("xr"), X("c"), X("y"), X("yr"));
    else bb.select_ref(X("x"), X("xr"), X("c"), X("y"), X("yr"), X("z"), X("zr"));
  } else if (op == "r2i") {
    bb.ref_to_int(X("r"), X("ref"), X("x"));
  } else if (op == "i2r") {
    bb.int_to_ref(X("y"), X("r"), X("x"));
  } else if (op == "addtag") {
    bb.intrinsic("add_tag", {}, {z_var_or_cst_t(X("r")), z_var_or_cst_t(X("ref")), int_cst(st["tag"].i())});
  } else if (op == "isderef") {
    bb.intrinsic("is_dereferenceable", {X("x")}, {z_var_or_cst_t(X("r")), z_var_or_cst_t(X("ref")), int_cst(st["n"].i())});
  } else if (op == "isunfreed") {
    bb.intrinsic("is_unfreed_or_null", {X("x")}, {z_var_or_cst_t(X("r")), z_var_or_cst_t(X("ref"))});
  } else if (op == "conv") {
    const std::string &f = st["f"].str();
    if (f == "trunc") bb.truncate(X("y"), X("x"));
    else if (f == "sext") bb.sext(X("y"), X("x"));
    else bb.zext(X("y"), X("x"));
  } else if (op == "nop") {
  } else {
    std::cerr << "add_stmt: unknown op " << op << "\n";
    std::exit(4);
  }
}

inline std::unique_ptr<z_cfg_t> build_cfg(const vj::Value &p, const VarTab &vt) {
  std::unique_ptr<z_cfg_t> cfg;
  long entry = p["entry"].i(), exit = p.geti("exit", 0);
  if (p.has("fn")) {
    const vj::Value &fn = p["fn"];
    crab::cfg::function_decl<z_number, varname_t> decl(fn["name"].str(), var_vec(fn["in"], vt), var_vec(fn["out"], vt));
    cfg.reset(new z_cfg_t(blabel(entry), blabel(exit), decl));
  } else if (exit)
    cfg.reset(new z_cfg_t(blabel(entry), blabel(exit)));
  else
    cfg.reset(new z_cfg_t(blabel(entry)));
  const vj::Value &bs = p["blocks"];
  for (size_t i = 1; i <= bs.size(); ++i) cfg->insert(blabel(i));
  for (size_t i = 1; i <= bs.size(); ++i) {
    z_basic_block_t &bb = cfg->get_node(blabel(i));
    const vj::Value &succ = bs[i - 1]["succ"];
    for (size_t k = 0; k < succ.size(); ++k) bb >> cfg->get_node(blabel(succ[k].i()));
    const vj::Value &stmts = bs[i - 1]["stmts"];
    for (size_t k = 0; k < stmts.size(); ++k) add_stmt(bb, stmts[k], vt);
  }
  return cfg;
}

// function record {"name","in","out","entry","exit","blocks"} -> CFG with a function declaration
inline std::unique_ptr<z_cfg_t> build_cfg_fn(const vj::Value &f, const VarTab &vt) {
  crab::cfg::function_decl<z_number, varname_t> decl(f["name"].str(), var_vec(f["in"], vt), var_vec(f["out"], vt));
  std::unique_ptr<z_cfg_t> cfg(new z_cfg_t(blabel(f["entry"].i()), blabel(f["exit"].i()), decl));
  const vj::Value &bs = f["blocks"];
  for (size_t i = 1; i <= bs.size(); ++i) cfg->insert(blabel(i));
  for (size_t i = 1; i <= bs.size(); ++i) {
    z_basic_block_t &bb = cfg->get_node(blabel(i));
    const vj::Value &succ = bs[i - 1]["succ"];
    for (size_t k = 0; k < succ.size(); ++k) bb >> cfg->get_node(blabel(succ[k].i()));
    const vj::Value &stmts = bs[i - 1]["stmts"];
    for (size_t k = 0; k < stmts.size(); ++k) add_stmt(bb, stmts[k], vt);
  }
  return cfg;
}

} // namespace vh
