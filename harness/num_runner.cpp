// C20 adaptor: runs the real ikos::z_number / ikos::q_number / crab::safe_i64 /
// ikos::linear_expression / linear_constraint / linear_constraint_system code on
// the jobs of a JSON file and writes one ndjson record per job. There is no
// oracle here: the arithmetic and the valuation semantics live in
// spec/BigNum.tla, spec/LinCst.tla, spec/NumJudge.tla and are evaluated by TLC.
//
// usage: num_runner <jobs.json> <out.ndjson>
//
// Transport: a number is a decimal string; it becomes the JSON list
// [negflag, limb, limb, ...] (little-endian groups of 3 decimal characters) by
// PLAIN STRING SLICING (chunks()). Operands are sliced from the text of the job
// (never from a z_number), results from get_str()/snprintf text.
//
// Jobs run in a forked child: CRAB_ERROR is exit(1), and for safe_i64 that exit
// IS the overflow report. The parent echoes the job's inputs, appends the fields
// the child managed to write, and "err" (1 = the child exited with code 1 inside
// this job) / "sig" (it was killed by that signal); then a new child continues.
#include "vjson.hpp"

#include <crab/config.h>
#include <crab/numbers/bignums.hpp>
#include <crab/numbers/safeint.hpp>
#include <crab/types/linear_constraints.hpp>
#include <crab/types/variable.hpp>
#include <crab/types/varname_factory.hpp>

#include <cinttypes>
#include <cstdio>
#include <cstring>
#include <fcntl.h>
#include <functional>
#include <gmp.h>
#include <map>
#include <sys/wait.h>
#include <unistd.h>

namespace crab {
template <> class variable_name_traits<std::string> {
public:
  static std::string to_string(std::string varname) { return varname; }
};
} // namespace crab

using ikos::q_number;
using ikos::z_number;
using crab::safe_i64;

// ---- transport -------------------------------------------------------------
static std::string chunks(const std::string &s) {
  size_t st = (!s.empty() && s[0] == '-') ? 1 : 0;
  std::string out = st ? "[1" : "[0";
  if (s.size() == st) return out + ",0]";
  for (long e = (long)s.size(); e > (long)st; e -= 3) {
    long b = e - 3 < (long)st ? (long)st : e - 3;
    std::string c = s.substr(b, e - b);
    size_t nz = 0;
    while (nz + 1 < c.size() && c[nz] == '0') ++nz; // "007" -> "7" (JSON forbids leading zeros)
    for (char ch : c.substr(nz))
      if (ch < '0' || ch > '9') {
        std::cerr << "num_runner: not a decimal string: " << s << "\n";
        _exit(3);
      }
    out += "," + c.substr(nz);
  }
  return out + "]";
}
static std::string chars(const std::string &s) {
  std::string out = "[";
  for (size_t i = 0; i < s.size(); ++i) out += std::string(i ? "," : "") + "\"" + s[i] + "\"";
  return out + "]";
}
static std::string i64text(int64_t v) {
  char buf[32];
  snprintf(buf, sizeof buf, "%" PRId64, v);
  return buf;
}
static std::string u64text(uint64_t v) {
  char buf[32];
  snprintf(buf, sizeof buf, "%" PRIu64, v);
  return buf;
}
static std::string dump(const vj::Value &v) {
  switch (v.kind) {
  case vj::Value::Null: return "null";
  case vj::Value::Bool: return v.b ? "true" : "false";
  case vj::Value::Num: return v.s;
  case vj::Value::Str: return vj::q(v.s);
  case vj::Value::Arr: {
    std::string r = "[";
    for (size_t i = 0; i < v.a.size(); ++i) r += (i ? "," : "") + dump(v.a[i]);
    return r + "]";
  }
  default: {
    std::string r = "{";
    for (size_t i = 0; i < v.o.size(); ++i) r += (i ? "," : "") + vj::q(v.o[i].first) + ":" + dump(v.o[i].second);
    return r + "}";
  }
  }
}

// the child's output channel: fragments ,"key":value written immediately
static int OUT = -1;
static void put(const std::string &key, const std::string &json) {
  std::string s = ",\"" + key + "\":" + json;
  size_t off = 0;
  while (off < s.size()) {
    ssize_t w = write(OUT, s.data() + off, s.size() - off);
    if (w <= 0) _exit(4);
    off += w;
  }
}
static void putn(const std::string &key, const z_number &z) { put(key, chunks(z.get_str())); }
static void puti(const std::string &key, long v) { put(key, std::to_string(v)); }
template <typename T> static std::string flags6(const T &a, const T &b) {
  std::string r = "[";
  r += (a == b) ? "1," : "0,";
  r += (a != b) ? "1," : "0,";
  r += (a < b) ? "1," : "0,";
  r += (a <= b) ? "1," : "0,";
  r += (a > b) ? "1," : "0,";
  r += (a >= b) ? "1]" : "0]";
  return r;
}

// ---- z_number ----------------------------------------------------------------
static void run_z(const vj::Value &j) {
  const std::string op = j["op"].str(), via = j.gets("via", "op");
  if (op == "from_i64") {
    int64_t v = std::strtoll(j["a"].str().c_str(), nullptr, 10);
    putn("r", z_number(v));
    return;
  }
  if (op == "from_u64") {
    uint64_t v = std::strtoull(j["a"].str().c_str(), nullptr, 10);
    putn("r", z_number::from_uint64(v));
    return;
  }
  if (op == "from_hex") {
    putn("r", z_number(j["h"].str(), 16));
    return;
  }
  z_number a(j["a"].str());
  if (op == "add" || op == "sub" || op == "mul" || op == "and" || op == "or" || op == "xor") {
    z_number b(j["b"].str());
    z_number r;
    if (via == "asg") {
      r = a;
      if (op == "add") r += b;
      else if (op == "sub") r -= b;
      else if (op == "mul") r *= b;
      else _exit(3);
    } else {
      if (op == "add") r = a + b;
      else if (op == "sub") r = a - b;
      else if (op == "mul") r = a * b;
      else if (op == "and") r = a & b;
      else if (op == "or") r = a | b;
      else r = a ^ b;
    }
    putn("r", r);
  } else if (op == "divrem") {
    z_number b(j["b"].str());
    if (via == "asg") {
      z_number q(a), r(a);
      q /= b;
      r %= b;
      putn("q", q);
      putn("r", r);
    } else {
      putn("q", a / b);
      putn("r", a % b);
    }
  } else if (op == "neg") {
    putn("r", -a);
  } else if (op == "inc" || op == "dec") {
    z_number t(a), old;
    if (via == "post") old = (op == "inc") ? t++ : t--;
    else old = (op == "inc") ? ++t : --t;
    putn("r", t);
    putn("old", old);
  } else if (op == "cmp") {
    z_number b(j["b"].str());
    put("flags", flags6(a, b));
  } else if (op == "shl") {
    putn("r", a << z_number((int64_t)j["k"].i()));
  } else if (op == "shr") {
    putn("r", a >> z_number((int64_t)j["k"].i()));
  } else if (op == "shl_huge") { // shift amount given as a number beyond 64 bits
    putn("r", a << z_number(j["b"].str()));
  } else if (op == "shr_huge") {
    putn("r", a >> z_number(j["b"].str()));
  } else if (op == "fill") {
    putn("r", a.fill_ones());
  } else if (op == "str") {
    putn("r", a);
    z_number other = (a + z_number(1)) - z_number(1);
    puti("heq", (a.hash() == other.hash() && std::hash<z_number>()(a) == hash_value(other)) ? 1 : 0);
  } else if (op == "to_i64") {
    puti("fits", a.fits_int64() ? 1 : 0);
    int64_t v = static_cast<int64_t>(a); // CRAB_ERROR when it does not fit
    put("v", chunks(i64text(v)));
  } else if (op == "to_hex") {
    put("h", chars(a.get_str(16)));
  } else if (op == "raw") {
    bool ord = j["ord"].i() != 0, nonneg = false;
    size_t nw = 0;
    uint64_t *w = a.to_raw_data(nw, nonneg, ord);
    std::string ws = "[";
    for (size_t k = 0; k < nw; ++k) ws += (k ? "," : "") + chunks(u64text(w[k]));
    put("words", ws + "]");
    puti("nonneg", nonneg ? 1 : 0);
    putn("back", z_number::from_raw_data(w, nw, ord));
    if (w) {
      void (*freefunc)(void *, size_t);
      mp_get_memory_functions(nullptr, nullptr, &freefunc);
      freefunc(w, nw * sizeof(uint64_t));
    }
  } else {
    std::cerr << "num_runner: unknown z op " << op << "\n";
    _exit(3);
  }
}

// ---- q_number ----------------------------------------------------------------
static q_number make_q(const std::string &ctor, const std::string &n, const std::string &d) {
  if (ctor == "pair") return q_number(z_number(n), z_number(d));
  if (ctor == "str") return q_number(n + "/" + d);
  return q_number(z_number(n)) / q_number(z_number(d));
}
static void put_q(const q_number &q) {
  putn("rn", q.numerator());
  putn("rd", q.denominator());
}
static void run_q(const vj::Value &j) {
  const std::string op = j["op"].str(), via = j.gets("via", "op"), ctor = j.gets("ctor", "div");
  if (op == "q_round") {
    q_number q = make_q(ctor, j["n"].str(), j["d"].str());
    putn("on", q.numerator());
    putn("od", q.denominator());
    putn("lo", q.round_to_lower());
    putn("up", q.round_to_upper());
    return;
  }
  q_number a = make_q(ctor, j["n1"].str(), j["d1"].str());
  if (op == "q_neg") { put_q(-a); return; }
  if (op == "q_inc") { if (via == "post") a++; else ++a; put_q(a); return; }
  if (op == "q_dec") { if (via == "post") a--; else --a; put_q(a); return; }
  if (op == "q_shl") { put_q(a << q_number(z_number((int64_t)j["k"].i()))); return; }
  q_number b = make_q(ctor, j["n2"].str(), j["d2"].str());
  if (op == "q_cmp") { put("flags", flags6(a, b)); return; }
  q_number r;
  if (via == "asg") {
    r = a;
    if (op == "q_add") r += b;
    else if (op == "q_sub") r -= b;
    else if (op == "q_mul") r *= b;
    else if (op == "q_div") r /= b;
    else _exit(3);
  } else {
    if (op == "q_add") r = a + b;
    else if (op == "q_sub") r = a - b;
    else if (op == "q_mul") r = a * b;
    else if (op == "q_div") r = a / b;
    else _exit(3);
  }
  put_q(r);
}

// ---- safe_i64 ------------------------------------------------------------------
static void run_s(const vj::Value &j) {
  const std::string op = j["op"].str(), via = j.gets("via", "op");
  if (op == "s_fromz") {
    safe_i64 s{z_number(j["a"].str())};
    put("r", chunks(i64text((int64_t)s)));
    return;
  }
  safe_i64 a((int64_t)std::strtoll(j["a"].str().c_str(), nullptr, 10));
  if (op == "s_neg") {
    put("r", chunks(i64text((int64_t)(-a))));
    return;
  }
  safe_i64 b((int64_t)std::strtoll(j["b"].str().c_str(), nullptr, 10));
  if (op == "s_cmp") { put("flags", flags6(a, b)); return; }
  safe_i64 r;
  if (via == "asg") {
    r = a;
    if (op == "s_add") r += b;
    else if (op == "s_sub") r -= b;
    else _exit(3);
  } else {
    if (op == "s_add") r = a + b;
    else if (op == "s_sub") r = a - b;
    else if (op == "s_mul") r = a * b;
    else if (op == "s_div") r = a / b;
    else _exit(3);
  }
  put("r", chunks(i64text((int64_t)r)));
}

// ---- linear expressions / constraints ---------------------------------------------
using vfac_t = crab::var_factory_impl::str_variable_factory;
using varname_t = vfac_t::varname_t;

template <typename N> struct Lin {
  using var_t = crab::variable<N, varname_t>;
  using exp_t = ikos::linear_expression<N, varname_t>;
  using cst_t = ikos::linear_constraint<N, varname_t>;
  using sys_t = ikos::linear_constraint_system<N, varname_t>;
  static const int NV = 3;
  vfac_t vfac;
  std::vector<var_t> vars; // 1..NV

  Lin() {
    vars.push_back(var_t(vfac["dummy"], crab::INT_TYPE, 32));
    for (int i = 1; i <= NV; ++i) vars.push_back(var_t(vfac["x" + std::to_string(i)], crab::INT_TYPE, 32));
  }
  static N num(long n) { return N(z_number((int64_t)n)); }
  int idx(const var_t &v) const {
    for (int i = 1; i <= NV; ++i)
      if (vars[i].index() == v.index()) return i;
    return 0;
  }
  const var_t &var(long i) const { return vars.at(i); }

  // description {"f":form,"c":const,"t":[[coef,var],..],"b":style}: three different API routes
  exp_t build(const vj::Value &d) const {
    long style = d.geti("b", 0), c = d["c"].i();
    const vj::Value &t = d["t"];
    if (style == 1) {
      exp_t e;
      for (size_t k = 0; k < t.size(); ++k) {
        long co = t[k][0].i();
        const var_t &x = var(t[k][1].i());
        if (co == 1) e = e + x;
        else if (co == -1) e = e - x;
        else e = e + (num(co) * x);
      }
      return e + num(c);
    } else if (style == 2) {
      exp_t e;
      for (size_t k = 0; k < t.size(); ++k) {
        exp_t term(num(-t[k][0].i()), var(t[k][1].i()));
        e = (k == 0) ? -term : e - term;
      }
      return e - num(-c);
    }
    exp_t e(num(c));
    for (size_t k = 0; k < t.size(); ++k) e = e + exp_t(num(t[k][0].i()), var(t[k][1].i()));
    return e;
  }
  static typename cst_t::kind_t kind(const std::string &k) {
    if (k == "le") return cst_t::INEQUALITY;
    if (k == "lt") return cst_t::STRICT_INEQUALITY;
    if (k == "eq") return cst_t::EQUALITY;
    return cst_t::DISEQUATION;
  }
  static std::string small(const N &n) { return n.get_str(); } // integers by construction
  std::string obs(const exp_t &e) const {
    std::string r = "{\"c\":" + small(e.constant()) + ",\"t\":[";
    bool first = true;
    for (auto it = e.begin(); it != e.end(); ++it) {
      r += std::string(first ? "" : ",") + "[" + small((*it).first) + "," + std::to_string(idx((*it).second)) + "]";
      first = false;
    }
    r += "],\"size\":" + std::to_string(e.size()) + ",\"isc\":" + (e.is_constant() ? "1" : "0") + ",\"idx\":[";
    for (int i = 1; i <= NV; ++i) r += (i > 1 ? "," : "") + small(e[var(i)]);
    return r + "]}";
  }
  std::string obs(const cst_t &c) const {
    const char *k = c.is_inequality() ? "le" : c.is_strict_inequality() ? "lt" : c.is_equality() ? "eq" : c.is_disequation() ? "ne" : "??";
    return "{\"e\":" + obs(c.expression()) + ",\"k\":\"" + k + "\",\"taut\":" + (c.is_tautology() ? "1" : "0") +
           ",\"contr\":" + (c.is_contradiction() ? "1" : "0") + ",\"rhs\":" + small(c.constant()) + "}";
  }
  std::string obs(const sys_t &s) const {
    std::string r = "[";
    bool first = true;
    for (auto it = s.begin(); it != s.end(); ++it) {
      r += (first ? "" : ",") + obs(*it);
      first = false;
    }
    return r + "]";
  }
  std::map<var_t, var_t> renaming(const vj::Value &m) const {
    std::map<var_t, var_t> r;
    for (size_t k = 0; k < m.size(); ++k) r.insert({var(m[k][0].i()), var(m[k][1].i())});
    return r;
  }
  template <typename A, typename B> static cst_t rel(const A &a, const B &b, const std::string &r) {
    if (r == "<=") return a <= b;
    if (r == "<") return a < b;
    if (r == ">=") return a >= b;
    if (r == ">") return a > b;
    if (r == "==") return a == b;
    return a != b;
  }
  // variable/variable: ==, != and < are the variables' own boolean operators, so only <=, >=, >
  static cst_t rel_vv(const var_t &a, const var_t &b, const std::string &r) {
    if (r == "<=") return a <= b;
    if (r == ">=") return a >= b;
    if (r == ">") return a > b;
    std::cerr << "num_runner: relation not available on two variables\n";
    _exit(3);
  }
  cst_t make(const vj::Value &da, const vj::Value &db, const std::string &r, bool i64) const {
    const std::string fa = da.gets("f", "e"), fb = db.gets("f", "e");
    if (fa == "x" && fb == "x") return rel_vv(var(da["t"][0][1].i()), var(db["t"][0][1].i()), r);
    if (fa == "x" && fb == "n")
      return i64 ? rel(var(da["t"][0][1].i()), (int64_t)db["c"].i(), r) : rel(var(da["t"][0][1].i()), num(db["c"].i()), r);
    if (fa == "n" && fb == "x")
      return i64 ? rel((int64_t)da["c"].i(), var(db["t"][0][1].i()), r) : rel(num(da["c"].i()), var(db["t"][0][1].i()), r);
    if (fa == "x") return rel(var(da["t"][0][1].i()), build(db), r);
    if (fb == "x") return rel(build(da), var(db["t"][0][1].i()), r);
    if (fa == "n") return i64 ? rel((int64_t)da["c"].i(), build(db), r) : rel(num(da["c"].i()), build(db), r);
    if (fb == "n") return i64 ? rel(build(da), (int64_t)db["c"].i(), r) : rel(build(da), num(db["c"].i()), r);
    return rel(build(da), build(db), r);
  }

  // the second operand DERIVED from the first one by a copy or by adding / subtracting a number (the job's description "db"
  // is the mathematically equal expression): expressions related this way may share their representation
  exp_t derived(const exp_t &a, const vj::Value &dv) const {
    const std::string k = dv["k"].str();
    long n = dv.geti("n", 0);
    if (k == "copy") return exp_t(a);
    if (k == "addc") return a + num(n);
    if (k == "addc64") return a + (int64_t)n;
    if (k == "subc") return a - num(n);
    exp_t b(a);
    b = b + num(n);
    return b - num(0);
  }

  void run(const vj::Value &j) const {
    const std::string op = j["op"].str(), via = j.gets("via", "");
    bool i64 = j.geti("i64", 0) != 0;
    if (op == "e_build") {
      put("r", obs(build(j["da"])));
    } else if (op == "e_add" || op == "e_sub") {
      exp_t a = build(j["da"]);
      exp_t b = j.has("derive") ? derived(a, j["derive"]) : build(j["db"]);
      put("a", obs(a));
      put("b", obs(b));
      put("r", obs(op == "e_add" ? a + b : a - b));
      put("a2", obs(a)); // the operands as they are AFTER the operation (value semantics: must be unchanged)
      put("b2", obs(b));
    } else if (op == "e_neg") {
      exp_t a = build(j["da"]);
      put("a", obs(a));
      put("r", obs(-a));
    } else if (op == "e_scale") {
      exp_t a = build(j["da"]);
      long n = j["n"].i();
      put("a", obs(a));
      if (via == "ne") put("r", obs(i64 ? (int64_t)n * a : num(n) * a));
      else put("r", obs(i64 ? a * (int64_t)n : a * num(n)));
    } else if (op == "e_addc" || op == "e_subc" || op == "c_sube") {
      exp_t a = build(j["da"]);
      long n = j["n"].i();
      put("a", obs(a));
      if (op == "e_addc") {
        if (via == "ne") put("r", obs(i64 ? (int64_t)n + a : num(n) + a));
        else put("r", obs(i64 ? a + (int64_t)n : a + num(n)));
      } else if (op == "e_subc") put("r", obs(i64 ? a - (int64_t)n : a - num(n)));
      else put("r", obs(i64 ? (int64_t)n - a : num(n) - a));
    } else if (op == "e_addv" || op == "e_subv" || op == "v_sube") {
      exp_t a = build(j["da"]);
      const var_t &x = var(j["x"].i());
      put("a", obs(a));
      if (op == "e_addv") put("r", obs(via == "ve" ? x + a : a + x));
      else if (op == "e_subv") put("r", obs(a - x));
      else put("r", obs(x - a));
    } else if (op == "e_rename") {
      exp_t a = build(j["da"]);
      put("a", obs(a));
      put("r", obs(a.rename(renaming(j["map"]))));
    } else if (op == "c_make" && j.has("derive")) {
      exp_t a = build(j["base"]);
      exp_t b = derived(a, j["derive"]);
      put("r", obs(j.geti("swap", 0) ? rel(b, a, j["rel"].str()) : rel(a, b, j["rel"].str())));
    } else if (op == "c_make") {
      put("r", obs(make(j["da"], j["db"], j["rel"].str(), i64)));
    } else if (op == "c_negate") {
      cst_t c(build(j["da"]), kind(j["dk"].str()));
      put("a", obs(c));
      put("r", obs(c.negate()));
    } else if (op == "c_nonstrict") {
      cst_t c(build(j["da"]), kind(j["dk"].str()));
      put("a", obs(c));
      put("r", obs(ikos::linear_constraint_impl::strict_to_non_strict_inequality(c)));
    } else if (op == "c_rename") {
      cst_t c(build(j["da"]), kind(j["dk"].str()));
      put("a", obs(c));
      put("r", obs(c.rename(renaming(j["map"]))));
    } else if (op == "s_normalize") {
      const vj::Value &ds = j["ds"];
      sys_t s;
      if (via == "plus") { // system + system
        sys_t s1, s2;
        for (size_t k = 0; k < ds.size(); ++k) {
          cst_t c(build(ds[k]["e"]), kind(ds[k]["k"].str()));
          if (k % 2) s1 += c; else s2 += c;
        }
        s = s1 + s2;
      } else {
        for (size_t k = 0; k < ds.size(); ++k) s += cst_t(build(ds[k]["e"]), kind(ds[k]["k"].str()));
      }
      put("sys", obs(s));
      puti("is_true", s.is_true() ? 1 : 0);
      puti("is_false", s.is_false() ? 1 : 0);
      sys_t n = s.normalize();
      put("r", obs(n));
      puti("r_is_false", n.is_false() ? 1 : 0);
    } else {
      std::cerr << "num_runner: unknown lin op " << op << "\n";
      _exit(3);
    }
  }
};

// ---- driver ------------------------------------------------------------------------
static bool number_key(const std::string &k) {
  static const char *ks[] = {"a", "b", "n", "d", "n1", "d1", "n2", "d2"};
  for (const char *x : ks)
    if (k == x) return true;
  return false;
}

static std::string echo(const vj::Value &j, size_t k) {
  // echo of the inputs (no code under test involved)
  const std::string fam = j["fam"].str();
  std::string rec = "{\"id\":" + std::to_string(j.geti("id", (long long)k + 1));
  for (auto &kv : j.o) {
    if (kv.first == "id") continue;
    if (fam != "lin" && number_key(kv.first) && kv.second.is_str()) rec += ",\"" + kv.first + "\":" + chunks(kv.second.s);
    else if (kv.first == "h" && kv.second.is_str()) rec += ",\"h\":" + chars(kv.second.s);
    else rec += ",\"" + kv.first + "\":" + dump(kv.second);
  }
  return rec;
}

// One child works through the jobs from `start` on; it frames every job as
//   \x01 <fragments> \x03
// A child that dies inside job k (CRAB_ERROR = exit(1), or a signal) leaves the frame of k
// open: the parent closes that record with err/sig and forks a new child for k+1.
int main(int argc, char **argv) {
  if (argc < 3) return 2;
  vj::Value jobs = vj::parse_file(argv[1]);
  FILE *out = fopen(argv[2], "w");
  if (!out) return 2;
  Lin<z_number> linz;
  Lin<q_number> linq;
  size_t start = 0, n = jobs.size();
  while (start < n) {
    int fd[2];
    if (pipe(fd) != 0) return 2;
    fflush(out);
    pid_t pid = fork();
    if (pid < 0) return 2;
    if (pid == 0) {
      close(fd[0]);
      OUT = fd[1];
      int devnull = open("/dev/null", O_WRONLY); // CRAB_ERROR chatter
      if (devnull >= 0) { dup2(devnull, 1); dup2(devnull, 2); }
      for (size_t k = start; k < n; ++k) {
        const vj::Value &j = jobs[k];
        const std::string fam = j["fam"].str();
        if (write(OUT, "\x01", 1) != 1) _exit(4);
        if (fam == "z") run_z(j);
        else if (fam == "q") run_q(j);
        else if (fam == "s") run_s(j);
        else if (fam == "lin") { if (j.gets("nt", "z") == "q") linq.run(j); else linz.run(j); }
        else _exit(3);
        if (write(OUT, "\x03", 1) != 1) _exit(4);
      }
      _exit(0);
    }
    close(fd[1]);
    std::string child;
    char buf[65536];
    ssize_t got;
    while ((got = read(fd[0], buf, sizeof buf)) > 0) child.append(buf, got);
    close(fd[0]);
    int st = 0;
    waitpid(pid, &st, 0);
    size_t pos = 0, k = start;
    bool open_frame = false;
    while (pos < child.size()) {
      if (child[pos] != '\x01' || k >= n) { std::cerr << "num_runner: framing error\n"; return 2; }
      size_t end = child.find('\x03', pos + 1);
      std::string frag = child.substr(pos + 1, end == std::string::npos ? std::string::npos : end - pos - 1);
      std::string rec = echo(jobs[k], k) + frag;
      if (end == std::string::npos) { // the child died inside job k
        int err = 0, sig = 0;
        if (WIFSIGNALED(st)) sig = WTERMSIG(st);
        else if (WEXITSTATUS(st) == 1) err = 1;
        else {
          std::cerr << "num_runner: job " << k << " failed in the adaptor (exit " << WEXITSTATUS(st) << ")\n";
          return 2;
        }
        rec += ",\"err\":" + std::to_string(err) + ",\"sig\":" + std::to_string(sig) + "}\n";
        open_frame = true;
        pos = child.size();
      } else {
        rec += ",\"err\":0,\"sig\":0}\n";
        pos = end + 1;
      }
      fputs(rec.c_str(), out);
      ++k;
    }
    if (!open_frame && k < n) {
      // the child ended between two frames without finishing: only legitimate as exit 0 at the end
      std::cerr << "num_runner: child stopped before job " << k << " (status " << st << ")\n";
      return 2;
    }
    start = k;
  }
  fclose(out);
  return 0;
}
