SPECIFICATION Spec
CONSTANTS N = 3
          Orders = "all"
INVARIANT ModelWellFormed
CHECK_DEADLOCK FALSE
