INIT RichInit
NEXT RichNext
ACTION_CONSTRAINT RichEmit
VIEW View
INVARIANT TypeOK
CHECK_DEADLOCK FALSE
