"""C08 Scalar value abstractions are sound; integer interval arithmetic is tight.

Design level : spec/ScalarRef   (closed-form interval reference == brute-force hull, finite and infinite bounds)
Implementation: harness/scalar_runner applies every public operation of crab's scalar abstractions to pairs of
                abstract scalars built from descriptions (and to results fed back as operands) and exports
                descriptions of the results; every record is judged by TLC against spec/Scalars.tla
                (spec/ScalarJudge): SOUND / TIGHT / EXACT / QUERY contracts.
Python only enumerates inputs, moves files, counts and reports."""
import collections, itertools, json, os
import vlib
from vlib import Check, build, tlc, workdir, read_ndjson

RUNNER = "scalar_runner"
KIND_NAMES = {"zi": "interval<z_number>", "qi": "interval<q_number>", "bd": "bound<z_number>", "cg": "congruence<z_number>",
              "ic": "interval_congruence<z_number>", "sg": "sign<z_number>", "ct": "constant<z_number>",
              "sr": "small_range", "bv": "boolean_value", "di": "dis_interval<z_number>"}
# operations whose result is of the operand's kind (usable inside a history)
CLOSED = {
    "zi": ["add", "sub", "mul", "sdiv", "srem", "urem", "and", "or", "xor", "shl", "lshr", "ashr", "join", "meet", "widen",
           "narrow", "wth", "trim"],
    "qi": ["add", "sub", "mul", "div", "join", "meet", "widen", "narrow"],
    "cg": ["add", "sub", "mul", "sdiv", "srem", "and", "or", "xor", "shl", "lshr", "ashr", "join", "meet", "widen", "narrow"],
    "ic": ["add", "sub", "mul", "sdiv", "srem", "urem", "and", "or", "xor", "shl", "lshr", "ashr", "join", "meet"],
    "sg": ["add", "sub", "mul", "sdiv", "and", "or", "xor", "shl", "ashr", "join", "meet"],
    "ct": ["add", "sub", "mul", "sdiv", "srem", "and", "or", "xor", "shl", "ashr", "join", "meet"],
    "sr": ["join", "meet", "widen", "narrow"],
    "bv": ["band", "bor", "bxor", "join", "meet"],
    "di": ["add", "sub", "mul", "sdiv", "srem", "urem", "and", "or", "shl", "lshr", "ashr", "join", "meet", "widen", "narrow",
           "wth", "trim"],
    "bd": ["mul", "min", "max"],
}
CLOSED_UN = {"zi": ["neg", "lhl", "uhl"], "qi": ["neg"], "cg": ["neg"], "di": ["neg", "lhl", "uhl"], "bv": ["not"],
             "sr": ["inc1", "inc2", "inc3"], "bd": ["neg", "abs"]}


# ---------------------------------------------------------------- leaf descriptions (inputs only)
def zi_leaves(lo=-4, hi=4):
    L = [{"b": 1}, {"lb": [], "ub": []}]
    for l in range(lo, hi + 1):
        L.append({"lb": [], "ub": [l]})
        L.append({"lb": [l], "ub": []})
        for u in range(l, hi + 1):
            L.append({"lb": [l], "ub": [u]})
    return L


def cg_leaves(via="join"):
    L = [{"b": 1}] + [{"m": 0, "r": r} for r in range(-4, 5)]
    for m in range(1, 7):
        for r in range(m):
            L.append({"m": m, "r": r, "via": via})
    return L


def ic_leaves():
    ivs = [{"b": 1}, {"lb": [], "ub": []}, {"lb": [0], "ub": [9]}, {"lb": [-3], "ub": [5]}, {"lb": [], "ub": [2]},
           {"lb": [1], "ub": []}, {"lb": [2], "ub": [2]}, {"lb": [-4], "ub": [-1]}, {"lb": [-1], "ub": [1]}]
    cgs = [{"b": 1}, {"m": 1, "r": 0}, {"m": 0, "r": 2}, {"m": 0, "r": -1}, {"m": 2, "r": 0}, {"m": 2, "r": 1}, {"m": 3, "r": 1},
           {"m": 4, "r": 3}, {"m": 5, "r": 0}]
    return [{"i": i, "c": c} for i in ivs for c in cgs]


def sg_leaves():
    return [{"s": s} for s in ("bot", "top", "eqz", "ltz", "gtz", "lez", "gez", "nez")] + [{"n": n} for n in (-2, 0, 3)]


def ct_leaves():
    return [{"s": "bot"}, {"s": "top"}] + [{"c": c} for c in range(-4, 5)]


def sr_leaves():
    return [{"s": s} for s in ("bot", "top", "zero", "om")] + [{"s": s, "v": v} for s in ("one", "zo") for v in (1, 2, 3)]


def bv_leaves():
    return [{"s": s} for s in ("bot", "top", "t", "f")]


def bd_leaves():
    return [{"inf": -1}, {"inf": 1}] + [{"n": n} for n in range(-4, 5)]


def di_leaves(rng, count):
    """dis-intervals of <= 3 pieces with bounds in -4..4 (+-oo at the ends); all 1-piece values + a seeded sample"""
    one = [{"l": [x]} for x in zi_leaves() if "b" not in x] + [{"s": "bot"}, {"s": "top"}]
    multi = []
    cuts = list(range(-4, 5))
    for n in (2, 3):
        for pts in itertools.combinations_with_replacement(cuts, 2 * n):
            ok = all(pts[2 * k + 1] + 1 < pts[2 * k + 2] for k in range(n - 1))     # separated by a gap >= 1
            if not ok:
                continue
            pieces = [{"lb": [pts[2 * k]], "ub": [pts[2 * k + 1]]} for k in range(n)]
            multi.append({"l": pieces})
            multi.append({"l": [dict(pieces[0], lb=[])] + pieces[1:]})
            multi.append({"l": pieces[:-1] + [dict(pieces[-1], ub=[])]})
            multi.append({"l": [dict(pieces[0], lb=[])] + pieces[1:-1] + [dict(pieces[-1], ub=[])]})
    core = [{"s": "bot"}, {"s": "top"}] + [{"l": [{"lb": [n], "ub": [n]}]} for n in (-1, 0, 1, 2, 3)] + [
        {"l": [{"lb": [-3], "ub": [-1]}, {"lb": [2], "ub": [4]}]}, {"l": [{"lb": [], "ub": [-2]}, {"lb": [1], "ub": []}]},
        {"l": [{"lb": [-4], "ub": [-4]}, {"lb": [0], "ub": [0]}, {"lb": [3], "ub": [4]}]}]
    rng.shuffle(multi)
    rng.shuffle(one)
    k1 = max(8, count // 3)
    return core + one[:k1] + multi[:max(0, count - k1 - len(core))], len(one) + len(multi)


def qi_leaves():
    qs = [(-2, 1), (-3, 2), (-1, 1), (-1, 2), (-1, 3), (0, 1), (1, 3), (1, 2), (1, 1), (3, 2), (2, 1)]
    L = [{"b": 1}, {"lb": [], "ub": []}]
    for a, (p, q) in enumerate(qs):
        L.append({"lb": [], "ub": [p, q]})
        L.append({"lb": [p, q], "ub": []})
        for (p2, q2) in qs[a:]:
            L.append({"lb": [p, q], "ub": [p2, q2]})
    return L


def pairs(A, B=None, limit=None, rng=None):
    P = [(a, b) for a in A for b in (B if B is not None else A)]
    if limit is not None and len(P) > limit:
        P = rng.sample(P, limit)
    return P


def rand_expr(rng, kind, leaves, depth):
    """an expression of the harness: results of real operations fed back as operands"""
    if depth == 0:
        return rng.choice(leaves)
    un = CLOSED_UN.get(kind, [])
    if un and rng.random() < 0.15:
        return {"op": rng.choice(un), "a": rand_expr(rng, kind, leaves, depth - 1)}
    return {"op": rng.choice(CLOSED[kind]), "a": rand_expr(rng, kind, leaves, rng.randint(0, depth - 1) if depth > 1 else 0),
            "b": rand_expr(rng, kind, leaves, depth - 1)}


def expr_len(e):
    return 0 if "op" not in e else 1 + max(expr_len(e["a"]), expr_len(e.get("b", {})))


# ---------------------------------------------------------------- one batch: harness + TLC + bookkeeping
class Stats:
    def __init__(self):
        self.ops = collections.Counter()        # (kind, op) -> judged entries
        self.err = collections.Counter()        # (kind, op) -> library aborted (no claim)
        self.big = collections.Counter()        # kind -> entries / records beyond the number range of the spec
        self.records = collections.Counter()    # kind -> records
        self.bylen = collections.Counter()      # history length -> records
        self.nontrivial = set()
        self.bad = collections.defaultdict(list)    # (kind, op, tag) -> [(label, record id)]
        self.known = collections.defaultdict(list)  # finding id -> [...]


def trivial(kind, d):
    if kind in ("zi", "qi"):
        return d["b"] == 1 or (d["lb"] == [] and d["ub"] == [])
    if kind == "cg":
        return d["b"] == 1 or d["m"] == 1
    if kind == "ic":
        return d["bot"] == 1 or (trivial("zi", d["i"]) and trivial("cg", d["c"]))
    if kind in ("sg", "ct", "bv", "sr"):
        return d["bot"] == 1 or d["top"] == 1
    if kind == "di":
        return d["s"] != "fin"
    return False


def run_batch(ck, st, wd, label, jobs, window=12, timeout=1500):
    for n, j in enumerate(jobs):
        j["id"] = n + 1
        j.setdefault("len", 1 + max(expr_len(j["a"]), expr_len(j.get("b", {}))))
    jp, op, kp = [os.path.join(wd, label + x) for x in (".jobs.json", ".ndjson", ".known.json")]
    json.dump(jobs, open(jp, "w"))
    rc, out = vlib.sh([os.path.join(vlib.BUILD, "bin", RUNNER), jp, op], timeout=1200)
    if rc != 0:
        raise vlib.Broken("%s failed (%d): %s" % (RUNNER, rc, out[-2000:]))
    known = [k for k in vlib.write_known_for_spec(kp) if k.get("sig", {}).get("engine") == RUNNER]
    json.dump(known, open(kp, "w"))
    recs = read_ndjson(op)
    if len(recs) != len(jobs):
        raise vlib.Broken("%s wrote %d records for %d jobs" % (RUNNER, len(recs), len(jobs)))
    r = tlc("ScalarJudge", "ScalarJudge", "c08-" + label, env={"C08_RECORDS": op, "C08_KNOWN": kp, "C08_W": window},
            cont=True, timeout=timeout, extra=["-noGenerateSpecTE"])
    ck.add_tlc(r, "ScalarJudge/%s(W=%d)" % (label, window))
    for x in recs:
        k = x["k"]
        st.records[k] += 1
        st.bylen[x["len"]] += 1
        if x["t"] == "operr" or x["big"]:
            st.big[k] += 1
            continue
        ck.cov["traces_validated_against_impl"] += 1
        nt = not trivial(k, x["a"]) and ("b" not in x or not trivial(k, x["b"])) if k != "bd" else True
        for e in x["ops"]:
            if "err" in e:
                st.err[(k, e["op"])] += 1
            elif e["big"]:
                st.big[k] += 1
            else:
                st.ops[(k, e["op"])] += 1
                ck.cov["evaluations"] += 1
                if nt:
                    st.nontrivial.add(json.dumps([k, e["op"], x["a"], x.get("b")], sort_keys=True))
    for x in recs[len(recs) // 3: len(recs) // 3 + 1]:
        ck.sample({"kind": x["k"], "a": x["a"], "b": x.get("b"), "results": x["ops"][:3]}, limit=8)
    byid = {x["id"]: x for x in recs}
    bad = r.tuples("BAD")
    if r.is_violation and not bad:
        raise vlib.Broken("TLC reported a violation but printed no BAD tuple:\n" + r.out[-3000:])
    seen = set()
    for rid, kind, opn, tag in bad:
        if (rid, opn, tag) in seen:
            continue
        seen.add((rid, opn, tag))
        if tag == "REF":
            raise vlib.Broken("the closed-form reference of Scalars.tla disagrees with brute force on record %s" %
                              json.dumps(byid[rid])[:600])
        st.bad[(kind, opn, tag)].append((label, jobs[rid - 1], byid[rid], window))
    for t in r.tuples("KNOWN"):
        st.known[t[0]].append({"kind": t[2], "op": t[3], "tag": t[4], "job": jobs[t[1] - 1]})
    return r


def case_size(item):
    """prefer short histories, then finite operands (no empty = infinite bound lists), then short descriptions"""
    t = json.dumps(item[2]["a"]) + json.dumps(item[2].get("b", ""))
    return (item[2]["len"], t.count("[]") + t.count("top") + t.count('"m": 1,'), len(t))


def confirm_and_report(ck, st, wd):
    """each failing (kind, op, contract): re-run the smallest failing case alone; a repeated failure is a VIOLATION"""
    n = 0
    for (kind, opn, tag), items in sorted(st.bad.items()):
        items.sort(key=case_size)
        label, job, rec, window = items[0]
        if opn.startswith("operand-"):
            one = {"k": kind, "a": job["a"], "len": job["len"]}
            if "b" in job:
                one["b"] = job["b"]
        else:
            one = {"k": kind, "a": job["a"], "ops": [opn], "len": job["len"]}
            if "b" in job:
                one["b"] = job["b"]
        st1 = Stats()
        ck1 = Check("C08", ck.tier, ck.seed)
        run_batch(ck1, st1, wd, "confirm%d" % n, [one], window=window, timeout=300)
        n += 1
        if (kind, opn, tag) not in st1.bad:
            raise vlib.Broken("failure of %s %s %s did not repeat in isolation: %s" % (kind, opn, tag, json.dumps(one)))
        e = [x for x in rec["ops"] if x["op"] == opn]
        desc = ("%s::%s violates %s (%d failing cases in this run); smallest: a=%s b=%s result=%s" %
                (KIND_NAMES[kind], opn, tag, len(items), json.dumps(rec["a"]), json.dumps(rec.get("b")),
                 json.dumps(e[0]["r"] if e else None)))
        ck.violation(desc, {"job": one, "window": window, "contract": tag, "failing_cases": len(items),
                            "more": [json.dumps([i[2]["a"], i[2].get("b")]) for i in items[1:6]]})


# ---------------------------------------------------------------- the check
def design_level(ck, tier):
    for R, K in ([(3, 10)] if tier == "quick" else [(3, 10), (4, 17)]):
        r = tlc("ScalarRef", "ScalarRef", "c08-ref%d" % R, env={"C08_R": R, "C08_K": K, "C08_W": 2}, timeout=1500)
        ck.add_tlc(r, "ScalarRef(R=%d,K=%d)" % (R, K))
        if r.is_violation:
            raise vlib.Broken("spec/ScalarRef: the closed-form interval reference is wrong:\n" + r.out[-2500:])
        ck.cov.setdefault("reference_pairs_checked", 0)
        ck.cov["reference_pairs_checked"] += r.distinct


def chunks(L, n):
    return [L[k:k + n] for k in range(0, len(L), n)]


def run(tier, seed):
    ck = Check("C08", tier, seed)
    build(RUNNER)
    wd = workdir("c08")
    st = Stats()
    rng = ck.rng
    thorough = tier == "thorough"
    design_level(ck, tier)

    Z = zi_leaves()
    # exhaustive pairs of integer intervals, every operation
    zjobs = [{"k": "zi", "a": a, "b": b} for a, b in pairs(Z)] + [{"k": "zi", "a": a} for a in Z]
    run_batch(ck, st, wd, "zi", zjobs)
    # the small abstractions: all pairs
    small = []
    for kind, L in (("sg", sg_leaves()), ("ct", ct_leaves()), ("sr", sr_leaves()), ("bv", bv_leaves()), ("bd", bd_leaves())):
        small += [{"k": kind, "a": a, "b": b} for a, b in pairs(L)] + [{"k": kind, "a": a} for a in L]
    C = cg_leaves() + ([x for x in cg_leaves("arith") if "via" in x] if thorough else [])
    small += [{"k": "cg", "a": a, "b": b} for a, b in pairs(C)] + [{"k": "cg", "a": a} for a in C]
    run_batch(ck, st, wd, "small", small)
    # interval-congruence pairs, dis-intervals, rational intervals
    I = ic_leaves()
    D, dtotal = di_leaves(rng, 160 if thorough else 36)
    Q = qi_leaves()
    mixed = [{"k": "ic", "a": a, "b": b} for a, b in pairs(I, limit=None if thorough else 700, rng=rng)]
    mixed += [{"k": "ic", "a": a} for a in I]
    mixed += [{"k": "di", "a": a, "b": b} for a, b in pairs(D, limit=9000 if thorough else 1200, rng=rng)] + [{"k": "di", "a": a} for a in D]
    mixed += [{"k": "qi", "a": a, "b": b} for a, b in pairs(Q, limit=3000 if thorough else 300, rng=rng)] + [{"k": "qi", "a": a} for a in Q]
    for n, part in enumerate(chunks(mixed, 6000)):
        run_batch(ck, st, wd, "mixed%d" % n, part)
    # histories: results of real operations fed back as operands
    leaves = {"zi": Z, "cg": C, "ic": I, "sg": sg_leaves(), "ct": ct_leaves(), "sr": sr_leaves(), "bv": bv_leaves(), "di": D,
              "qi": Q, "bd": bd_leaves()}
    weights = {"zi": 6, "cg": 4, "ic": 3, "di": 3, "qi": 2, "sg": 1, "ct": 1, "sr": 1, "bv": 1, "bd": 1}
    nh = 30000 if thorough else 1500
    kinds = [k for k, w in weights.items() for _ in range(w)]
    hist = []
    for _ in range(nh):
        k = rng.choice(kinds)
        depth = rng.choice([1, 1, 2]) if thorough else 1
        hist.append({"k": k, "a": rand_expr(rng, k, leaves[k], depth), "b": rand_expr(rng, k, leaves[k], rng.randint(0, depth))})
    for n, part in enumerate(chunks(hist, 5000)):
        run_batch(ck, st, wd, "hist%d" % n, part)
    if thorough:
        # other windows: a wider one for everything numeric (sampled pairs), a narrow one for the interval pairs
        run_batch(ck, st, wd, "zi-w20", [{"k": "zi", "a": a, "b": b} for a, b in pairs(Z, limit=1500, rng=rng)], window=20)
        run_batch(ck, st, wd, "small-w20", [j for j in small if j["k"] in ("cg", "sg", "ct") and "b" in j], window=20)
        run_batch(ck, st, wd, "zi-w6", [{"k": "zi", "a": a, "b": b} for a, b in pairs(Z)], window=6)

    confirm_and_report(ck, st, wd)
    for fid, cases in st.known.items():
        for c in cases:
            ck.known(fid, c)
    cov = ck.cov
    cov["per_abstraction"] = {KIND_NAMES[k]: {"records": st.records[k],
                                              "operations_judged": sum(v for (kk, _), v in st.ops.items() if kk == k),
                                              "library_aborted_no_claim": sum(v for (kk, _), v in st.err.items() if kk == k),
                                              "beyond_number_range_no_claim": st.big[k]} for k in KIND_NAMES}
    cov["per_operation"] = {"%s.%s" % (k, o): v for (k, o), v in sorted(st.ops.items())}
    cov["library_aborted"] = {"%s.%s" % (k, o): v for (k, o), v in sorted(st.err.items())}
    cov["records_by_history_length"] = {str(k): v for k, v in sorted(st.bylen.items())}
    cov["failing_contracts"] = {"%s.%s/%s" % k: len(v) for k, v in sorted(st.bad.items())}
    cov["distinct_nontrivial"] = len(st.nontrivial)
    cov["dis_interval_values_enumerable"] = dtotal
    cov["exhaustive"] = False
    cov["rule"] = ("interval<z>: ALL pairs of the 65 intervals with bounds in -4..4 and +-oo (bottom, top, singletons, zero-crossing) x "
                   "21 binary + 5 unary operations; congruences: all pairs of moduli 0..6 x residues + bottom; all pairs of all signs, "
                   "constants -4..4, small_range values over 3 variables, booleans, bounds; seeded samples of interval_congruence, "
                   "dis_interval (<= 3 pieces) and interval<q> pairs; seeded histories where results of real operations are fed back as "
                   "operands. An evaluation = one (operands, operation) result judged by TLC. non-trivial = distinct (kind, operation, "
                   "operand descriptions) with neither operand top nor bottom.")
    ck.assumptions += [
        "gamma is evaluated on a finite sample: window -W..W plus the finite bounds/residues of the operands and their neighbours",
        "udiv/urem/lshr: claims only for non-negative operands; shifts only for amounts 0..6; and/or/xor only for |operands| < 128",
        "descriptions with numbers beyond +-10000 (+-500 for rationals) are not judged (TLC integers are 32 bit)",
        "an operation on which the library calls CRAB_ERROR (exit) is recorded as 'no claim' (counted in library_aborted)",
        "small_range: a concrete value is the set of counted variables (1(V) = {V}); the printed form is the only observation of V",
        "congruence aZ+b operands are obtained through public operations (join of two constants / a*top+b), their description is "
        "read back from the object",
    ]
    return ck.finish()


def replay(path):
    case = json.load(open(path))["case"]
    ck = Check("C08", "quick", 0)
    build(RUNNER)
    wd = workdir("c08-replay")
    st = Stats()
    run_batch(ck, st, wd, "replay", [dict(case["job"])], window=case.get("window", 12), timeout=300)
    for (kind, opn, tag), items in st.bad.items():
        ck.violation("%s::%s violates %s" % (KIND_NAMES[kind], opn, tag), case)
    return ck.finish()
