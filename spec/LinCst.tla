------------------------------ MODULE LinCst ------------------------------
(* C20: meaning of crab's linear expressions, constraints and constraint
   systems (include/crab/types/linear_constraints.hpp) as functions of a
   valuation, evaluated by TLC on EVERY valuation of a small box.

   An expression is a record [c |-> constant, t |-> << <<coef, var>>, ... >>]
   with small integer coefficients and variables 1..NV.  Descriptions (what
   the job asked for) may repeat variables and contain zero coefficients;
   observations (what the real object reports through begin()/end(),
   constant(), kind()) must be canonical.

   A constraint is [e |-> expression, k |-> "le" | "lt" | "eq" | "ne"] and means
   e <= 0, e < 0, e = 0, e # 0.

   Number type: for ikos::z_number ("z") variables range over the integers
   -BoxR..BoxR.  For ikos::q_number ("q") they range over the half-integers
   h/2, h \in -BoxR..BoxR; everything is scaled by den = 2, so that only
   integer arithmetic is needed: den*value(e) = den*c + SUM coef*h.          *)
EXTENDS Integers, Sequences

NV == 3
BoxR == 3
Box == [1..NV -> (-BoxR)..BoxR]

Den(nt) == IF nt = "q" THEN 2 ELSE 1

(* den * value of e at the point v/den *)
Eval(e, v, den) ==
  LET n == Len(e.t)
      R[k \in 0..n] ==
        IF k = 0 THEN den * e.c
        ELSE LET P == R[k - 1] IN P + e.t[k][1] * v[e.t[k][2]]
  IN R[n]

ExprShapeOk(e) == \A k \in 1..Len(e.t) : Len(e.t[k]) = 2 /\ e.t[k][2] \in 1..NV

(* the "canonical sorted coefficient map": variables strictly ascending, no zero coefficient *)
Canonical(e) ==
  /\ ExprShapeOk(e)
  /\ \A k \in 1..Len(e.t) : e.t[k][1] # 0
  /\ \A k \in 2..Len(e.t) : e.t[k - 1][2] < e.t[k][2]

(* coefficient of variable x in a canonical expression *)
Coef(e, x) == LET S == {k \in 1..Len(e.t) : e.t[k][2] = x}
              IN IF S = {} THEN 0 ELSE e.t[CHOOSE k \in S : TRUE][1]

SameFunction(e1, e2, den) == \A v \in Box : Eval(e1, v, den) = Eval(e2, v, den)

(* observation of an expression: term list, plus what the accessors said *)
ObsExprOk(o) ==
  /\ Canonical(o)
  /\ o.size = Len(o.t)
  /\ o.isc = (IF Len(o.t) = 0 THEN 1 ELSE 0)
  /\ \A x \in 1..NV : o.idx[x] = Coef(o, x)          \* operator[]

(* valuation seen through a renaming: x is read at sigma(x) *)
Sigma(map, x) == LET S == {k \in 1..Len(map) : map[k][1] = x}
                 IN IF S = {} THEN x ELSE map[CHOOSE k \in S : TRUE][2]
Renamed(v, map) == [x \in 1..NV |-> v[Sigma(map, x)]]
MapOk(map) == \A j, k \in 1..Len(map) : (map[j][1] = map[k][1]) => (j = k)

---------------------------------------------------------------------------
Holds(c, v, den) ==
  LET x == Eval(c.e, v, den)
  IN CASE c.k = "le" -> x <= 0
       [] c.k = "lt" -> x < 0
       [] c.k = "eq" -> x = 0
       [] c.k = "ne" -> x # 0

Rel(rel, x, y) ==
  CASE rel = "<=" -> x <= y
    [] rel = "<" -> x < y
    [] rel = ">=" -> x >= y
    [] rel = ">" -> x > y
    [] rel = "==" -> x = y
    [] rel = "!=" -> x # y

(* observation of a constraint: kind/expression plus is_tautology / is_contradiction /
   constant().  Exact for constant constraints, sound for the others. *)
ObsCstOk(o, den) ==
  /\ ObsExprOk(o.e)
  /\ o.k \in {"le", "lt", "eq", "ne"}
  /\ o.rhs = -o.e.c                                   \* linear_constraint::constant()
  /\ IF Len(o.e.t) = 0
     THEN LET h == Holds(o, [x \in 1..NV |-> 0], den)
          IN (o.taut = 1) = h /\ (o.contr = 1) = ~h
     ELSE /\ (o.taut = 1) => \A v \in Box : Holds(o, v, den)
          /\ (o.contr = 1) => \A v \in Box : ~Holds(o, v, den)

AllHold(cs, v, den) == \A k \in 1..Len(cs) : Holds(cs[k], v, den)

---------------------------------------------------------------------------
(* contracts of the records written by harness/num_runner (family "lin") *)

LinOk(r) ==
  LET den == Den(r.nt) IN
  CASE r.op = "e_build" ->
         ObsExprOk(r.r) /\ SameFunction(r.r, r.da, den)
    [] r.op \in {"e_add", "e_sub"} ->
         /\ ObsExprOk(r.a) /\ ObsExprOk(r.b) /\ ObsExprOk(r.r)
         /\ SameFunction(r.a, r.da, den) /\ SameFunction(r.b, r.db, den)
         /\ r.a2 = r.a /\ r.b2 = r.b                       \* operands are values: unchanged by the operation
         /\ \A v \in Box :
              Eval(r.r, v, den) = (IF r.op = "e_add" THEN Eval(r.a, v, den) + Eval(r.b, v, den)
                                   ELSE Eval(r.a, v, den) - Eval(r.b, v, den))
    [] r.op = "e_neg" ->
         /\ ObsExprOk(r.a) /\ ObsExprOk(r.r) /\ SameFunction(r.a, r.da, den)
         /\ \A v \in Box : Eval(r.r, v, den) = -Eval(r.a, v, den)
    [] r.op = "e_scale" ->
         /\ ObsExprOk(r.a) /\ ObsExprOk(r.r) /\ SameFunction(r.a, r.da, den)
         /\ \A v \in Box : Eval(r.r, v, den) = r.n * Eval(r.a, v, den)
    [] r.op \in {"e_addc", "e_subc", "c_sube"} ->
         /\ ObsExprOk(r.a) /\ ObsExprOk(r.r) /\ SameFunction(r.a, r.da, den)
         /\ \A v \in Box :
              Eval(r.r, v, den) = (CASE r.op = "e_addc" -> Eval(r.a, v, den) + den * r.n
                                     [] r.op = "e_subc" -> Eval(r.a, v, den) - den * r.n
                                     [] r.op = "c_sube" -> den * r.n - Eval(r.a, v, den))
    [] r.op \in {"e_addv", "e_subv", "v_sube"} ->
         /\ ObsExprOk(r.a) /\ ObsExprOk(r.r) /\ SameFunction(r.a, r.da, den) /\ r.x \in 1..NV
         /\ \A v \in Box :
              Eval(r.r, v, den) = (CASE r.op = "e_addv" -> Eval(r.a, v, den) + v[r.x]
                                     [] r.op = "e_subv" -> Eval(r.a, v, den) - v[r.x]
                                     [] r.op = "v_sube" -> v[r.x] - Eval(r.a, v, den))
    [] r.op = "e_rename" ->
         /\ ObsExprOk(r.a) /\ ObsExprOk(r.r) /\ SameFunction(r.a, r.da, den) /\ MapOk(r.map)
         /\ \A v \in Box : Eval(r.r, v, den) = Eval(r.a, Renamed(v, r.map), den)
    [] r.op = "c_make" ->
         /\ ObsCstOk(r.r, den)
         /\ \A v \in Box : Holds(r.r, v, den) = Rel(r.rel, Eval(r.da, v, den), Eval(r.db, v, den))
    [] r.op = "c_negate" ->
         /\ ObsCstOk(r.a, den) /\ ObsCstOk(r.r, den)
         /\ r.a.k = r.dk /\ SameFunction(r.a.e, r.da, den)
         /\ \A v \in Box : Holds(r.r, v, den) = ~Holds(r.a, v, den)      \* the exact complement
    [] r.op = "c_nonstrict" ->
         /\ ObsCstOk(r.a, den) /\ ObsCstOk(r.r, den)
         /\ r.a.k = r.dk /\ SameFunction(r.a.e, r.da, den)
         /\ \A v \in Box : Holds(r.r, v, den) = Holds(r.a, v, den)
         /\ (r.nt = "z" => r.r.k = "le")
    [] r.op = "c_rename" ->
         /\ ObsCstOk(r.a, den) /\ ObsCstOk(r.r, den) /\ MapOk(r.map)
         /\ r.a.k = r.dk /\ SameFunction(r.a.e, r.da, den)
         /\ \A v \in Box : Holds(r.r, v, den) = Holds(r.a, Renamed(v, r.map), den)
    [] r.op = "s_normalize" ->
         /\ \A k \in 1..Len(r.sys) : ObsCstOk(r.sys[k], den)
         /\ \A k \in 1..Len(r.r) : ObsCstOk(r.r[k], den)
         /\ \A v \in Box :
              LET want == \A j \in 1..Len(r.ds) : Holds(r.ds[j], v, den)
              IN AllHold(r.sys, v, den) = want /\ AllHold(r.r, v, den) = want
         /\ (r.is_true = 1) = (Len(r.sys) = 0)
         /\ (r.is_false = 1) => \A v \in Box : ~AllHold(r.sys, v, den)
         /\ (r.r_is_false = 1) => \A v \in Box : ~AllHold(r.r, v, den)
=============================================================================
