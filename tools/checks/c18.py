"""C18 Liveness (and, planned, assertion-crawler) facts over-approximate real dependences.
Liveness: self-composition (spec/NonInterf.tla) from the end of every block for every variable reported dead there."""
import json, os, re, collections
import vlib, proggen
from vlib import Check, build, tlc, workdir

BOX, UNIV, MAXSTEPS = 1, 400, 24


def gen(ck, n):
    ps = []
    for i in range(n):
        p = proggen.program(ck.rng, i + 1, asserts=True, nints=3, nbools=0, profile="c17", nstmts=(0, 3))
        outs = sorted(ck.rng.sample([1, 2, 3], ck.rng.randint(0, 2)))
        p["fn"] = {"name": "f", "in": [], "out": outs}
        p["outs"] = outs
        # `unreachable` in the middle of blocks, after statements that use variables
        if ck.rng.random() < 0.3:
            b = ck.rng.choice(p["blocks"])
            b["stmts"].insert(ck.rng.randint(0, len(b["stmts"])), {"op": "unreach"})
        ps.append(p)
    return ps


def explore(ck, label, ps):
    wd = workdir("c18-" + label)
    pp, op_, tp = [os.path.join(wd, x) for x in ("p.ndjson", "o.ndjson", "progs.ndjson")]
    vlib.write_ndjson(pp, ps)
    rc, out = vlib.sh([os.path.join(vlib.BUILD, "bin", "dataflow_runner"), pp, op_], timeout=1800)
    if rc != 0:
        raise vlib.Broken("dataflow_runner failed: " + out[-2000:])
    res = {r["id"]: r for r in vlib.read_ndjson(op_)}
    merged = []
    for p in ps:
        r = res.get(p["id"], {"err": 1})
        q = {k: p[k] for k in ("id", "nv", "entry", "exit", "blocks", "outs")}
        if "err" in r:
            q.update({"err": 1, "live": [], "dead": [[] for _ in p["blocks"]]})
        else:
            # "reported dead at the end of block b" = dead_exit(b), and every variable that is not in the live set
            # liveness_analysis::get(b) ("variables that might be used in the future"), which is what DCE consumes
            allv = set(range(1, p["nv"] + 1))
            q.update({"err": 0, "live": r["live"], "dead_exit": r["dead"],
                      "dead": [sorted(set(d) | (allv - set(l))) for d, l in zip(r["dead"], r["live"])]})
        merged.append(q)
    vlib.write_ndjson(tp, merged)
    ok = [q for q in merged if q["err"] == 0]
    ck.cov["traces_validated_against_impl"] += len(ok)
    ck.cov["evaluations"] += len(ok)
    ck.cov["dead_facts"] = ck.cov.get("dead_facts", 0) + sum(len(d) for q in ok for d in q["dead"])
    ck.cov["distinct_nontrivial"] += sum(1 for q in ok if any(q["dead"]))
    r = tlc("NonInterf", "NonInterf", "c18-" + label, env={"PROGRAMS": tp, "BOX": BOX, "UNIV": UNIV, "MAXSTEPS": MAXSTEPS}, timeout=2400)
    ck.add_tlc(r, "NonInterf/" + label)
    v = None
    if r.is_violation:
        m = re.findall(r"/\\ prog = (\d+)\n/\\ dead_at_end_of = (\d+)\n/\\ variable = (\d+)\n/\\ block = (\d+)\n/\\ idx = (\d+)\n/\\ state1 = (.*?)\n/\\ state2 = (.*?)\n",
                       r.out, re.S)
        if not m:
            raise vlib.Broken("cannot parse violation:\n" + r.out[-2000:])
        prog, ob, var, blk, idx, s1, s2 = m[-1]
        v = {"prog": int(prog), "dead_at_end_of_block": int(ob), "variable": int(var), "block": int(blk), "idx": int(idx), "state1": s1,
             "state2": s2, "violated": sorted(set(r.violated)),
             "execution": [[int(a), int(b), c, d] for a, b, c, d in re.findall(r"/\\ block = (\d+)\n/\\ idx = (\d+)\n/\\ state1 = (.*?)\n/\\ state2 = (.*?)\n", r.out, re.S)]}
    return v, merged


def run(tier, seed):
    ck = Check("C18", tier, seed + 8000)
    build("dataflow_runner")
    n = 300 if tier == "quick" else 5000
    done = k = 0
    while done < n and len(ck.violations) < 5:
        m = min(500, n - done)
        ps = gen(ck, m)
        for p in ps:
            p["id"] += done
        if k == 0:   # fixed regression cases (replays of earlier findings)
            rd = os.path.join(vlib.ROOT, "tools", "regress")
            ps += [json.load(open(os.path.join(rd, f))) for f in sorted(os.listdir(rd)) if f.startswith("c18_")]
        remaining = ps
        for attempt in range(5):
            v, merged = explore(ck, "b%d_%d" % (k, attempt), remaining)
            if k == 0 and attempt == 0:
                q = next((x for x in merged if any(x["dead"])), merged[0])
                ck.sample({"blocks": q["blocks"], "outs": q["outs"], "dead_at_block_end": q["dead"], "live_at_block_end": q["live"]})
            if v is None:
                break
            prog = next(p for p in remaining if p["id"] == v["prog"])
            ck.violation("C18: liveness reports variable %d dead at the end of block b%d, but changing it there changes the execution: %s at "
                         "block b%d idx %d with states %s / %s" % (v["variable"], v["dead_at_end_of_block"], v["violated"], v["block"],
                                                                  v["idx"], v["state1"], v["state2"]), {"program": prog, "violation": v})
            remaining = [p for p in remaining if p["id"] != v["prog"]]
        done += m
        k += 1
    ck.cov["rule"] = ("seeded CFGs with assertions, `unreachable` statements in the middle of blocks and a function declaration with 0-2 "
                      "outputs; for EVERY block and EVERY variable reported dead at its end, every pair of box states differing only in "
                      "that variable is run in lock-step for up to %d steps. non-trivial = programs with at least one dead fact" % MAXSTEPS)
    ck.assumptions += ["the assertion-crawler half of C18 is not covered yet", "statement alphabet without division (constant-magnitude changes)"]
    return ck.finish()


def replay(path):
    case = json.load(open(path))["case"]
    ck = Check("C18", "quick", 0)
    build("dataflow_runner")
    v, _ = explore(ck, "replay", [case["program"]])
    if v:
        ck.violation("replayed: %s" % v["violated"], case)
    return ck.finish()
