SPECIFICATION Spec
INVARIANT Shape
INVARIANT NextPrevOK
INVARIANT WidenCovers
INVARIANT WidenMoves
INVARIANT Emit
VIEW View
CHECK_DEADLOCK FALSE
