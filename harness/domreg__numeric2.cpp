#include "domreg.hpp"
#include <crab/domains/intervals.hpp>
#include <crab/domains/congruences.hpp>
#include <crab/domains/combined_congruences.hpp>
#include <crab/domains/dis_intervals.hpp>
using namespace crab::domains;
using namespace vh;
typedef ikos::interval_domain<z_number, varname_t> intervals_t;
typedef ikos::congruence_domain<z_number, varname_t> congruences_t;
typedef numerical_congruence_domain<intervals_t> ric_t;
typedef dis_interval_domain<z_number, varname_t> dis_intervals_t;
VH_DOMREG(congruences, congruences_t)
VH_DOMREG(ric, ric_t)
VH_DOMREG(dis_intervals, dis_intervals_t)
