INIT BfsInit
NEXT GenNext
ACTION_CONSTRAINT Emit
VIEW View
INVARIANT TypeOK
INVARIANT LatticeLaws
CHECK_DEADLOCK FALSE
