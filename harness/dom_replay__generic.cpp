// the type-erased wrappers (C16): abstract_domain_ref over intervals / zones / octagons
#include "dom_replay.hpp"
#include "domtypes.hpp"
#include <crab/domains/intervals.hpp>
#include <crab/domains/split_dbm.hpp>
#include <crab/domains/split_oct.hpp>
#include <crab/domains/generic_abstract_domain.hpp>
using namespace crab::domains;
using namespace vh;
typedef ikos::interval_domain<z_number, varname_t> intervals_t;
typedef split_dbm_domain<z_number, varname_t, VH_DBM_GRAPH> split_dbm_t;
typedef split_oct_domain<z_number, varname_t, VH_DBM_GRAPH> split_oct_t;
typedef abstract_domain_ref<z_var> ref_t;
template <typename Base> static runner_t ref_runner(const std::string &name) {
  return [name](const vj::Value &h, std::ostream &o) {
    variable_factory_t vfac;
    Replayer<ref_t> rp(vfac, []() { return ref_t(Base()); });
    rp.force_stutter = stutter_flag();
    rp.run(h, o, name + (stutter_flag() ? "#s" : ""));
  };
}
static Registrar r1("ref_intervals", ref_runner<intervals_t>("ref_intervals"));
static Registrar r2("ref_split_dbm", ref_runner<split_dbm_t>("ref_split_dbm"));
static Registrar r3("ref_split_oct", ref_runner<split_oct_t>("ref_split_oct"));
