// C07 adaptor: builds digraphs as crab CFGs or call graphs, runs the real
// ikos::wto on them and writes one JSON record per graph. No oracle here:
// the well-formedness predicates live in spec/Wto.tla and are evaluated by TLC.
//
// usage: wto_runner <jobs.json> <out.ndjson>
//   jobs.json: [{"id":k,"kind":"cfg"|"cg","n":N,"entry":e,"succ":[[..],..]},...]
//   or generators {"gen":"all","kind":..,"n":N,"entries":"all"|"first",
//                  "order":"asc"|"desc"|"rot","from":m0,"count":c}
#include "vjson.hpp"
#include <crab/cfg/basic_block_traits.hpp>
#include <crab/cfg/cfg.hpp>
#include <crab/cfg/cfg_bgl.hpp>
#include <crab/cg/cg.hpp>
#include <crab/cg/cg_bgl.hpp>
#include <crab/config.h>
#include <crab/fixpoint/wto.hpp>
#include <crab/types/varname_factory.hpp>

#include <fstream>
#include <functional>

namespace crab {
namespace cfg_impl {
using variable_factory_t = var_factory_impl::str_variable_factory;
using varname_t = typename variable_factory_t::varname_t;
using basic_block_label_t = std::string;
using z_cfg_t = cfg::cfg<basic_block_label_t, varname_t, ikos::z_number>;
using z_cfg_ref_t = cfg::cfg_ref<z_cfg_t>;
using z_basic_block_t = z_cfg_t::basic_block_t;
using z_var = variable<ikos::z_number, varname_t>;
} // namespace cfg_impl
template <> class variable_name_traits<std::string> {
public:
  static std::string to_string(std::string varname) { return varname; }
};
template <> class basic_block_traits<cfg_impl::z_basic_block_t> {
public:
  using bb_label_t = typename cfg_impl::z_basic_block_t::basic_block_label_t;
  static std::string to_string(const bb_label_t &bbl) { return bbl; }
};
} // namespace crab

using namespace crab::cfg_impl;
using call_graph_t = crab::cg::call_graph<z_cfg_ref_t>;
using call_graph_ref_t = crab::cg::call_graph_ref<call_graph_t>;

typedef std::vector<std::vector<int>> succ_t;

static std::string nm(int i) { return "n" + std::to_string(i); }
static int num(const std::string &s) { return std::atoi(s.c_str() + 1); }

template <typename G> struct flattener : public ikos::wto_component_visitor<G> {
  using wto_vertex_t = ikos::wto_vertex<G>;
  using wto_cycle_t = ikos::wto_cycle<G>;
  std::function<int(typename boost::graph_traits<G>::vertex_descriptor)> id;
  std::vector<int> order;
  std::vector<std::vector<int>> comps; // head, start, end (1-based positions)
  void visit(wto_vertex_t &v) override { order.push_back(id(v.node())); }
  void visit(wto_cycle_t &c) override {
    int h = id(c.head());
    order.push_back(h);
    int start = order.size();
    size_t slot = comps.size();
    comps.push_back({h, start, start});
    for (auto &comp : c) comp.accept(this);
    comps[slot][2] = order.size();
  }
};

static void emit_list(std::ostream &o, const std::vector<int> &v) {
  o << "[";
  for (size_t i = 0; i < v.size(); ++i) o << (i ? "," : "") << v[i];
  o << "]";
}

template <typename G, typename W>
static void emit(std::ostream &o, long id, const std::string &kind, int n, int entry, const succ_t &succ_req, G g, W &w,
                 std::function<int(typename boost::graph_traits<G>::vertex_descriptor)> idf,
                 std::function<typename boost::graph_traits<G>::vertex_descriptor(int)> nodef) {
  flattener<G> f;
  f.id = idf;
  w.accept(&f);
  // successor lists in the order in which the graph interface (the one wto
  // iterates over) reports them -- not the order in which edges were requested
  succ_t succ(n + 1);
  for (int i = 1; i <= n; ++i) {
    auto es = out_edges(nodef(i), g);
    for (auto it = es.first; it != es.second; ++it) succ[i].push_back(idf(target(*it, g)));
  }
  o << "{\"id\":" << id << ",\"kind\":\"" << kind << "\",\"n\":" << n << ",\"entry\":" << entry << ",\"succ\":[";
  for (int i = 1; i <= n; ++i) {
    o << (i > 1 ? "," : "");
    emit_list(o, succ[i]);
  }
  o << "],\"order\":";
  emit_list(o, f.order);
  o << ",\"comps\":[";
  for (size_t i = 0; i < f.comps.size(); ++i) {
    o << (i ? "," : "");
    emit_list(o, f.comps[i]);
  }
  o << "],\"nest\":[";
  bool first = true;
  for (int i = 1; i <= n; ++i) {
    auto nst = w.nesting(nodef(i));
    if (!nst) continue;
    std::vector<int> hs;
    for (auto it = nst->begin(); it != nst->end(); ++it) hs.push_back(idf(*it));
    o << (first ? "" : ",") << "{\"node\":" << i << ",\"heads\":";
    emit_list(o, hs);
    o << "}";
    first = false;
  }
  o << "]}\n";
}

static void run_cfg(std::ostream &o, long id, int n, int entry, const succ_t &succ) {
  z_cfg_t cfg(nm(entry));
  for (int i = 1; i <= n; ++i) cfg.insert(nm(i));
  for (int i = 1; i <= n; ++i)
    for (int j : succ[i]) cfg.get_node(nm(i)) >> cfg.get_node(nm(j));
  z_cfg_ref_t ref(cfg);
  ikos::wto<z_cfg_ref_t> w(ref);
  emit<z_cfg_ref_t>(o, id, "cfg", n, entry, succ, ref, w, [](std::string l) { return num(l); },
                    [](int i) { return nm(i); });
}

static void run_cg(std::ostream &o, long id, int n, int entry, const succ_t &succ) {
  variable_factory_t vfac;
  std::vector<std::unique_ptr<z_cfg_t>> cfgs;
  std::vector<z_cfg_ref_t> refs;
  for (int i = 1; i <= n; ++i) {
    z_var x(vfac["x" + std::to_string(i)], crab::INT_TYPE, 32);
    z_var y(vfac["y" + std::to_string(i)], crab::INT_TYPE, 32);
    crab::cfg::function_decl<ikos::z_number, varname_t> decl(nm(i), {x}, {y});
    std::unique_ptr<z_cfg_t> c(new z_cfg_t("entry", "exit", decl));
    z_basic_block_t &en = c->insert("entry");
    z_basic_block_t &ex = c->insert("exit");
    en >> ex;
    int k = 0;
    for (int j : succ[i]) {
      z_var r(vfac["r" + std::to_string(i) + "_" + std::to_string(k++)], crab::INT_TYPE, 32);
      en.callsite(nm(j), {r}, {x});
    }
    ex.assign(y, x);
    cfgs.push_back(std::move(c));
  }
  for (auto &c : cfgs) refs.push_back(*c);
  call_graph_t cg(refs);
  call_graph_ref_t cgr(cg);
  std::map<int, call_graph_ref_t::node_t> nodes;
  for (auto v : boost::make_iterator_range(vertices(cgr))) nodes.insert({num(v.name()), v});
  ikos::wto<call_graph_ref_t> w(cgr, nodes.at(entry));
  emit<call_graph_ref_t>(o, id, "cg", n, entry, succ, cgr, w, [](call_graph_ref_t::node_t v) { return num(v.name()); },
                         [&](int i) { return nodes.at(i); });
}

static void run(std::ostream &o, long id, const std::string &kind, int n, int entry, const succ_t &succ) {
  if (kind == "cfg")
    run_cfg(o, id, n, entry, succ);
  else
    run_cg(o, id, n, entry, succ);
}

int main(int argc, char **argv) {
  if (argc < 3) return 2;
  vj::Value jobs = vj::parse_file(argv[1]);
  std::ofstream out(argv[2]);
  long id = 0;
  for (size_t k = 0; k < jobs.size(); ++k) {
    const vj::Value &j = jobs[k];
    std::string kind = j.gets("kind", "cfg");
    int n = j["n"].i();
    if (j.has("gen")) {
      std::string order = j.gets("order", "asc");
      bool all_entries = j.gets("entries", "first") == "all";
      unsigned long long from = j.geti("from", 0), count = j.geti("count", 1ULL << (n * n));
      for (unsigned long long m = from; m < from + count && m < (1ULL << (n * n)); ++m) {
        succ_t succ(n + 1);
        for (int u = 1; u <= n; ++u) {
          for (int v = 1; v <= n; ++v)
            if (m >> ((u - 1) * n + (v - 1)) & 1) succ[u].push_back(v);
          if (order == "desc") std::reverse(succ[u].begin(), succ[u].end());
          if (order == "rot" && succ[u].size() > 1) std::rotate(succ[u].begin(), succ[u].begin() + (u % succ[u].size()), succ[u].end());
        }
        for (int e = 1; e <= (all_entries ? n : 1); ++e) run(out, ++id, kind, n, e, succ);
      }
    } else {
      succ_t succ(n + 1);
      for (int u = 1; u <= n; ++u)
        for (size_t q = 0; q < j["succ"][u - 1].size(); ++q) succ[u].push_back(j["succ"][u - 1][q].i());
      run(out, j.geti("id", ++id), kind, n, j["entry"].i(), succ);
    }
  }
  out.close();
  return 0;
}
