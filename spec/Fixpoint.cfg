SPECIFICATION Spec
INVARIANT ModelIsLfp
INVARIANT ImplIsLfp
INVARIANT ImplDelay
INVARIANT ModelDelay
INVARIANT Drift
CHECK_DEADLOCK FALSE
ALIAS Compact
