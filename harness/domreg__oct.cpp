#include "domreg.hpp"
#include "domtypes.hpp"
#include <crab/domains/split_oct.hpp>
using namespace crab::domains;
using namespace vh;
typedef split_oct_domain<z_number, varname_t, VH_DBM_GRAPH> split_oct_t;
VH_DOMREG(split_oct, split_oct_t)
