----------------------------- MODULE EnvMapGen -----------------------------
(* C19, direction B: TLC generates the operation histories that are replayed
   on the real containers.
     BFS  (EnvMapGenBfs.cfg): every transition s -> s' with Len(hist) < MaxLen
          of the machine restricted to one register family is printed once as
          the history that reaches s followed by the step (VIEW without hist:
          one history per transition = transition coverage);
     SIM  (EnvMapGenSim.cfg, -simulate): random behaviours of MaxLen steps; the
          kind of every step is drawn from a weighted profile first, so that
          set (which has by far the most instances) does not starve the rest. *)
EXTENDS EnvMap, Json

MaxLen == atoi(IOEnv.C19_MAXLEN)
GenFam == IOEnv.C19_FAM          \* "map", "pset", "dset"
FamKinds == IF GenFam = "map" THEN MapOps ELSE IF GenFam = "pset" THEN PSetOps ELSE DSetOps

VARIABLE rnd                     \* SIM: the random draw that determines the next event; RICH: length of the start prefix; BFS: 0
BfsInit == Init /\ rnd = 0
(* quick tier: the last level is expanded only from a pseudo-random 1/SelMod of the states of the level
   before it (chosen by a hash of the history that reaches the state and the seed); SelMod = 1: all *)
SelMod  == atoi(IOEnv.C19_SELMOD)
SelSeed == atoi(IOEnv.C19_SEED)
OpList == <<"set", "forget", "joinkey", "join", "meet", "widen", "narrow", "rename", "project", "copy", "mtop", "mbot",
            "padd", "prem", "pplus", "pminus", "punion", "punioneq", "pinter", "pintereq", "pclear", "pcopy", "psingle",
            "dtop", "dbot", "dsingle", "dadd", "drem", "dunion", "dinter", "ddiff", "drename", "dcopy">>
OpIdx(op) == CHOOSE i \in 1..Len(OpList) : OpList[i] = op
ValHash(v) == IF Lat = "itv" THEN (v[1] + 100) * 7 + (v[2] + 100) ELSE (IF v = "bot" THEN 1 ELSE IF v = "F" THEN 2 ELSE IF v = "T" THEN 3 ELSE 4)
EvHash(e) == OpIdx(e[1]) * 31 + e[2] * 3 + e[3] * 5 + e[4] * 11 + e[5] * 13 + ValHash(e[6]) * 17
             + Len(e[7]) * 19 + (IF Len(e[7]) > 0 THEN e[7][1] * 23 ELSE 0) + (IF Len(e[8]) > 0 THEN e[8][1] * 29 ELSE 0)
RECURSIVE HistHash(_)
HistHash(h) == IF h = <<>> THEN 0 ELSE (HistHash(Tail(h)) * 37 + EvHash(Head(h))) % 1000003
(* IF-THEN-ELSE, not a disjunction: TLC would take every true disjunct of an action as a separate branch *)
Sel(h) == IF Len(h) < MaxLen - 1 THEN TRUE ELSE IF SelMod = 1 THEN TRUE ELSE (HistHash(h) + SelSeed) % SelMod = 0
GenNext == Len(hist) < MaxLen /\ Sel(hist) /\ (\E kd \in FamKinds : OfKind(kd)) /\ rnd' = rnd
View == <<M, S, D>>
Emit == PrintT(<<"H", ToJson(hist')>>)

(* RICH (EnvMapGenRich.cfg): breadth-first search of ONE step from populated start states.  Registers 1 and 2
   hold every pair of non-empty key sets K1, K2 (disjoint, nested, overlapping, equal), with equal values (pat 1),
   with values whose joins reach top and whose meets shrink (pat 2), or with values on which widening differs from
   join and narrowing from meet (pat 3, intervals); register 3 is top or a copy of register 1 (structural sharing).  hist starts as the sequence of set/add events that builds the start state, so that every
   printed history is a behaviour of EnvMap from Init (the validator re-derives the state from Init anyway). *)
RichVal(r, k, pat) ==
  IF Lat = "itv" THEN (IF pat = 1 THEN <<0, 0>>
                       ELSE IF pat = 2 THEN (IF r = 1 THEN <<0, Inf>> ELSE IF k % 2 = 0 THEN <<-Inf, 0>> ELSE <<0, 0>>)
                       ELSE (IF r = 1 THEN (IF k % 2 = 0 THEN <<0, 0>> ELSE <<-1, Inf>>)     \* pat 3: widening # join and
                             ELSE (IF k % 2 = 0 THEN <<-1, 0>> ELSE <<0, 0>>)))             \* narrowing # meet
  ELSE (IF pat = 1 \/ r = 1 THEN "T" ELSE IF k % 2 = 0 THEN "F" ELSE "T")
FillEvents(r, ks, pat) ==
  [i \in 1..Len(ks) |-> IF GenFam = "map" THEN Ev("set", r, 0, 0, ks[i], RichVal(r, ks[i], pat), E0, E0)
                        ELSE Ev(IF GenFam = "pset" THEN "padd" ELSE "dadd", r, 0, 0, ks[i], VTop, E0, E0)]
CopyEv == Ev(IF GenFam = "map" THEN "copy" ELSE IF GenFam = "pset" THEN "pcopy" ELSE "dcopy", 3, 1, 0, 0, VTop, E0, E0)
Filled(r, K, pat) == [bot |-> FALSE, m |-> [k \in Key |-> IF k \in K THEN RichVal(r, k, pat) ELSE VTop]]
RichInit ==
  \E K1, K2 \in (SUBSET Key) \ {{}}, pat \in 1..3, share \in BOOLEAN :
     /\ (share => pat = 2 \/ GenFam # "map")
     /\ (pat = 3 => GenFam = "map" /\ Lat = "itv")
     /\ (pat = 2 => GenFam = "map")
     /\ hist = FillEvents(1, SortedSeq(K1), pat) \o FillEvents(2, SortedSeq(K2), pat) \o (IF share THEN <<CopyEv>> ELSE <<>>)
     /\ rnd = Len(hist)
     /\ IF GenFam = "map"
        THEN /\ M = [r \in Reg |-> IF r = 1 \/ (r = 3 /\ share) THEN Filled(1, K1, pat) ELSE IF r = 2 THEN Filled(2, K2, pat) ELSE MTop]
             /\ S = [r \in Reg |-> {}] /\ D = [r \in Reg |-> DSet({})]
        ELSE IF GenFam = "pset"
        THEN /\ S = [r \in Reg |-> IF r = 1 \/ (r = 3 /\ share) THEN K1 ELSE IF r = 2 THEN K2 ELSE {}]
             /\ M = [r \in Reg |-> MTop] /\ D = [r \in Reg |-> DSet({})]
        ELSE /\ D = [r \in Reg |-> IF r = 1 \/ (r = 3 /\ share) THEN DSet(K1) ELSE IF r = 2 THEN DSet(K2) ELSE DSet({})]
             /\ M = [r \in Reg |-> MTop] /\ S = [r \in Reg |-> {}]
(* the binary operations (and copy) are taken from EVERY start state; the other kinds from 1 in SelMod of them *)
BinKinds == {"join", "meet", "widen", "narrow", "copy", "punion", "punioneq", "pinter", "pintereq", "pcopy",
             "dunion", "dinter", "ddiff", "dcopy"}
RichNext == /\ Len(hist) = rnd
            /\ \/ \E kd \in FamKinds \cap BinKinds : OfKind(kd)
               \/ /\ (IF SelMod = 1 THEN TRUE ELSE (HistHash(hist) + SelSeed) % SelMod = 0)
                  /\ \E kd \in FamKinds \ BinKinds : OfKind(kd)
            /\ rnd' = rnd
(* results of binary operations go to register 3 (which register receives a result is irrelevant to the containers) *)
RichEmit == LET e == hist'[Len(hist')]
            IN /\ (e[1] \in {"join", "meet", "widen", "narrow", "punion", "pinter", "dunion", "dinter", "ddiff"} => e[2] = 3)
               /\ PrintT(<<"H", ToJson(hist')>>)

(* weighted kind profiles for simulation *)
Profile ==
  CASE IOEnv.C19_PROFILE = "mixed" /\ GenFam = "map" ->
         <<"set", "set", "set", "set", "forget", "joinkey", "join", "join", "meet", "meet", "widen", "narrow",
           "rename", "project", "copy", "mtop", "set", "set">>
    [] IOEnv.C19_PROFILE = "dense" /\ GenFam = "map" ->   \* large maps: second code path of project(), deep merges
         <<"set", "set", "set", "set", "set", "set", "set", "set", "set", "set", "join", "meet", "widen", "narrow",
           "project", "project", "project", "copy", "rename", "forget", "joinkey">>
    [] GenFam = "pset" ->
         <<"padd", "padd", "padd", "padd", "prem", "pplus", "pminus", "punion", "punion", "punioneq", "pinter", "pinter",
           "pintereq", "pclear", "pcopy", "psingle">>
    [] GenFam = "dset" ->
         <<"dtop", "dbot", "dsingle", "dadd", "dadd", "dadd", "dadd", "dadd", "drem", "dunion", "dunion", "dinter", "dinter",
           "ddiff", "ddiff", "drename", "dcopy">>
(* One random event per step: kind from the profile, every parameter drawn independently.
   When the contract Pre of the drawn event does not hold in the current state (e.g. a rename
   whose target is constrained) a forget of the drawn key is taken instead, so that a
   behaviour always reaches MaxLen steps.  In the dense profile only proper values
   (neither top nor bottom) are set, so that environments really grow. *)
SimVals == IF IOEnv.C19_PROFILE = "dense" THEN Vals \ {VBot, VTop} ELSE Vals
EventOf(kd, r, a, b, k, v, p, f) ==
  CASE kd \in {"set", "joinkey"} -> Ev(kd, r, 0, 0, k, v, E0, E0)
    [] kd \in {"forget", "padd", "prem", "psingle", "dsingle", "dadd", "drem"} -> Ev(kd, r, 0, 0, k, VTop, E0, E0)
    [] kd \in {"join", "meet", "widen", "narrow", "punion", "pinter", "dunion", "dinter", "ddiff"} -> Ev(kd, r, a, b, 0, VTop, E0, E0)
    [] kd \in {"punioneq", "pintereq"} -> Ev(kd, r, 0, b, 0, VTop, E0, E0)
    [] kd \in {"copy", "pcopy", "dcopy"} -> Ev(kd, r, a, 0, 0, VTop, E0, E0)
    [] kd \in {"pplus", "pminus"} -> Ev(kd, r, a, 0, k, VTop, E0, E0)
    [] kd \in {"rename", "drename"} -> Ev(kd, r, 0, 0, 0, VTop, p[1], p[2])
    [] kd = "project" -> Ev(kd, r, 0, 0, 0, VTop, f, E0)
    [] OTHER -> Ev(kd, r, 0, 0, 0, VTop, E0, E0)
Fallback(r, k) == Ev(IF GenFam = "map" THEN "forget" ELSE IF GenFam = "pset" THEN "prem" ELSE "dadd", r, 0, 0, k, VTop, E0, E0)
(* the draw lives in the state, so that one and the same event is tested against Pre and taken *)
RegW == IF IOEnv.C19_PROFILE = "dense" THEN <<1, 1, 1, 1, 2, 3>> ELSE <<1, 2, 3>>   \* dense: register 1 is written most often
(* (an operator WITH a parameter: TLC evaluates a parameterless constant-level definition only once) *)
Draw(n) == <<Profile[RandomElement(1..Len(Profile))], RegW[RandomElement(1..Len(RegW))], RandomElement(Reg), RandomElement(Reg),
          RandomElement(Key), RandomElement(SimVals), RandomElement(RenPairs), RandomElement(ProjSeqs)>>
SimInit == Init /\ rnd = Draw(0)
SimNext ==
  /\ Len(hist) < MaxLen
  /\ LET e1 == EventOf(rnd[1], rnd[2], rnd[3], rnd[4], rnd[5], rnd[6], rnd[7], rnd[8])
         e == IF Pre(e1) THEN e1 ELSE Fallback(rnd[2], rnd[5])
     IN Do(e)
  /\ rnd' = Draw(Len(hist))
SimEmit == Len(hist') < MaxLen \/ PrintT(<<"H", ToJson(hist')>>)
============================================================================
