INIT SimInit
NEXT SimNext
ACTION_CONSTRAINT SimEmit
INVARIANT TypeOK
CHECK_DEADLOCK FALSE
