// C08 adaptor: builds crab's scalar abstractions from JSON descriptions, applies
// their public operations and writes DESCRIPTIONS of operands and results as
// JSON records (one per job). There is no oracle in here: what a description
// means (gamma) and what an operation must guarantee is written in
// spec/Scalars.tla and evaluated by TLC (spec/ScalarJudge.tla).
//
// usage: scalar_runner <jobs.json> <out.ndjson>
//   job  = {"id":n,"k":KIND,"len":L,"a":EXPR[,"b":EXPR][,"ops":[names]]}
//   EXPR = leaf description (see mk() of each kind) | {"op":name,"a":EXPR[,"b":EXPR]}
//          (an operation of the same kind whose result is of that kind: this is
//          how results are fed back as operands -- the real object is reused)
//   KIND = zi (interval<z_number>) qi (interval<q_number>) bd (bound<z_number>)
//          cg (congruence) ic (interval_congruence) sg (sign) ct (constant)
//          sr (small_range) bv (boolean_value) di (dis_interval<z_number>)
//   record = {"id","t":"bin"|"un","k","len","big","a":D[,"b":D],
//             "ops":[{"op","rk":kind of result,"big":0|1,"r":D} | {"op","err":1}]}
//   numbers beyond +-LIMIT never travel as JSON numbers: the description gets
//   "big":1 and the specification makes no claim about it.
// CRAB_ERROR calls exit(1): jobs run in a forked child; an operation that ends
// the child is recorded as {"op":..,"err":1} (no claim) and the child restarted.
#include "vjson.hpp"

#include <crab/config.h>
#include <crab/domains/boolean.hpp>
#include <crab/domains/congruence.hpp>
#include <crab/domains/constant.hpp>
#include <crab/domains/dis_interval.hpp>
#include <crab/domains/interval.hpp>
#include <crab/domains/interval_congruence.hpp>
#include <crab/domains/sign.hpp>
#include <crab/domains/small_range.hpp>
#include <crab/fixpoint/thresholds.hpp>
#include <crab/numbers/bignums.hpp>

#include <cstdio>
#include <cstring>
#include <set>
#include <sys/mman.h>
#include <sys/wait.h>
#include <unistd.h>

using ikos::q_number;
using ikos::z_number;
typedef ikos::bound<z_number> z_bound;
typedef ikos::interval<z_number> z_interval;
typedef ikos::bound<q_number> q_bound;
typedef ikos::interval<q_number> q_interval;
typedef ikos::congruence<z_number> z_congruence;
typedef crab::domains::interval_congruence<z_number> z_ic;
typedef crab::domains::sign<z_number> z_sign;
typedef crab::domains::constant<z_number> z_constant;
typedef crab::domains::small_range small_range;
typedef crab::domains::boolean_value boolean_value;
typedef crab::domains::dis_interval<z_number> z_dis_interval;

// ---- output of descriptions ------------------------------------------------
struct Out {
  std::string s;
  bool big = false;
  long limit = 10000; // 3*limit squared must stay below 2^31 (TLC integers)
  Out &operator<<(const std::string &t) { s += t; return *this; }
  Out &operator<<(const char *t) { s += t; return *this; }
  Out &flag(bool b) { s += b ? "1" : "0"; return *this; }
  Out &numstr(const std::string &t) { // decimal text of an integer
    size_t digits = t.size() - (t[0] == '-' ? 1 : 0);
    if (digits > 9 || std::labs(std::atol(t.c_str())) > limit) {
      big = true;
      s += "0";
    } else
      s += t;
    return *this;
  }
  Out &num(const z_number &n) { return numstr(n.get_str()); }
  Out &num(long n) { return numstr(std::to_string(n)); }
};

struct Entry { // result of an operation that is not of the operand's kind
  std::string rk;
  Out o;
};

static z_number Z(const vj::Value &v) { return z_number(v.s); }
static const int WIN = 12; // membership samples exported by "query"

// ---- interval<z_number> ----------------------------------------------------
static z_interval mk_zi(const vj::Value &v) {
  if (v.has("b") && v["b"].i() == 1) return z_interval::bottom();
  z_bound lb = v["lb"].size() ? z_bound(Z(v["lb"][0])) : z_bound::minus_infinity();
  z_bound ub = v["ub"].size() ? z_bound(Z(v["ub"][0])) : z_bound::plus_infinity();
  return z_interval(lb, ub);
}
static void d_zi(const z_interval &x, Out &o) {
  o << "{\"b\":";
  o.flag(x.is_bottom());
  o << ",\"lb\":[";
  if (x.lb().number()) o.num(*x.lb().number());
  o << "],\"ub\":[";
  if (x.ub().number()) o.num(*x.ub().number());
  o << "],\"li\":" << (x.lb().is_minus_infinity() ? "-1" : x.lb().is_plus_infinity() ? "1" : "0");
  o << ",\"ui\":" << (x.ub().is_minus_infinity() ? "-1" : x.ub().is_plus_infinity() ? "1" : "0") << "}";
}
static crab::thresholds<z_number> &the_thresholds() {
  static crab::thresholds<z_number> ts;
  static bool init = false;
  if (!init) {
    ts.add(z_bound(z_number(-2)));
    ts.add(z_bound(z_number(3)));
    init = true;
  }
  return ts;
}
static void d_sg(const z_sign &x, Out &o);
static void ans(Entry &e, bool v) {
  e.rk = "ans";
  e.o << "{\"v\":";
  e.o.flag(v);
  e.o << "}";
}
static void opt(Entry &e, const boost::optional<z_number> &n) {
  e.rk = "opt";
  e.o << "{\"n\":[";
  if (n) e.o.num(*n);
  e.o << "]}";
}

struct KZi {
  typedef z_interval T;
  static const char *name() { return "zi"; }
  static T mk(const vj::Value &v) { return mk_zi(v); }
  static void d(const T &x, Out &o) { d_zi(x, o); }
  static std::vector<std::string> binops() {
    return {"add", "sub", "mul", "sdiv", "udiv", "srem", "urem", "and", "or", "xor", "shl", "lshr",
            "ashr", "join", "meet", "widen", "narrow", "wth", "trim", "leq", "eq"};
  }
  static std::vector<std::string> unops() { return {"neg", "lhl", "uhl", "tosign", "query"}; }
  static int bin(const std::string &op, const T &a, const T &b, T &r, Entry &e) {
    if (op == "add") r = a + b;
    else if (op == "sub") r = a - b;
    else if (op == "mul") r = a * b;
    else if (op == "sdiv") r = a / b;
    else if (op == "udiv") r = a.UDiv(b);
    else if (op == "srem") r = a.SRem(b);
    else if (op == "urem") r = a.URem(b);
    else if (op == "and") r = a.And(b);
    else if (op == "or") r = a.Or(b);
    else if (op == "xor") r = a.Xor(b);
    else if (op == "shl") r = a.Shl(b);
    else if (op == "lshr") r = a.LShr(b);
    else if (op == "ashr") r = a.AShr(b);
    else if (op == "join") r = a | b;
    else if (op == "meet") r = a & b;
    else if (op == "widen") r = a || b;
    else if (op == "narrow") r = a && b;
    else if (op == "wth") r = a.widening_thresholds(b, the_thresholds());
    else if (op == "trim") r = ikos::linear_interval_solver_impl::trim_interval(a, b);
    else if (op == "leq") { ans(e, a <= b); return 2; }
    else if (op == "eq") { ans(e, a == b); return 2; }
    else return 0;
    return 1;
  }
  static int un(const std::string &op, const T &a, T &r, Entry &e) {
    if (op == "neg") r = -a;
    else if (op == "lhl") r = ikos::linear_interval_solver_impl::lower_half_line(a, true);
    else if (op == "uhl") r = ikos::linear_interval_solver_impl::upper_half_line(a, true);
    else if (op == "tosign") {
      e.rk = "sg";
      d_sg(z_sign::top().from_interval(a), e.o);
      return 2;
    } else if (op == "query") {
      e.rk = "q";
      e.o << "{\"top\":";
      e.o.flag(a.is_top());
      e.o << ",\"bot\":";
      e.o.flag(a.is_bottom());
      e.o << ",\"sing\":[";
      if (a.singleton()) e.o.num(*a.singleton());
      e.o << "],\"mem\":[";
      for (int n = -WIN; n <= WIN; ++n) e.o << (n > -WIN ? "," : "") << (a[z_number(n)] ? "1" : "0");
      e.o << "]}";
      return 2;
    } else return 0;
    return 1;
  }
};

// ---- bound<z_number> -------------------------------------------------------
struct KBd {
  typedef z_bound T;
  static const char *name() { return "bd"; }
  static T mk(const vj::Value &v) {
    if (v.has("inf")) return v["inf"].i() > 0 ? z_bound::plus_infinity() : z_bound::minus_infinity();
    return z_bound(Z(v["n"]));
  }
  static void d(const T &x, Out &o) {
    o << "{\"s\":" << (x.is_plus_infinity() ? "1" : x.is_minus_infinity() ? "-1" : "0") << ",\"fin\":";
    o.flag(x.is_finite());
    o << ",\"n\":";
    if (x.number()) o.num(*x.number());
    else o << "0";
    o << "}";
  }
  static std::vector<std::string> binops() {
    return {"add", "sub", "mul", "div", "min", "max", "le", "lt", "ge", "gt", "eq", "ne"};
  }
  static std::vector<std::string> unops() { return {"neg", "abs"}; }
  static int bin(const std::string &op, const T &a, const T &b, T &r, Entry &e) {
    if (op == "add") r = a + b;
    else if (op == "sub") r = a - b;
    else if (op == "mul") r = a * b;
    else if (op == "div") r = a / b;
    else if (op == "min") r = T::min(a, b);
    else if (op == "max") r = T::max(a, b);
    else if (op == "le") { ans(e, a <= b); return 2; }
    else if (op == "lt") { ans(e, a < b); return 2; }
    else if (op == "ge") { ans(e, a >= b); return 2; }
    else if (op == "gt") { ans(e, a > b); return 2; }
    else if (op == "eq") { ans(e, a == b); return 2; }
    else if (op == "ne") { ans(e, a != b); return 2; }
    else return 0;
    return 1;
  }
  static int un(const std::string &op, const T &a, T &r, Entry &e) {
    if (op == "neg") r = -a;
    else if (op == "abs") r = a.abs();
    else return 0;
    return 1;
  }
};

// ---- interval<q_number> ----------------------------------------------------
static q_number Q(const vj::Value &v) { return q_number(Z(v[0]), Z(v[1])); }
static void d_q(const q_number &q, Out &o) { // "p/q" or "p", split by plain string slicing
  std::string t = q.get_str();
  size_t k = t.find('/');
  o.numstr(k == std::string::npos ? t : t.substr(0, k));
  o << ",";
  o.numstr(k == std::string::npos ? std::string("1") : t.substr(k + 1));
}
struct KQi {
  typedef q_interval T;
  static const char *name() { return "qi"; }
  static T mk(const vj::Value &v) {
    if (v.has("b") && v["b"].i() == 1) return T::bottom();
    q_bound lb = v["lb"].size() ? q_bound(Q(v["lb"])) : q_bound::minus_infinity();
    q_bound ub = v["ub"].size() ? q_bound(Q(v["ub"])) : q_bound::plus_infinity();
    return T(lb, ub);
  }
  static void d(const T &x, Out &o) {
    o.limit = 500;
    o << "{\"b\":";
    o.flag(x.is_bottom());
    o << ",\"lb\":[";
    if (x.lb().number()) d_q(*x.lb().number(), o);
    o << "],\"ub\":[";
    if (x.ub().number()) d_q(*x.ub().number(), o);
    o << "]}";
  }
  static std::vector<std::string> binops() {
    return {"add", "sub", "mul", "div", "join", "meet", "widen", "narrow", "leq", "eq"};
  }
  static std::vector<std::string> unops() { return {"neg", "query"}; }
  static int bin(const std::string &op, const T &a, const T &b, T &r, Entry &e) {
    if (op == "add") r = a + b;
    else if (op == "sub") r = a - b;
    else if (op == "mul") r = a * b;
    else if (op == "div") r = a / b;
    else if (op == "join") r = a | b;
    else if (op == "meet") r = a & b;
    else if (op == "widen") r = a || b;
    else if (op == "narrow") r = a && b;
    else if (op == "leq") { ans(e, a <= b); return 2; }
    else if (op == "eq") { ans(e, a == b); return 2; }
    else return 0;
    return 1;
  }
  static int un(const std::string &op, const T &a, T &r, Entry &e) {
    if (op == "neg") r = -a;
    else if (op == "query") {
      e.rk = "q";
      e.o << "{\"top\":";
      e.o.flag(a.is_top());
      e.o << ",\"bot\":";
      e.o.flag(a.is_bottom());
      e.o << "}";
      return 2;
    } else return 0;
    return 1;
  }
};

// ---- congruence<z_number> --------------------------------------------------
// aZ+b has no public constructor: it is obtained from public operations
// ("via":"join" : b | b+a ; "via":"arith": a * top + b). The exported
// description is read back from the object, so a surprising construction only
// changes which element is tested.
static z_congruence mk_cg(const vj::Value &v) {
  if (v.has("b") && v["b"].i() == 1) return z_congruence::bottom();
  z_number m = Z(v["m"]), r = Z(v["r"]);
  if (m == 0) return z_congruence(r);
  if (v.gets("via", "join") == "arith") return z_congruence(m) * z_congruence::top() + z_congruence(r);
  if (m == 1) return z_congruence::top();
  return z_congruence(r) | z_congruence(r + m);
}
static void d_cg(const z_congruence &x, Out &o) {
  o << "{\"b\":";
  o.flag(x.is_bottom());
  o << ",\"m\":";
  o.num(x.get_modulo());
  o << ",\"r\":";
  o.num(x.get_remainder());
  o << "}";
}
struct KCg {
  typedef z_congruence T;
  static const char *name() { return "cg"; }
  static T mk(const vj::Value &v) { return mk_cg(v); }
  static void d(const T &x, Out &o) { d_cg(x, o); }
  static std::vector<std::string> binops() {
    return {"add", "sub", "mul", "sdiv", "udiv", "srem", "urem", "and", "or", "xor", "shl", "lshr",
            "ashr", "join", "meet", "widen", "narrow", "leq", "eq"};
  }
  static std::vector<std::string> unops() { return {"neg", "query"}; }
  static int bin(const std::string &op, const T &a, const T &b, T &r, Entry &e) {
    if (op == "add") r = a + b;
    else if (op == "sub") r = a - b;
    else if (op == "mul") r = a * b;
    else if (op == "sdiv") r = a.SDiv(b);
    else if (op == "udiv") r = a.UDiv(b);
    else if (op == "srem") r = a.SRem(b);
    else if (op == "urem") r = a.URem(b);
    else if (op == "and") r = a.And(b);
    else if (op == "or") r = a.Or(b);
    else if (op == "xor") r = a.Xor(b);
    else if (op == "shl") r = a.Shl(b);
    else if (op == "lshr") r = a.LShr(b);
    else if (op == "ashr") r = a.AShr(b);
    else if (op == "join") r = a | b;
    else if (op == "meet") r = a & b;
    else if (op == "widen") r = a || b;
    else if (op == "narrow") r = a && b;
    else if (op == "leq") { ans(e, a <= b); return 2; }
    else if (op == "eq") { ans(e, a == b); return 2; }
    else return 0;
    return 1;
  }
  static int un(const std::string &op, const T &a, T &r, Entry &e) {
    if (op == "neg") r = -a;
    else if (op == "query") {
      e.rk = "q";
      e.o << "{\"top\":";
      e.o.flag(a.is_top());
      e.o << ",\"bot\":";
      e.o.flag(a.is_bottom());
      e.o << ",\"sing\":[";
      if (a.singleton()) e.o.num(*a.singleton());
      e.o << "]}";
      return 2;
    } else return 0;
    return 1;
  }
};

// ---- interval_congruence<z_number> -------------------------------------------
struct KIc {
  typedef z_ic T;
  static const char *name() { return "ic"; }
  static T mk(const vj::Value &v) {
    if (v.has("b") && v["b"].i() == 1) return T::bottom();
    return T(mk_zi(v["i"]), mk_cg(v["c"]));
  }
  static void d(const T &x, Out &o) {
    T y(x); // is_bottom() is not const
    o << "{\"bot\":";
    o.flag(y.is_bottom());
    o << ",\"i\":";
    d_zi(x.first(), o);
    o << ",\"c\":";
    d_cg(x.second(), o);
    o << "}";
  }
  static std::vector<std::string> binops() {
    return {"add", "sub", "mul", "sdiv", "udiv", "srem", "urem", "and", "or", "xor", "shl", "lshr",
            "ashr", "join", "meet"};
  }
  static std::vector<std::string> unops() { return {"query"}; }
  static int bin(const std::string &op, const T &a, const T &b, T &r, Entry &e) {
    if (op == "add") r = a + b;
    else if (op == "sub") r = a - b;
    else if (op == "mul") r = a * b;
    else if (op == "sdiv") r = a.SDiv(b);
    else if (op == "udiv") r = a.UDiv(b);
    else if (op == "srem") r = a.SRem(b);
    else if (op == "urem") r = a.URem(b);
    else if (op == "and") r = a.And(b);
    else if (op == "or") r = a.Or(b);
    else if (op == "xor") r = a.Xor(b);
    else if (op == "shl") r = a.Shl(b);
    else if (op == "lshr") r = a.LShr(b);
    else if (op == "ashr") r = a.AShr(b);
    else if (op == "join") r = a | b;
    else if (op == "meet") r = a & b;
    else return 0;
    return 1;
  }
  static int un(const std::string &op, const T &a, T &r, Entry &e) {
    if (op == "query") {
      T y(a);
      e.rk = "q";
      e.o << "{\"top\":";
      e.o.flag(y.is_top());
      e.o << ",\"bot\":";
      e.o.flag(y.is_bottom());
      e.o << "}";
      return 2;
    }
    return 0;
  }
};

// ---- sign<z_number> ----------------------------------------------------------
static void d_sg(const z_sign &x, Out &o) {
  o << "{\"bot\":";
  o.flag(x.is_bottom());
  o << ",\"top\":";
  o.flag(x.is_top());
  o << ",\"eqz\":";
  o.flag(x.equal_zero());
  o << ",\"ltz\":";
  o.flag(x.less_than_zero());
  o << ",\"gtz\":";
  o.flag(x.greater_than_zero());
  o << ",\"lez\":";
  o.flag(x.less_or_equal_than_zero());
  o << ",\"gez\":";
  o.flag(x.greater_or_equal_than_zero());
  o << ",\"nez\":";
  o.flag(x.not_equal_zero());
  o << "}";
}
struct KSg {
  typedef z_sign T;
  static const char *name() { return "sg"; }
  static T mk(const vj::Value &v) {
    if (v.has("n")) return T(Z(v["n"]));
    std::string s = v["s"].str();
    if (s == "bot") return T::bottom();
    if (s == "top") return T::top();
    if (s == "eqz") return T::mk_equal_zero();
    if (s == "ltz") return T::mk_less_than_zero();
    if (s == "gtz") return T::mk_greater_than_zero();
    if (s == "lez") return T::mk_less_or_equal_than_zero();
    if (s == "gez") return T::mk_greater_or_equal_than_zero();
    if (s == "nez") return T::mk_not_equal_zero();
    std::exit(4);
  }
  static void d(const T &x, Out &o) { d_sg(x, o); }
  static std::vector<std::string> binops() {
    return {"add", "sub", "mul", "sdiv", "udiv", "srem", "urem", "and", "or", "xor", "shl", "lshr",
            "ashr", "join", "meet", "leq", "eq"};
  }
  static std::vector<std::string> unops() { return {"tointerval"}; }
  static int bin(const std::string &op, const T &a, const T &b, T &r, Entry &e) {
    if (op == "add") r = a + b;
    else if (op == "sub") r = a - b;
    else if (op == "mul") r = a * b;
    else if (op == "sdiv") r = a / b;
    else if (op == "udiv") r = a.UDiv(b);
    else if (op == "srem") r = a.SRem(b);
    else if (op == "urem") r = a.URem(b);
    else if (op == "and") r = a.And(b);
    else if (op == "or") r = a.Or(b);
    else if (op == "xor") r = a.Xor(b);
    else if (op == "shl") r = a.Shl(b);
    else if (op == "lshr") r = a.LShr(b);
    else if (op == "ashr") r = a.AShr(b);
    else if (op == "join") r = a | b;
    else if (op == "meet") r = a & b;
    else if (op == "leq") { ans(e, a <= b); return 2; }
    else if (op == "eq") { ans(e, a == b); return 2; }
    else return 0;
    return 1;
  }
  static int un(const std::string &op, const T &a, T &r, Entry &e) {
    if (op == "tointerval") {
      e.rk = "zi";
      d_zi(a.to_interval(), e.o);
      return 2;
    }
    return 0;
  }
};

// ---- constant<z_number> --------------------------------------------------------
struct KCt {
  typedef z_constant T;
  static const char *name() { return "ct"; }
  static T mk(const vj::Value &v) {
    if (v.has("c")) return T(Z(v["c"]));
    return v["s"].str() == "bot" ? T::bottom() : T::top();
  }
  static void d(const T &x, Out &o) {
    o << "{\"bot\":";
    o.flag(x.is_bottom());
    o << ",\"top\":";
    o.flag(x.is_top());
    o << ",\"c\":[";
    if (x.is_constant()) o.num(x.get_constant());
    o << "]}";
  }
  static std::vector<std::string> binops() {
    return {"add", "sub", "mul", "sdiv", "udiv", "srem", "urem", "and", "or", "xor", "shl", "lshr",
            "ashr", "join", "meet", "widen", "narrow", "leq", "eq"};
  }
  static std::vector<std::string> unops() { return {}; }
  static int bin(const std::string &op, const T &a, const T &b, T &r, Entry &e) {
    if (op == "add") r = a.Add(b);
    else if (op == "sub") r = a.Sub(b);
    else if (op == "mul") r = a.Mul(b);
    else if (op == "sdiv") r = a.SDiv(b);
    else if (op == "udiv") r = a.UDiv(b);
    else if (op == "srem") r = a.SRem(b);
    else if (op == "urem") r = a.URem(b);
    else if (op == "and") r = a.BitwiseAnd(b);
    else if (op == "or") r = a.BitwiseOr(b);
    else if (op == "xor") r = a.BitwiseXor(b);
    else if (op == "shl") r = a.BitwiseShl(b);
    else if (op == "lshr") r = a.BitwiseLShr(b);
    else if (op == "ashr") r = a.BitwiseAShr(b);
    else if (op == "join") r = a | b;
    else if (op == "meet") r = a & b;
    else if (op == "widen") r = a || b;
    else if (op == "narrow") r = a && b;
    else if (op == "leq") { ans(e, a <= b); return 2; }
    else if (op == "eq") { ans(e, a == b); return 2; }
    else return 0;
    return 1;
  }
  static int un(const std::string &, const T &, T &, Entry &) { return 0; }
};

// ---- small_range ---------------------------------------------------------------
struct VarIdx {
  ikos::index_t i;
  ikos::index_t index() const { return i; }
};
struct KSr {
  typedef small_range T;
  static const char *name() { return "sr"; }
  static T one(long v) {
    T x = T::zero();
    x.increment(VarIdx{(ikos::index_t)v});
    return x;
  }
  static T mk(const vj::Value &v) {
    std::string s = v["s"].str();
    if (s == "bot") return T::bottom();
    if (s == "top") return T::top();
    if (s == "zero") return T::zero();
    if (s == "om") return T::oneOrMore();
    if (s == "one") return one(v["v"].i());
    if (s == "zo") return T::zero() | one(v["v"].i());
    std::exit(4);
  }
  // the only public observation of the variable is the printed form: it is cut
  // into its two parts by string slicing, e.g. "[0,1](3)" -> k="[0,1]", v=[3]
  static void d(const T &x, Out &o) {
    crab::crab_string_os os;
    x.write(os);
    std::string t = os.str();
    size_t p = t.find('(');
    o << "{\"k\":" << vj::q(p == std::string::npos ? t : t.substr(0, p)) << ",\"v\":[";
    if (p != std::string::npos) o.numstr(t.substr(p + 1, t.size() - p - 2));
    o << "],\"bot\":";
    o.flag(x.is_bottom());
    o << ",\"top\":";
    o.flag(x.is_top());
    o << ",\"zero\":";
    o.flag(x.is_zero());
    o << ",\"one\":";
    o.flag(x.is_one());
    o << "}";
  }
  static std::vector<std::string> binops() { return {"join", "meet", "widen", "narrow", "leq", "eq"}; }
  static std::vector<std::string> unops() { return {"inc1", "inc2", "inc3"}; }
  static int bin(const std::string &op, const T &a, const T &b, T &r, Entry &e) {
    if (op == "join") r = a | b;
    else if (op == "meet") r = a & b;
    else if (op == "widen") r = a || b;
    else if (op == "narrow") r = a && b;
    else if (op == "leq") { ans(e, a <= b); return 2; }
    else if (op == "eq") { ans(e, a == b); return 2; }
    else return 0;
    return 1;
  }
  static int un(const std::string &op, const T &a, T &r, Entry &e) {
    if (op.size() == 4 && op.compare(0, 3, "inc") == 0) {
      T x(a);
      r = x.increment(VarIdx{(ikos::index_t)(op[3] - '0')});
      return 1;
    }
    return 0;
  }
};

// ---- boolean_value ---------------------------------------------------------------
struct KBv {
  typedef boolean_value T;
  static const char *name() { return "bv"; }
  static T mk(const vj::Value &v) {
    std::string s = v["s"].str();
    if (s == "bot") return T::bottom();
    if (s == "top") return T::top();
    if (s == "t") return T::get_true();
    return T::get_false();
  }
  static void d(const T &x, Out &o) {
    o << "{\"bot\":";
    o.flag(x.is_bottom());
    o << ",\"top\":";
    o.flag(x.is_top());
    o << ",\"t\":";
    o.flag(x.is_true());
    o << ",\"f\":";
    o.flag(x.is_false());
    o << "}";
  }
  static std::vector<std::string> binops() {
    return {"band", "bor", "bxor", "join", "meet", "widen", "narrow", "leq", "eq"};
  }
  static std::vector<std::string> unops() { return {"not"}; }
  static int bin(const std::string &op, const T &a, const T &b, T &r, Entry &e) {
    if (op == "band") r = a.And(b);
    else if (op == "bor") r = a.Or(b);
    else if (op == "bxor") r = a.Xor(b);
    else if (op == "join") r = a | b;
    else if (op == "meet") r = a & b;
    else if (op == "widen") r = a || b;
    else if (op == "narrow") r = a && b;
    else if (op == "leq") { ans(e, a <= b); return 2; }
    else if (op == "eq") { ans(e, a == b); return 2; }
    else return 0;
    return 1;
  }
  static int un(const std::string &op, const T &a, T &r, Entry &e) {
    if (op == "not") { r = a.Negate(); return 1; }
    return 0;
  }
};

// ---- dis_interval<z_number> ---------------------------------------------------------
struct KDi {
  typedef z_dis_interval T;
  static const char *name() { return "di"; }
  static T mk(const vj::Value &v) {
    if (v.has("s")) return v["s"].str() == "bot" ? T::bottom() : T::top();
    T x = T::bottom();
    for (size_t k = 0; k < v["l"].size(); ++k) x = x | T(mk_zi(v["l"][k]));
    return x;
  }
  static void d(const T &x, Out &o) {
    o << "{\"s\":" << (x.is_bottom() ? "\"bot\"" : x.is_top() ? "\"top\"" : "\"fin\"") << ",\"l\":[";
    if (x.is_finite()) {
      bool first = true;
      for (auto it = x.begin(); it != x.end(); ++it) {
        o << (first ? "" : ",");
        d_zi(*it, o);
        first = false;
      }
    }
    o << "]}";
  }
  static std::vector<std::string> binops() {
    return {"add", "sub", "mul", "sdiv", "udiv", "srem", "urem", "and", "or", "xor", "shl", "lshr",
            "ashr", "join", "meet", "widen", "narrow", "wth", "trim", "leq", "eq"};
  }
  static std::vector<std::string> unops() { return {"neg", "lhl", "uhl", "approx", "sing", "query"}; }
  static int bin(const std::string &op, const T &a, const T &b, T &r, Entry &e) {
    if (op == "add") r = a + b;
    else if (op == "sub") r = a - b;
    else if (op == "mul") r = a * b;
    else if (op == "sdiv") { T x(a); r = x / b; }
    else if (op == "udiv") r = a.UDiv(b);
    else if (op == "srem") r = a.SRem(b);
    else if (op == "urem") r = a.URem(b);
    else if (op == "and") r = a.And(b);
    else if (op == "or") r = a.Or(b);
    else if (op == "xor") r = a.Xor(b);
    else if (op == "shl") r = a.Shl(b);
    else if (op == "lshr") r = a.LShr(b);
    else if (op == "ashr") r = a.AShr(b);
    else if (op == "join") r = a | b;
    else if (op == "meet") r = a & b;
    else if (op == "widen") r = a || b;
    else if (op == "narrow") r = a && b;
    else if (op == "wth") r = a.widening_thresholds(b, the_thresholds());
    else if (op == "trim") r = ikos::linear_interval_solver_impl::trim_interval(a, b);
    else if (op == "leq") { ans(e, a <= b); return 2; }
    else if (op == "eq") { ans(e, a == b); return 2; }
    else return 0;
    return 1;
  }
  static int un(const std::string &op, const T &a, T &r, Entry &e) {
    if (op == "neg") r = -a;
    else if (op == "lhl") r = ikos::linear_interval_solver_impl::lower_half_line(a, true);
    else if (op == "uhl") r = ikos::linear_interval_solver_impl::upper_half_line(a, true);
    else if (op == "approx") { e.rk = "zi"; d_zi(a.approx(), e.o); return 2; }
    else if (op == "sing") { opt(e, a.singleton()); return 2; }
    else if (op == "query") {
      e.rk = "q";
      e.o << "{\"top\":";
      e.o.flag(a.is_top());
      e.o << ",\"bot\":";
      e.o.flag(a.is_bottom());
      e.o << "}";
      return 2;
    } else return 0;
    return 1;
  }
};

// ---- generic driver ---------------------------------------------------------------
struct Shared {
  volatile long job;
  volatile long op; // -1: evaluating the operands, k >= 0: k-th operation
};
static Shared *g_sh;

template <class K> static typename K::T eval(const vj::Value &e) {
  typedef typename K::T T;
  if (!e.has("op")) return K::mk(e);
  T a = eval<K>(e["a"]);
  Entry dummy;
  if (e.has("b")) {
    T b = eval<K>(e["b"]);
    T r(a);
    if (K::bin(e["op"].str(), a, b, r, dummy) != 1) std::exit(4);
    return r;
  }
  T r(a);
  if (K::un(e["op"].str(), a, r, dummy) != 1) std::exit(4);
  return r;
}

template <class K> static void run_job(const vj::Value &j, long id, FILE *f, const std::set<long> &crash) {
  typedef typename K::T T;
  bool binary = j.has("b");
  g_sh->op = -1;
  T a = eval<K>(j["a"]);
  T b = binary ? eval<K>(j["b"]) : a;
  Out da, db;
  K::d(a, da);
  if (binary) K::d(b, db);
  std::vector<std::string> ops;
  if (j.has("ops"))
    for (size_t k = 0; k < j["ops"].size(); ++k) ops.push_back(j["ops"][k].str());
  else
    ops = binary ? K::binops() : K::unops();
  std::string rec = "{\"id\":" + std::to_string(id) + ",\"t\":\"" + (binary ? "bin" : "un") + "\",\"k\":\"" + K::name() +
                    "\",\"len\":" + std::to_string(j.geti("len", 1)) + ",\"big\":" + ((da.big || db.big) ? "1" : "0") +
                    ",\"a\":" + da.s + (binary ? ",\"b\":" + db.s : std::string()) + ",\"ops\":[";
  for (size_t k = 0; k < ops.size(); ++k) {
    if (k) rec += ",";
    if (crash.count((long)k)) {
      rec += "{\"op\":\"" + ops[k] + "\",\"err\":1}";
      continue;
    }
    g_sh->op = (long)k;
    T r(a);
    Entry e;
    int rc = binary ? K::bin(ops[k], a, b, r, e) : K::un(ops[k], a, r, e);
    if (rc == 0) {
      std::cerr << "scalar_runner: unknown operation " << ops[k] << " for kind " << K::name() << "\n";
      std::_Exit(5);
    }
    if (rc == 1) {
      e.rk = K::name();
      K::d(r, e.o);
    }
    rec += "{\"op\":\"" + ops[k] + "\",\"rk\":\"" + e.rk + "\",\"big\":" + (e.o.big ? "1" : "0") + ",\"r\":" + e.o.s + "}";
  }
  rec += "]}\n";
  fputs(rec.c_str(), f);
  fflush(f);
}

static void dispatch(const vj::Value &j, long id, FILE *f, const std::set<long> &crash) {
  std::string k = j["k"].str();
  if (k == "zi") run_job<KZi>(j, id, f, crash);
  else if (k == "qi") run_job<KQi>(j, id, f, crash);
  else if (k == "bd") run_job<KBd>(j, id, f, crash);
  else if (k == "cg") run_job<KCg>(j, id, f, crash);
  else if (k == "ic") run_job<KIc>(j, id, f, crash);
  else if (k == "sg") run_job<KSg>(j, id, f, crash);
  else if (k == "ct") run_job<KCt>(j, id, f, crash);
  else if (k == "sr") run_job<KSr>(j, id, f, crash);
  else if (k == "bv") run_job<KBv>(j, id, f, crash);
  else if (k == "di") run_job<KDi>(j, id, f, crash);
  else {
    std::cerr << "scalar_runner: unknown kind " << k << "\n";
    std::_Exit(5);
  }
}

int main(int argc, char **argv) {
  if (argc < 3) return 2;
  vj::Value jobs = vj::parse_file(argv[1]);
  FILE *f0 = fopen(argv[2], "w");
  if (!f0) return 2;
  fclose(f0);
  g_sh = (Shared *)mmap(nullptr, sizeof(Shared), PROT_READ | PROT_WRITE, MAP_SHARED | MAP_ANONYMOUS, -1, 0);
  if (g_sh == MAP_FAILED) return 2;
  long n = (long)jobs.size(), start = 0, crash_job = -1, restarts = 0;
  std::set<long> crash_ops;
  const std::set<long> none;
  while (start < n) {
    g_sh->job = start;
    g_sh->op = -1;
    fflush(stdout);
    fflush(stderr);
    pid_t pid = fork();
    if (pid < 0) return 2;
    if (pid == 0) {
      // the library's error text is of no interest here
      if (!getenv("SCALAR_RUNNER_VERBOSE")) { FILE *dn = freopen("/dev/null", "w", stderr); (void)dn; }
      FILE *f = fopen(argv[2], "a");
      if (!f) std::_Exit(5);
      for (long k = start; k < n; ++k) {
        g_sh->job = k;
        dispatch(jobs[(size_t)k], jobs[(size_t)k].geti("id", k + 1), f, k == crash_job ? crash_ops : none);
      }
      fclose(f);
      std::_Exit(0);
    }
    int status = 0;
    waitpid(pid, &status, 0);
    if (WIFEXITED(status) && WEXITSTATUS(status) == 0) break;
    if (WIFEXITED(status) && WEXITSTATUS(status) >= 3) { // adaptor problem, not the library
      std::cerr << "scalar_runner: child failed with status " << WEXITSTATUS(status) << " at job " << g_sh->job << "\n";
      return 2;
    }
    ++restarts;
    long cj = g_sh->job, co = g_sh->op;
    if (co < 0) { // the operands themselves could not be computed: no record to judge
      FILE *f = fopen(argv[2], "a");
      fprintf(f, "{\"id\":%lld,\"t\":\"operr\",\"k\":\"%s\",\"len\":%lld,\"big\":1,\"ops\":[]}\n",
              (long long)jobs[(size_t)cj].geti("id", cj + 1), jobs[(size_t)cj]["k"].str().c_str(),
              (long long)jobs[(size_t)cj].geti("len", 1));
      fclose(f);
      start = cj + 1;
    } else {
      if (cj != crash_job) {
        crash_job = cj;
        crash_ops.clear();
      }
      crash_ops.insert(co);
      start = cj;
    }
  }
  std::cout << "scalar_runner: " << n << " jobs, " << restarts << " restarts\n";
  return 0;
}
