SPECIFICATION Spec
INVARIANT DataFlow
INVARIANT ControlDep
INVARIANT ImplicitFlow
INVARIANT ReachedListed
CHECK_DEADLOCK FALSE
ALIAS Compact
