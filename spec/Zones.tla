------------------------------ MODULE Zones ------------------------------
(* C12, design level: the zone domain as a difference-bound matrix with the
   INCREMENTAL shortest-path closure that split_dbm/sparse_dbm keep after
   every edge addition (close_over_edge), for n = 2 variables plus the zero
   vertex, model-checked against the same EQUALITIES that spec/ExactOps.tla
   demands from the real code:
       bottom  <=>  the constraints are unsatisfiable over the integers
       m[i][j]  =   max { v_j - v_i : v |= constraints }     (every entry tight:
                    entailment of every constraint of the language is decided
                    exactly, at(v) is the tightest interval, gamma(m) = S)
       forget   =   projection;  join (entry-wise max of closed matrices) =
                    Hull_L(S1 \/ S2) as computed by enumeration in ExactOps;
                    meet (closure of the entry-wise min) = S1 /\ S2.
   Two registers A and B; all pairs of constraint sets with |A| + |B| <= MaxC over
   constants -K..K inside the box -R..R are explored (one constraint is added per step). *)
EXTENDS Integers, FiniteSets, TLC, IOUtils

R == atoi(IOEnv.ZR)          \* box radius
K == atoi(IOEnv.ZK)          \* constants of the added constraints
MaxC == atoi(IOEnv.ZMAXC)    \* number of added constraints
INF == 1000
V == 0..2
Min2(a, b) == IF a < b THEN a ELSE b
Max2(a, b) == IF a < b THEN b ELSE a
Pts == {<<a, b>> : a \in (-R)..R, b \in (-R)..R}
Val(p, i) == IF i = 0 THEN 0 ELSE p[i]
MaxOf(X) == CHOOSE m \in X : \A n \in X : n <= m
Bot == [i \in V |-> [j \in V |-> -INF]]      \* the unsatisfiable value (same type as a matrix: TLC cannot compare a function with a string)

(* a constraint <<i, j, k>> means v_j - v_i <= k  (i = 0 or j = 0: a bound) *)
Csts == {c \in {<<i, j, k>> : i \in V, j \in V, k \in (-K)..K} : c[1] # c[2]}
Holds(c, p) == Val(p, c[2]) - Val(p, c[1]) <= c[3]
Sat(cs) == {p \in Pts : \A c \in cs : Holds(c, p)}

(* the closed matrix of the box *)
BoxM == [i \in V |-> [j \in V |-> IF i = j THEN 0 ELSE IF i = 0 \/ j = 0 THEN R ELSE 2 * R]]

(* close_over_edge: m is closed; edge i -> j of weight c is added; every pair (s, d) is
   improved through s -> i -> j -> d.  Bottom when a negative cycle appears. *)
AddClose(m, c) ==
  LET i == c[1]  j == c[2]  k == c[3] IN
  IF m = Bot THEN Bot
  ELSE IF k >= m[i][j] THEN m
  ELSE IF m[j][i] + k < 0 THEN Bot
  ELSE [s \in V |-> [d \in V |-> IF s = d THEN 0 ELSE Min2(m[s][d], m[s][i] + k + m[j][d])]]

(* Floyd-Warshall: the reference closure (used for meet) *)
FW1(m, k) == [i \in V |-> [j \in V |-> Min2(m[i][j], m[i][k] + m[k][j])]]
FW(m) == FW1(FW1(FW1(m, 0), 1), 2)
Closure(m) == LET c == FW(m) IN IF \E i \in V : c[i][i] < 0 THEN Bot ELSE c

Gamma(m) == IF m = Bot THEN {} ELSE {p \in Pts : \A i \in V : \A j \in V : Val(p, j) - Val(p, i) <= m[i][j]}
(* THE exactness predicate: m is the tight matrix of the point set S *)
Tight(m, S) ==
  IF S = {} THEN m = Bot
  ELSE /\ m # Bot
       /\ \A i \in V : \A j \in V : i # j => m[i][j] = MaxOf({Val(p, j) - Val(p, i) : p \in S})
       /\ Gamma(m) = S

(* forget v then re-box: drop row and column, then add the two box bounds incrementally *)
ForgetBox(m, v) ==
  IF m = Bot THEN Bot
  ELSE LET d == [i \in V |-> [j \in V |-> IF i = j THEN 0 ELSE IF i = v \/ j = v THEN INF ELSE m[i][j]]]
       IN AddClose(AddClose(d, <<0, v, R>>), <<v, 0, R>>)
ForgetSet(S, v) == {[p EXCEPT ![v] = n] : p \in S, n \in (-R)..R}

Join(a, b) == IF a = Bot THEN b ELSE IF b = Bot THEN a
              ELSE [i \in V |-> [j \in V |-> Max2(a[i][j], b[i][j])]]
Meet(a, b) == IF a = Bot \/ b = Bot THEN Bot
              ELSE Closure([i \in V |-> [j \in V |-> Min2(a[i][j], b[i][j])]])

(* the hull exactly as ExactOps.tla computes it (by enumeration over the language) *)
Forms == {<<1, 1, 0, 1>>, <<-1, 1, 0, 1>>, <<1, 2, 0, 2>>, <<-1, 2, 0, 2>>, <<1, 1, -1, 2>>, <<1, 2, -1, 1>>}
Ev(f, p) == f[1] * p[f[2]] + f[3] * p[f[4]]
Hull(X) == IF X = {} THEN {}
           ELSE LET bounds == {<<f, MaxOf({Ev(f, s) : s \in X})>> : f \in Forms}
                IN {p \in Pts : \A fb \in bounds : Ev(fb[1], p) <= fb[2]}

VARIABLES csA, mA,   \* register A: constraints added so far, incrementally closed matrix (or Bot)
          csB, mB    \* register B: a second, independent value for join / meet / leq
vars == <<csA, mA, csB, mB>>

Init == csA = {} /\ mA = BoxM /\ csB = {} /\ mB = BoxM
Next == /\ Cardinality(csA) + Cardinality(csB) < MaxC
        /\ \/ \E c \in Csts \ csA : csA' = csA \cup {c} /\ mA' = AddClose(mA, c) /\ UNCHANGED <<csB, mB>>
           \/ \E c \in Csts \ csB : csB' = csB \cup {c} /\ mB' = AddClose(mB, c) /\ UNCHANGED <<csA, mA>>
Spec == Init /\ [][Next]_vars

(* INVARIANTS *)
AssumeExact == Tight(mA, Sat(csA))
ForgetExact == \A v \in 1..2 : Tight(ForgetBox(mA, v), ForgetSet(Sat(csA), v))
JoinIsHull  == Tight(Join(mA, mB), Hull(Sat(csA) \cup Sat(csB)))
MeetExact   == Tight(Meet(mA, mB), Sat(csA) \cap Sat(csB))
LeqExact    == \/ mA = Bot \/ mB = Bot
               \/ ((\A i \in V : \A j \in V : mA[i][j] <= mB[i][j]) <=> (Sat(csA) \subseteq Sat(csB)))
============================================================================
