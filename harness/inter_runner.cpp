// inter_runner <programs.ndjson> <out.ndjson>
// Runs the real inter-procedural analyzers (top-down, or bottom-up + top-down) on call
// graphs built from JSON and exports, per function and block, the context-insensitive
// invariants, the stored (pre, post) summaries and the assertion verdicts. C09, C10, C02.
//
// program: {"id":k,"vars":[..shared declarations..],
//           "funcs":[{"name":"main","in":[],"out":[],"entry":1,"exit":m,"blocks":[..]},...],
//           "runs":[{"kind":"td"|"bu","dom":D,"budom":D2,"max_cc":n|-1,"exact":0|1,"rec":0|1,
//                    "wd":..,"desc":..,"th":..,"params":{..}}]}
#include "domreg.hpp"
#include "progbuild.hpp"
#include <crab/analysis/inter/bottom_up_inter_analyzer.hpp>
#include <crab/analysis/inter/top_down_inter_analyzer.hpp>
#include <crab/cg/cg_bgl.hpp>
#include <csignal>
#include <sys/wait.h>
#include <unistd.h>

using namespace vh;
using crab::cg_impl::z_cg_t;
typedef crab::analyzer::top_down_inter_analyzer<z_cg_t, ref_t> td_analyzer_t;
typedef crab::analyzer::bottom_up_inter_analyzer<z_cg_t, ref_t, ref_t> bu_analyzer_t;
typedef crab::analyzer::inter_analyzer_parameters<z_cg_t> params_t;

static const char *kind_str(crab::checker::check_kind k) {
  switch (k) {
  case crab::checker::check_kind::CRAB_SAFE: return "safe";
  case crab::checker::check_kind::CRAB_ERR: return "err";
  case crab::checker::check_kind::CRAB_UNREACH: return "unreach";
  default: return "warn";
  }
}

template <typename Analyzer>
static void export_results(Analyzer &a, const vj::Value &p, std::vector<std::unique_ptr<z_cfg_t>> &cfgs, const VarTab &vt,
                           const std::vector<int> &qvars, std::ostream &o) {
  const vj::Value &fs = p["funcs"];
  o << "\"funcs\":[";
  for (size_t f = 0; f < fs.size(); ++f) {
    z_cfg_ref_t ref(*cfgs[f]);
    size_t nb = fs[f]["blocks"].size();
    o << (f ? "," : "") << "{\"pre\":[";
    for (size_t b = 1; b <= nb; ++b) {
      o << (b > 1 ? "," : "");
      emit_obs(o, a.get_pre(ref, blabel(b)), vt, qvars, false);
    }
    o << "],\"post\":[";
    for (size_t b = 1; b <= nb; ++b) {
      o << (b > 1 ? "," : "");
      emit_obs(o, a.get_post(ref, blabel(b)), vt, qvars, false);
    }
    o << "],\"summ\":[";
    auto sum = a.get_summary(ref);
    bool first = true;
    for (auto it = sum.begin(); it != sum.end(); ++it) {
      o << (first ? "" : ",") << "{\"pre\":";
      emit_obs(o, it->get_pre(), vt, qvars, false);
      o << ",\"post\":";
      emit_obs(o, it->get_post(), vt, qvars, false);
      o << "}";
      first = false;
    }
    o << "]}";
  }
  o << "]";
}

static void run_one(const vj::Value &p, size_t k, std::ostream &o) {
  const vj::Value &run = p["runs"][k];
  crab::domains::crab_domain_params_man::get() = crab::domains::crab_domain_params();
  if (run.has("params")) set_domain_params(run["params"]);
  variable_factory_t vfac;
  VarTab vt(vfac);
  vt.declare(p["vars"]);
  std::vector<int> qvars;
  for (size_t i = 1; i <= vt.n(); ++i) qvars.push_back(i);
  const vj::Value &fs = p["funcs"];
  std::vector<std::unique_ptr<z_cfg_t>> cfgs;
  std::vector<z_cfg_ref_t> refs;
  for (size_t f = 0; f < fs.size(); ++f) {
    cfgs.push_back(build_cfg_fn(fs[f], vt));
  }
  for (auto &c : cfgs) refs.push_back(*c);
  z_cg_t cg(refs);
  auto it = domreg().find(run["dom"].str());
  if (it == domreg().end()) std::exit(2);
  ref_t top = it->second();
  ref_t init = top.make_top();
  if (p.has("init")) {
    z_lin_cst_sys_t sys;
    for (size_t i = 0; i < p["init"].size(); ++i) sys += lin_cst(p["init"][i], vt);
    init += sys;
  }
  params_t params;
  params.widening_delay = run.geti("wd", 2);
  params.descending_iters = run.geti("desc", 2);
  params.thresholds_size = run.geti("th", 0);
  params.run_checker = true;
  params.only_main_as_entry = run.geti("only_main", 1) != 0;
  long mcc = run.geti("max_cc", -1);
  params.max_call_contexts = mcc < 0 ? UINT_MAX : (unsigned)mcc;
  params.analyze_recursive_functions = run.geti("rec", 0) != 0;
  params.exact_summary_reuse = run.geti("exact", 1) != 0;
  o << "{\"id\":" << p["id"].i() << ",\"run\":" << k + 1 << ",\"dom\":" << vj::q(run["dom"].str()) << ",";
  if (run.gets("kind", "td") == "td") {
    td_analyzer_t a(cg, top, params);
    a.run(init);
    export_results(a, p, cfgs, vt, qvars, o);
    o << ",\"checks\":[";
    crab::checker::checks_db db = a.get_all_checks();
    bool first = true;
    for (auto &kv : db.get_all_checks())
      for (auto ck : kv.second) {
        o << (first ? "" : ",") << "{\"id\":" << kv.first.get_id() << ",\"res\":\"" << kind_str(ck) << "\"}";
        first = false;
      }
    o << "]";
  } else {
    auto itb = domreg().find(run.gets("budom", run["dom"].str()));
    if (itb == domreg().end()) std::exit(2);
    ref_t butop = itb->second();
    bu_analyzer_t a(cg, top, butop, params);
    a.run(init);
    export_results(a, p, cfgs, vt, qvars, o);
    o << ",\"checks\":[]";
  }
  o << "}\n";
}

int main(int argc, char **argv) {
  if (argc == 2 && std::string(argv[1]) == "--list") {
    for (auto &kv : domreg()) std::cout << kv.first << "\n";
    return 0;
  }
  if (argc < 3) return 2;
  std::vector<vj::Value> ps;
  {
    std::ifstream in(argv[1]);
    std::string line;
    while (std::getline(in, line))
      if (!line.empty()) ps.push_back(vj::parse(line));
  }
  FILE *out = fopen(argv[2], "w");
  if (!out) return 2;
  long per_run_s = getenv("VH_STEP_TIMEOUT") ? atol(getenv("VH_STEP_TIMEOUT")) : 30;
  std::vector<std::pair<size_t, size_t>> jobs;
  for (size_t i = 0; i < ps.size(); ++i)
    for (size_t k = 0; k < ps[i]["runs"].size(); ++k) jobs.push_back({i, k});
  size_t next = 0;
  while (next < jobs.size()) {
    int pfd[2];
    if (pipe(pfd) != 0) return 2;
    fflush(out);
    pid_t pid = fork();
    if (pid == 0) {
      close(pfd[0]);
      for (size_t j = next; j < jobs.size(); ++j) {
        alarm(per_run_s);
        std::ostringstream s;
        run_one(ps[jobs[j].first], jobs[j].second, s);
        alarm(0);
        fputs(s.str().c_str(), out);
        fflush(out);
        char c = 1;
        if (write(pfd[1], &c, 1) != 1) _exit(5);
      }
      _exit(0);
    }
    close(pfd[1]);
    size_t done = 0;
    char buf[256];
    ssize_t n;
    while ((n = read(pfd[0], buf, sizeof buf)) > 0) done += n;
    close(pfd[0]);
    int status = 0;
    waitpid(pid, &status, 0);
    next += done;
    if (next < jobs.size()) {
      const char *why = (WIFSIGNALED(status) && WTERMSIG(status) == SIGALRM) ? "timeout" : "crash";
      const vj::Value &p = ps[jobs[next].first];
      fprintf(out, "{\"id\":%lld,\"run\":%zu,\"dom\":\"%s\",\"err\":\"%s\",\"status\":%d}\n", p["id"].i(), jobs[next].second + 1,
              p["runs"][jobs[next].second]["dom"].str().c_str(), why,
              WIFSIGNALED(status) ? 1000 + WTERMSIG(status) : WEXITSTATUS(status));
      ++next;
    }
  }
  fclose(out);
  return 0;
}
