#include "domreg.hpp"
#include "domtypes.hpp"
#include <crab/domains/intervals.hpp>
#include <crab/domains/split_dbm.hpp>
#include <crab/domains/array_smashing.hpp>
#include <crab/domains/array_adaptive.hpp>
using namespace crab::domains;
using namespace vh;
typedef ikos::interval_domain<z_number, varname_t> intervals_t;
typedef split_dbm_domain<z_number, varname_t, VH_DBM_GRAPH> split_dbm_t;
typedef array_smashing<split_dbm_t> as_sdbm_t;
typedef array_adaptive_domain<intervals_t> aa_int_t;
VH_DOMREG(as_sdbm, as_sdbm_t)
VH_DOMREG(aa_int, aa_int_t)
