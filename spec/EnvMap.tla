------------------------------ MODULE EnvMap ------------------------------
(* C19.  Environment maps and sets as their mathematical counterparts.

   State machine over three families of K = 3 registers:
     M[r] : an environment = a TOTAL map Key -> Value with default top, or the
            marker "bottom"       (ikos::separate_domain<variable, Value>)
     S[r] : a finite set of keys  (ikos::patricia_tree_set<variable>)
     D[r] : a finite set of keys or the marker "top = all keys, open universe"
                                  (ikos::discrete_domain<variable>)
   One action per public operation of the containers.  The specification knows
   nothing about patricia trees, key indices, branching bits or sharing: keys
   are the abstract positions 1..NK of a universe; the adaptor
   (harness/map_runner.cpp) maps position j to a crab variable whose index()
   is universe[j] (0, 1, 255, 256, 2^31-1, 2^63, ...).

   The same module is used in two directions:
     B (generation)  EnvMapGen.tla: TLC enumerates / simulates behaviours and
                     prints hist as JSON; the histories are replayed on the
                     real containers;
     A (validation)  EnvMapTrace.tla: every recorded step must be a step of
                     THIS machine and the recorded projection of the real
                     containers must EQUAL the projection of the next state.

   Value lattices (Lat):
     "itv"  ikos::interval<z_number>, bounds in -1..1 and -oo/+oo. An interval
            is a pair <<lo, hi>>; -Inf/Inf (= -100/100) stand for -oo/+oo;
            the empty interval has the canonical form IBot.
            join / meet / <= are the textbook ones.  Widening and narrowing are
            modelled AS IMPLEMENTED in include/crab/domains/interval_impl.hpp:
              x || y = [ y.lo < x.lo ? -oo : x.lo ,  x.hi < y.hi ? +oo : x.hi ]
                       (the standard interval widening, no thresholds),
              x && y = [ x.lo = -oo ? y.lo : x.lo ,  x.hi = +oo ? y.hi : x.hi ]
                       (the standard narrowing formula, applied by the code to
                        ARBITRARY operands: when y is not below x the result
                        can be empty, i.e. bottom; modelled exactly so).
     "bool" crab::domains::boolean_value, the 4-element diamond
            bot < F, T < top; widening = join and narrowing = meet, as the code
            states (finite lattice).                                          *)
EXTENDS Integers, Sequences, FiniteSets, TLC, IOUtils

NK  == atoi(IOEnv.C19_NKEYS)     \* size of the key universe
Lat == IOEnv.C19_LAT             \* "itv" or "bool"
Key == 1..NK
Reg == 1..3

VARIABLES M, S, D, hist
vars == <<M, S, D, hist>>

----------------------------------------------------------------------------
(* value lattices *)
Inf  == 100
IBot == <<Inf, -Inf>>
ITop == <<-Inf, Inf>>
Min2(a, b) == IF a <= b THEN a ELSE b
Max2(a, b) == IF a <= b THEN b ELSE a
INorm(l, u) == IF l > u \/ l = Inf \/ u = -Inf THEN IBot ELSE <<l, u>>
IVals == {IBot} \cup ({<<l, u>> : l \in {-Inf, -1, 0, 1}, u \in {-1, 0, 1, Inf}} \ {<<1, -1>>, <<1, 0>>, <<0, -1>>})
ILeq(x, y)    == x = IBot \/ (y # IBot /\ y[1] <= x[1] /\ x[2] <= y[2])
IJoin(x, y)   == IF x = IBot THEN y ELSE IF y = IBot THEN x ELSE <<Min2(x[1], y[1]), Max2(x[2], y[2])>>
IMeet(x, y)   == IF x = IBot \/ y = IBot THEN IBot ELSE INorm(Max2(x[1], y[1]), Min2(x[2], y[2]))
IWiden(x, y)  == IF x = IBot THEN y ELSE IF y = IBot THEN x
                 ELSE <<IF y[1] < x[1] THEN -Inf ELSE x[1], IF x[2] < y[2] THEN Inf ELSE x[2]>>
INarrow(x, y) == IF x = IBot \/ y = IBot THEN IBot
                 ELSE INorm(IF x[1] = -Inf THEN y[1] ELSE x[1], IF x[2] = Inf THEN y[2] ELSE x[2])

BVals == {"bot", "F", "T", "top"}
BLeq(x, y)  == x = "bot" \/ y = "top" \/ x = y
BJoin(x, y) == IF x = "bot" THEN y ELSE IF y = "bot" THEN x ELSE IF x = y THEN x ELSE "top"
BMeet(x, y) == IF x = "top" THEN y ELSE IF y = "top" THEN x ELSE IF x = y THEN x ELSE "bot"

Vals == IF Lat = "itv" THEN IVals ELSE BVals
VBot == IF Lat = "itv" THEN IBot ELSE "bot"
VTop == IF Lat = "itv" THEN ITop ELSE "top"
VLeq(x, y)    == IF Lat = "itv" THEN ILeq(x, y) ELSE BLeq(x, y)
VJoin(x, y)   == IF Lat = "itv" THEN IJoin(x, y) ELSE BJoin(x, y)
VMeet(x, y)   == IF Lat = "itv" THEN IMeet(x, y) ELSE BMeet(x, y)
VWiden(x, y)  == IF Lat = "itv" THEN IWiden(x, y) ELSE BJoin(x, y)
VNarrow(x, y) == IF Lat = "itv" THEN INarrow(x, y) ELSE BMeet(x, y)

----------------------------------------------------------------------------
(* environments: total maps with default top; a binding to bottom makes the
   whole environment bottom (the canonical bottom carries the all-top map) *)
TopMap == [k \in Key |-> VTop]
MTop == [bot |-> FALSE, m |-> TopMap]
MBot == [bot |-> TRUE, m |-> TopMap]

Lift2(Op(_, _), a, b) ==
  LET m == [k \in Key |-> Op(a.m[k], b.m[k])]
  IN IF \E k \in Key : m[k] = VBot THEN MBot ELSE [bot |-> FALSE, m |-> m]

MJoin(a, b)   == IF a.bot THEN b ELSE IF b.bot THEN a ELSE Lift2(VJoin, a, b)
MWiden(a, b)  == IF a.bot THEN b ELSE IF b.bot THEN a ELSE Lift2(VWiden, a, b)
MMeet(a, b)   == IF a.bot \/ b.bot THEN MBot ELSE Lift2(VMeet, a, b)
MNarrow(a, b) == IF a.bot \/ b.bot THEN MBot ELSE Lift2(VNarrow, a, b)
MSet(a, k, v) == IF a.bot THEN a ELSE IF v = VBot THEN MBot ELSE [a EXCEPT !.m[k] = v]
MForget(a, k) == IF a.bot THEN a ELSE [a EXCEPT !.m[k] = VTop]
MJoinKey(a, k, v) == IF a.bot THEN a ELSE [a EXCEPT !.m[k] = VJoin(@, v)]     \* weak update, v # bottom
SeqSet(q) == {q[i] : i \in DOMAIN q}
MProject(a, ks) == IF a.bot THEN a ELSE [bot |-> FALSE, m |-> [k \in Key |-> IF k \in ks THEN a.m[k] ELSE VTop]]
MRename(a, f, t) ==        \* to[i] takes the value of from[i]; from[i] becomes unconstrained
  IF a.bot THEN a
  ELSE [bot |-> FALSE,
        m |-> [k \in Key |-> IF \E i \in DOMAIN t : t[i] = k THEN a.m[f[CHOOSE i \in DOMAIN t : t[i] = k]]
                             ELSE IF k \in SeqSet(f) THEN VTop ELSE a.m[k]]]

(* observations of an environment *)
At(a, k)    == IF a.bot THEN VBot ELSE a.m[k]
MLeq(a, b)  == a.bot \/ (~b.bot /\ \A k \in Key : VLeq(a.m[k], b.m[k]))
IsTop(a)    == ~a.bot /\ \A k \in Key : a.m[k] = VTop
Bindings(a) == IF a.bot THEN {} ELSE {<<k, a.m[k]>> : k \in {j \in Key : a.m[j] # VTop}}

----------------------------------------------------------------------------
(* discrete domain: finite set or top *)
DTopV == [top |-> TRUE, els |-> {}]
DSet(s) == [top |-> FALSE, els |-> s]
DUnion(a, b) == IF a.top \/ b.top THEN DTopV ELSE DSet(a.els \cup b.els)
DInter(a, b) == IF a.top THEN b ELSE IF b.top THEN a ELSE DSet(a.els \cap b.els)
DLeq(a, b)   == b.top \/ (~a.top /\ a.els \subseteq b.els)
DHas(a, k)   == a.top \/ k \in a.els
Injective(q) == \A i, j \in DOMAIN q : q[i] = q[j] => i = j
RenSet(s, f, t) == (s \ SeqSet(f)) \cup {t[i] : i \in {j \in DOMAIN f : f[j] \in s}}

----------------------------------------------------------------------------
(* events: uniform 8-tuples <<op, r, a, b, k, v, f, t>>; unused fields are 0, VTop, <<>> *)
Ev(op, r, a, b, k, v, f, t) == <<op, r, a, b, k, v, f, t>>
MapOps  == {"set", "forget", "joinkey", "join", "meet", "widen", "narrow", "rename", "project", "copy", "mtop", "mbot"}
PSetOps == {"padd", "prem", "pplus", "pminus", "punion", "punioneq", "pinter", "pintereq", "pclear", "pcopy", "psingle"}
DSetOps == {"dtop", "dbot", "dsingle", "dadd", "drem", "dunion", "dinter", "ddiff", "drename", "dcopy"}
Fam(op) == IF op \in MapOps THEN "map" ELSE IF op \in PSetOps THEN "pset" ELSE "dset"

RenOk(f, t) == /\ Len(f) = Len(t) /\ Injective(f) /\ Injective(t)
               /\ SeqSet(f) \subseteq Key /\ SeqSet(t) \subseteq Key /\ SeqSet(f) \cap SeqSet(t) = {}

(* precondition (contract) of every operation *)
Pre(e) ==
  LET op == e[1]  r == e[2]  a == e[3]  b == e[4]  k == e[5]  v == e[6]  f == e[7]  t == e[8]
  IN /\ r \in Reg
     /\ CASE op \in {"set"} -> k \in Key /\ v \in Vals
          [] op = "joinkey" -> k \in Key /\ v \in Vals \ {VBot}   \* a weak update never carries bottom
          [] op \in {"forget", "padd", "prem", "psingle", "dsingle", "dadd"} -> k \in Key
          [] op = "drem" -> k \in Key /\ ~D[r].top                 \* top \ {k} is not representable
          [] op \in {"join", "meet", "widen", "narrow", "punion", "pinter", "dunion", "dinter"} -> a \in Reg /\ b \in Reg
          [] op = "ddiff" -> a \in Reg /\ b \in Reg /\ ~D[a].top /\ ~D[b].top
          [] op \in {"punioneq", "pintereq"} -> b \in Reg
          [] op \in {"copy", "pcopy", "dcopy"} -> a \in Reg
          [] op \in {"pplus", "pminus"} -> a \in Reg /\ k \in Key
          [] op = "rename" ->      \* separate_domain::rename assumes the new names are unconstrained
               RenOk(f, t) /\ \A i \in DOMAIN t : M[r].m[t[i]] = VTop
          [] op = "drename" -> RenOk(f, t) /\ \A i \in DOMAIN t : ~DHas(D[r], t[i])
          [] op = "project" -> Injective(f) /\ SeqSet(f) \subseteq Key
          [] op \in {"mtop", "mbot", "pclear", "dtop", "dbot"} -> TRUE
          [] OTHER -> FALSE

NewM(e) ==
  LET op == e[1]  r == e[2]  a == e[3]  b == e[4]  k == e[5]  v == e[6]  f == e[7]  t == e[8]
  IN CASE op = "set" -> MSet(M[r], k, v)
       [] op = "forget" -> MForget(M[r], k)
       [] op = "joinkey" -> MJoinKey(M[r], k, v)
       [] op = "join" -> MJoin(M[a], M[b])
       [] op = "meet" -> MMeet(M[a], M[b])
       [] op = "widen" -> MWiden(M[a], M[b])
       [] op = "narrow" -> MNarrow(M[a], M[b])
       [] op = "rename" -> MRename(M[r], f, t)
       [] op = "project" -> MProject(M[r], SeqSet(f))
       [] op = "copy" -> M[a]
       [] op = "mtop" -> MTop
       [] op = "mbot" -> MBot

NewS(e) ==
  LET op == e[1]  r == e[2]  a == e[3]  b == e[4]  k == e[5]
  IN CASE op = "padd" -> S[r] \cup {k}
       [] op = "prem" -> S[r] \ {k}
       [] op = "pplus" -> S[a] \cup {k}
       [] op = "pminus" -> S[a] \ {k}
       [] op = "punion" -> S[a] \cup S[b]
       [] op = "punioneq" -> S[r] \cup S[b]
       [] op = "pinter" -> S[a] \cap S[b]
       [] op = "pintereq" -> S[r] \cap S[b]
       [] op = "pclear" -> {}
       [] op = "pcopy" -> S[a]
       [] op = "psingle" -> {k}

NewD(e) ==
  LET op == e[1]  r == e[2]  a == e[3]  b == e[4]  k == e[5]  f == e[7]  t == e[8]
  IN CASE op = "dtop" -> DTopV
       [] op = "dbot" -> DSet({})
       [] op = "dsingle" -> DSet({k})
       [] op = "dadd" -> IF D[r].top THEN D[r] ELSE DSet(D[r].els \cup {k})
       [] op = "drem" -> DSet(D[r].els \ {k})
       [] op = "dunion" -> DUnion(D[a], D[b])
       [] op = "dinter" -> DInter(D[a], D[b])
       [] op = "ddiff" -> DSet(D[a].els \ D[b].els)
       [] op = "drename" -> IF D[r].top THEN D[r] ELSE DSet(RenSet(D[r].els, f, t))
       [] op = "dcopy" -> D[a]

Do(e) ==
  /\ Pre(e)
  /\ hist' = Append(hist, e)
  /\ IF Fam(e[1]) = "map" THEN M' = [M EXCEPT ![e[2]] = NewM(e)] /\ UNCHANGED <<S, D>>
     ELSE IF Fam(e[1]) = "pset" THEN S' = [S EXCEPT ![e[2]] = NewS(e)] /\ UNCHANGED <<M, D>>
     ELSE D' = [D EXCEPT ![e[2]] = NewD(e)] /\ UNCHANGED <<M, S>>

----------------------------------------------------------------------------
(* the actions, one per container operation *)
E0 == <<>>
Set(r, k, v)        == Do(Ev("set", r, 0, 0, k, v, E0, E0))          \* separate_domain::set
Forget(r, k)        == Do(Ev("forget", r, 0, 0, k, VTop, E0, E0))    \* operator-=
JoinKey(r, k, v)    == Do(Ev("joinkey", r, 0, 0, k, v, E0, E0))      \* separate_domain::join(k, v)
Join(r, a, b)       == Do(Ev("join", r, a, b, 0, VTop, E0, E0))      \* operator|
Meet(r, a, b)       == Do(Ev("meet", r, a, b, 0, VTop, E0, E0))      \* operator&
Widen(r, a, b)      == Do(Ev("widen", r, a, b, 0, VTop, E0, E0))     \* operator||
Narrow(r, a, b)     == Do(Ev("narrow", r, a, b, 0, VTop, E0, E0))    \* operator&&
Rename(r, f, t)     == Do(Ev("rename", r, 0, 0, 0, VTop, f, t))      \* rename(from, to)
Project(r, f)       == Do(Ev("project", r, 0, 0, 0, VTop, f, E0))    \* project(keys)
Copy(r, a)          == Do(Ev("copy", r, a, 0, 0, VTop, E0, E0))      \* operator= (shares the tree)
MkTop(r)            == Do(Ev("mtop", r, 0, 0, 0, VTop, E0, E0))      \* separate_domain::top()
MkBot(r)            == Do(Ev("mbot", r, 0, 0, 0, VTop, E0, E0))      \* separate_domain::bottom()
PAdd(r, k)          == Do(Ev("padd", r, 0, 0, k, VTop, E0, E0))      \* patricia_tree_set::operator+=
PRem(r, k)          == Do(Ev("prem", r, 0, 0, k, VTop, E0, E0))      \* operator-=
PPlus(r, a, k)      == Do(Ev("pplus", r, a, 0, k, VTop, E0, E0))     \* operator+
PMinus(r, a, k)     == Do(Ev("pminus", r, a, 0, k, VTop, E0, E0))    \* operator-
PUnion(r, a, b)     == Do(Ev("punion", r, a, b, 0, VTop, E0, E0))    \* operator|
PUnionEq(r, b)      == Do(Ev("punioneq", r, 0, b, 0, VTop, E0, E0))  \* operator|=
PInter(r, a, b)     == Do(Ev("pinter", r, a, b, 0, VTop, E0, E0))    \* operator&
PInterEq(r, b)      == Do(Ev("pintereq", r, 0, b, 0, VTop, E0, E0))  \* operator&=
PClear(r)           == Do(Ev("pclear", r, 0, 0, 0, VTop, E0, E0))    \* clear()
PCopy(r, a)         == Do(Ev("pcopy", r, a, 0, 0, VTop, E0, E0))
PSingle(r, k)       == Do(Ev("psingle", r, 0, 0, k, VTop, E0, E0))   \* patricia_tree_set(e)
DTop(r)             == Do(Ev("dtop", r, 0, 0, 0, VTop, E0, E0))      \* discrete_domain::top()
DBot(r)             == Do(Ev("dbot", r, 0, 0, 0, VTop, E0, E0))      \* bottom() = empty set
DSingle(r, k)       == Do(Ev("dsingle", r, 0, 0, k, VTop, E0, E0))
DAdd(r, k)          == Do(Ev("dadd", r, 0, 0, k, VTop, E0, E0))      \* operator+=
DRem(r, k)          == Do(Ev("drem", r, 0, 0, k, VTop, E0, E0))      \* operator-=
DUnionA(r, a, b)    == Do(Ev("dunion", r, a, b, 0, VTop, E0, E0))    \* operator|
DInterA(r, a, b)    == Do(Ev("dinter", r, a, b, 0, VTop, E0, E0))    \* operator&
DDiff(r, a, b)      == Do(Ev("ddiff", r, a, b, 0, VTop, E0, E0))     \* operator-(range)
DRename(r, f, t)    == Do(Ev("drename", r, 0, 0, 0, VTop, f, t))
DCopy(r, a)         == Do(Ev("dcopy", r, a, 0, 0, VTop, E0, E0))

(* parameter spaces of the generator (the contract itself is Pre) *)
GenVals ==   \* values offered to set/joinkey
  IF IOEnv.C19_GENVALS = "full" THEN Vals
  ELSE IF Lat = "itv" THEN {IBot, ITop, <<0, 0>>, <<-1, 0>>, <<0, Inf>>, <<-Inf, 0>>} ELSE Vals
MaxRen == atoi(IOEnv.C19_MAXREN)
KeySeqs(n) == IF n = 0 THEN {<<>>} ELSE IF n = 1 THEN {<<k>> : k \in Key}
              ELSE {q \in Key \X Key : q[1] # q[2]}
RenPairs == UNION {KeySeqs(n) \X KeySeqs(n) : n \in 0..MaxRen}
RECURSIVE SortedSeq(_)
SortedSeq(s) == IF s = {} THEN <<>> ELSE LET x == CHOOSE y \in s : \A z \in s : y <= z IN <<x>> \o SortedSeq(s \ {x})
ProjSeqs == {SortedSeq(s) : s \in SUBSET Key} \cup (IF NK >= 2 THEN {<<NK, 1>>} ELSE {})

OfKind(kd) ==
  CASE kd = "set" -> \E r \in Reg, k \in Key, v \in GenVals : Set(r, k, v)
    [] kd = "forget" -> \E r \in Reg, k \in Key : Forget(r, k)
    [] kd = "joinkey" -> \E r \in Reg, k \in Key, v \in GenVals \ {VBot} : JoinKey(r, k, v)
    [] kd = "join" -> \E r, a, b \in Reg : Join(r, a, b)
    [] kd = "meet" -> \E r, a, b \in Reg : Meet(r, a, b)
    [] kd = "widen" -> \E r, a, b \in Reg : Widen(r, a, b)
    [] kd = "narrow" -> \E r, a, b \in Reg : Narrow(r, a, b)
    [] kd = "rename" -> \E r \in Reg, p \in RenPairs : Rename(r, p[1], p[2])
    [] kd = "project" -> \E r \in Reg, f \in ProjSeqs : Project(r, f)
    [] kd = "copy" -> \E r, a \in Reg : Copy(r, a)
    [] kd = "mtop" -> \E r \in Reg : MkTop(r)
    [] kd = "mbot" -> \E r \in Reg : MkBot(r)
    [] kd = "padd" -> \E r \in Reg, k \in Key : PAdd(r, k)
    [] kd = "prem" -> \E r \in Reg, k \in Key : PRem(r, k)
    [] kd = "pplus" -> \E r, a \in Reg, k \in Key : PPlus(r, a, k)
    [] kd = "pminus" -> \E r, a \in Reg, k \in Key : PMinus(r, a, k)
    [] kd = "punion" -> \E r, a, b \in Reg : PUnion(r, a, b)
    [] kd = "punioneq" -> \E r, b \in Reg : PUnionEq(r, b)
    [] kd = "pinter" -> \E r, a, b \in Reg : PInter(r, a, b)
    [] kd = "pintereq" -> \E r, b \in Reg : PInterEq(r, b)
    [] kd = "pclear" -> \E r \in Reg : PClear(r)
    [] kd = "pcopy" -> \E r, a \in Reg : PCopy(r, a)
    [] kd = "psingle" -> \E r \in Reg, k \in Key : PSingle(r, k)
    [] kd = "dtop" -> \E r \in Reg : DTop(r)
    [] kd = "dbot" -> \E r \in Reg : DBot(r)
    [] kd = "dsingle" -> \E r \in Reg, k \in Key : DSingle(r, k)
    [] kd = "dadd" -> \E r \in Reg, k \in Key : DAdd(r, k)
    [] kd = "drem" -> \E r \in Reg, k \in Key : DRem(r, k)
    [] kd = "dunion" -> \E r, a, b \in Reg : DUnionA(r, a, b)
    [] kd = "dinter" -> \E r, a, b \in Reg : DInterA(r, a, b)
    [] kd = "ddiff" -> \E r, a, b \in Reg : DDiff(r, a, b)
    [] kd = "drename" -> \E r \in Reg, p \in RenPairs : DRename(r, p[1], p[2])
    [] kd = "dcopy" -> \E r, a \in Reg : DCopy(r, a)

Init == /\ M = [r \in Reg |-> MTop]
        /\ S = [r \in Reg |-> {}]
        /\ D = [r \in Reg |-> DSet({})]
        /\ hist = <<>>

Next == \E kd \in MapOps \cup PSetOps \cup DSetOps : OfKind(kd)
Spec == Init /\ [][Next]_vars

(* invariants of the machine itself (checked by TLC in the generation runs) *)
TypeOK == /\ \A r \in Reg : /\ M[r].bot \in BOOLEAN
                            /\ \A k \in Key : M[r].m[k] \in Vals \ {VBot}
                            /\ (M[r].bot => M[r].m = TopMap)
          /\ \A r \in Reg : S[r] \subseteq Key
          /\ \A r \in Reg : D[r].els \subseteq Key /\ (D[r].top => D[r].els = {})
(* the lattice laws the operations are supposed to satisfy, on the reachable environments *)
LatticeLaws ==
  \A a, b \in Reg :
     /\ MLeq(M[a], MJoin(M[a], M[b])) /\ MLeq(M[b], MJoin(M[a], M[b]))
     /\ MLeq(MMeet(M[a], M[b]), M[a]) /\ MLeq(MMeet(M[a], M[b]), M[b])
     /\ MLeq(MJoin(M[a], M[b]), MWiden(M[a], M[b]))
     /\ (MLeq(M[b], M[a]) => MLeq(MMeet(M[a], M[b]), MNarrow(M[a], M[b])) /\ MLeq(MNarrow(M[a], M[b]), M[a]))
     /\ (MLeq(M[a], M[b]) /\ MLeq(M[b], M[a]) => M[a] = M[b])
============================================================================
