"""C20 Numbers and linear constraints keep their mathematical meaning.

Oracle: spec/BigNum.tla (sign + base-1000 limb arithmetic, defining relations for division, shifts,
two's-complement bit operations, rounding, int64 range), spec/LinCst.tla (expressions/constraints as
functions of a valuation, evaluated on every point of a box), judged per record by spec/NumJudge.tla.
Adaptor: harness/num_runner.cpp runs the real ikos::z_number / ikos::q_number / crab::safe_i64 /
ikos::linear_expression / linear_constraint / linear_constraint_system code, one forked child per job.

This file only generates operands (decimal strings / small JSON descriptions), moves files, maps TLC's
failing record indices back to jobs and writes evidence. No arithmetic result is computed here."""
import json, os
import vlib
from vlib import Check, build, tlc, workdir, read_ndjson

RUNNER = "num_runner"

# ---------------------------------------------------------------------------------------------------------
# operand tables (python ints are only used to WRITE the operands; results are never computed here)
P = lambda k: 2 ** k
BOUNDARY = sorted(set(
    [0, 1, -1, 2, -2, 3, -3, 7, -8, 10, 255, 256, -256, 999, 1000, 1001, -999, -1000, -1001, 65535, 65536, -65536,
     999999, 1000000, -1000000, 10 ** 9, -10 ** 9,
     P(31) - 1, P(31), P(31) + 1, -P(31), -P(31) - 1, -P(31) + 1,
     P(32) - 1, P(32), P(32) + 1, -P(32), -P(32) - 1, -P(32) + 1,
     3037000499, 3037000500, -3037000499, -3037000500, P(53), P(62), -P(62),
     P(63) - 1, P(63), P(63) + 1, -P(63), -P(63) - 1, -P(63) + 1,
     P(64) - 1, P(64), P(64) + 1, -P(64), -P(64) - 1, -P(64) + 1,
     10 ** 18, 10 ** 19, -10 ** 19, 10 ** 30, -10 ** 30, 10 ** 30 - 1, 10 ** 30 + 1,
     P(100), -P(100), P(127), P(128) - 1, P(128), -P(128), 10 ** 39]))
# the part of the table asked for by the property text (used all-pairs in the quick tier)
CORE = sorted(set(
    [0, 1, -1, 2, -2, 3, -3, 999, 1000, -1000, P(31) - 1, P(31), P(31) + 1, -P(31), -P(31) - 1, P(32), -P(32),
     P(63) - 1, P(63), P(63) + 1, -P(63), -P(63) - 1, P(64) - 1, P(64), P(64) + 1, -P(64) - 1, -P(64) + 1,
     10 ** 30, -10 ** 30, P(100) + 1, -P(128)]))
I64 = [v for v in BOUNDARY if -P(63) <= v <= P(63) - 1]
U64 = [v for v in BOUNDARY if 0 <= v <= P(64) - 1]
SHIFTS = [0, 1, 2, 3, 7, 8, 9, 10, 15, 16, 17, 29, 30, 31, 32, 33, 63, 64, 65, 99, 100, 127, 128, 129, 150]


def rnd_num(rng, maxdig=40, nonneg=False):
    nd = rng.randint(1, maxdig)
    s = str(rng.randint(1, 9)) + "".join(rng.choice("0123456789") for _ in range(nd - 1))
    if rng.random() < 0.15 and nd > 3:       # long runs of 0 / 9 exercise carries and borrow chains
        k = rng.randint(1, nd - 1)
        s = s[:nd - k] + rng.choice("09") * k
    if rng.random() < 0.08:
        s = "0"
    if not nonneg and s != "0" and rng.random() < 0.5:
        s = "-" + s
    return s


def rnd_i64(rng):
    m = rng.choice([0, 1, 2, 3])
    if m == 0:
        v = rng.randint(-P(63), P(63) - 1)
    elif m == 1:
        v = rng.choice([1, -1]) * rng.randint(0, P(33))
    elif m == 2:
        v = rng.choice([P(63) - 1, -P(63), P(62), -P(62), P(31), P(32), 3037000500]) + rng.randint(-3, 3)
        v = max(-P(63), min(P(63) - 1, v))
    else:
        v = rng.choice([1, -1]) * rng.randint(P(30), P(34))
    return v


def z_jobs(rng, tier):
    jobs = []
    binops = ["add", "sub", "mul", "divrem", "cmp", "and", "or", "xor"]
    for op in binops:                         # all pairs of the boundary table, every binary operation
        for a in BOUNDARY:
            for b in BOUNDARY:
                jobs.append({"fam": "z", "op": op, "via": "op", "a": str(a), "b": str(b)})
    nr = 1000 if tier == "quick" else 10000
    for op in binops:
        for _ in range(nr):
            via = rng.choice(["op", "asg"]) if op in ("add", "sub", "mul", "divrem") else "op"
            a, b = rnd_num(rng), rnd_num(rng)
            if rng.random() < 0.1:
                b = a if rng.random() < 0.5 else ("-" + a).replace("--", "")
                if b == "-0":
                    b = "0"
            jobs.append({"fam": "z", "op": op, "via": via, "a": a, "b": b})
    # unary / conversions
    nu = 300 if tier == "quick" else 4000
    pool = [str(v) for v in BOUNDARY] + [rnd_num(rng) for _ in range(nu)]
    for a in pool:
        jobs.append({"fam": "z", "op": "neg", "via": "op", "a": a})
        jobs.append({"fam": "z", "op": rng.choice(["inc", "dec"]), "via": rng.choice(["pre", "post"]), "a": a})
        jobs.append({"fam": "z", "op": "str", "via": "op", "a": a})
        jobs.append({"fam": "z", "op": "to_i64", "via": "op", "a": a})
        jobs.append({"fam": "z", "op": "to_hex", "via": "op", "a": a})
        jobs.append({"fam": "z", "op": "raw", "via": "op", "a": a, "ord": rng.choice([0, 1])})
        if not a.startswith("-"):
            jobs.append({"fam": "z", "op": "fill", "via": "op", "a": a})
    for v in BOUNDARY:
        for op in ("inc", "dec"):
            for via in ("pre", "post"):
                jobs.append({"fam": "z", "op": op, "via": via, "a": str(v)})
    for v in I64 + [rnd_i64(rng) for _ in range(nu)]:
        jobs.append({"fam": "z", "op": "from_i64", "via": "op", "a": str(v)})
        jobs.append({"fam": "z", "op": "to_i64", "via": "op", "a": str(v)})
    for v in U64 + [rng.randint(0, P(64) - 1) for _ in range(nu)] + [rng.randint(P(63), P(64) - 1) for _ in range(nu // 3)]:
        jobs.append({"fam": "z", "op": "from_u64", "via": "op", "a": str(v)})
    hexd = "0123456789abcdef"
    for _ in range(nu):
        n = rng.randint(1, 34)
        h = rng.choice(hexd[1:]) + "".join(rng.choice(hexd) for _ in range(n - 1))
        jobs.append({"fam": "z", "op": "from_hex", "via": "op", "h": ("-" if rng.random() < 0.4 else "") + h})
    for h in ["0", "1", "-1", "f", "ff", "-100", "7fffffff", "80000000", "-80000000", "ffffffff", "100000000",
              "7fffffffffffffff", "8000000000000000", "-8000000000000000", "ffffffffffffffff", "10000000000000000",
              "-10000000000000001", "3e8", "3e7"]:
        jobs.append({"fam": "z", "op": "from_hex", "via": "op", "h": h})
    # shifts
    for a in (CORE if tier == "quick" else BOUNDARY):
        for k in SHIFTS:
            jobs.append({"fam": "z", "op": "shl", "via": "op", "a": str(a), "k": k})
            jobs.append({"fam": "z", "op": "shr", "via": "op", "a": str(a), "k": k})
    for _ in range(nu * 2):
        jobs.append({"fam": "z", "op": rng.choice(["shl", "shr"]), "via": "op", "a": rnd_num(rng), "k": rng.randint(0, 140)})
    # shift amounts that are themselves beyond 64 bits (m*2^64 + j with a small j: a truncated amount stays cheap)
    for a in [str(v) for v in (0, 1, -1, 8, -8, 3, P(31), -P(63), P(64) + 1, 10 ** 30)] + [rnd_num(rng) for _ in range(nu // 10)]:
        for b in (P(64), P(64) + 1, P(64) + 3, P(65) + 2, 5 * P(64) + 64, P(100) + 7):
            jobs.append({"fam": "z", "op": "shr_huge", "via": "op", "a": a, "b": str(b)})
            jobs.append({"fam": "z", "op": "shl_huge", "via": "op", "a": a, "b": str(b)})
    return jobs


def q_jobs(rng, tier):
    jobs = []
    small = list(range(-9, 10))
    # rounding: every small fraction (all sign combinations, d = 0 included for the "div" constructor)
    for n in small:
        for d in small:
            for ctor in ("pair", "div", "str"):
                if d == 0 and ctor != "div":
                    continue
                if d < 0 and ctor == "str":
                    continue
                jobs.append({"fam": "q", "op": "q_round", "ctor": ctor, "via": ctor, "n": str(n), "d": str(d)})
    tab = [v for v in CORE if v != 0]
    for n in CORE:
        for d in tab:
            ctor = rng.choice(["pair", "div", "str"])
            if d < 0 and ctor == "str":
                ctor = "div"
            jobs.append({"fam": "q", "op": "q_round", "ctor": ctor, "via": ctor, "n": str(n), "d": str(d)})
    nr = 1500 if tier == "quick" else 12000

    def den(ctor, maxdig=20):
        d = rnd_num(rng, maxdig)
        while d in ("0", "-0"):
            d = rnd_num(rng, maxdig)
        if ctor == "str":
            d = d.lstrip("-")
        return d
    for _ in range(nr):
        ctor = rng.choice(["pair", "div", "str"])
        jobs.append({"fam": "q", "op": "q_round", "ctor": ctor, "via": ctor, "n": rnd_num(rng, 30), "d": den(ctor)})
    # arithmetic / comparison
    for _ in range(nr):
        op = rng.choice(["q_add", "q_sub", "q_mul", "q_div"])
        ctor = rng.choice(["pair", "div", "str"])
        big = rng.random() < 0.5
        md = 18 if big else 2
        jobs.append({"fam": "q", "op": op, "ctor": ctor, "via": rng.choice(["op", "asg"]),
                     "n1": rnd_num(rng, md), "d1": den(ctor, md), "n2": rnd_num(rng, md), "d2": den(ctor, md)})
    for _ in range(nr // 2):
        ctor = rng.choice(["pair", "div", "str"])
        md = rng.choice([1, 2, 12])
        n1, d1 = rnd_num(rng, md), den(ctor, md)
        n2, d2 = rnd_num(rng, md), den(ctor, md)
        if rng.random() < 0.2:               # equal values, same or different representation (x10 by appending a digit)
            n2, d2 = (n1 + "0", d1 + "0") if (rng.random() < 0.5 and n1 != "0") else (n1, d1)
        jobs.append({"fam": "q", "op": "q_cmp", "ctor": ctor, "via": ctor, "n1": n1, "d1": d1, "n2": n2, "d2": d2})
    for _ in range(nr // 2):
        ctor = rng.choice(["pair", "div", "str"])
        op = rng.choice(["q_neg", "q_inc", "q_dec", "q_shl"])
        j = {"fam": "q", "op": op, "ctor": ctor, "via": rng.choice(["pre", "post"]) if op in ("q_inc", "q_dec") else "op",
             "n1": rnd_num(rng, 15), "d1": den(ctor, 12)}
        if op == "q_shl":
            j["k"] = rng.randint(0, 70)
        jobs.append(j)
    return jobs


def s_jobs(rng, tier):
    jobs = []
    for op in ("s_add", "s_sub", "s_mul", "s_div", "s_cmp"):
        for a in I64:
            for b in I64:
                if op == "s_div" and b == 0:
                    continue                  # division by zero is outside the contract (SIGFPE)
                jobs.append({"fam": "s", "op": op, "via": "op", "a": str(a), "b": str(b)})
    nr = 700 if tier == "quick" else 8000
    for op in ("s_add", "s_sub", "s_mul", "s_div", "s_cmp"):
        for _ in range(nr):
            a, b = rnd_i64(rng), rnd_i64(rng)
            if op == "s_mul" and rng.random() < 0.5:     # products around +-2^63
                a = rng.choice([1, -1]) * rng.randint(1, P(40))
                b = (rng.choice([P(63) - 1, P(63), P(63) + 1]) // abs(a) + rng.randint(-1, 1)) * rng.choice([1, -1])
                b = max(-P(63), min(P(63) - 1, b))
            if op in ("s_add", "s_sub") and rng.random() < 0.5:   # sums around +-2^63
                a = rnd_i64(rng)
                t = rng.choice([P(63) - 1, P(63), -P(63), -P(63) - 1]) + rng.randint(-1, 1)
                b = (t - a) if op == "s_add" else (a - t)
                if not (-P(63) <= b <= P(63) - 1):
                    b = rnd_i64(rng)
            if op == "s_div" and b == 0:
                b = 1
            via = rng.choice(["op", "asg"]) if op in ("s_add", "s_sub") else "op"
            jobs.append({"fam": "s", "op": op, "via": via, "a": str(a), "b": str(b)})
    for a in I64 + [rnd_i64(rng) for _ in range(nr // 2)]:
        jobs.append({"fam": "s", "op": "s_neg", "via": "op", "a": str(a)})
    for a in [str(v) for v in BOUNDARY] + [rnd_num(rng, 25) for _ in range(nr // 2)] + [str(rnd_i64(rng)) for _ in range(nr // 2)]:
        jobs.append({"fam": "s", "op": "s_fromz", "via": "op", "a": a})
    return jobs


# ---------------------------------------------------------------------------------------------------------
NV = 3


def rnd_expr(rng, form=None):
    form = form or "e"
    if form == "n":
        return {"f": "n", "c": rng.randint(-6, 6), "t": []}
    if form == "x":
        return {"f": "x", "c": 0, "t": [[1, rng.randint(1, NV)]]}
    nt = rng.choice([0, 1, 1, 2, 2, 3, 4])
    t = [[rng.choice([-5, -3, -2, -1, -1, 0, 1, 1, 2, 3, 4]), rng.randint(1, NV)] for _ in range(nt)]
    return {"f": "e", "c": rng.randint(-6, 6), "t": t, "b": rng.choice([0, 1, 2])}


def rnd_map(rng):
    src = rng.sample(range(1, NV + 1), rng.randint(0, NV))
    return [[s, rng.randint(1, NV)] for s in src]


def neg_desc(e):
    return {"f": "e", "c": -e["c"], "t": [[-c, x] for c, x in e["t"]], "b": e.get("b", 0)}


def lin_jobs(rng, tier):
    jobs = []
    n = 250 if tier == "quick" else 2500
    kinds = ["le", "lt", "eq", "ne"]
    for nt in ("z", "q"):
        for _ in range(n):
            e = rnd_expr(rng)
            jobs.append({"fam": "lin", "nt": nt, "op": "e_build", "via": "b%d" % e["b"], "da": e})
            jobs.append({"fam": "lin", "nt": nt, "op": rng.choice(["e_add", "e_sub"]), "via": "ee", "da": rnd_expr(rng), "db": rnd_expr(rng)})
            # operands DERIVED from one another (copy, +/- a number): they may share their representation
            if rng.random() < 0.5:
                a = rnd_expr(rng)
                k = rng.choice(["copy", "addc", "addc", "addc64", "subc", "chain"])
                n_ = 0 if k == "copy" else rng.randint(-6, 6)
                b = dict(a)
                b["c"] = a["c"] + (-n_ if k == "subc" else n_)
                dv = {"k": k, "n": n_}
                jobs.append({"fam": "lin", "nt": nt, "op": rng.choice(["e_sub", "e_sub", "e_add"]), "via": "ee", "da": a, "db": b, "derive": dv})
                rel = rng.choice(["<=", "<", ">=", ">", "==", "!="])
                sw = rng.randint(0, 1)
                jobs.append({"fam": "lin", "nt": nt, "op": "c_make", "via": "ee", "i64": 0, "da": b if sw else a, "db": a if sw else b,
                             "rel": rel, "derive": dv, "swap": sw, "base": a})
            jobs.append({"fam": "lin", "nt": nt, "op": "e_neg", "via": "e", "da": rnd_expr(rng)})
            jobs.append({"fam": "lin", "nt": nt, "op": "e_scale", "via": rng.choice(["en", "ne"]), "i64": rng.choice([0, 1]),
                         "da": rnd_expr(rng), "n": rng.choice([-7, -2, -1, 0, 0, 1, 2, 3, 5])})
            op = rng.choice(["e_addc", "e_subc", "c_sube"])
            jobs.append({"fam": "lin", "nt": nt, "op": op, "via": rng.choice(["en", "ne"]) if op == "e_addc" else "x",
                         "i64": rng.choice([0, 1]), "da": rnd_expr(rng), "n": rng.randint(-9, 9)})
            op = rng.choice(["e_addv", "e_subv", "v_sube"])
            jobs.append({"fam": "lin", "nt": nt, "op": op, "via": rng.choice(["ev", "ve"]) if op == "e_addv" else "x",
                         "da": rnd_expr(rng), "x": rng.randint(1, NV)})
            jobs.append({"fam": "lin", "nt": nt, "op": "e_rename", "via": "map", "da": rnd_expr(rng), "map": rnd_map(rng)})
            # constraints
            fa, fb = rng.choice([("e", "e"), ("e", "n"), ("n", "e"), ("e", "x"), ("x", "e"), ("x", "n"), ("n", "x"), ("x", "x")])
            rel = rng.choice(["<=", ">=", ">"] if (fa, fb) == ("x", "x") else ["<=", "<", ">=", ">", "==", "!="])
            jobs.append({"fam": "lin", "nt": nt, "op": "c_make", "via": fa + fb, "i64": rng.choice([0, 1]),
                         "da": rnd_expr(rng, fa), "db": rnd_expr(rng, fb), "rel": rel})
            for k in kinds:
                e = rnd_expr(rng)
                if rng.random() < 0.3:       # constant constraints: tautology / contradiction tests must be exact
                    e["t"] = [] if rng.random() < 0.5 else [[2, 1], [-2, 1]]
                    e["c"] = rng.choice([-2, -1, 0, 0, 1, 2])
                jobs.append({"fam": "lin", "nt": nt, "op": "c_negate", "via": k, "da": e, "dk": k})
            jobs.append({"fam": "lin", "nt": nt, "op": "c_nonstrict", "via": "lt", "da": rnd_expr(rng), "dk": "lt"})
            jobs.append({"fam": "lin", "nt": nt, "op": "c_rename", "via": "map", "da": rnd_expr(rng), "dk": rng.choice(kinds), "map": rnd_map(rng)})
            # systems: seeded with e<=0 / -e<=0 pairs so that normalize() has something to do
            ds = []
            for _ in range(rng.randint(0, 3)):
                ds.append({"e": rnd_expr(rng), "k": rng.choice(kinds)})
            for _ in range(rng.randint(0, 2)):
                e = rnd_expr(rng)
                if rng.random() < 0.4:
                    e["t"] = [[rng.choice([-2, -1, 1, 3]), rng.randint(1, NV)]]
                ds.append({"e": e, "k": "le"})
                ds.append({"e": neg_desc(e), "k": rng.choice(["le", "le", "le", "lt", "eq"])})
                if rng.random() < 0.3:
                    ds.append({"e": dict(e), "k": "le"})          # duplicate
            rng.shuffle(ds)
            jobs.append({"fam": "lin", "nt": nt, "op": "s_normalize", "via": rng.choice(["add", "plus"]), "ds": ds})
    return jobs


# ---------------------------------------------------------------------------------------------------------
def nontrivial(j):
    if j["fam"] == "lin":
        es = [j[k] for k in ("da", "db") if k in j] + [d["e"] for d in j.get("ds", [])]
        return any(any(c != 0 for c, _ in e["t"]) for e in es)
    vals = [j[k] for k in ("a", "b", "n", "d", "n1", "n2", "h") if k in j]
    return all(v.lstrip("-") not in ("0", "1") for v in vals)


def run_harness(wd, jobs, label):
    jp, op = os.path.join(wd, label + ".jobs.json"), os.path.join(wd, label + ".ndjson")
    for k, j in enumerate(jobs):
        j["id"] = k + 1
    with open(jp, "w") as f:
        json.dump(jobs, f)
    rc, out = vlib.sh([os.path.join(vlib.BUILD, "bin", RUNNER), jp, op], timeout=3000)
    if rc != 0:
        raise vlib.Broken("%s failed (%d): %s" % (RUNNER, rc, out[-2000:]))
    recs = read_ndjson(op)
    if len(recs) != len(jobs):
        raise vlib.Broken("%s wrote %d records for %d jobs" % (RUNNER, len(recs), len(jobs)))
    return op, recs


def describe(rec):
    keep = {k: v for k, v in rec.items() if k not in ("id",)}
    return json.dumps(keep, separators=(",", ":"))[:700]


def judge(ck, wd, jobs, label, timeout=1500):
    op, recs = run_harness(wd, jobs, label)
    kp = os.path.join(wd, "known.json")
    vlib.write_known_for_spec(kp)
    r = tlc("NumJudge", "NumJudge", "c20-" + label, env={"NUM_RECORDS": op, "NUM_KNOWN": kp}, cont=True, timeout=timeout)
    for fid, rid in r.tuples("KNOWN"):
        ck.known(fid, {k: v for k, v in jobs[rid - 1].items() if k != "id"})
    ck.add_tlc(r, "NumJudge/" + label)
    ck.cov["traces_validated_against_impl"] += len(recs)
    ck.cov["evaluations"] += len(recs)
    po = ck.cov.setdefault("per_operation", {})
    er = ck.cov.setdefault("error_reports_per_operation", {})
    for j, x in zip(jobs, recs):
        key = "%s/%s/%s" % (j["fam"] + ("-" + j["nt"] if "nt" in j else ""), j["op"], j.get("via", "op"))
        po[key] = po.get(key, 0) + 1
        if x["err"]:
            ek = "%s/%s" % (j["fam"], j["op"])
            er[ek] = er.get(ek, 0) + 1
        if x["sig"]:
            ck.cov["signals"] = ck.cov.get("signals", 0) + 1
    ck.seen_nontrivial |= {json.dumps({k: v for k, v in j.items() if k != "id"}, sort_keys=True) for j in jobs if nontrivial(j)}
    for x in recs[len(recs) // 3: len(recs) // 3 + 1]:
        ck.sample(x, limit=8)
    if r.is_violation:
        bad = sorted({int(v) for v in r.state_var("i")})
        groups = {}
        for i in bad:
            j = jobs[i - 1]
            groups.setdefault((j["fam"], j.get("nt", ""), j["op"], j.get("ctor", j.get("via", ""))), []).append(i)
        ck.cov.setdefault("failing_records", {})
        for g, idx in sorted(groups.items()):
            ck.cov["failing_records"]["/".join(x for x in g if x)] = ck.cov["failing_records"].get("/".join(x for x in g if x), 0) + len(idx)
        # confirm in isolation (fresh harness process, fresh TLC run, only the representative failing jobs)
        pick = [i for g, idx in sorted(groups.items()) for i in idx[:2]]
        cjobs = [dict(jobs[i - 1]) for i in pick]
        op1, recs1 = run_harness(wd, cjobs, label + ".confirm")
        r1 = tlc("NumJudge", "NumJudge", "c20-" + label + "-confirm", env={"NUM_RECORDS": op1, "NUM_KNOWN": kp}, cont=True, workers=1,
                 timeout=600)
        again = {int(v) for v in r1.state_var("i")} if r1.is_violation else set()
        for k, (j, x) in enumerate(zip(cjobs, recs1)):
            if (k + 1) in again:
                jj = {kk: vv for kk, vv in j.items() if kk != "id"}
                ck.violation("record of the real %s code violates the contract of spec/NumJudge for op %s: %s" %
                             ({"z": "z_number", "q": "q_number", "s": "safe_i64", "lin": "linear_expression/constraint"}[j["fam"]],
                              j["op"], describe(x)), {"job": jj, "record": x})
    return r


def run(tier, seed):
    ck = Check("C20", tier, seed)
    ck.seen_nontrivial = set()
    build(RUNNER)
    wd = workdir("c20")
    rng = ck.rng
    judge(ck, wd, z_jobs(rng, tier), "z")
    judge(ck, wd, q_jobs(rng, tier), "q")
    judge(ck, wd, s_jobs(rng, tier), "s")
    judge(ck, wd, lin_jobs(rng, tier), "lin")
    ck.cov["distinct_nontrivial"] = len(ck.seen_nontrivial)
    ck.cov["rule"] = ("z_number: all pairs of the boundary table (%d values; q_number rounding and shifts use its %d core values) "
                      "for + - * /%% compare & | ^, shifts by %d amounts, conversions (string, hex, int64, uint64, raw "
                      "words), plus seeded random numbers of 1..40 digits; q_number: every fraction n/d with |n|,|d| <= 9 through three "
                      "constructors, boundary pairs, random; safe_i64: all pairs of the %d in-range boundary values plus random values aimed "
                      "at the +-2^63 edge; linear expressions/constraints: seeded random descriptions over 3 variables, every one of the "
                      "343 (z) / 343 half-integer (q) valuations of the box evaluated by TLC. non-trivial = distinct job whose number "
                      "operands are all different from 0 and +-1, resp. whose expressions have a non-zero coefficient"
                      % (len(BOUNDARY), len(CORE), len(SHIFTS), len(I64)))
    ck.cov["exhaustive"] = False
    ck.assumptions += [
        "decimal text is the transport: z_number(const std::string&) and get_str(10) are themselves judged by the string round trip, "
        "but a pair of errors in both that cancel exactly would not be seen",
        "shift amounts are 0..150, plus amounts m*2^64+j beyond 64 bits; negative shift amounts have no agreed meaning and are not exercised",
        "fill_ones is only called on non-negative numbers, safe_i64 division by zero and q_number(double)/get_double are not exercised",
        "linear expressions use small coefficients so that TLC evaluates them natively; valuations are the box -3..3 (z) and "
        "-3/2..3/2 in steps of 1/2 (q) over 3 variables",
        "CRAB_ERROR (exit 1 of the forked child) is the observation for 'error reported'"]
    return ck.finish()


def replay(path):
    case = json.load(open(path))["case"]
    ck = Check("C20", "quick", 0)
    ck.seen_nontrivial = set()
    build(RUNNER)
    wd = workdir("c20-replay")
    judge(ck, wd, [dict(case["job"])], "replay")
    ck.cov["distinct_nontrivial"] = len(ck.seen_nontrivial)
    return ck.finish()
