---------------------------- MODULE Octagons ----------------------------
(* C12, design level: the octagon domain over the INTEGERS as a coherent
   difference-bound matrix over the vertices x+, x-, y+, y- (n = 2) with
   closure, integer TIGHTENING of the unary entries and STRENGTHENING
   (the three mechanisms named by C12 for split_oct: coherence, strong closure,
   integer tightening), model-checked against the same EQUALITIES as
   spec/ExactOps.tla demands from the real code (see spec/Zones.tla).
   Vertex i holds V_i:  V_1 = x, V_2 = -x, V_3 = y, V_4 = -y;  m[i][j] bounds V_j - V_i.
   The real split_oct keeps variable bounds apart from the relational edges (split
   normal form); this model is the textbook full matrix: it validates the ORACLE side
   (exact sets, Hull by enumeration, the equalities are satisfiable by an octagon
   implementation), not the split data structure. *)
EXTENDS Integers, FiniteSets, TLC, IOUtils

R == atoi(IOEnv.ZR)          \* box radius
K == atoi(IOEnv.ZK)          \* constants of the added constraints
MaxC == atoi(IOEnv.ZMAXC)    \* number of added constraints (both registers together)
INF == 1000
V == 1..4
Bar(i) == IF i % 2 = 1 THEN i + 1 ELSE i - 1
Min2(a, b) == IF a < b THEN a ELSE b
Max2(a, b) == IF a < b THEN b ELSE a
Pts == {<<a, b>> : a \in (-R)..R, b \in (-R)..R}
Val(p, i) == CASE i = 1 -> p[1] [] i = 2 -> -p[1] [] i = 3 -> p[2] [] OTHER -> -p[2]
MaxOf(X) == CHOOSE m \in X : \A n \in X : n <= m
(* matrices are EAGER tuples of tuples (a function constructor [i \in V |-> ...] is re-evaluated by TLC at
   every application: four nested Floyd-Warshall rounds on lazy functions blow up) *)
Mat(F(_, _)) == << <<F(1, 1), F(1, 2), F(1, 3), F(1, 4)>>, <<F(2, 1), F(2, 2), F(2, 3), F(2, 4)>>,
                   <<F(3, 1), F(3, 2), F(3, 3), F(3, 4)>>, <<F(4, 1), F(4, 2), F(4, 3), F(4, 4)>> >>
Bot == Mat(LAMBDA i, j : -INF)

(* the language: a linear form <<a, i, b, j>> = a*v_i + b*v_j (b = 0: unary), exactly as in ExactOps.tla *)
Forms == {<<1, 1, 0, 1>>, <<-1, 1, 0, 1>>, <<1, 2, 0, 2>>, <<-1, 2, 0, 2>>,
          <<1, 1, -1, 2>>, <<1, 2, -1, 1>>, <<1, 1, 1, 2>>, <<-1, 1, -1, 2>>}
Ev(f, p) == f[1] * p[f[2]] + f[3] * p[f[4]]
Csts == {<<f, k>> : f \in Forms, k \in (-K)..K}           \* f <= k
Holds(c, p) == Ev(c[1], p) <= c[2]
Sat(cs) == {p \in Pts : \A c \in cs : Holds(c, p)}

(* the (coherent) matrix entries that encode f <= k;  an entry <<i, j, w>> means V_j - V_i <= w *)
Pos(v) == 2 * v - 1
Neg(v) == 2 * v
Edges(c) ==
  LET f == c[1]  k == c[2] IN
  IF f[3] = 0 THEN (IF f[1] = 1 THEN {<<Neg(f[2]), Pos(f[2]), 2 * k>>} ELSE {<<Pos(f[2]), Neg(f[2]), 2 * k>>})
  ELSE LET vi == IF f[1] = 1 THEN Pos(f[2]) ELSE Neg(f[2])     \* the vertex whose value is  a*v_i
           vj == IF f[3] = 1 THEN Pos(f[4]) ELSE Neg(f[4])     \* the vertex whose value is  b*v_j
       IN {<<Bar(vj), vi, k>>, <<Bar(vi), vj, k>>}             \* a*v_i - (-(b*v_j)) <= k, and its coherent twin

FW1(m, k) == Mat(LAMBDA i, j : Min2(m[i][j], m[i][k] + m[k][j]))
FW(m) == FW1(FW1(FW1(FW1(m, 1), 2), 3), 4)
Tighten(m) == Mat(LAMBDA i, j : IF j = Bar(i) THEN 2 * (m[i][j] \div 2) ELSE m[i][j])     \* \div is floor
Strengthen(m) == Mat(LAMBDA i, j : IF i = j THEN 0 ELSE Min2(m[i][j], (m[i][Bar(i)] + m[Bar(j)][j]) \div 2))
TightClose(m) ==
  LET c == FW(m) IN
  IF \E i \in V : c[i][i] < 0 THEN Bot
  ELSE LET t == Tighten(c) IN
       IF \E i \in V : t[i][Bar(i)] + t[Bar(i)][i] < 0 THEN Bot ELSE Strengthen(t)

BoxM == Mat(LAMBDA i, j : IF i = j THEN 0 ELSE 2 * R)
SetMin(m, es) == Mat(LAMBDA i, j : IF \E e \in es : e[1] = i /\ e[2] = j
                                            THEN Min2(m[i][j], (CHOOSE e \in es : e[1] = i /\ e[2] = j)[3]) ELSE m[i][j])
Add(m, c) == IF m = Bot THEN Bot ELSE TightClose(SetMin(m, Edges(c)))

Gamma(m) == IF m = Bot THEN {} ELSE {p \in Pts : \A i \in V : \A j \in V : Val(p, j) - Val(p, i) <= m[i][j]}
Tight(m, S) ==
  IF S = {} THEN m = Bot
  ELSE /\ m # Bot
       /\ \A i \in V : \A j \in V : i # j => m[i][j] = MaxOf({Val(p, j) - Val(p, i) : p \in S})
       /\ Gamma(m) = S

ForgetBox(m, v) ==
  IF m = Bot THEN Bot
  ELSE LET d == Mat(LAMBDA i, j : IF i = j THEN 0
                                           ELSE IF i \in {Pos(v), Neg(v)} \/ j \in {Pos(v), Neg(v)} THEN INF ELSE m[i][j])
       IN TightClose(SetMin(d, {<<Neg(v), Pos(v), 2 * R>>, <<Pos(v), Neg(v), 2 * R>>}))
ForgetSet(S, v) == {[p EXCEPT ![v] = n] : p \in S, n \in (-R)..R}

Join(a, b) == IF a = Bot THEN b ELSE IF b = Bot THEN a ELSE Mat(LAMBDA i, j : Max2(a[i][j], b[i][j]))
Meet(a, b) == IF a = Bot \/ b = Bot THEN Bot ELSE TightClose(Mat(LAMBDA i, j : Min2(a[i][j], b[i][j])))
Hull(X) == IF X = {} THEN {}
           ELSE LET bounds == {<<f, MaxOf({Ev(f, s) : s \in X})>> : f \in Forms}
                IN {p \in Pts : \A fb \in bounds : Ev(fb[1], p) <= fb[2]}

VARIABLES csA, mA, csB, mB
vars == <<csA, mA, csB, mB>>
Init == csA = {} /\ mA = BoxM /\ csB = {} /\ mB = BoxM
Next == /\ Cardinality(csA) + Cardinality(csB) < MaxC
        /\ \/ \E c \in Csts \ csA : csA' = csA \cup {c} /\ mA' = Add(mA, c) /\ UNCHANGED <<csB, mB>>
           \/ \E c \in Csts \ csB : csB' = csB \cup {c} /\ mB' = Add(mB, c) /\ UNCHANGED <<csA, mA>>
Spec == Init /\ [][Next]_vars

AssumeExact == Tight(mA, Sat(csA))
ForgetExact == \A v \in 1..2 : Tight(ForgetBox(mA, v), ForgetSet(Sat(csA), v))
JoinIsHull  == Tight(Join(mA, mB), Hull(Sat(csA) \cup Sat(csB)))
MeetExact   == Tight(Meet(mA, mB), Sat(csA) \cap Sat(csB))
LeqExact    == \/ mA = Bot \/ mB = Bot
               \/ ((\A i \in V : \A j \in V : mA[i][j] <= mB[i][j]) <=> (Sat(csA) \subseteq Sat(csB)))
============================================================================
