"""Shared driver of the inter-procedural checks (C09, C10, inter part of C02): call graphs -> real analyzers
(harness/inter_runner) -> invariants, summaries, verdicts -> TLC explores every concrete execution with a call stack
(spec/InterSound.tla)."""
import json, os, re, collections
import vlib, intergen
from vlib import tlc, workdir

EXACT = ("intervals", "split_dbm", "sparse_dbm", "split_oct")
DOMS = ["intervals", "split_dbm", "split_oct", "sparse_dbm", "term_int", "term_sdbm", "dis_intervals", "ric", "bool_int",
        "num_product", "pow_int", "constant", "sign_constant", "aa_int", "fixed_tvpi", "lw_soct", "vp_int"]


def parse_violation(r):
    m = re.findall(r"/\\ prog = (\d+)\n/\\ fn = (\d+)\n/\\ block = (\d+)\n/\\ idx = (\d+)\n/\\ state = (<<.*?>>)\n/\\ entry_state = (<<.*?>>)\n"
                   r"/\\ depth = (\d+)\n/\\ frommain = (\w+)\n/\\ bad_invariant = (\{.*?\})\n/\\ bad_summary = (\{.*?\})\n/\\ bad_verdict = (\{.*?\})",
                   r.out, re.S)
    if not m:
        return None
    prog, fn, blk, idx, state, s0, depth, fm, bi, bs, bv = m[-1]
    pr = lambda t: [(int(a), b) for a, b in re.findall(r'<<(\d+), "([^"]+)">>', t)]
    trace = [[int(a), int(b), int(c), d, int(e)] for a, b, c, d, e in
             re.findall(r"/\\ fn = (\d+)\n/\\ block = (\d+)\n/\\ idx = (\d+)\n/\\ state = (<<.*?>>)\n/\\ entry_state = <<.*?>>\n/\\ depth = (\d+)", r.out, re.S)]
    return {"prog": int(prog), "fn": int(fn), "block": int(blk), "idx": int(idx), "state": state, "entry_state": s0,
            "depth": int(depth), "frommain": fm == "TRUE", "bad_invariant": pr(bi), "bad_summary": pr(bs), "bad_verdict": pr(bv),
            "execution(fn,block,idx,state,depth)": trace}


def explore(ck, label, programs, box=1, univ=10, maxdepth=3, timeout=1500, max_iter=8):
    wd = workdir(ck.pid.lower() + "-" + label)
    pp, op_, tp, xp = [os.path.join(wd, x) for x in ("p.ndjson", "o.ndjson", "progs.ndjson", "excl.json")]
    vlib.write_ndjson(pp, programs)
    rc, out = vlib.sh([os.path.join(vlib.BUILD, "bin", "inter_runner"), pp, op_], timeout=3000, env={"VH_STEP_TIMEOUT": 30})
    if rc != 0:
        raise vlib.Broken("inter_runner failed (%d): %s" % (rc, out[-2000:]))
    recs = vlib.read_ndjson(op_)
    merged = intergen.merge(programs, recs, lambda c: 1 if c["dom"] in EXACT and c.get("budom", c["dom"]) in EXACT else 0)
    vlib.write_ndjson(tp, merged)
    errs = collections.Counter((x["dom"], x["err"]) for x in recs if "err" in x)
    ck.cov.setdefault("harness_no_claim", {})
    for (d, e), n in errs.items():
        key = "%s:%s" % (d, e)
        ck.cov["harness_no_claim"][key] = ck.cov["harness_no_claim"].get(key, 0) + n
    ok = [x for x in recs if "err" not in x]
    ck.cov["traces_validated_against_impl"] += len(ok)
    ck.cov["evaluations"] += len(ok)
    timeouts = [x for x in recs if x.get("err") == "timeout"]
    excluded, viols = [], []
    for it in range(max_iter):
        json.dump(excluded, open(xp, "w"))
        r = tlc("InterSound", "InterSound", ck.pid.lower() + "-" + label,
                env={"PROGRAMS": tp, "EXCLUDED": xp, "BOX": box, "UNIV": univ, "MAXDEPTH": maxdepth}, timeout=timeout)
        if it == 0:
            ck.add_tlc(r, "InterSound/" + label)
        if not r.is_violation:
            break
        v = parse_violation(r)
        if v is None:
            raise vlib.Broken("cannot parse TLC violation:\n" + r.out[-3000:])
        v["violated"] = sorted(set(r.violated))
        v["program"] = next(p for p in programs if p["id"] == v["prog"])
        viols.append(v)
        for run, dom in v["bad_invariant"] + v["bad_summary"] + v["bad_verdict"]:
            excluded.append([v["prog"], run])
    return viols, merged, timeouts
