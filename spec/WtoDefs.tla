--------------------------- MODULE WtoDefs ---------------------------
(* Weak topological orderings (Bourdoncle): the contract of C07 as predicates
   over a FLAT projection of a WTO, and a reference model of the algorithm in
   crab's include/crab/fixpoint/wto.hpp.

   A record r describes one graph and one WTO:
     r.n      number of nodes, nodes are 1..r.n
     r.entry  entry node
     r.succ   r.succ[u] = sequence of successors of u, in successor order
     r.order  the nodes of the WTO in linear order (a head stands at the
              start of its component)
     r.comps  sequence of <<head, start, end>>: positions start..end of
              r.order form the component headed by head
     r.nest   sequence of [node |-> v, heads |-> <<...>>] = wto::nesting(v) *)
EXTENDS Integers, Sequences, FiniteSets, SequencesExt

Rng(s) == {s[k] : k \in DOMAIN s}

RECURSIVE ReachFrom(_, _)
ReachFrom(r, S) ==
  LET S2 == S \cup UNION {Rng(r.succ[u]) : u \in S}
  IN IF S2 = S THEN S ELSE ReachFrom(r, S2)
Reach(r) == ReachFrom(r, {r.entry})

Pos(r, v) == CHOOSE p \in DOMAIN r.order : r.order[p] = v
Comps(r) == Rng(r.comps)

(* every node reachable from the entry occurs exactly once *)
OnceEach(r) ==
  /\ \A p, q \in DOMAIN r.order : r.order[p] = r.order[q] => p = q
  /\ Rng(r.order) = Reach(r)

(* components are intervals headed by their first node, properly nested *)
ProperlyNested(r) ==
  /\ \A c \in Comps(r) : /\ 1 <= c[2] /\ c[2] <= c[3] /\ c[3] <= Len(r.order)
                         /\ r.order[c[2]] = c[1]
  /\ \A k, l \in DOMAIN r.comps : k # l =>
       LET c == r.comps[k]  d == r.comps[l]
       IN \/ c[3] < d[2] \/ d[3] < c[2]
          \/ (c[2] < d[2] /\ d[3] <= c[3])
          \/ (d[2] < c[2] /\ c[3] <= d[3])

(* u -> v : u before v, or v heads a component containing u *)
EdgesOrdered(r) ==
  \A u \in Reach(r) : \A v \in Rng(r.succ[u]) :
     \/ Pos(r, u) < Pos(r, v)
     \/ \E c \in Comps(r) : c[1] = v /\ c[2] <= Pos(r, u) /\ Pos(r, u) <= c[3]

(* nesting(v) = heads of the components strictly enclosing v, outermost first *)
Enclosing(r, v) == {c \in Comps(r) : c[2] <= Pos(r, v) /\ Pos(r, v) <= c[3] /\ c[1] # v}
NestingOf(r, v) ==
  LET s == SetToSortSeq(Enclosing(r, v), LAMBDA a, b : a[2] < b[2])
  IN [k \in DOMAIN s |-> s[k][1]]
NestingExact(r) ==
  /\ {e.node : e \in Rng(r.nest)} = Reach(r)
  /\ \A k, l \in DOMAIN r.nest : r.nest[k].node = r.nest[l].node => k = l
  /\ \A e \in Rng(r.nest) : e.heads = NestingOf(r, e.node)

WellFormed(r) == OnceEach(r) /\ ProperlyNested(r) /\ EdgesOrdered(r) /\ NestingExact(r)

-----------------------------------------------------------------------
(* Reference model: Bourdoncle's recursive algorithm exactly as in wto.hpp
   (the RECURSIVE_WTO variant; the shipped iterative variant is meant to
   compute the same thing).  State: dfn table, stack, counter. *)
INF == 1000000
Vertex(v) == [h |-> v, cyc |-> FALSE, body |-> <<>>]
Cycle(v, b) == [h |-> v, cyc |-> TRUE, body |-> b]

RECURSIVE PopUntil(_, _)
PopUntil(s, v) ==   \* pops elements until v is popped; popped non-v elements get dfn 0
  LET e == s.stack[Len(s.stack)]
      s1 == [s EXCEPT !.stack = SubSeq(s.stack, 1, Len(s.stack) - 1)]
  IN IF e = v THEN s1 ELSE PopUntil([s1 EXCEPT !.dfn[e] = 0], v)

RECURSIVE Visit(_, _, _), VisitSuccs(_, _, _, _), CompSuccs(_, _, _, _)

(* acc = [s, part, head, loop] *)
VisitSuccs(g, v, k, acc) ==
  IF k > Len(g.succ[v]) THEN acc
  ELSE LET w == g.succ[v][k]
           d == acc.s.dfn[w]
           r == IF d = 0 THEN Visit(g, w, [s |-> acc.s, part |-> acc.part])
                         ELSE [s |-> acc.s, part |-> acc.part, head |-> d]
           min == r.head
       IN VisitSuccs(g, v, k + 1,
             IF min <= acc.head
               THEN [s |-> r.s, part |-> r.part, head |-> min, loop |-> TRUE]
               ELSE [s |-> r.s, part |-> r.part, head |-> acc.head, loop |-> acc.loop])

(* component(v): visit the not-yet-numbered successors into a fresh partition *)
CompSuccs(g, v, k, acc) ==   \* acc = [s, part]
  IF k > Len(g.succ[v]) THEN acc
  ELSE LET w == g.succ[v][k]
       IN IF acc.s.dfn[w] = 0
            THEN LET r == Visit(g, w, acc) IN CompSuccs(g, v, k + 1, [s |-> r.s, part |-> r.part])
            ELSE CompSuccs(g, v, k + 1, acc)

Visit(g, v, in) ==
  LET num1 == in.s.num + 1
      s1 == [dfn |-> [in.s.dfn EXCEPT ![v] = num1], stack |-> Append(in.s.stack, v), num |-> num1]
      r == VisitSuccs(g, v, 1, [s |-> s1, part |-> in.part, head |-> num1, loop |-> FALSE])
  IN IF r.head = r.s.dfn[v]
       THEN LET s2 == [r.s EXCEPT !.dfn[v] = INF]
            IN IF r.loop
                 THEN LET s3 == PopUntil(s2, v)
                          c == CompSuccs(g, v, 1, [s |-> s3, part |-> <<>>])
                      IN [s |-> c.s, part |-> <<Cycle(v, c.part)>> \o r.part, head |-> r.head]
                 ELSE [s |-> PopUntil(s2, v), part |-> <<Vertex(v)>> \o r.part, head |-> r.head]
       ELSE [s |-> r.s, part |-> r.part, head |-> r.head]

ModelWto(g) ==
  Visit(g, g.entry, [s |-> [dfn |-> [u \in 1..g.n |-> 0], stack |-> <<>>, num |-> 0],
                     part |-> <<>>]).part

(* flattening of the nested model result into the same projection as the harness *)
RECURSIVE FlatOrder(_), FlatComps(_, _)
FlatOrder(part) ==
  IF part = <<>> THEN <<>>
  ELSE LET c == Head(part)
       IN (IF c.cyc THEN <<c.h>> \o FlatOrder(c.body) ELSE <<c.h>>) \o FlatOrder(Tail(part))
(* off = number of positions before this partition *)
FlatComps(part, off) ==
  IF part = <<>> THEN <<>>
  ELSE LET c == Head(part)
           len == Len(FlatOrder(<<c>>))
       IN (IF c.cyc THEN <<<<c.h, off + 1, off + len>>>> \o FlatComps(c.body, off + 1) ELSE <<>>)
          \o FlatComps(Tail(part), off + len)

ModelRecord(g) ==
  LET p == ModelWto(g)
      base == [n |-> g.n, entry |-> g.entry, succ |-> g.succ,
               order |-> FlatOrder(p), comps |-> FlatComps(p, 0), nest |-> <<>>]
      ord == base.order
  IN [base EXCEPT !.nest = [k \in DOMAIN ord |-> [node |-> ord[k], heads |-> NestingOf(base, ord[k])]]]
=======================================================================
