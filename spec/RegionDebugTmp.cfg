SPECIFICATION Spec
INVARIANT NoStuck
CHECK_DEADLOCK FALSE
