// prog_runner <programs.ndjson> <out.ndjson>
// Runs the real intra-procedural forward analyzer (+ assertion checker) on every
// program x run configuration and exports the invariants at the entry/exit of every
// block and the verdict of every assertion. Serves C01, C02, C05 (termination), C13/C14.
#include <crab/support/debug.hpp>
#include "domreg.hpp"
#include "progbuild.hpp"
#include <crab/analysis/dataflow/liveness.hpp>
#include <crab/analysis/fwd_analyzer.hpp>
#include <crab/checkers/assertion.hpp>
#include <crab/checkers/base_property.hpp>
#include <crab/checkers/checker.hpp>
#include <csignal>
#include <sys/wait.h>
#include <unistd.h>

using namespace vh;
typedef crab::analyzer::intra_fwd_analyzer<z_cfg_ref_t, ref_t> analyzer_t;
typedef crab::checker::intra_checker<analyzer_t> checker_t;
typedef crab::checker::assert_property_checker<analyzer_t> assert_checker_t;

static const char *kind_str(crab::checker::check_kind k) {
  switch (k) {
  case crab::checker::check_kind::CRAB_SAFE: return "safe";
  case crab::checker::check_kind::CRAB_ERR: return "err";
  case crab::checker::check_kind::CRAB_UNREACH: return "unreach";
  default: return "warn";
  }
}

struct fixpo_visits_visitor : public ikos::wto_component_visitor<z_cfg_ref_t> {
  unsigned long total = 0;
  void visit(wto_vertex_t &) override {}
  void visit(wto_cycle_t &c) override {
    total += c.get_fixpo_visits();
    for (auto &comp : c) comp.accept(this);
  }
};

// C15: answers of the real domain to the reference queries on one invariant:
//  [[is_null_ref (1 true, 0 false, 2 top, 3 bottom), get_allocation_sites returned true ? 1 : 0, [sites]], ...] per reference
static void emit_refq(std::ostream &o, ref_t inv, const vj::Value &p, const VarTab &vt) {
  const vj::Value &refs = p["refs"];
  o << "[";
  for (size_t j = 0; j < refs.size(); ++j) {
    const z_var &v = vt.v(refs[j].i());
    crab::domains::boolean_value n = inv.is_null_ref(v);
    int code = n.is_bottom() ? 3 : n.is_true() ? 1 : n.is_false() ? 0 : 2;
    std::vector<crab::allocation_site> sites;
    bool ok = inv.get_allocation_sites(v, sites);
    o << (j ? "," : "") << "[" << code << "," << (ok ? 1 : 0) << ",[";
    if (ok)
      for (size_t k = 0; k < sites.size(); ++k) o << (k ? "," : "") << sites[k].index();
    o << "]]";
  }
  o << "]";
}
//  [[get_tags returned true ? 1 : 0, [tags]], ...] per region variable (the reference argument of get_tags is unused by
//  the region domain but must have reference type)
static void emit_tagq(std::ostream &o, ref_t inv, const vj::Value &p, const VarTab &vt) {
  const vj::Value &rgns = p["rgns"];
  o << "[";
  for (size_t j = 0; j < rgns.size(); ++j) {
    std::vector<uint64_t> tags;
    bool ok = p["refs"].size() > 0 && inv.get_tags(vt.v(rgns[j].i()), vt.v(p["refs"][0].i()), tags);
    o << (j ? "," : "") << "[" << (ok ? 1 : 0) << ",[";
    if (ok)
      for (size_t k = 0; k < tags.size(); ++k) o << (k ? "," : "") << tags[k];
    o << "]]";
  }
  o << "]";
}

static void run_one(const vj::Value &p, size_t k, std::ostream &o) {
  const vj::Value &run = p["runs"][k];
  crab::domains::crab_domain_params_man::get() = crab::domains::crab_domain_params();
  if (run.has("params")) set_domain_params(run["params"]);
  variable_factory_t vfac;
  VarTab vt(vfac);
  vt.declare(p["vars"]);
  std::unique_ptr<z_cfg_t> cfg = build_cfg(p, vt);
  std::vector<int> qvars;
  for (size_t i = 1; i <= vt.n(); ++i)
    if (vt.types[i] == "int" || vt.types[i] == "bool") qvars.push_back(i);
  auto it = domreg().find(run["dom"].str());
  if (it == domreg().end()) {
    std::cerr << "unknown domain " << run["dom"].str() << "\n";
    std::exit(2);
  }
  ref_t top = it->second();
  ref_t init = top.make_top();
  if (p.has("init")) {
    z_lin_cst_sys_t sys;
    for (size_t i = 0; i < p["init"].size(); ++i) sys += lin_cst(p["init"][i], vt);
    init += sys;
  }
  z_cfg_ref_t ref(*cfg);
  crab::analyzer::live_and_dead_analysis<z_cfg_ref_t> live(ref);
  bool use_live = run.geti("live", 0) != 0;
  if (use_live) live.exec();
  crab::fixpoint_parameters fp;
  fp.get_widening_delay() = run.geti("wd", 2);
  fp.get_descending_iterations() = run.geti("desc", 1);
  fp.get_max_thresholds() = run.geti("th", 0);
  analyzer_t a(ref, top, use_live ? &live : nullptr, fp);
  analyzer_t::assumption_map_t assumptions;
  if (run.has("assume")) {
    for (auto &kv : run["assume"].o) {
      ref_t v = top.make_top();
      z_lin_cst_sys_t sys;
      for (size_t i = 0; i < kv.second.size(); ++i) sys += lin_cst(kv.second[i], vt);
      v += sys;
      assumptions.insert({blabel(std::atol(kv.first.c_str())), v});
    }
  }
  long aentry = run.geti("entry", p["entry"].i());
  a.run(blabel(aentry), init, assumptions);
  size_t nb = p["blocks"].size();
  o << "{\"id\":" << p["id"].i() << ",\"run\":" << k + 1 << ",\"dom\":" << vj::q(run["dom"].str()) << ",\"pre\":[";
  for (size_t b = 1; b <= nb; ++b) {
    o << (b > 1 ? "," : "");
    emit_obs(o, a.get_pre(blabel(b)), vt, qvars, false);
  }
  o << "],\"post\":[";
  for (size_t b = 1; b <= nb; ++b) {
    o << (b > 1 ? "," : "");
    emit_obs(o, a.get_post(blabel(b)), vt, qvars, false);
  }
  if (p.has("refs")) {
    const char *names[4] = {"rq_pre", "rq_post", "tq_pre", "tq_post"};
    for (int q = 0; q < 4; ++q) {
      o << "],\"" << names[q] << "\":[";
      for (size_t b = 1; b <= nb; ++b) {
        o << (b > 1 ? "," : "");
        ref_t inv = (q % 2 == 0) ? a.get_pre(blabel(b)) : a.get_post(blabel(b));
        if (q < 2) emit_refq(o, inv, p, vt);
        else emit_tagq(o, inv, p, vt);
      }
    }
  }
  o << "],\"checks\":[";
  if (run.geti("check", 1)) {
    checker_t::prop_checker_ptr prop(new assert_checker_t(0));
    checker_t checker(a, {prop});
    checker.run();
    crab::checker::checks_db db = checker.get_all_checks();
    bool first = true;
    for (auto &kv : db.get_all_checks())
      for (auto ck : kv.second) {
        o << (first ? "" : ",") << "{\"id\":" << kv.first.get_id() << ",\"res\":\"" << kind_str(ck) << "\"}";
        first = false;
      }
  }
  fixpo_visits_visitor fv;
  a.get_wto().accept(&fv);
  o << "],\"visits\":" << fv.total << "}\n";
}

int main(int argc, char **argv) {
  if (argc == 2 && std::string(argv[1]) == "--list") {
    for (auto &kv : domreg()) std::cout << kv.first << "\n";
    return 0;
  }
  if (argc < 3) return 2;
  std::vector<vj::Value> ps;
  {
    std::ifstream in(argv[1]);
    std::string line;
    while (std::getline(in, line))
      if (!line.empty()) ps.push_back(vj::parse(line));
  }
  FILE *out = fopen(argv[2], "w");
  if (!out) return 2;
  if (getenv("VH_CRAB_LOG")) crab::CrabEnableLog(getenv("VH_CRAB_LOG")); // developer aid: one crab log tag
  long per_run_s = getenv("VH_STEP_TIMEOUT") ? atol(getenv("VH_STEP_TIMEOUT")) : 20;
  // flatten (program, run) pairs
  std::vector<std::pair<size_t, size_t>> jobs;
  for (size_t i = 0; i < ps.size(); ++i)
    for (size_t k = 0; k < ps[i]["runs"].size(); ++k) jobs.push_back({i, k});
  size_t next = 0;
  while (next < jobs.size()) {
    int pfd[2];
    if (pipe(pfd) != 0) return 2;
    fflush(out);
    pid_t pid = fork();
    if (pid == 0) {
      close(pfd[0]);
      for (size_t j = next; j < jobs.size(); ++j) {
        alarm(per_run_s);
        std::ostringstream s;
        run_one(ps[jobs[j].first], jobs[j].second, s);
        alarm(0);
        fputs(s.str().c_str(), out);
        fflush(out);
        char c = 1;
        if (write(pfd[1], &c, 1) != 1) _exit(5);
      }
      _exit(0);
    }
    close(pfd[1]);
    size_t done = 0;
    char buf[256];
    ssize_t n;
    while ((n = read(pfd[0], buf, sizeof buf)) > 0) done += n;
    close(pfd[0]);
    int status = 0;
    waitpid(pid, &status, 0);
    next += done;
    if (next < jobs.size()) {
      const char *why = (WIFSIGNALED(status) && WTERMSIG(status) == SIGALRM) ? "timeout" : "crash";
      const vj::Value &p = ps[jobs[next].first];
      fprintf(out, "{\"id\":%lld,\"run\":%zu,\"dom\":\"%s\",\"err\":\"%s\",\"status\":%d}\n", p["id"].i(), jobs[next].second + 1,
              p["runs"][jobs[next].second]["dom"].str().c_str(), why,
              WIFSIGNALED(status) ? 1000 + WTERMSIG(status) : WEXITSTATUS(status));
      ++next;
    }
  }
  fclose(out);
  return 0;
}
