// JSON program -> crab CFG. Program format (see DESIGN.md section 2):
//  {"id":k,"vars":[{"n","t","w"}],"entry":1,"exit":m|0,
//   "blocks":[{"succ":[..],"stmts":[STMT,...]},...],   block i has label "b<i>"
//   "fn":{"name":"f","in":[vars],"out":[vars]}  (optional function declaration)}
#pragma once
#include "crabir.hpp"

namespace vh {

inline std::string blabel(long i) { return "b" + std::to_string(i); }
inline long bindex(const std::string &l) { return std::atol(l.c_str() + 1); }

inline std::vector<z_var> var_vec(const vj::Value &a, const VarTab &vt) {
  std::vector<z_var> r;
  for (size_t i = 0; i < a.size(); ++i) r.push_back(vt.v(a[i].i()));
  return r;
}

inline void add_stmt(z_basic_block_t &bb, const vj::Value &st, const VarTab &vt) {
  const std::string &op = st["op"].str();
  auto X = [&](const char *k) { return vt.v(st[k].i()); };
  if (op == "assign") {
    bb.assign(X("x"), lin_exp(st["e"], vt));
  } else if (op == "arith" || op == "bitw") {
    const std::string &f = st["f"].str();
    bool k = st["zk"].i() != 0;
    z_var x = X("x"), y = X("y");
#define VH_BIN(NAME, METH)                                                                                            \
  if (f == NAME) {                                                                                                    \
    if (k) bb.METH(x, y, num(st["z"]));                                                                               \
    else bb.METH(x, y, vt.v(st["z"].i()));                                                                            \
    return;                                                                                                           \
  }
    if (op == "arith") {
      VH_BIN("add", add) VH_BIN("sub", sub) VH_BIN("mul", mul) VH_BIN("sdiv", div) VH_BIN("udiv", udiv)
      VH_BIN("srem", rem) VH_BIN("urem", urem)
    } else {
      VH_BIN("and", bitwise_and) VH_BIN("or", bitwise_or) VH_BIN("xor", bitwise_xor) VH_BIN("shl", shl)
      VH_BIN("lshr", lshr) VH_BIN("ashr", ashr)
    }
#undef VH_BIN
    std::cerr << "add_stmt: unknown binary op " << f << "\n";
    std::exit(4);
  } else if (op == "assume") {
    bb.assume(lin_cst(st["c"], vt));
  } else if (op == "assert") {
    bb.assertion(lin_cst(st["c"], vt), crab::cfg::debug_info(st["id"].i()));
  } else if (op == "havoc") {
    bb.havoc(X("x"));
  } else if (op == "select") {
    bb.select(X("x"), lin_cst(st["c"], vt), lin_exp(st["e1"], vt), lin_exp(st["e2"], vt));
  } else if (op == "unreach") {
    bb.unreachable();
  } else if (op == "bassign_cst") {
    bb.bool_assign(X("x"), lin_cst(st["c"], vt));
  } else if (op == "bassign_var") {
    bb.bool_assign(X("x"), X("y"), st["neg"].i() != 0);
  } else if (op == "bop") {
    const std::string &f = st["f"].str();
    if (f == "and") bb.bool_and(X("x"), X("y"), X("z"));
    else if (f == "or") bb.bool_or(X("x"), X("y"), X("z"));
    else bb.bool_xor(X("x"), X("y"), X("z"));
  } else if (op == "bassume") {
    if (st["neg"].i()) bb.bool_not_assume(X("x"));
    else bb.bool_assume(X("x"));
  } else if (op == "bassert") {
    bb.bool_assert(X("x"), crab::cfg::debug_info(st["id"].i()));
  } else if (op == "bselect") {
    bb.bool_select(X("x"), X("c"), X("y"), X("z"));
  } else if (op == "call") {
    bb.callsite(st["fn"].str(), var_vec(st["lhs"], vt), var_vec(st["args"], vt));
  } else if (op == "ainit") {
    bb.array_init(X("a"), lin_exp(st["lb"], vt), lin_exp(st["ub"], vt), lin_exp(st["v"], vt),
                  z_lin_exp_t(z_number(st.geti("es", 1))));
  } else if (op == "astore") {
    bb.array_store(X("a"), lin_exp(st["i"], vt), lin_exp(st["v"], vt), z_lin_exp_t(z_number(st.geti("es", 1))),
                   st.geti("strong", 0) != 0);
  } else if (op == "astore_range") {
    bb.array_store_range(X("a"), lin_exp(st["i"], vt), lin_exp(st["j"], vt), lin_exp(st["v"], vt),
                         z_lin_exp_t(z_number(st.geti("es", 1))));
  } else if (op == "aload") {
    bb.array_load(X("x"), X("a"), lin_exp(st["i"], vt), z_lin_exp_t(z_number(st.geti("es", 1))));
  } else if (op == "aassign") {
    bb.array_assign(X("a"), X("b"));
  } else if (op == "conv") {
    const std::string &f = st["f"].str();
    if (f == "trunc") bb.truncate(X("y"), X("x"));
    else if (f == "sext") bb.sext(X("y"), X("x"));
    else bb.zext(X("y"), X("x"));
  } else if (op == "nop") {
  } else {
    std::cerr << "add_stmt: unknown op " << op << "\n";
    std::exit(4);
  }
}

inline std::unique_ptr<z_cfg_t> build_cfg(const vj::Value &p, const VarTab &vt) {
  std::unique_ptr<z_cfg_t> cfg;
  long entry = p["entry"].i(), exit = p.geti("exit", 0);
  if (p.has("fn")) {
    const vj::Value &fn = p["fn"];
    crab::cfg::function_decl<z_number, varname_t> decl(fn["name"].str(), var_vec(fn["in"], vt), var_vec(fn["out"], vt));
    cfg.reset(new z_cfg_t(blabel(entry), blabel(exit), decl));
  } else if (exit)
    cfg.reset(new z_cfg_t(blabel(entry), blabel(exit)));
  else
    cfg.reset(new z_cfg_t(blabel(entry)));
  const vj::Value &bs = p["blocks"];
  for (size_t i = 1; i <= bs.size(); ++i) cfg->insert(blabel(i));
  for (size_t i = 1; i <= bs.size(); ++i) {
    z_basic_block_t &bb = cfg->get_node(blabel(i));
    const vj::Value &succ = bs[i - 1]["succ"];
    for (size_t k = 0; k < succ.size(); ++k) bb >> cfg->get_node(blabel(succ[k].i()));
    const vj::Value &stmts = bs[i - 1]["stmts"];
    for (size_t k = 0; k < stmts.size(); ++k) add_stmt(bb, stmts[k], vt);
  }
  return cfg;
}

// function record {"name","in","out","entry","exit","blocks"} -> CFG with a function declaration
inline std::unique_ptr<z_cfg_t> build_cfg_fn(const vj::Value &f, const VarTab &vt) {
  crab::cfg::function_decl<z_number, varname_t> decl(f["name"].str(), var_vec(f["in"], vt), var_vec(f["out"], vt));
  std::unique_ptr<z_cfg_t> cfg(new z_cfg_t(blabel(f["entry"].i()), blabel(f["exit"].i()), decl));
  const vj::Value &bs = f["blocks"];
  for (size_t i = 1; i <= bs.size(); ++i) cfg->insert(blabel(i));
  for (size_t i = 1; i <= bs.size(); ++i) {
    z_basic_block_t &bb = cfg->get_node(blabel(i));
    const vj::Value &succ = bs[i - 1]["succ"];
    for (size_t k = 0; k < succ.size(); ++k) bb >> cfg->get_node(blabel(succ[k].i()));
    const vj::Value &stmts = bs[i - 1]["stmts"];
    for (size_t k = 0; k < stmts.size(); ++k) add_stmt(bb, stmts[k], vt);
  }
  return cfg;
}

} // namespace vh
