// Minimal JSON reader used by the harness adaptors (no third-party code).
// Numbers keep their source text so that big integers travel as strings.
#pragma once
#include <cstdlib>
#include <fstream>
#include <iostream>
#include <map>
#include <memory>
#include <sstream>
#include <string>
#include <vector>

namespace vj {

struct Value;
using ValuePtr = std::shared_ptr<Value>;

struct Value {
  enum Kind { Null, Bool, Num, Str, Arr, Obj } kind = Null;
  bool b = false;
  std::string s; // Str contents or Num source text
  std::vector<Value> a;
  std::vector<std::pair<std::string, Value>> o;

  bool is_null() const { return kind == Null; }
  bool is_num() const { return kind == Num; }
  bool is_str() const { return kind == Str; }
  bool is_arr() const { return kind == Arr; }
  bool is_obj() const { return kind == Obj; }
  long long i() const {
    if (kind == Bool) return b ? 1 : 0;
    return std::strtoll(s.c_str(), nullptr, 10);
  }
  const std::string &str() const { return s; }
  size_t size() const { return kind == Arr ? a.size() : o.size(); }
  const Value &operator[](size_t k) const { return a.at(k); }
  const Value &operator[](int k) const { return a.at(k); }
  const Value &operator[](long k) const { return a.at(k); }
  bool has(const std::string &k) const {
    for (auto &p : o)
      if (p.first == k) return true;
    return false;
  }
  const Value &operator[](const std::string &k) const {
    for (auto &p : o)
      if (p.first == k) return p.second;
    std::cerr << "vjson: missing key " << k << "\n";
    std::exit(3);
  }
  const Value &operator[](const char *k) const { return (*this)[std::string(k)]; }
  long long geti(const std::string &k, long long dflt) const {
    return has(k) ? (*this)[k].i() : dflt;
  }
  std::string gets(const std::string &k, const std::string &dflt) const {
    return has(k) ? (*this)[k].s : dflt;
  }
};

class Parser {
  const std::string &t;
  size_t p = 0;
  void ws() {
    while (p < t.size() && (t[p] == ' ' || t[p] == '\n' || t[p] == '\t' || t[p] == '\r')) ++p;
  }
  [[noreturn]] void fail(const char *m) {
    std::cerr << "vjson: " << m << " at " << p << "\n";
    std::exit(3);
  }

public:
  explicit Parser(const std::string &text) : t(text) {}
  bool at_end() {
    ws();
    return p >= t.size();
  }
  Value parse() {
    ws();
    if (p >= t.size()) fail("eof");
    Value v;
    char c = t[p];
    if (c == '{') {
      v.kind = Value::Obj;
      ++p;
      ws();
      if (t[p] == '}') { ++p; return v; }
      for (;;) {
        ws();
        Value k = parse();
        if (k.kind != Value::Str) fail("key");
        ws();
        if (t[p] != ':') fail(":");
        ++p;
        Value x = parse();
        v.o.emplace_back(k.s, std::move(x));
        ws();
        if (t[p] == ',') { ++p; continue; }
        if (t[p] == '}') { ++p; break; }
        fail("obj");
      }
    } else if (c == '[') {
      v.kind = Value::Arr;
      ++p;
      ws();
      if (t[p] == ']') { ++p; return v; }
      for (;;) {
        v.a.push_back(parse());
        ws();
        if (t[p] == ',') { ++p; continue; }
        if (t[p] == ']') { ++p; break; }
        fail("arr");
      }
    } else if (c == '"') {
      v.kind = Value::Str;
      ++p;
      while (p < t.size() && t[p] != '"') {
        if (t[p] == '\\') {
          ++p;
          char e = t[p];
          if (e == 'n') v.s += '\n';
          else if (e == 't') v.s += '\t';
          else v.s += e;
          ++p;
        } else
          v.s += t[p++];
      }
      ++p;
    } else if (c == 't' || c == 'f') {
      v.kind = Value::Bool;
      v.b = (c == 't');
      p += v.b ? 4 : 5;
    } else if (c == 'n') {
      p += 4;
    } else {
      v.kind = Value::Num;
      size_t q = p;
      while (q < t.size() && (t[q] == '-' || t[q] == '+' || t[q] == '.' || t[q] == 'e' || t[q] == 'E' ||
                              (t[q] >= '0' && t[q] <= '9')))
        ++q;
      if (q == p) fail("value");
      v.s = t.substr(p, q - p);
      p = q;
    }
    return v;
  }
};

inline Value parse(const std::string &text) {
  Parser ps(text);
  return ps.parse();
}

inline Value parse_file(const std::string &path) {
  std::ifstream in(path);
  if (!in) {
    std::cerr << "vjson: cannot open " << path << "\n";
    std::exit(3);
  }
  std::stringstream ss;
  ss << in.rdbuf();
  return parse(ss.str());
}

// JSON string escaping for output
inline std::string q(const std::string &s) {
  std::string r = "\"";
  for (char c : s) {
    if (c == '"' || c == '\\') { r += '\\'; r += c; }
    else if (c == '\n') r += "\\n";
    else r += c;
  }
  return r + "\"";
}

} // namespace vj
