---------------------------- MODULE ScalarJudge ----------------------------
(* C08, implementation level: every record written by harness/scalar_runner
   (descriptions of the operands and of the results that the REAL crab classes
   computed) is judged against the contracts of Scalars.tla.  One TLC initial
   state per record; every failing (record, operation, contract) is printed as
   <<"BAD", id, kind, op, tag>> with tag in SOUND / TIGHT / EXACT / QUERY /
   DESCR, or REF when the closed-form reference itself disagrees with brute
   force (= a mistake in this specification, never a finding).               *)
EXTENDS Scalars, Json

Recs == ndJsonDeserialize(IOEnv.C08_RECORDS)

(* open findings of known_findings.json whose signature names this engine:
   sig = [engine |-> "scalar_runner", kinds |-> <<..>>, ops |-> <<..>>, tag |-> ..].
   A failing contract that matches is printed as KNOWN and does not fail.     *)
Known == JsonDeserialize(IOEnv.C08_KNOWN)
InSeq(x, s) == \E j \in 1..Len(s) : s[j] = x
KnownFor(k, op, tag) == {j \in 1..Len(Known) : /\ InSeq(k, Known[j].sig.kinds) /\ InSeq(op, Known[j].sig.ops)
                                                /\ Known[j].sig.tag = tag}

(* i = 0: root; i = -c: chunk c of the records (one per TLC worker at a time);
   i > 0: record i, judged by the worker that expands its chunk              *)
NChunks == 64
VARIABLE i
Init == i = 0
Next == \/ i = 0 /\ i' \in {-c : c \in 1..NChunks}
        \/ i < 0 /\ i' \in {j \in DOMAIN Recs : (j % NChunks) + 1 = -i}
Spec == Init /\ [][Next]_i

Chk(rec, e, tag, cond) ==
  \/ cond
  \/ LET kf == KnownFor(rec.k, e.op, tag) IN
     IF kf # {} /\ tag # "REF"
     THEN PrintT(<<"KNOWN", Known[CHOOSE j \in kf : TRUE].id, rec.id, rec.k, e.op, tag>>)
     ELSE PrintT(<<"BAD", rec.id, rec.k, e.op, tag>>) /\ FALSE

(* the descriptions built from several yes/no query methods are consistent *)
DescrOk(k, d) ==
  CASE k = "sg" -> d.bot + d.top + d.eqz + d.ltz + d.gtz + d.lez + d.gez + d.nez = 1
    [] k = "ct" -> d.bot + d.top + Len(d.c) = 1
    [] k = "bv" -> d.bot + d.top + d.t + d.f = 1
    [] k = "sr" -> /\ d.k \in {"_|_", "[0,0]", "[1,1]", "[0,1]", "[1,+oo]", "[0,+oo]"}
                   /\ (Len(d.v) = 1) = (d.k \in {"[1,1]", "[0,1]"})
                   /\ (d.bot = 1) = (d.k = "_|_") /\ (d.top = 1) = (d.k = "[0,+oo]")
                   /\ (d.zero = 1) = (d.k = "[0,0]") /\ (d.one = 1) = (d.k = "[1,1]")
    [] k = "bd" -> (d.fin = 1) = (d.s = 0)
    [] OTHER -> TRUE

BoolName(op) == CASE op = "band" -> "and" [] op = "bor" -> "or" [] OTHER -> "xor"
(* values of x op y for the operations that compute with concrete values *)
ValueOps(k) == CASE k = "bv" -> {"band", "bor", "bxor"}
                 [] k = "qi" -> {"add", "sub", "mul", "div"}
                 [] OTHER -> NumOps \cup {"trim"}
Conc(k, op, x, y) ==
  CASE k = "bv" -> {BoolVal(BoolName(op), x, y)}
    [] k = "qi" -> QVal(op, x, y)
    [] k \notin {"bv", "qi"} /\ op = "trim" -> IF x # y THEN {x} ELSE {}   \* x survives "x != y"
    [] OTHER -> NumVal(op, x, y)

Tight(rec, e, A, B, R) ==
  /\ Chk(rec, e, "TIGHT", ZiN(e.r) = R)
  /\ IF IsFin(A) /\ IsFin(B) /\ Width(A) <= 24 /\ Width(B) <= 24
     THEN Chk(rec, e, "REF", R = Brute(e.op, A, B)) ELSE TRUE

BdBinOk(rec, e) ==
  LET p == BdE(rec.a) q == BdE(rec.b) IN
  IF e.rk = "ans" THEN Chk(rec, e, "EXACT", (e.r.v = 1) = RefBdAns(e.op, p, q))
  ELSE /\ Chk(rec, e, "DESCR", DescrOk("bd", e.r))
       /\ Chk(rec, e, "EXACT", RefBd(e.op, p, q) = {} \/ BdE(e.r) \in RefBd(e.op, p, q))

BinOk(rec, e, U, Sa, Sb) ==
  LET k == rec.k a == rec.a b == rec.b op == e.op IN
  IF "err" \in DOMAIN e THEN TRUE
  ELSE IF e.big = 1 THEN TRUE
  ELSE IF k = "bd" THEN BdBinOk(rec, e)
  ELSE
   /\ Chk(rec, e, "DESCR", DescrOk(e.rk, e.r))
   /\ CASE op \in ValueOps(k) ->
             /\ Chk(rec, e, "SOUND", \A x \in Sa : \A y \in Sb : \A v \in Conc(k, op, x, y) : InG(k, e.r, v))
             /\ IF k = "zi" /\ op \in TightOps THEN Tight(rec, e, ZiN(a), ZiN(b), Ref(op, ZiN(a), ZiN(b))) ELSE TRUE
        [] op \in {"join", "widen", "wth"} ->
             /\ Chk(rec, e, "SOUND", (\A x \in Sa : InG(k, e.r, x)) /\ (\A y \in Sb : InG(k, e.r, y)))
             /\ IF k = "zi" /\ op = "join" THEN Tight(rec, e, ZiN(a), ZiN(b), Ref(op, ZiN(a), ZiN(b))) ELSE TRUE
        [] op \in {"meet", "narrow"} ->
             /\ Chk(rec, e, "SOUND", /\ \A x \in Sa : InG(k, b, x) => InG(k, e.r, x)
                                     /\ \A y \in Sb : InG(k, a, y) => InG(k, e.r, y))
             /\ IF k = "zi" /\ op = "meet" THEN Tight(rec, e, ZiN(a), ZiN(b), Ref(op, ZiN(a), ZiN(b))) ELSE TRUE
        [] op = "leq" -> Chk(rec, e, "SOUND", e.r.v = 1 => \A x \in Sa : InG(k, b, x))
        [] op = "eq"  -> Chk(rec, e, "SOUND", e.r.v = 1 => /\ \A x \in Sa : InG(k, b, x)
                                                             /\ \A y \in Sb : InG(k, a, y))

QueryOk(rec, e, U, Sa) ==
  LET k == rec.k a == rec.a q == e.r IN
  /\ q.top = 1 => \A n \in U : InG(k, a, n)
  /\ q.bot = 1 => Sa = {}
  /\ ("sing" \in DOMAIN q /\ Len(q.sing) = 1) => (InG(k, a, q.sing[1]) /\ \A x \in Sa : x = q.sing[1])
  /\ "mem" \in DOMAIN q => \A j \in 1..Len(q.mem) : (q.mem[j] = 1) = InG(k, a, j - (Len(q.mem) + 1) \div 2)

UnOk(rec, e, U, Sa) ==
  LET k == rec.k a == rec.a op == e.op IN
  IF "err" \in DOMAIN e THEN TRUE
  ELSE IF e.big = 1 THEN TRUE
  ELSE IF k = "bd" THEN
     LET p == BdE(a) IN
     Chk(rec, e, "EXACT", BdE(e.r) = (IF op = "neg" \/ ~ELe(<<0, 0>>, p) THEN ENeg(p) ELSE p))
  ELSE
   /\ Chk(rec, e, "DESCR", DescrOk(e.rk, e.r))
   /\ CASE op = "neg" ->
             /\ Chk(rec, e, "SOUND", \A x \in Sa : InG(k, e.r, IF k = "qi" THEN <<-x[1], x[2]>> ELSE -x))
             /\ IF k = "zi" THEN /\ Chk(rec, e, "TIGHT", ZiN(e.r) = RefNeg(ZiN(a)))
                                 /\ IF IsFin(ZiN(a)) /\ Width(ZiN(a)) <= 64
                                    THEN Chk(rec, e, "REF", RefNeg(ZiN(a)) = BruteNeg(ZiN(a))) ELSE TRUE
                ELSE TRUE
        [] op = "not" -> Chk(rec, e, "SOUND", \A x \in Sa : InG(k, e.r, 1 - x))
        [] op \in {"inc1", "inc2", "inc3"} ->
             LET v == CASE op = "inc1" -> 1 [] op = "inc2" -> 2 [] OTHER -> 3
             IN Chk(rec, e, "SOUND", \A S \in Sa : InG(k, e.r, S \cup {v}))
        [] op = "lhl" -> Chk(rec, e, "SOUND", \A x \in Sa : \A n \in U : n <= x => InG(k, e.r, n))
        [] op = "uhl" -> Chk(rec, e, "SOUND", \A x \in Sa : \A n \in U : n >= x => InG(k, e.r, n))
        [] op \in {"tosign", "tointerval", "approx"} -> Chk(rec, e, "SOUND", \A x \in Sa : InG(e.rk, e.r, x))
        [] op = "sing" -> Chk(rec, e, "QUERY", Len(e.r.n) = 1 => \A x \in Sa : x = e.r.n[1])
        [] op = "query" -> Chk(rec, e, "QUERY", QueryOk(rec, e, U, Sa))

RecOk(rec) ==
  IF rec.t = "operr" \/ rec.big = 1 THEN TRUE
  ELSE IF rec.k = "bd" THEN
     /\ DescrOk("bd", rec.a)
     /\ IF rec.t = "bin"
        THEN Cardinality({j \in 1..Len(rec.ops) : ~BinOk(rec, rec.ops[j], {}, {}, {})}) = 0
        ELSE Cardinality({j \in 1..Len(rec.ops) : ~UnOk(rec, rec.ops[j], {}, {})}) = 0
  ELSE IF rec.t = "bin" THEN
     LET U  == Univ(rec.k, Pts(rec.k, rec.a) \cup Pts(rec.k, rec.b))
         Sa == Smp(rec.k, rec.a, U)
         Sb == Smp(rec.k, rec.b, U)
     IN /\ Cardinality(Sa) >= 0 /\ Cardinality(Sb) >= 0     \* enumerate the samples once
        /\ Chk(rec, [op |-> "operand-a"], "DESCR", DescrOk(rec.k, rec.a))
        /\ Chk(rec, [op |-> "operand-b"], "DESCR", DescrOk(rec.k, rec.b))
        /\ Cardinality({j \in 1..Len(rec.ops) : ~BinOk(rec, rec.ops[j], U, Sa, Sb)}) = 0
  ELSE
     LET U  == Univ(rec.k, Pts(rec.k, rec.a))
         Sa == Smp(rec.k, rec.a, U)
     IN /\ Cardinality(Sa) >= 0
        /\ Chk(rec, [op |-> "operand-a"], "DESCR", DescrOk(rec.k, rec.a))
        /\ Cardinality({j \in 1..Len(rec.ops) : ~UnOk(rec, rec.ops[j], U, Sa)}) = 0

Contract == i > 0 => RecOk(Recs[i])
=============================================================================
