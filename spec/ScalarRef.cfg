SPECIFICATION Spec
INVARIANT RefOk
CHECK_DEADLOCK FALSE
