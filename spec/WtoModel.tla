--------------------------- MODULE WtoModel ---------------------------
(* C07, design level: the reference model of Bourdoncle's algorithm
   (WtoDefs!ModelWto) yields a well-formed WTO for EVERY digraph with N nodes,
   every entry node and (Orders = "all") every successor order. *)
EXTENDS WtoDefs, TLC
CONSTANTS N, Orders

SuccChoices ==
  IF Orders = "all"
    THEN UNION {SetToSeqs(S) : S \in SUBSET (1..N)}
    ELSE {SetToSortSeq(S, LAMBDA a, b : IF Orders = "asc" THEN a < b ELSE a > b) : S \in SUBSET (1..N)}

VARIABLE g
Init == \E succ \in [1..N -> SuccChoices], e \in 1..N :
           g = [n |-> N, entry |-> e, succ |-> succ]
Next == UNCHANGED g
Spec == Init /\ [][Next]_g

ModelWellFormed == WellFormed(ModelRecord(g))
=======================================================================
