SPECIFICATION TSpec
INVARIANT Conform
CHECK_DEADLOCK FALSE
ALIAS Compact
