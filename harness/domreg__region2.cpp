// C15: region_domain over further base domains (cf. tests/crab_dom.hpp z_rgn_* typedefs)
#include "domreg.hpp"
#include "domtypes.hpp"
#include <crab/domains/array_adaptive.hpp>
#include <crab/domains/constant_domain.hpp>
#include <crab/domains/flat_boolean_domain.hpp>
#include <crab/domains/intervals.hpp>
#include <crab/domains/region_domain.hpp>
#include <crab/domains/sign_domain.hpp>
#include <crab/domains/split_dbm.hpp>
using namespace crab::domains;
using namespace vh;
typedef crab::var_factory_impl::str_var_alloc_col var_allocator;
typedef typename var_allocator::varname_t rgn_varname_t;
template <class BaseAbsDom> struct RegionParams2 {
  using number_t = z_number;
  using varname_t = vh::varname_t;
  using varname_allocator_t = var_allocator;
  using base_abstract_domain_t = BaseAbsDom;
  using base_varname_t = typename BaseAbsDom::varname_t;
};
typedef ikos::interval_domain<z_number, rgn_varname_t> b_int_t;
typedef split_dbm_domain<z_number, rgn_varname_t, DBM_impl::DefaultParams<z_number, DBM_impl::GraphRep::adapt_ss>> b_sdbm_t;
typedef constant_domain<z_number, rgn_varname_t> b_const_t;
typedef sign_domain<z_number, rgn_varname_t> b_sign_t;
typedef flat_boolean_numerical_domain<b_int_t> b_bool_int_t;
typedef flat_boolean_numerical_domain<b_sdbm_t> b_bool_sdbm_t;
typedef array_adaptive_domain<b_int_t> b_aa_int_t;
typedef region_domain<RegionParams2<b_sdbm_t>> rgn_sdbm_t;
typedef region_domain<RegionParams2<b_const_t>> rgn_const_t;
typedef region_domain<RegionParams2<b_sign_t>> rgn_sign_t;
typedef region_domain<RegionParams2<b_bool_int_t>> rgn_bool_int_t;
typedef region_domain<RegionParams2<b_bool_sdbm_t>> rgn_bool_sdbm_t;
typedef region_domain<RegionParams2<b_aa_int_t>> rgn_aa_int_t;
VH_DOMREG(rgn_sdbm, rgn_sdbm_t)
VH_DOMREG(rgn_const, rgn_const_t)
VH_DOMREG(rgn_sign, rgn_sign_t)
VH_DOMREG(rgn_bool_int, rgn_bool_int_t)
VH_DOMREG(rgn_bool_sdbm, rgn_bool_sdbm_t)
VH_DOMREG(rgn_aa_int, rgn_aa_int_t)
