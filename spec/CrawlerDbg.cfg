SPECIFICATION Spec
INVARIANT NoDiv
CHECK_DEADLOCK FALSE
ALIAS Compact
