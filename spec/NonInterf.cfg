SPECIFICATION Spec
INVARIANT SameOutcomes
INVARIANT SameOutputs
CHECK_DEADLOCK FALSE
ALIAS Compact
