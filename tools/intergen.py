"""Seeded generator of CrabIR call graphs (JSON) for spec/InterSound.tla: main + 1..3 functions, DAG calls, direct and
mutual recursion, repeated calls with different contexts, shared variable names, outputs overwriting arguments."""
import hist
from proggen import negate

NAMES = ["x", "y", "z", "w"]


def _body(rng, ints, writable, fn_in, fn_out, callees, allfuncs, nassert, want_loop):
    """a small CFG (list of blocks) whose every path reaches the last block (the exit)"""
    def stmts(n):
        out = []
        for _ in range(n):
            out.append(hist.stmt(rng, ints, [], "linear", lhs=writable))
        return out

    def call(name):
        f = allfuncs[name]
        args = [rng.choice(ints) for _ in f["in"]]
        # sometimes pass variables that have the same NAMES as the callee's formals, possibly permuted
        if rng.random() < 0.3 and len(f["in"]) <= len(ints):
            args = list(f["in"])
            if rng.random() < 0.5:
                rng.shuffle(args)
        # the SAME caller variable passed for several parameters, named like an EARLIER formal that itself receives another
        # variable (foo(a,b,c) called as foo(k,a,a)): the parallel binding formal_i := actual_i has to read the caller's value of
        # `a` at every later position
        if len(f["in"]) >= 3 and rng.random() < 0.5:
            v = f["in"][0]
            other = rng.choice([u for u in ints if u != v])
            args = [other] + [v] * (len(f["in"]) - 1)
            if rng.random() < 0.3:
                args[-1] = rng.choice(ints)
        elif len(f["in"]) >= 2 and rng.random() < 0.15:
            args = [rng.choice(ints)] * len(f["in"])        # one variable for every parameter
        lhs = rng.sample(writable, len(f["out"])) if len(writable) >= len(f["out"]) else None
        # outputs overwriting the arguments of the same call, in the order of the arguments (any index order)
        if lhs is not None and len(f["out"]) == len(args) and len(set(args)) == len(args) and all(a_ in writable for a_ in args) \
                and rng.random() < 0.55:
            lhs = list(args)
        if lhs is None:
            return None
        return {"op": "call", "fn": name, "lhs": lhs, "args": args}

    blocks = []

    def blk(st):
        blocks.append({"succ": [], "stmts": st})
        return len(blocks)

    def edge(a, b):
        blocks[a - 1]["succ"].append(b)

    shape = rng.choice(["chain", "diamond", "loop"] if want_loop else ["chain", "chain", "diamond"])
    pre = stmts(rng.randint(0, 2))
    calls = []
    for name in callees:
        c = call(name)
        if c:
            calls.append(c)
    if shape == "chain":
        e = blk(pre)
        cur = e
        for c in calls:
            n = blk([c] + stmts(rng.randint(0, 1)))
            edge(cur, n)
            cur = n
        x = blk(stmts(rng.randint(0, 1)))
        edge(cur, x)
    elif shape == "diamond":
        e = blk(pre)
        g = hist.cst(rng, ints, rels=("le", "le", "lt", "eq", "ne"))
        t = blk([{"op": "assume", "c": g}] + (calls[:1]) + stmts(rng.randint(0, 1)))
        f = blk([{"op": "assume", "c": negate(g)}] + (calls[1:2]) + stmts(rng.randint(0, 1)))
        x = blk(calls[2:] + stmts(rng.randint(0, 1)))
        edge(e, t)
        edge(e, f)
        edge(t, x)
        edge(f, x)
    else:
        e = blk(pre)
        h = blk([])
        v = rng.choice(writable)
        g = {"e": {"k": -rng.randint(1, 3), "t": [[1, v]]}, "r": "le"}   # v <= k
        b_ = blk([{"op": "assume", "c": g}] + calls[:1] + [{"op": "arith", "f": "add", "x": v, "y": v, "zk": 1, "z": 1}])
        x = blk([{"op": "assume", "c": negate(g)}] + calls[1:] + stmts(rng.randint(0, 1)))
        edge(e, h)
        edge(h, b_)
        edge(h, x)
        edge(b_, h)
    # outputs must be defined at exit: assign them from something
    for o in fn_out:
        if rng.random() < 0.8:
            blocks[-1]["stmts"].append({"op": "assign", "x": o, "e": hist.le(rng, ints, maxterms=1)})
    return blocks


def countdown_program(rng, pid):
    """directed family: a DIRECTLY self-recursive function with a base case whose recursive call passes a different value
       main: k := c; res := f(k)      f(n) -> r: if n <= 0 then r := a else { m := n - 1; t := f(m); r := t + d }
    (invariants of f's blocks must cover every activation, not only the one made by main)"""
    vars_ = [{"n": NAMES[i], "t": "int"} for i in range(4)]
    X, Y, Z, W = 1, 2, 3, 4
    c = rng.choice([1, 1, 2])
    a, d = rng.randint(-1, 1), rng.choice([0, 1, 1])
    le = lambda k, t=(): {"k": k, "t": [list(u) for u in t]}
    g = {"e": le(0, [(1, X)]), "r": "le"}                      # n <= 0
    f_blocks = [{"succ": [2, 3], "stmts": []},
                {"succ": [4], "stmts": [{"op": "assume", "c": g}, {"op": "assign", "x": Y, "e": le(a)}]},
                {"succ": [4], "stmts": [{"op": "assume", "c": negate(g)}, {"op": "arith", "f": "sub", "x": Z, "y": X, "zk": 1, "z": 1},
                                        {"op": "call", "fn": "f1", "lhs": [W], "args": [Z]},
                                        {"op": "arith", "f": "add", "x": Y, "y": W, "zk": 1, "z": d}]},
                {"succ": [], "stmts": []}]
    main_blocks = [{"succ": [2], "stmts": [{"op": "assign", "x": Z, "e": le(c)}, {"op": "call", "fn": "f1", "lhs": [W], "args": [Z]}]},
                   {"succ": [], "stmts": [{"op": "assert", "c": hist.cst(rng, [W, Z], rels=("le", "lt", "eq", "ne")), "id": 1}]}]
    funcs = [{"name": "main", "in": [], "out": [], "entry": 1, "exit": 2, "blocks": main_blocks},
             {"name": "f1", "in": [X], "out": [Y], "entry": 1, "exit": 4, "blocks": f_blocks}]
    return {"id": pid, "vars": vars_, "kinds": ["int"] * 4, "nv": 4, "funcs": funcs, "init": [], "recursive": True}


def mutual_program(rng, pid):
    """directed family: MUTUAL recursion f1 -> f2 -> f1 (a call-graph cycle of length 2: only one of the two is the head
    of the cycle, the other is analysed while the head's fixpoint is still iterating)
       main: k := c; res := f1(k)
       f1(n) -> r: if (*  or  n <= 0) then r := a else { t := f2(n); r := t + d }
       f2(m) -> s: u := m - dec; s := f1(u)          dec in {0, 1}: with 0 the entry of f2 repeats in every iteration"""
    vars_ = [{"n": NAMES[i], "t": "int"} for i in range(4)]
    X, Y, Z, W = 1, 2, 3, 4
    c = rng.choice([1, 2, 2])
    a, d = rng.randint(-1, 1), rng.choice([1, 1, 0])
    dec = rng.choice([0, 0, 1])
    guarded = dec == 1 or rng.random() < 0.3
    le = lambda k, t=(): {"k": k, "t": [list(u) for u in t]}
    g = {"e": le(0, [(1, X)]), "r": "le"}                      # n <= 0
    base = ([{"op": "assume", "c": g}] if guarded else []) + [{"op": "assign", "x": Y, "e": le(a)}]
    rec = ([{"op": "assume", "c": negate(g)}] if guarded else []) + [
        {"op": "call", "fn": "f2", "lhs": [W], "args": [X]},
        {"op": "arith", "f": "add", "x": Y, "y": W, "zk": 1, "z": d}]
    f1_blocks = [{"succ": [2, 3], "stmts": []}, {"succ": [4], "stmts": base}, {"succ": [4], "stmts": rec}, {"succ": [], "stmts": []}]
    f2_blocks = [{"succ": [], "stmts": [{"op": "arith", "f": "sub", "x": Z, "y": X, "zk": 1, "z": dec},
                                        {"op": "call", "fn": "f1", "lhs": [Y], "args": [Z]}]}]
    if rng.random() < 0.6:      # an assertion on the result of the recursive call, inside the non-head member of the cycle
        f2_blocks[0]["stmts"].append({"op": "assert", "c": {"e": le(-rng.randint(-1, 1), [(rng.choice([1, -1]), Y)]), "r": "le"}, "id": 2})
    main_blocks = [{"succ": [2], "stmts": [{"op": "assign", "x": Z, "e": le(c)}, {"op": "call", "fn": "f1", "lhs": [W], "args": [Z]}]},
                   {"succ": [], "stmts": [{"op": "assert", "c": hist.cst(rng, [W, Z], rels=("le", "lt", "eq", "ne")), "id": 1}]}]
    funcs = [{"name": "main", "in": [], "out": [], "entry": 1, "exit": 2, "blocks": main_blocks},
             {"name": "f1", "in": [X], "out": [Y], "entry": 1, "exit": 4, "blocks": f1_blocks},
             {"name": "f2", "in": [X], "out": [Y], "entry": 1, "exit": 1, "blocks": f2_blocks}]
    return {"id": pid, "vars": vars_, "kinds": ["int"] * 4, "nv": 4, "funcs": funcs, "init": [], "recursive": True}


def diverging_program(rng, pid):
    """directed family (C05): a recursive function whose base case is never met by the recursion (or that has no reachable
    exit at all): serve(n) -> r: if n <= k then r := a else { m := n + 1; t := serve(m); r := t }, called with n > k.
    The analysis has to extrapolate the growing argument although the function's exit stays unreachable."""
    vars_ = [{"n": NAMES[i], "t": "int"} for i in range(4)]
    X, Y, Z, W = 1, 2, 3, 4
    le = lambda k, t=(): {"k": k, "t": [list(u) for u in t]}
    k = rng.choice([-1, -2, 0])
    up = rng.choice([1, 1, 2])
    g = {"e": le(-k, [(1, X)]), "r": "le"}                      # n <= k
    variant = rng.choice(["never-met", "never-met", "no-base"])
    rec = [{"op": "arith", "f": "add", "x": Z, "y": X, "zk": 1, "z": up}, {"op": "call", "fn": "f1", "lhs": [W], "args": [Z]},
           {"op": "assign", "x": Y, "e": le(0, [(1, W)])}]
    if variant == "never-met":
        f_blocks = [{"succ": [2, 3], "stmts": []},
                    {"succ": [4], "stmts": [{"op": "assume", "c": g}, {"op": "assign", "x": Y, "e": le(rng.randint(-1, 1))}]},
                    {"succ": [4], "stmts": [{"op": "assume", "c": negate(g)}] + rec},
                    {"succ": [], "stmts": []}]
        ex = 4
    else:
        f_blocks = [{"succ": [2], "stmts": rec}, {"succ": [], "stmts": []}]
        ex = 2
    c = k + rng.choice([1, 1, 2])
    main_blocks = [{"succ": [2], "stmts": [{"op": "assign", "x": Z, "e": le(c)}, {"op": "call", "fn": "f1", "lhs": [W], "args": [Z]}]},
                   {"succ": [], "stmts": []}]
    funcs = [{"name": "main", "in": [], "out": [], "entry": 1, "exit": 2, "blocks": main_blocks},
             {"name": "f1", "in": [X], "out": [Y], "entry": 1, "exit": ex, "blocks": f_blocks}]
    return {"id": pid, "vars": vars_, "kinds": ["int"] * 4, "nv": 4, "funcs": funcs, "init": [], "recursive": True, "family": "diverging"}


def spike_program(rng, pid):
    """directed family: a callee with a SPIKE - f1(x) -> y = (x == k ? big : x + d) - called three or four times with
    constants such that a later argument lies inside the hull of earlier ones (and may hit the spike), an assertion on the
    result right after each call IN THE SAME BLOCK or in the next one.  With a bound on the calling contexts the analyzer joins
    contexts: the join of (pre, post) pairs is not a summary of the callee for the arguments in between."""
    vars_ = [{"n": NAMES[i], "t": "int"} for i in range(4)]
    X, Y, Z, W = 1, 2, 3, 4
    le = lambda k, t=(): {"k": k, "t": [list(u) for u in t]}
    k = rng.randint(-1, 1)
    big = rng.choice([4, 5, -4])
    d = rng.choice([0, 0, 1])
    if rng.random() < 0.5:      # spike through a select
        f_blocks = [{"succ": [2], "stmts": []},
                    {"succ": [], "stmts": [{"op": "select", "x": Y, "c": {"e": le(-k, [(1, X)]), "r": "eq"}, "e1": le(big), "e2": le(d, [(1, X)])}]}]
        ex = 2
    else:                       # spike through a branch
        g = {"e": le(-k, [(1, X)]), "r": "eq"}
        f_blocks = [{"succ": [2, 3], "stmts": []},
                    {"succ": [4], "stmts": [{"op": "assume", "c": g}, {"op": "assign", "x": Y, "e": le(big)}]},
                    {"succ": [4], "stmts": [{"op": "assume", "c": negate(g)}, {"op": "assign", "x": Y, "e": le(d, [(1, X)])}]},
                    {"succ": [], "stmts": []}]
        ex = 4
    lo, hi = k - rng.choice([1, 2]), k + rng.choice([1, 2])
    args = [lo, hi] if rng.random() < 0.5 else [hi, lo]
    args.append(k if rng.random() < 0.7 else rng.randint(lo, hi))
    if rng.random() < 0.4:
        args.append(rng.randint(lo, hi))
    if rng.random() < 0.25:
        rng.shuffle(args)
    blocks = []
    na = 0
    for i, a in enumerate(args):
        st = [{"op": "assign", "x": Z, "e": le(a)}, {"op": "call", "fn": "f1", "lhs": [W], "args": [Z]}]
        bound = max(abs(lo), abs(hi)) + d
        if rng.random() < 0.8:
            na += 1
            asrt = {"op": "assert", "c": {"e": le(-bound, [(1, W)]) if big > 0 else le(-bound, [(-1, W)]), "r": "le"}, "id": na}
            if rng.random() < 0.6:
                st.append(asrt)                 # same block, right after the call
                blocks.append({"succ": [], "stmts": st})
            else:
                blocks.append({"succ": [], "stmts": st})
                blocks.append({"succ": [], "stmts": [asrt]})
        else:
            blocks.append({"succ": [], "stmts": st})
    for i in range(len(blocks) - 1):
        blocks[i]["succ"] = [i + 2]
    funcs = [{"name": "main", "in": [], "out": [], "entry": 1, "exit": len(blocks), "blocks": blocks},
             {"name": "f1", "in": [X], "out": [Y], "entry": 1, "exit": ex, "blocks": f_blocks}]
    return {"id": pid, "vars": vars_, "kinds": ["int"] * 4, "nv": 4, "funcs": funcs, "init": [], "recursive": False, "family": "spike"}


def bound_contexts(rng, p):
    """spike programs are analysed with a bound on the calling contexts (the situation they are made for)"""
    if p.get("family") == "spike":
        for r in p["runs"]:
            if r.get("kind") == "td":
                r["max_cc"] = rng.choice([1, 1, 2])
                r["rec"] = 0


def program(rng, pid):
    r0 = rng.random()
    if r0 < 0.12:
        return countdown_program(rng, pid) if rng.random() < 0.5 else mutual_program(rng, pid)
    if r0 < 0.2:
        return spike_program(rng, pid)
    ints = [1, 2, 3, 4]
    vars_ = [{"n": NAMES[i - 1], "t": "int"} for i in ints]
    nf = rng.choice([1, 2, 2, 3])
    funcs = {}
    order = ["f%d" % i for i in range(1, nf + 1)]
    for name in order:
        nin = rng.choice([1, 1, 2, 2, 3])
        ins = rng.sample(ints, nin)
        free = [v for v in ints if v not in ins]
        outs = rng.sample(free, 2 if (len(free) >= 2 and rng.random() < (0.55 if nin == 2 else 0.35)) else 1)
        funcs[name] = {"name": name, "in": ins, "out": outs}
    # call structure: main calls some; f_i calls f_j (j > i: DAG), plus optional recursion
    rec = rng.random() < 0.3
    calls = {"main": []}
    for _ in range(rng.randint(1, 3)):
        calls["main"].append(rng.choice(order))
    for i, name in enumerate(order):
        calls[name] = [n for n in order[i + 1:] if rng.random() < 0.5]
        if rec and rng.random() < 0.6:
            calls[name].append(rng.choice(order[: i + 1]))   # self or backward call: recursion
    nassert = [0]
    out_funcs = []
    main_blocks = _body(rng, ints, ints, [], [], calls["main"], funcs, nassert, want_loop=rng.random() < 0.3)
    # assertions in main after the calls
    k = 0
    for _ in range(rng.randint(1, 3)):
        k += 1
        main_blocks[-1]["stmts"].append({"op": "assert", "c": hist.cst(rng, ints, rels=("le", "le", "lt", "eq", "ne")), "id": k})
    out_funcs.append({"name": "main", "in": [], "out": [], "entry": 1, "exit": len(main_blocks), "blocks": main_blocks})
    for name in order:
        f = funcs[name]
        writable = [v for v in ints if v not in f["in"]]
        body = _body(rng, ints, writable, f["in"], f["out"], calls[name], funcs, nassert, want_loop=rng.random() < 0.25)
        if name in calls[name] or any(name in calls[m] for m in order[order.index(name):]):
            # recursion: guard the first block's successors so that some path avoids the recursive call
            pass
        out_funcs.append({"name": name, "in": f["in"], "out": f["out"], "entry": 1, "exit": len(body), "blocks": body})
    init = []
    if rng.random() < 0.5:
        init.append(hist.cst(rng, ints, rels=("le", "le", "eq"), maxterms=1))
    return {"id": pid, "vars": vars_, "kinds": [v["t"] for v in vars_], "nv": len(vars_), "funcs": out_funcs, "init": init,
            "recursive": rec}


def merge(programs, run_recs, exact_fn):
    by = {}
    for r in run_recs:
        by.setdefault(r["id"], {})[r["run"]] = r
    out = []
    for p in programs:
        q = {k: v for k, v in p.items() if k != "runs"}
        runs = []
        for k, cfg in enumerate(p["runs"]):
            r = by.get(p["id"], {}).get(k + 1)
            if r is None or "err" in r:
                runs.append({"dom": cfg["dom"], "err": 1, "exact": 0, "why": (r or {}).get("err", "missing"), "funcs": [], "checks": []})
            else:
                runs.append({"dom": cfg["dom"], "err": 0, "exact": exact_fn(cfg), "funcs": r["funcs"], "checks": r["checks"], "cfg": cfg})
        q["runs"] = runs
        out.append(q)
    return out
