// dataflow_runner <programs.ndjson> <out.ndjson>      (C18)
// Runs the real live_and_dead_analysis on every program and exports, per block, the variables live at the end of
// the block (liveness_analysis::get) and the variables reported dead at the end of the block (dead_exit).
#include "progbuild.hpp"
#include <crab/analysis/dataflow/liveness.hpp>
#include <csignal>
#include <sys/wait.h>
#include <unistd.h>

using namespace vh;
typedef crab::analyzer::live_and_dead_analysis<z_cfg_ref_t> live_t;

static void put_set(std::ostream &o, const live_t::set_t &s, const VarTab &vt) {
  o << "[";
  bool first = true;
  if (!s.is_bottom() && !s.is_top())
    for (auto it = s.begin(); it != s.end(); ++it) {
      o << (first ? "" : ",") << vt.find(*it);
      first = false;
    }
  o << "]";
}

static void run_one(const vj::Value &p, std::ostream &o) {
  variable_factory_t vfac;
  VarTab vt(vfac);
  vt.declare(p["vars"]);
  std::unique_ptr<z_cfg_t> cfg = build_cfg(p, vt);
  z_cfg_ref_t ref(*cfg);
  live_t live(ref);
  live.exec();
  size_t nb = p["blocks"].size();
  o << "{\"id\":" << p["id"].i() << ",\"live\":[";
  for (size_t b = 1; b <= nb; ++b) {
    o << (b > 1 ? "," : "");
    put_set(o, live.get(blabel(b)), vt);
  }
  o << "],\"dead\":[";
  for (size_t b = 1; b <= nb; ++b) {
    o << (b > 1 ? "," : "");
    put_set(o, live.dead_exit(blabel(b)), vt);
  }
  o << "]}\n";
}

int main(int argc, char **argv) {
  if (argc < 3) return 2;
  std::vector<vj::Value> ps;
  {
    std::ifstream in(argv[1]);
    std::string line;
    while (std::getline(in, line))
      if (!line.empty()) ps.push_back(vj::parse(line));
  }
  FILE *out = fopen(argv[2], "w");
  if (!out) return 2;
  size_t next = 0;
  while (next < ps.size()) {
    int pfd[2];
    if (pipe(pfd) != 0) return 2;
    fflush(out);
    pid_t pid = fork();
    if (pid == 0) {
      close(pfd[0]);
      for (size_t j = next; j < ps.size(); ++j) {
        alarm(20);
        std::ostringstream s;
        run_one(ps[j], s);
        alarm(0);
        fputs(s.str().c_str(), out);
        fflush(out);
        char c = 1;
        if (write(pfd[1], &c, 1) != 1) _exit(5);
      }
      _exit(0);
    }
    close(pfd[1]);
    size_t done = 0;
    char buf[256];
    ssize_t n;
    while ((n = read(pfd[0], buf, sizeof buf)) > 0) done += n;
    close(pfd[0]);
    int status = 0;
    waitpid(pid, &status, 0);
    next += done;
    if (next < ps.size()) {
      fprintf(out, "{\"id\":%lld,\"err\":\"crash\"}\n", ps[next]["id"].i());
      ++next;
    }
  }
  fclose(out);
  return 0;
}
