"""Operation histories for the DomainOps specification: seeded generator, and the merge of
histories with the observations recorded by harness/dom_replay into TLC trace records."""
import json, re


def _vars_of(st):
    """all variable indices mentioned in a statement record"""
    out = set()

    def walk(o):
        if isinstance(o, dict):
            for k, v in o.items():
                if k in ("x", "y", "c") and isinstance(v, int):
                    out.add(v)
                elif k == "z" and isinstance(v, int) and o.get("zk", 0) == 0:
                    out.add(v)
                elif k == "t" and isinstance(v, list):
                    for term in v:
                        out.add(term[1])
                else:
                    walk(v)
        elif isinstance(o, list):
            for e in o:
                walk(e)
    walk(st)
    return out

COEFS = [-2, -1, 1, 1, 2]


def le(rng, ints, maxterms=2, kmax=3, coefs=COEFS):
    n = rng.choice([0, 1, 1, 2][: maxterms + 2]) if maxterms >= 2 else rng.choice([0, 1, 1])
    vs = rng.sample(ints, min(n, len(ints)))
    return {"k": rng.randint(-kmax, kmax), "t": [[rng.choice(coefs), v] for v in vs]}


def cst(rng, ints, rels=("le", "le", "lt", "eq", "ne"), **kw):
    e = le(rng, ints, **kw)
    if not e["t"]:
        e["t"] = [[rng.choice(COEFS), rng.choice(ints)]]
    return {"e": e, "r": rng.choice(rels)}


def operand(rng, ints, kmax=3):
    if rng.random() < 0.5:
        return {"zk": 1, "z": rng.randint(-kmax, kmax)}
    return {"zk": 0, "z": rng.choice(ints)}


def stmt(rng, ints, bools, profile="full", lhs=None, narrow=None):
    """a random CrabIR statement; lhs = integer variables that may be written (default: all)"""
    W = lhs if lhs is not None else ints
    if profile == "rel":
        # relational profile: chains of unit-coefficient difference / sum constraints with small (often negative)
        # constants, constant assignments and x := y + c: what zones / octagons closure code is made of
        k = rng.choice(["assume"] * 6 + ["assignc", "assignc", "assignv", "havoc"])
        if k == "assume":
            a, b = rng.sample(ints, 2)
            sa, sb = rng.choice([(1, -1), (1, -1), (1, 1), (-1, -1), (1, 0), (-1, 0)])
            t = [[sa, a]] + ([[sb, b]] if sb else [])
            return {"op": "assume", "c": {"e": {"k": rng.randint(-4, 4), "t": t}, "r": rng.choice(["le", "le", "le", "lt", "eq"])}}
        if k == "assignc":
            return {"op": "assign", "x": rng.choice(W), "e": {"k": rng.randint(-4, 4), "t": []}}
        if k == "assignv":
            return {"op": "assign", "x": rng.choice(W), "e": {"k": rng.randint(-2, 2), "t": [[rng.choice([1, 1, -1]), rng.choice(ints)]]}}
        return {"op": "havoc", "x": rng.choice(W)}
    if profile == "bwd":
        # backward-analysis profile (C11): invertible and NON-invertible assignments: division and multiplication by
        # small constants of either sign, x := x + k with x on both sides, select, assumes with bounds at -1, 0, 1
        k = rng.choice(["sdivk"] * 3 + ["mulk"] * 2 + ["addk"] * 2 + ["assign", "assume", "assume", "havoc", "select", "selectself",
                                                                      "assignself", "assignself", "subself", "remk", "remk", "mul0"])
        kc = lambda: rng.choice([-4, -3, -2, 2, 3, 4])
        if k == "assignself":
            # x := c*x + r with the assigned variable on the right-hand side: coefficient -1 (x := k - x, x := y - x, a toggled
            # flag x := 1 - x), +1 or +-2, residual a constant or another variable
            v = rng.choice(W)
            t = [[rng.choice([-1, -1, -1, 1, 2, -2]), v]]
            if rng.random() < 0.5:
                t.append([rng.choice([1, 1, -1]), rng.choice([u for u in ints if u != v] or ints)])
            rng.shuffle(t)
            return {"op": "assign", "x": v, "e": {"k": rng.randint(-2, 2), "t": t}}
        if k == "remk":         # remainders / unsigned division by small constants (not invertible), often as a self-update x := x % k
            v = rng.choice(W)
            return {"op": "arith", "f": rng.choice(["srem", "srem", "urem", "udiv"]), "x": v, "y": rng.choice([v, v, rng.choice(ints)]),
                    "zk": 1, "z": rng.choice([2, 3, -2])}
        if k == "mul0":         # x := y * 0 (not invertible), often as a self-update
            v = rng.choice(W)
            return {"op": "arith", "f": "mul", "x": v, "y": rng.choice([v, rng.choice(ints)]), "zk": 1, "z": 0}
        if k == "subself":      # x := y - x and x := x - y as arithmetic operations
            v = rng.choice(W)
            o = rng.choice([u for u in ints if u != v] or ints)
            y, z = (o, v) if rng.random() < 0.6 else (v, o)
            return {"op": "arith", "f": "sub", "x": v, "y": y, "zk": 0, "z": z}
        if k == "selectself":
            # x := ite(cond on x at -1/0/1, small constant or variable, ...): the condition reads the OLD value of the assigned variable
            v = rng.choice(W)
            c = {"e": {"k": rng.choice([-1, 0, 1]), "t": [[rng.choice([1, -1]), v]]}, "r": rng.choice(["le", "lt", "eq", "ne"])}
            br = lambda: ({"k": rng.randint(-1, 1), "t": []} if rng.random() < 0.7 else {"k": rng.randint(-1, 1), "t": [[1, rng.choice(ints)]]})
            return {"op": "select", "x": v, "c": c, "e1": br(), "e2": br()}
        if k == "sdivk":
            return {"op": "arith", "f": "sdiv", "x": rng.choice(W), "y": rng.choice(ints), "zk": 1, "z": kc()}
        if k == "mulk":
            return {"op": "arith", "f": "mul", "x": rng.choice(W), "y": rng.choice(ints), "zk": 1, "z": rng.choice([-2, -1, 2, 3])}
        if k == "addk":
            v = rng.choice(W)
            return {"op": "arith", "f": rng.choice(["add", "sub"]), "x": v, "y": rng.choice([v, rng.choice(ints)]), "zk": 1, "z": rng.randint(-2, 2)}
        if k == "assign":
            return {"op": "assign", "x": rng.choice(W), "e": le(rng, ints)}
        if k == "assume":
            return {"op": "assume", "c": {"e": {"k": rng.choice([-1, 0, 1]), "t": [[rng.choice([1, -1]), rng.choice(ints)]]}, "r": rng.choice(["le", "lt", "eq", "ne"])}}
        if k == "havoc":
            return {"op": "havoc", "x": rng.choice(W)}
        return {"op": "select", "x": rng.choice(W), "c": cst(rng, ints), "e1": le(rng, ints, maxterms=1), "e2": le(rng, ints, maxterms=1)}
    if profile == "c17b" and bools and rng.random() < 0.45:
        # boolean statements, conversions and external calls for the transformation / liveness programs (every operand position)
        k = rng.choice(["bassign_cst", "bassign_cst", "bassign_var", "bop", "bassume", "bselect", "zext", "trunc", "callx"])
        b = rng.choice(bools)
        if k == "bassign_cst":
            return {"op": "bassign_cst", "x": b, "c": {"e": {"k": rng.randint(-1, 1), "t": [[rng.choice([1, -1]), rng.choice(ints)]]},
                                                        "r": rng.choice(["le", "lt", "eq", "ne"])}}
        if k == "bassign_var":
            return {"op": "bassign_var", "x": b, "y": rng.choice(bools), "neg": rng.randint(0, 1)}
        if k == "bop":
            return {"op": "bop", "f": rng.choice(["and", "or", "xor"]), "x": b, "y": rng.choice(bools), "z": rng.choice(bools)}
        if k == "bassume":
            return {"op": "bassume", "x": b, "neg": rng.randint(0, 1)}
        if k == "bselect":
            return {"op": "bselect", "x": b, "c": rng.choice(bools), "y": rng.choice(bools), "z": rng.choice(bools)}
        if k == "zext":
            return {"op": "cast", "f": "zext", "x": rng.choice(W), "y": b, "sk": "bool", "dk": "int", "sw": 1, "dw": 32}
        if k == "trunc":
            return {"op": "cast", "f": "trunc", "x": b, "y": rng.choice(ints), "sk": "int", "dk": "bool", "sw": 32, "dw": 1}
        return {"op": "callx", "lhs": rng.sample(W, rng.randint(1, min(2, len(W)))), "args": rng.sample(ints + bools, rng.randint(0, 2))}
    if profile in ("c17", "c17b"):
        # statements that change magnitudes by at most a constant (no var+var, no multiplication): executions
        # of bounded length cannot leave the universe (needed by spec/Transform.tla, spec/NonInterf.tla)
        k = rng.choice(["assign"] * 5 + ["arith"] * 3 + ["assume"] * 3 + ["havoc", "select"])
        unit = lambda: {"k": rng.randint(-2, 2), "t": ([[rng.choice([-1, 1]), rng.choice(ints)]] if rng.random() < 0.75 else [])}
        if k == "assign":
            return {"op": "assign", "x": rng.choice(W), "e": unit()}
        if k == "arith":
            return {"op": "arith", "f": rng.choice(["add", "sub"]), "x": rng.choice(W), "y": rng.choice(ints), "zk": 1, "z": rng.randint(-2, 2)}
        if k == "assume":
            return {"op": "assume", "c": cst(rng, ints)}
        if k == "havoc":
            return {"op": "havoc", "x": rng.choice(W)}
        return {"op": "select", "x": rng.choice(W), "c": cst(rng, ints), "e1": unit(), "e2": unit()}
    kinds = ["assign"] * 4 + ["arith"] * 4 + ["assume"] * 5 + ["havoc", "select", "select"]
    if profile != "linear":
        kinds += ["bitw"] * 2
    if bools:
        kinds += ["bassign_cst", "bassign_var", "bop", "bassume", "bselect", "castb", "castb"]
    if narrow:
        kinds += ["narrow"] * 5
    k = rng.choice(kinds)
    if k == "castb":        # boolean <-> integer conversions: x := zext(b), b := trunc(x)
        b, v = rng.choice(bools), rng.choice(W)
        if rng.random() < 0.5:
            return {"op": "cast", "f": "zext", "x": v, "y": b, "sk": "bool", "dk": "int", "sw": 1, "dw": 32}
        return {"op": "cast", "f": "trunc", "x": b, "y": rng.choice(ints), "sk": "int", "dk": "bool", "sw": 32, "dw": 1}
    if k == "narrow":       # the 8-bit variable: only conversions from / to 32-bit variables and statements on itself are well typed
        q = rng.choice(["trunc", "trunc", "zext", "sext", "sext", "const", "assume", "havoc"])
        if q == "trunc":
            return {"op": "cast", "f": "trunc", "x": narrow, "y": rng.choice(ints), "sk": "int", "dk": "int", "sw": 32, "dw": 8}
        if q in ("zext", "sext"):
            return {"op": "cast", "f": q, "x": rng.choice(W), "y": narrow, "sk": "int", "dk": "int", "sw": 8, "dw": 32}
        if q == "const":
            return {"op": "assign", "x": narrow, "e": {"k": rng.randint(-3, 3), "t": []}}
        if q == "assume":
            return {"op": "assume", "c": {"e": {"k": rng.randint(-2, 2), "t": [[rng.choice([1, -1]), narrow]]}, "r": rng.choice(["le", "lt", "eq", "ne"])}}
        return {"op": "havoc", "x": narrow}
    if k == "assign":
        return {"op": "assign", "x": rng.choice(W), "e": le(rng, ints)}
    if k == "arith":
        fs = ["add", "sub", "mul", "add", "sub", "mul", "sdiv", "srem", "udiv", "urem"]
        if profile == "linear":
            fs = ["add", "sub", "mul"]
        d = {"op": "arith", "f": rng.choice(fs), "x": rng.choice(W), "y": rng.choice(ints)}
        d.update(operand(rng, ints))
        return d
    if k == "bitw":
        f = rng.choice(["and", "or", "xor", "shl", "lshr", "ashr"])
        d = {"op": "bitw", "f": f, "x": rng.choice(W), "y": rng.choice(ints)}
        d.update(operand(rng, ints, kmax=3))
        if f in ("shl", "lshr", "ashr") and d["zk"] == 1:
            d["z"] = abs(d["z"])
        return d
    if k == "assume":
        return {"op": "assume", "c": cst(rng, ints)}
    if k == "havoc":
        return {"op": "havoc", "x": rng.choice(W + bools)}
    if k == "select":
        c = cst(rng, ints)
        e1, e2 = le(rng, ints, maxterms=1), le(rng, ints, maxterms=1)
        if c["e"]["t"] and rng.random() < 0.5:
            # a branch value that mentions a variable the condition restricts (x := c ? k : v): the value of that branch
            # lies where the condition is false / true, so evaluating both branches under the same guard loses values
            v = rng.choice(c["e"]["t"])[1]
            tgt = e2 if rng.random() < 0.6 else e1
            tgt["t"] = [[rng.choice([1, 1, -1]), v]]
        return {"op": "select", "x": rng.choice(W), "c": c, "e1": e1, "e2": e2}
    if k == "bassign_cst":
        return {"op": "bassign_cst", "x": rng.choice(bools), "c": cst(rng, ints)}
    if k == "bassign_var":
        return {"op": "bassign_var", "x": rng.choice(bools), "y": rng.choice(bools), "neg": rng.randint(0, 1)}
    if k == "bop":
        return {"op": "bop", "f": rng.choice(["and", "or", "xor"]), "x": rng.choice(bools), "y": rng.choice(bools),
                "z": rng.choice(bools)}
    if k == "bassume":
        return {"op": "bassume", "x": rng.choice(bools), "neg": rng.randint(0, 1)}
    return {"op": "bselect", "x": rng.choice(bools), "c": rng.choice(bools), "y": rng.choice(bools), "z": rng.choice(bools)}


PROFILES = {
    # weights: statements, variable-set ops, lattice ops, stuttering ops, queries
    "c03": {"w": [55, 10, 20, 5, 10],
            "lat": ["join", "join", "meet", "meet", "widen", "widenjoin", "narrow", "copy", "top", "bottom"],
            "qry": ["leq", "entails", "entails", "entails", "isbot"]},
    "c04": {"w": [30, 5, 38, 2, 25],
            "lat": ["join", "join", "join", "meet", "meet", "meet", "copy", "top", "bottom", "widen"],
            "qry": ["leq", "leq", "leq", "isbot", "istop"]},
    "c05": {"w": [40, 5, 45, 2, 8],
            "lat": ["widen", "widen", "widenjoin", "widenjoin", "narrow", "narrow", "join", "copy"],
            "qry": ["leq", "isbot"]},
    "c16": {"w": [35, 5, 30, 20, 10],
            "lat": ["copy", "copy", "copy", "join", "meet", "top", "bottom"],
            "qry": ["leq", "entails", "isbot", "istop"]},
}


def history(rng, hid, nints=3, nbools=1, nregs=3, length=10, profile="c03", stmt_profile="full", stutter=0, params=None):
    ints = list(range(1, nints + 1))
    bools = list(range(nints + 1, nints + nbools + 1))
    names = ["x", "y", "z", "w", "u"]
    vars_ = [{"n": names[i - 1], "t": "int"} for i in ints] + [{"n": "b%d" % i, "t": "bool"} for i in bools]
    narrow = None
    if nints == 3 and stmt_profile in ("full", "linear") and rng.random() < 0.2:
        # the last integer variable is 8 bits wide: it takes part only in conversions and in statements on itself
        narrow = ints.pop()
        vars_[narrow - 1]["w"] = 8
    prof = PROFILES[profile]
    w = prof["w"]
    tot = float(sum(w))
    cut = [sum(w[:i + 1]) / tot for i in range(5)]
    steps = []
    regs = list(range(1, nregs + 1))

    def touched(upto):
        """variables possibly constrained in each register after the first `upto` steps (conservative)"""
        t = {r: set() for r in regs}
        for st in steps[:upto]:
            op = st["op"]
            if op == "stmt":
                t[st["r"]] |= _vars_of(st["s"])
            elif op in ("forget", "project", "rename", "expand"):
                t[st["r"]] |= set(ints + bools)
            elif op in ("join", "meet", "widen", "widenjoin", "narrow"):
                t[st["r"]] = t[st["a"]] | t[st["b"]]
            elif op == "copy":
                t[st["r"]] = set(t[st["a"]])
            elif op in ("top", "bottom"):
                t[st["r"]] = set()
        return t
    # start every register from an explicit (often bounded) value so that histories are not all-top
    for r in regs:
        for _ in range(rng.choice([0, 1, 2])):
            steps.append({"op": "stmt", "r": r, "s": {"op": "assume", "c": cst(rng, ints, rels=("le", "le", "eq"))}})
    while len(steps) < length:
        r = rng.choice(regs)
        p = rng.random()
        if p < cut[0]:
            steps.append({"op": "stmt", "r": r, "s": stmt(rng, ints, bools, stmt_profile, narrow=narrow)})
        elif p < cut[1]:
            k = rng.choice(["forget", "project", "rename", "expand"])
            allv = ints + bools + ([narrow] if narrow else [])
            if k == "forget":
                steps.append({"op": "forget", "r": r, "vs": rng.sample(allv, rng.randint(1, 2))})
            elif k == "project":
                steps.append({"op": "project", "r": r, "vs": rng.sample(allv, rng.randint(1, len(allv) - 1))})
            elif k == "rename":
                a, b = rng.sample(ints, 2)
                steps.append({"op": "rename", "r": r, "from": [a], "to": [b]})
            else:
                a, b = rng.sample(ints, 2)
                steps.append({"op": "expand", "r": r, "x": a, "y": b})
        elif p < cut[2]:
            k = rng.choice(prof["lat"])
            a, b = rng.choice(regs), rng.choice(regs)
            d = {"op": k, "r": r, "a": a, "b": b}
            if k in ("join", "meet") and rng.random() < 0.4:
                d["r"] = a
                d["inplace"] = 1
            if k in ("top", "bottom"):
                if rng.random() < 0.5:
                    continue
                d["inplace"] = rng.randint(0, 1)
            if k == "widen" and rng.random() < 0.3:
                d["ts"] = sorted(rng.sample(range(-4, 6), rng.randint(0, 3)))
            steps.append(d)
            if k == "copy" and profile == "c16" and a != d["r"]:
                # C16: the FIRST mutating operation after a copy, on either side, drawn from every kind of mutator
                # (copy-on-write wrappers and structure-sharing trees must detach in each of them)
                t = rng.choice([a, d["r"]])
                m = rng.choice(["stmt", "stmt", "forget", "project", "rename", "expand", "normalize", "minimize", "joini", "meeti",
                                "top", "bottom"])
                allv = ints + bools
                if m == "stmt":
                    steps.append({"op": "stmt", "r": t, "s": stmt(rng, ints, bools, stmt_profile)})
                elif m == "forget":
                    steps.append({"op": "forget", "r": t, "vs": rng.sample(allv, rng.randint(1, 2))})
                elif m == "project":
                    steps.append({"op": "project", "r": t, "vs": rng.sample(allv, rng.randint(1, len(allv) - 1))})
                elif m in ("rename", "expand"):
                    tv = touched(len(steps))[t]
                    free = [v for v in ints if v not in tv]
                    used = [v for v in ints if v in tv]
                    if free and used:      # raw: the target variable was never constrained in this register
                        x, y = rng.choice(used), rng.choice(free)
                        raw = 1
                    else:
                        x, y = rng.sample(ints, 2)
                        raw = 0
                    if m == "rename":
                        steps.append({"op": "rename", "r": t, "from": [x], "to": [y], "raw": raw})
                    else:
                        steps.append({"op": "expand", "r": t, "x": x, "y": y, "raw": raw})
                elif m in ("normalize", "minimize"):
                    steps.append({"op": m, "r": t})
                elif m in ("joini", "meeti"):
                    steps.append({"op": "join" if m == "joini" else "meet", "r": t, "a": t, "b": rng.choice(regs), "inplace": 1})
                else:
                    steps.append({"op": m, "r": t, "inplace": 1})
        elif p < cut[3]:
            steps.append({"op": rng.choice(["normalize", "minimize", "query"]), "r": r})
        else:
            k = rng.choice(prof["qry"])
            if k == "leq":
                steps.append({"op": "leq", "r": 0, "a": rng.choice(regs), "b": rng.choice(regs)})
            elif k == "entails":
                steps.append({"op": "entails", "r": r, "c": cst(rng, ints, rels=("le", "le", "lt", "eq", "ne"))})
            else:
                steps.append({"op": k, "r": r})
    h = {"id": hid, "vars": vars_, "nregs": nregs, "steps": steps, "stutter": stutter}
    if params:
        h["params"] = params
    return h


def twin_history(rng, hid, params=None):
    """directed family (C16, value semantics): a value is produced (by widening, widening of a join, join, meet, narrowing or plain
    statements), COPY-ASSIGNED onto a register that already holds another value, then the same mutators are applied to the
    original and to the copy, and both are compared (leq steps marked "twin": the specification demands the same meaning on
    domains with a faithful projection).  Half of the histories use the shape that lazily closed graphs are sensitive to:
    a widening that drops a bound which is still implied by a kept difference constraint and a kept bound."""
    ints = [1, 2, 3]
    bools = [4]
    vars_ = [{"n": "x", "t": "int"}, {"n": "y", "t": "int"}, {"n": "z", "t": "int"}, {"n": "b4", "t": "bool"}]
    steps = []

    def assume(r, k, t, rel="le"):
        steps.append({"op": "stmt", "r": r, "s": {"op": "assume", "c": {"e": {"k": k, "t": t}, "r": rel}}})
    a, b = rng.sample(ints, 2)
    if rng.random() < 0.5:
        # constants small enough for the implied bound a <= k1 + k2 to be visible inside the box -2..2 of the witness sets
        k1, k2 = rng.randint(-1, 1), rng.randint(-1, 0)
        k3 = k1 + k2 - rng.randint(1, 2)
        for r in (1, 2):
            assume(r, -k1, [[1, a], [-1, b]])        # a - b <= k1
            assume(r, -k2, [[1, b]])                  # b <= k2
            if rng.random() < 0.5:
                assume(r, -2, [[-1, b]])              # b >= -2
        assume(1, -k3, [[1, a]])                      # a <= k3   (tighter than the implied a <= k1 + k2)
        if rng.random() < 0.5:
            assume(2, -(k3 + rng.randint(1, 2)), [[1, a]])
        prod = rng.choice(["widen", "widen", "widenjoin"])
    else:
        for r in (1, 2):
            for _ in range(rng.randint(1, 3)):
                steps.append({"op": "stmt", "r": r, "s": stmt(rng, ints, bools, "rel")})
        prod = rng.choice(["widen", "widenjoin", "join", "meet", "narrow", "stmts"])
    if prod == "stmts":
        steps.append({"op": "copy", "r": 3, "a": 1})
        steps.append({"op": "stmt", "r": 3, "s": stmt(rng, ints, bools, "rel")})
    else:
        steps.append({"op": prod, "r": 3, "a": 1, "b": 2})
    steps.append({"op": "copy", "r": 1, "a": 3})      # copy-assignment over an existing value
    for _ in range(rng.choice([1, 1, 2])):
        m = rng.choice(["forget", "forget", "project", "stmt", "joini", "meeti", "normalize"])
        if m == "forget":
            d = {"op": "forget", "vs": [rng.choice([b, b, a] + ints)]}
        elif m == "project":
            d = {"op": "project", "vs": rng.sample(ints + bools, rng.randint(1, 3))}
        elif m == "stmt":
            d = {"op": "stmt", "s": stmt(rng, ints, bools, "rel")}
        elif m in ("joini", "meeti"):
            d = {"op": "join" if m == "joini" else "meet", "b": 2, "inplace": 1}
        else:
            d = {"op": "normalize"}
        for r in (3, 1):
            e = dict(d, r=r)
            if "inplace" in e:
                e["a"] = r
            steps.append(e)
    steps.append({"op": "leq", "r": 0, "a": 3, "b": 1, "twin": 1})
    steps.append({"op": "leq", "r": 0, "a": 1, "b": 3, "twin": 1})
    h = {"id": hid, "vars": vars_, "nregs": 3, "steps": steps, "stutter": 0}
    if params:
        h["params"] = params
    return h


def chain_history(rng, hid, n=40, params=None, stride=None):
    """C05: acc (register 1) is repeatedly widened with arbitrary further values built in register 2:
         r2 := top; <a few statements>; r3 := r1 widen (r1 join r2) [with thresholds]; leq(r3, r1); r1 := r3
    The leq steps carry "chain":1 : their answers tell when the chain is stationary."""
    ints = [1, 2, 3]
    vars_ = [{"n": "x", "t": "int"}, {"n": "y", "t": "int"}, {"n": "z", "t": "int"}, {"n": "b4", "t": "bool"}]
    steps = []
    ts = sorted(rng.sample(range(-20, 60), rng.randint(1, 4))) if rng.random() < 0.5 else None
    grow = [rng.choice([1, 1, 2, 3, 7]) for _ in ints]
    sign = [rng.choice([1, 1, -1]) for _ in ints]
    rel = rng.random() < 0.7
    if stride is None:
        stride = rng.random() < 0.2
    if stride:
        # isolated points with a fixed stride >= 2 (separate, non-adjacent values: disjunctive domains keep several
        # disjuncts on both sides of the widening), growing upwards for some variables and downwards for others
        grow = [rng.choice([2, 2, 3]) for _ in ints]
        sign = [1, -1, rng.choice([1, -1])]
        rng.shuffle(sign)
        rel = False
        ts = None if rng.random() < 0.6 else ts
    # r1 := a bounded start value
    base0 = [rng.randint(-2, 2) for _ in ints]
    for v in ints:
        steps.append({"op": "stmt", "r": 1, "s": {"op": "assign", "x": v, "e": {"k": base0[v - 1], "t": []}}})
    alternate = rng.random() < 0.4 and not stride
    if alternate:
        # only ONE bound is relaxed per step, alternately for two variables tied by a stable |a-b| <= 1
        # (a closed left operand of the zones widening would re-derive the dropped bound at every step)
        a, b = rng.sample(ints, 2)
        pq = [0, 0]
        lows = rng.random() < 0.5     # stable lower bounds as well
        d = rng.choice([1, 1, 2])

        def value(r):
            steps.append({"op": "top", "r": r, "inplace": 0})
            for (u, w_) in ((a, b), (b, a)):
                steps.append({"op": "stmt", "r": r, "s": {"op": "assume", "c": {"e": {"k": -d, "t": [[1, u], [-1, w_]]}, "r": "le"}}})
            steps.append({"op": "stmt", "r": r, "s": {"op": "assume", "c": {"e": {"k": -pq[0], "t": [[1, a]]}, "r": "le"}}})
            steps.append({"op": "stmt", "r": r, "s": {"op": "assume", "c": {"e": {"k": -pq[1], "t": [[1, b]]}, "r": "le"}}})
            if lows:
                for u in (a, b):
                    steps.append({"op": "stmt", "r": r, "s": {"op": "assume", "c": {"e": {"k": -3, "t": [[-1, u]]}, "r": "le"}}})
        del steps[:]
        value(1)          # the start value has the same shape as the values joined in later
        for i in range(1, n + 1):
            pq[i % 2] += rng.choice([1, 2]) if d == 1 else 2
            value(2)
            w = {"op": "widenjoin", "r": 3, "a": 1, "b": 2}
            if ts is not None:
                w["ts"] = ts
            steps.append(w)
            steps.append({"op": "leq", "r": 0, "a": 3, "b": 1, "chain": 1})
            steps.append({"op": "copy", "r": 1, "a": 3})
        # constraints a (weakly relational) domain can hold over {a, b}: 4 unary, 2 differences, 4 more octagonal
        h = {"id": hid, "vars": vars_, "nregs": 3, "steps": steps, "stutter": 0, "chain": 1, "ncons": 10}
        if params:
            h["params"] = params
        return h
    first = 1
    if stride:
        # like an engine with a widening delay: the first values are JOINED, so that the left operand of the first
        # widening already holds several separate values per variable
        for i0 in (1, 2):
            steps.append({"op": "top", "r": 2, "inplace": 0})
            for v in ints:
                steps.append({"op": "stmt", "r": 2, "s": {"op": "assign", "x": v, "e": {"k": base0[v - 1] + sign[v - 1] * grow[v - 1] * i0, "t": []}}})
            steps.append({"op": "join", "r": 1, "a": 1, "b": 2, "inplace": 1})
        first = 3
    for i in range(first, n + 1):
        steps.append({"op": "top", "r": 2, "inplace": 0})
        for v in ints:
            if stride or rng.random() < 0.8:
                c = sign[v - 1] * grow[v - 1] * i + (base0[v - 1] if stride else rng.randint(-1, 1))
                kind = 0.0 if stride else rng.random()
                if kind < 0.5:
                    steps.append({"op": "stmt", "r": 2, "s": {"op": "assign", "x": v, "e": {"k": c, "t": []}}})
                else:
                    lo, hi = min(0, c), max(0, c)
                    steps.append({"op": "stmt", "r": 2, "s": {"op": "assume", "c": {"e": {"k": -hi, "t": [[1, v]]}, "r": "le"}}})
                    steps.append({"op": "stmt", "r": 2, "s": {"op": "assume", "c": {"e": {"k": lo, "t": [[-1, v]]}, "r": "le"}}})
        if rel and rng.random() < 0.7:
            a, b = rng.sample(ints, 2)
            steps.append({"op": "stmt", "r": 2, "s": {"op": "assume", "c": {"e": {"k": -i * rng.choice([1, 2]), "t": [[1, a], [-1, b]]},
                                                                       "r": rng.choice(["le", "eq"])}}})
        if rng.random() < 0.15:
            steps.append({"op": "stmt", "r": 2, "s": stmt(rng, ints, [4], "linear")})
        w = {"op": "widenjoin", "r": 3, "a": 1, "b": 2}
        if ts is not None:
            w["ts"] = ts
        steps.append(w)
        steps.append({"op": "leq", "r": 0, "a": 3, "b": 1, "chain": 1})
        steps.append({"op": "copy", "r": 1, "a": 3})
    # over 3 variables: 6 unary, 6 differences, 12 more octagonal constraints
    h = {"id": hid, "vars": vars_, "nregs": 3, "steps": steps, "stutter": 0, "chain": 1, "ncons": 24}
    if params:
        h["params"] = params
    return h


def widen_mutate_widen_history(rng, hid, params=None):
    """directed family (C05 / C16): the RESULT of a widening is mutated in place (join with a state outside it, forget,
    set_to_top, assign, assume) and then used as the LEFT operand of another widening; wrappers that cache the
    un-normalised widening result must drop the cache when the value is mutated."""
    ints = [1, 2, 3]
    vars_ = [{"n": "x", "t": "int"}, {"n": "y", "t": "int"}, {"n": "z", "t": "int"}, {"n": "b4", "t": "bool"}]
    pt = lambda r, v, k: {"op": "stmt", "r": r, "s": {"op": "assign", "x": v, "e": {"k": k, "t": []}}}
    steps = []
    a = {v: rng.randint(-1, 1) for v in ints}
    for v in ints:
        steps.append(pt(1, v, a[v]))
        steps.append(pt(2, v, a[v] + rng.choice([0, 1, 1, -1])))
    w = {"op": rng.choice(["widen", "widenjoin"]), "r": 3, "a": 1, "b": 2}
    if rng.random() < 0.3:
        w["ts"] = sorted(rng.sample(range(-3, 4), rng.randint(1, 2)))
    steps.append(w)
    for _ in range(rng.randint(1, 2)):
        m = rng.choice(["joinin", "joinin", "forget", "top", "assign", "assume", "havoc"])
        if m == "joinin":       # join, in place, with a state outside the widened value
            v = rng.choice(ints)
            for u in ints:
                steps.append(pt(2, u, a[u] - 2 if u == v else a[u]))
            steps.append({"op": "join", "r": 3, "a": 3, "b": 2, "inplace": 1})
        elif m == "forget":
            steps.append({"op": "forget", "r": 3, "vs": [rng.choice(ints)]})
        elif m == "top":
            steps.append({"op": "top", "r": 3, "inplace": 1})
        elif m == "assign":
            steps.append(pt(3, rng.choice(ints), rng.randint(-2, 2)))
        elif m == "assume":
            steps.append({"op": "stmt", "r": 3, "s": {"op": "assume", "c": cst(rng, ints, rels=("le", "le", "eq"), maxterms=1)}})
        else:
            steps.append({"op": "stmt", "r": 3, "s": {"op": "havoc", "x": rng.choice(ints)}})
    if rng.random() < 0.3:
        steps.append({"op": "query", "r": 3})
    for v in ints:
        steps.append(pt(2, v, a[v] + rng.choice([1, 2, -1])))
    tgt = rng.choice([3, 3, 1])
    w2 = {"op": rng.choice(["widen", "widen", "widenjoin"]), "r": tgt, "a": 3, "b": 2}
    if "ts" in w and rng.random() < 0.5:
        w2["ts"] = w["ts"]
    steps.append(w2)
    steps.append({"op": "leq", "r": 0, "a": 2, "b": tgt})
    h = {"id": hid, "vars": vars_, "nregs": 3, "steps": steps, "stutter": 0}
    if params:
        h["params"] = params
    return h


def plain_chain_history(rng, hid, n=110, params=None):
    """C05: acc (register 1) is repeatedly widened with ARBITRARY further values (not joined with acc first):
         r2 := top; bounds for a subset of the variables; r3 := r1 widen r2 [thresholds]; leq(r3, r1); r1 := r3
    over 4-5 integer variables declared in a shuffled order (variable indices drive the patricia-tree shapes of the
    environment domains).  The further values keep bounding variables whose bound acc has already lost, so the right
    operand has bindings the left one lacks, next to bindings that keep growing."""
    nv = rng.choice([4, 5])
    names = ["x", "y", "z", "w", "u"][:nv]
    order = names[:]      # (indices come from the variable factory of the replaying process; the roles below rotate instead)
    vars_ = [{"n": nm, "t": "int"} for nm in order]
    ints = list(range(1, nv + 1))
    modes = {v: rng.choice(["up", "up", "up", "down", "down", "const", "jump"]) for v in ints}
    present = {v: rng.choice([1.0, 1.0, 1.0, 1.0, 0.8]) for v in ints}
    # one or two variables that acc does not bound (never initialised, or lost at the first step) while every further value
    # does; which ones rotates with the history number so that every variable index takes that role
    lost = [ints[hid % nv]]
    if rng.random() < 0.25:
        lost.append(rng.choice([v for v in ints if v not in lost]))
    for v in lost:
        modes[v] = rng.choice(["both", "uninit"])
        present[v] = 1.0
    rate = {v: rng.choice([1, 1, 2, 3]) for v in ints}
    base = {v: rng.randint(-2, 2) for v in ints}
    ts = sorted(rng.sample(range(-20, 60), 1)) if rng.random() < 0.3 else None
    steps = []
    for v in ints:
        if modes[v] != "uninit" and rng.random() < 0.9:
            steps.append({"op": "stmt", "r": 1, "s": {"op": "assign", "x": v, "e": {"k": base[v], "t": []}}})
    rel = rng.random() < 0.4
    for i in range(1, n + 1):
        steps.append({"op": "top", "r": 2, "inplace": 0})
        for v in ints:
            if rng.random() > present[v]:
                continue
            m = modes[v]
            lo = hi = base[v]
            if m == "up":
                hi = base[v] + rate[v] * i
            elif m == "down":
                lo = base[v] - rate[v] * i
            elif m in ("both", "uninit"):
                lo, hi = base[v] - i, base[v] + rate[v] * i
            elif m == "jump":       # leaves the start value at once, then stays put: acc loses the bound, x keeps it
                lo = hi = base[v] + 5
            steps.append({"op": "stmt", "r": 2, "s": {"op": "assume", "c": {"e": {"k": -hi, "t": [[1, v]]}, "r": "le"}}})
            steps.append({"op": "stmt", "r": 2, "s": {"op": "assume", "c": {"e": {"k": lo, "t": [[-1, v]]}, "r": "le"}}})
        if rel and rng.random() < 0.5:
            a, b = rng.sample(ints, 2)
            steps.append({"op": "stmt", "r": 2, "s": {"op": "assume", "c": {"e": {"k": -i, "t": [[1, a], [-1, b]]}, "r": "le"}}})
        w = {"op": "widen", "r": 3, "a": 1, "b": 2}
        if ts is not None:
            w["ts"] = ts
        steps.append(w)
        steps.append({"op": "leq", "r": 0, "a": 3, "b": 1, "chain": 1})
        steps.append({"op": "copy", "r": 1, "a": 3})
    # constraints over nv variables: 2nv unary, nv(nv-1) differences, 2nv(nv-1) - nv(nv-1) = nv(nv-1) more octagonal sums
    h = {"id": hid, "vars": vars_, "nregs": 3, "steps": steps, "stutter": 0, "chain": 1, "ncons": 2 * nv + 2 * nv * (nv - 1)}
    if params:
        h["params"] = params
    return h


def chain_cap(h):
    """bound on the strict increases of a chain: every constraint the domain can hold over the variables of the chain
    is relaxed at most once per threshold and dropped at most once (independent of how far the joined-in values grow)"""
    nts = max([len(st.get("ts") or []) for st in h["steps"]] + [0])
    return h["ncons"] * (1 + nts)


def _vars4():
    return [{"n": n, "t": "int"} for n in ("x", "y", "z", "w")]


def chain_closure_history(rng, hid, params=None):
    """directed family (C03): a chain of unit-coefficient constraints over up to 4 variables added in a random order to
    one register (incremental closure of zones/octagons), followed by entailment queries on the end points"""
    ints = [1, 2, 3, 4]
    vs = rng.sample(ints, rng.choice([3, 4, 4]))
    steps = []
    cs = []
    for a, b in zip(vs, vs[1:]):
        sa, sb = rng.choice([(1, -1), (1, -1), (-1, 1), (1, 1), (-1, -1)])
        cs.append({"e": {"k": rng.randint(-3, 3), "t": [[sa, a], [sb, b]]}, "r": rng.choice(["le", "le", "lt", "eq"])})
    for v in rng.sample(vs, rng.randint(0, 2)):
        cs.append({"e": {"k": rng.randint(-3, 3), "t": [[rng.choice([1, -1]), v]]}, "r": "le"})
    rng.shuffle(cs)
    for c in cs:
        steps.append({"op": "stmt", "r": 1, "s": {"op": "assume", "c": c}})
        if rng.random() < 0.15:
            steps.append({"op": rng.choice(["normalize", "query"]), "r": 1})
    a, b = vs[0], vs[-1]
    for _ in range(2):
        sa, sb = rng.choice([(1, -1), (-1, 1), (1, 1), (-1, -1)])
        steps.append({"op": "entails", "r": 1, "c": {"e": {"k": rng.randint(-4, 4), "t": [[sa, a], [sb, b]]}, "r": "le"}})
    h = {"id": hid, "vars": _vars4(), "nregs": 2, "steps": steps, "stutter": 0}
    if params:
        h["params"] = params
    return h


def point_leq_history(rng, hid, params=None):
    """directed family (C04): register 1 = a point of two variables (constant assignments, incl. negative values),
    register 2 = one or two unit-coefficient constraints on them; inclusion tests both ways, join, meet"""
    ints = [1, 2, 3, 4]
    a, b = rng.sample(ints, 2)
    steps = [{"op": "stmt", "r": 1, "s": {"op": "assign", "x": a, "e": {"k": rng.randint(-4, 4), "t": []}}},
             {"op": "stmt", "r": 1, "s": {"op": "assign", "x": b, "e": {"k": rng.randint(-4, 4), "t": []}}}]
    for _ in range(rng.choice([1, 1, 2])):
        sa, sb = rng.choice([(1, 1), (-1, -1), (1, -1), (-1, 1), (1, 0), (-1, 0)])
        t = [[sa, a]] + ([[sb, b]] if sb else [])
        steps.append({"op": "stmt", "r": 2, "s": {"op": "assume", "c": {"e": {"k": rng.randint(-8, 8), "t": t}, "r": rng.choice(["le", "le", "lt", "eq"])}}})
    steps += [{"op": "leq", "r": 0, "a": 1, "b": 2}, {"op": "leq", "r": 0, "a": 2, "b": 1},
              {"op": rng.choice(["join", "meet"]), "r": 2, "a": 1, "b": 2}, {"op": "leq", "r": 0, "a": 1, "b": 2}]
    h = {"id": hid, "vars": _vars4(), "nregs": 2, "steps": steps, "stutter": 0}
    if params:
        h["params"] = params
    return h


def bounds_diff_leq_history(rng, hid, params=None):
    """directed family (C04): register 1 = bounds on two or three variables plus one or two (weak) difference / sum
    constraints; register 2 = one or two (stronger or incomparable) difference / sum constraints over the same variables.
    The inclusion test has to combine explicit relational constraints of the left operand with what its BOUNDS imply;
    inclusion both ways, then again after a join / meet."""
    ints = [1, 2, 3, 4]
    vs = rng.sample(ints, rng.choice([2, 3, 3]))
    steps = []
    for v in vs:
        k = rng.random()
        if k < 0.8:
            steps.append({"op": "stmt", "r": 1, "s": {"op": "assume", "c": {"e": {"k": -rng.randint(-2, 2), "t": [[1, v]]}, "r": "le"}}})   # v <= c
        if k > 0.2:
            steps.append({"op": "stmt", "r": 1, "s": {"op": "assume", "c": {"e": {"k": rng.randint(-2, 2) - 1, "t": [[-1, v]]}, "r": "le"}}})   # v >= c'
    rng.shuffle(steps)

    def rel(r, lo, hi):
        a, b = rng.sample(vs, 2)
        sa, sb = rng.choice([(1, -1), (1, -1), (-1, 1), (1, 1), (-1, -1)])
        return {"op": "stmt", "r": r, "s": {"op": "assume", "c": {"e": {"k": rng.randint(lo, hi), "t": [[sa, a], [sb, b]]}, "r": "le"}}}
    for _ in range(rng.choice([1, 1, 2])):
        steps.insert(rng.randint(0, len(steps)), rel(1, -3, 1))
    for _ in range(rng.choice([1, 1, 2])):
        steps.append(rel(2, -2, 3))
    if rng.random() < 0.3:
        v = rng.choice(vs)
        steps.append({"op": "stmt", "r": 2, "s": {"op": "assume", "c": {"e": {"k": -rng.randint(0, 3), "t": [[rng.choice([1, -1]), v]]}, "r": "le"}}})
    if rng.random() < 0.3:
        steps.append({"op": rng.choice(["normalize", "query"]), "r": 1})
    steps += [{"op": "leq", "r": 0, "a": 1, "b": 2}, {"op": "leq", "r": 0, "a": 2, "b": 1},
              {"op": rng.choice(["join", "meet"]), "r": 2, "a": 1, "b": 2}, {"op": "leq", "r": 0, "a": 1, "b": 2},
              {"op": "leq", "r": 0, "a": 2, "b": 1}]
    h = {"id": hid, "vars": _vars4(), "nregs": 2, "steps": steps, "stutter": 0}
    if params:
        h["params"] = params
    return h


def disjunct_leq_history(rng, hid, params=None):
    """directed family (C04) for disjunctive domains: register 2 = join of two or three separated points / small regions of one or two
    variables, register 1 = a point BETWEEN them (inside the hull, outside every disjunct) or inside one of them; inclusion tests both
    ways, then a further join and test.  A domain that keeps the disjuncts must not answer yes for the point in the gap
    (its exported disjunction does not contain it); a convex domain legitimately does."""
    ints = [1, 2, 3, 4]
    a, b = rng.sample(ints, 2)
    two = rng.random() < 0.5
    cs = sorted(rng.sample(range(-4, 5), rng.choice([2, 2, 3])))
    steps = []

    def point(r, va, vb):
        steps.append({"op": "stmt", "r": r, "s": {"op": "assign", "x": a, "e": {"k": va, "t": []}}})
        if two:
            steps.append({"op": "stmt", "r": r, "s": {"op": "assign", "x": b, "e": {"k": vb, "t": []}}})
    yb = rng.randint(-2, 2)
    point(2, cs[0], yb)
    for c in cs[1:]:
        point(3, c, yb + rng.choice([0, 0, 1]))
        steps.append({"op": "join", "r": 2, "a": 2, "b": 3})
    gaps = [v for v in range(cs[0], cs[-1] + 1) if v not in cs]
    inside = rng.random() < 0.3 or not gaps
    point(1, rng.choice(cs) if inside else rng.choice(gaps), yb)
    steps += [{"op": "leq", "r": 0, "a": 1, "b": 2}, {"op": "leq", "r": 0, "a": 2, "b": 1}]
    steps += [{"op": "join", "r": 3, "a": 1, "b": 2}, {"op": "leq", "r": 0, "a": 3, "b": 2}, {"op": "leq", "r": 0, "a": 2, "b": 3}]
    h = {"id": hid, "vars": _vars4(), "nregs": 3, "steps": steps, "stutter": 0}
    if params:
        h["params"] = params
    return h


def wide_join_history(rng, hid, params=None):
    """directed family (C04): SIX integer variables; the registers constrain DIFFERENT subsets of them (two or three variables each,
    with nested / overlapping bounds on the shared ones), then join, widening, meet in both operand orders and inclusion tests
    between operands and results.  Environments over different key sets exercise the map-merge code underneath the
    non-relational domains (a binding missing on one side means top and must disappear from a join)."""
    names = ["x", "y", "z", "w", "u", "v"]
    ints = [1, 2, 3, 4, 5, 6]
    vars_ = [{"n": n, "t": "int"} for n in names]
    steps = []

    def bound(r, v, lo, hi):
        steps.append({"op": "stmt", "r": r, "s": {"op": "assume", "c": {"e": {"k": -hi, "t": [[1, v]]}, "r": "le"}}})
        steps.append({"op": "stmt", "r": r, "s": {"op": "assume", "c": {"e": {"k": lo, "t": [[-1, v]]}, "r": "le"}}})
    shared = rng.sample(ints, rng.choice([1, 1, 2]))
    rest = [v for v in ints if v not in shared]
    rng.shuffle(rest)
    na = rng.choice([1, 2])
    only_a, only_b = rest[:na], rest[na:na + rng.choice([1, 2])]
    for v in shared:
        if rng.random() < 0.6:       # register 1 has the larger value on the shared variable
            bound(1, v, -1, 1)
            bound(2, v, rng.choice([-1, 0]), rng.choice([0, 1]))
        else:
            bound(1, v, rng.choice([-1, 0]), 0)
            bound(2, v, 0, rng.choice([0, 1]))
    for v in only_a:
        k = rng.randint(-1, 1)
        bound(1, v, k, k)
    for v in only_b:
        k = rng.randint(-1, 1)
        bound(2, v, k, rng.choice([k, 1]))
    a, b = (1, 2) if rng.random() < 0.5 else (2, 1)
    steps.append({"op": rng.choice(["join", "join", "widen", "meet"]), "r": 3, "a": a, "b": b})
    steps += [{"op": "leq", "r": 0, "a": 1, "b": 3}, {"op": "leq", "r": 0, "a": 2, "b": 3}, {"op": "leq", "r": 0, "a": 3, "b": 1}]
    steps.append({"op": rng.choice(["join", "widen"]), "r": 3, "a": b, "b": a})
    steps += [{"op": "leq", "r": 0, "a": 1, "b": 3}, {"op": "leq", "r": 0, "a": 2, "b": 3}]
    if rng.random() < 0.5:
        steps.append({"op": "join", "r": 1, "a": 1, "b": 2, "inplace": 1})
        steps.append({"op": "leq", "r": 0, "a": 2, "b": 1})
    h = {"id": hid, "vars": vars_, "nregs": 3, "steps": steps, "stutter": 0}
    if params:
        h["params"] = params
    return h


def dup_disjunct_history(rng, hid, params=None):
    """directed family (C16): a disjunctive value whose disjuncts become EQUAL (or included in one another) through a
    disjunct-wise operation after the join (x := k, forget x, x := y), followed by explicit minimize()/normalize() calls and
    queries; then the value is used further (meet, join, assume).  Minimisation must not change what the value describes."""
    ints = [1, 2, 3]
    x, y = rng.sample(ints, 2)
    c = rng.randint(-2, 2)
    a, b = rng.sample(range(-2, 3), 2)
    pt = lambda r, v, k: {"op": "stmt", "r": r, "s": {"op": "assign", "x": v, "e": {"k": k, "t": []}}}
    steps = [pt(1, x, a), pt(1, y, c), pt(2, x, b), pt(2, y, c if rng.random() < 0.7 else c + 1)]
    if rng.random() < 0.4:      # a third disjunct that stays different
        z3 = rng.choice([v for v in range(-2, 3) if v not in (c, c + 1)] or [c + 2])
        steps += [{"op": "join", "r": 3, "a": 1, "b": 2}, pt(1, y, z3), {"op": "join", "r": 3, "a": 3, "b": 1}]
    else:
        steps += [{"op": "join", "r": 3, "a": 1, "b": 2}]
    k = rng.choice(["assignc", "forget", "assignv", "havoc"])
    if k == "assignc":
        steps.append(pt(3, x, rng.randint(-2, 2)))
    elif k == "forget":
        steps.append({"op": "forget", "r": 3, "vs": [x]})
    elif k == "assignv":
        steps.append({"op": "stmt", "r": 3, "s": {"op": "assign", "x": x, "e": {"k": rng.randint(-1, 1), "t": [[1, y]]}}})
    else:
        steps.append({"op": "stmt", "r": 3, "s": {"op": "havoc", "x": x}})
    if rng.random() < 0.3:
        steps.append({"op": "copy", "r": 2, "a": 3})
    steps.append({"op": rng.choice(["minimize", "minimize", "minimize", "normalize"]), "r": 3})
    for _ in range(rng.randint(1, 3)):
        q = rng.choice(["isbot", "entails", "query", "leq", "meet", "join", "assume", "minimize"])
        if q == "isbot":
            steps.append({"op": "isbot", "r": 3})
        elif q == "entails":
            steps.append({"op": "entails", "r": 3, "c": cst(rng, ints, rels=("le", "le", "lt", "eq", "ne"))})
        elif q in ("query", "minimize"):
            steps.append({"op": q, "r": 3})
        elif q == "leq":
            steps.append({"op": "leq", "r": 0, "a": rng.choice([1, 2, 3]), "b": rng.choice([1, 2, 3])})
        elif q in ("meet", "join"):
            steps.append({"op": q, "r": 1, "a": 3, "b": rng.choice([1, 2])})
        else:
            steps.append({"op": "stmt", "r": 3, "s": {"op": "assume", "c": cst(rng, ints, rels=("le", "le", "eq"))}})
    h = {"id": hid, "vars": [{"n": n_, "t": "int"} for n_ in ("x", "y", "z")], "nregs": 3, "steps": steps, "stutter": rng.randint(0, 1)}
    if params:
        h["params"] = params
    return h


def large_history(rng, hid, params=None, lat=("join", "join", "meet", "meet", "widen", "widenjoin", "narrow", "copy")):
    """directed family (C03/C04/C12): histories whose constants are LARGE (around +-M and +-2M, 2^25 <= M < 2^26+2^25):
    beyond the precision of a float, with sums still inside TLC's 32-bit integers.  The trace carries its own sample of
    top (`samp`: 0, +-1, +-M, +-(M+1)) and universe bound (`univ`); statements only add/subtract (no products)."""
    M = rng.choice([2 ** 25 + 1, 2 ** 25 + 3, 2 ** 26 + 3, 2 ** 26 + 5, 50000001, 2 ** 25 + rng.randrange(1, 2 ** 25),
                    2 ** 26 + rng.randrange(1, 2 ** 25)])
    samp = sorted({0, 1, -1, M, M + 1, -M, -M - 1})
    ints = [1, 2, 3]

    def K(two):
        a = rng.choice(samp)
        b = rng.choice(samp) if two else 0
        return a + b + rng.choice([-2, -1, 0, 0, 1, 2, 3])

    def cons(rels=("le", "le", "le", "lt", "eq")):
        if rng.random() < 0.65:
            a, b = rng.sample(ints, 2)
            sa, sb = rng.choice([(1, -1), (-1, 1), (1, 1), (-1, -1)])
            if rng.random() < 0.1:
                sa *= 2
            return {"e": {"k": K(True), "t": [[sa, a], [sb, b]]}, "r": rng.choice(rels)}
        return {"e": {"k": K(False), "t": [[rng.choice([1, -1, 1, -1, 2]), rng.choice(ints)]]}, "r": rng.choice(rels)}

    def statement():
        k = rng.choice(["assume"] * 6 + ["assignc", "assignv", "assignvv", "arith", "havoc"])
        if k == "assume":
            return {"op": "assume", "c": cons()}
        x = rng.choice(ints)
        if k == "assignc":
            return {"op": "assign", "x": x, "e": {"k": rng.choice(samp) + rng.choice([-1, 0, 1]), "t": []}}
        if k == "assignv":
            return {"op": "assign", "x": x, "e": {"k": rng.choice([-1, 0, 1, 1, M, -M]), "t": [[rng.choice([1, 1, -1]), rng.choice(ints)]]}}
        if k == "assignvv":
            a, b = rng.sample(ints, 2)
            return {"op": "assign", "x": x, "e": {"k": rng.choice([-1, 0, 1]), "t": [[1, a], [rng.choice([1, -1]), b]]}}
        if k == "arith":
            d = {"op": "arith", "f": rng.choice(["add", "sub"]), "x": x, "y": rng.choice(ints)}
            if rng.random() < 0.5:
                d.update({"zk": 1, "z": rng.choice([1, -1, 2, M, M + 1, -M])})
            else:
                d.update({"zk": 0, "z": rng.choice(ints)})
            return d
        return {"op": "havoc", "x": x}

    regs = [1, 2]
    steps = []
    # tight prefix: octagonal constraints that hold at a sample point with slack 0 or 1 (sums of two of them have odd
    # constants: integer tightening of octagons; the point must stay described)
    for r in regs:
        if rng.random() < 0.5:
            pt = {v: rng.choice(samp) for v in ints}
            for _ in range(rng.randint(2, 4)):
                a, b = rng.sample(ints, 2)
                sa, sb = rng.choice([(1, -1), (-1, 1), (1, 1), (-1, -1)])
                steps.append({"op": "stmt", "r": r, "s": {"op": "assume", "c": {
                    "e": {"k": -(sa * pt[a] + sb * pt[b] + rng.choice([0, 0, 1])), "t": [[sa, a], [sb, b]]}, "r": "le"}}})
            if rng.random() < 0.5:
                v = rng.choice(ints)
                sg = rng.choice([1, -1])
                steps.append({"op": "stmt", "r": r, "s": {"op": "assume", "c": {"e": {"k": -sg * pt[v], "t": [[sg, v]]}, "r": "le"}}})
    n = len(steps) + rng.choice([6, 8, 10])
    while len(steps) < n:
        r = rng.choice(regs)
        p = rng.random()
        if p < 0.6:
            steps.append({"op": "stmt", "r": r, "s": statement()})
        elif p < 0.75:
            k = rng.choice(lat)
            a, b = rng.choice(regs), rng.choice(regs)
            d = {"op": k, "r": r, "a": a, "b": b}
            if k in ("join", "meet") and rng.random() < 0.4:
                d["r"] = a
                d["inplace"] = 1
            if k in ("widen", "widenjoin") and rng.random() < 0.4:      # thresholds next to the large sample values
                d["ts"] = sorted({rng.choice(samp) + rng.choice([-1, 0, 1, 2]) for _ in range(rng.randint(1, 3))})
            steps.append(d)
        elif p < 0.8:
            steps.append({"op": "forget", "r": r, "vs": [rng.choice(ints)]})
        elif p < 0.85:
            steps.append({"op": rng.choice(["normalize", "query"]), "r": r})
        elif p < 0.95:
            steps.append({"op": "entails", "r": r, "c": cons(rels=("le", "le", "lt"))})
        else:
            steps.append({"op": "leq", "r": 0, "a": rng.choice(regs), "b": rng.choice(regs)})
    h = {"id": hid, "vars": [{"n": n_, "t": "int"} for n_ in ("x", "y", "z")], "nregs": 2, "steps": steps, "stutter": 0,
         "samp": samp, "univ": 2 ** 28}
    if params:
        h["params"] = params
    return h


def is_nontrivial(h):
    """rule used in the evidence: >= 1 relational assume/assign and >= 1 lattice operation"""
    rel = lat = False
    for s in h["steps"]:
        if s["op"] == "stmt":
            st = s["s"]
            if st["op"] in ("assume", "assign") and len((st.get("c", {}).get("e") or st.get("e"))["t"]) >= 2:
                rel = True
        elif s["op"] in ("join", "meet", "widen", "widenjoin", "narrow"):
            lat = True
    return rel and lat


# Domains whose exported constraints depend on internal laziness (terms without a ghost variable are not
# exported until some operation materialises them): their projection is a sound over-approximation of the
# meaning but two projections of the SAME meaning may differ, so equality-based judgements (C16) do not apply.
LAZY_EXPORT = ("term_", "num_product", "uf")


def exact_projection(dom):
    d = dom[4:] if dom.startswith("ref_") else dom
    return 0 if d.startswith(LAZY_EXPORT) else 1


def merge(histories, replay_recs):
    """histories + dom_replay output lines -> trace records for spec/DomainOps.tla.
    Pure transport: decompresses the 'changed registers' encoding; adds no judgement."""
    by_id = {}
    for r in replay_recs:
        by_id.setdefault(r["id"], []).append(r)
    traces = []
    for h in histories:
        kinds = [v["t"] for v in h["vars"]]
        obs = []
        for r in by_id.get(h["id"], []):
            if "err" in r:
                obs.append({"dom": r["dom"], "err": 1, "exact": 0, "why": r["err"], "steps": []})
                continue
            cur = {}
            out = []
            for st, rs in zip(h["steps"], r["steps"]):
                prev = dict(cur)
                for ch in rs["ch"]:
                    cur[ch["r"]] = ch["o"]
                tgt = st.get("r", 0)
                rec = {"ans": rs["ans"], "oth": []}
                if st["op"] == "leq":
                    rec["ob"] = cur[st["b"]]
                    rec["o"] = cur[st["a"]]
                elif tgt:
                    rec["o"] = cur[tgt]
                    rec["p"] = prev.get(tgt, cur[tgt])
                for ch in rs["ch"]:
                    if ch["r"] != tgt and ch["r"] in prev:
                        rec["oth"].append({"r": ch["r"], "p": prev[ch["r"]], "o": ch["o"]})
                out.append(rec)
            obs.append({"dom": r["dom"], "err": 0, "exact": exact_projection(r["dom"]), "steps": out})
        # C16: pairs of (domain, same domain observed in place "#s") and (domain, type-erased wrapper "ref_<domain>")
        names = [o["dom"] for o in obs]
        pairs = []
        for i, n in enumerate(names):
            for j, m in enumerate(names):
                if obs[i]["err"] == 0 and obs[j]["err"] == 0 and obs[i]["exact"] == 1 and (m == n + "#s" or m == "ref_" + n):
                    pairs.append([i + 1, j + 1])
        tr = {"id": h["id"], "nv": len(kinds), "kinds": kinds, "nregs": h["nregs"], "steps": h["steps"], "obs": obs,
              "pairs": pairs}
        for k in ("samp", "univ"):        # large-magnitude histories: their own sample of top and universe bound
            if k in h:
                tr[k] = h[k]
        traces.append(tr)
    return traces
