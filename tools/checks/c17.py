"""C17 CFG transformations preserve the behaviour of the program (simplify, DCE, lower_safe_assertions, compositions)."""
import json, os, re, collections
import vlib, proggen
from vlib import Check, build, tlc, workdir

XFS = [["simplify"], ["dce"], ["lsa"], ["dce", "simplify"], ["lsa", "dce"], ["lsa", "dce", "simplify"], ["simplify", "dce", "simplify"]]
SUB, SUP, EVCAP, BOX, UNIV = 14, 96, 6, 1, 400


def gen(ck, n):
    ps = []
    for i in range(n):
        p = proggen.program(ck.rng, i + 1, asserts=True, nints=3, nbools=0, profile="c17", nstmts=(0, 3))
        outs = sorted(ck.rng.sample([1, 2, 3], ck.rng.randint(1, 2)))
        p["fn"] = {"name": "f", "in": [], "out": outs}
        p["outs"] = outs
        p["xf"] = ck.rng.choice(XFS)
        ps.append(p)
    # directed family: one definition, one use, every operand position of every statement kind (use sets of the statements)
    for i in range(max(20, n // 5)):
        p = proggen.defuse_program(ck.rng, n + i + 1)
        p["xf"] = ck.rng.choice([["dce"], ["dce"], ["dce", "simplify"], ["simplify", "dce", "simplify"], ["lsa", "dce"]])
        ps.append(p)
    for i in range(max(10, n // 12)):      # loops with two back edges (liveness of the kill-gen iterator under DCE)
        p = proggen.program(ck.rng, 5 * n + i + 1, shape="twolatch", asserts=True, nints=3, nbools=0, profile="c17", nstmts=(0, 2))
        outs = sorted(ck.rng.sample([1, 2, 3], ck.rng.randint(1, 2)))
        p["fn"] = {"name": "f", "in": [], "out": outs}
        p["outs"] = outs
        p["xf"] = ck.rng.choice([["dce"], ["dce", "simplify"], ["simplify", "dce", "simplify"]])
        ps.append(p)
    for i in range(max(16, n // 8)):
        p = proggen.defuse_bool_program(ck.rng, 4 * n + i + 1)
        p["xf"] = ck.rng.choice([["dce"], ["dce"], ["dce", "simplify"], ["simplify", "dce", "simplify"]])
        ps.append(p)
    # programs with boolean statements, conversions and external calls (2 integers, 2 booleans)
    for i in range(max(20, n // 6)):
        p = proggen.program(ck.rng, 3 * n + i + 1, asserts=True, nints=2, nbools=2, profile="c17b", nstmts=(1, 3))
        outs = sorted(ck.rng.sample([1, 2, 3, 4], ck.rng.randint(1, 2)))
        p["fn"] = {"name": "f", "in": [], "out": outs}
        p["outs"] = outs
        p["xf"] = ck.rng.choice(XFS)
        ps.append(p)
    # array programs (liveness-driven DCE on array variables: stores flagged strong or weak, copies, loads)
    for i in range(max(12, n // 8)):
        p = proggen.array_live_program(ck.rng, 2 * n + i + 1)
        p["xf"] = ck.rng.choice([["dce"], ["dce"], ["dce", "simplify"], ["simplify", "dce"], ["lsa", "dce"]])
        ps.append(p)
    return ps


def explore(ck, label, ps):
    wd = workdir("c17-" + label)
    pp, op_, tp = [os.path.join(wd, x) for x in ("p.ndjson", "o.ndjson", "pairs.ndjson")]
    vlib.write_ndjson(pp, ps)
    rc, out = vlib.sh([os.path.join(vlib.BUILD, "bin", "xform_runner"), pp, op_], timeout=1800)
    if rc != 0:
        raise vlib.Broken("xform_runner failed: " + out[-2000:])
    res = {r["id"]: r for r in vlib.read_ndjson(op_)}
    pairs = []
    for p in ps:
        r = res.get(p["id"], {"err": "missing"})
        q = {"id": p["id"], "nv": p.get("nv", 3), "outs": p["outs"], "init": p["init"], "xfnames": p["xf"]}
        if "ncells" in p:       # array programs: kinds of the variables and number of cells per array
            q["kinds"], q["ncells"] = p["kinds"], p["ncells"]
        elif "bool" in p.get("kinds", []):
            q["kinds"] = p["kinds"]
        if "err" in r or any(st["op"] == "unknown" for b in r["cfg"]["blocks"] for st in b["stmts"]):
            q.update({"err": 1, "orig": {"entry": 0, "exit": 0, "blocks": [], "labels": []}, "xf": {"entry": 0, "exit": 0, "blocks": [], "labels": []}})
            ck.cov["no_claim_crash"] = ck.cov.get("no_claim_crash", 0) + 1
        else:
            q.update({"err": 0, "orig": r["orig"], "xf": r["cfg"], "applied": r["applied"]})
        pairs.append(q)
    vlib.write_ndjson(tp, pairs)
    ok = [q for q in pairs if q["err"] == 0]
    ck.cov["traces_validated_against_impl"] += len(ok)
    ck.cov["evaluations"] += len(ok)
    ck.cov["distinct_nontrivial"] += sum(1 for q in ok if json.dumps(q["orig"]) != json.dumps(q["xf"]))
    r = tlc("Transform", "Transform", "c17-" + label,
            env={"PAIRS": tp, "BOX": BOX, "UNIV": UNIV, "SUBSTEPS": SUB, "SUPSTEPS": SUP, "EVCAP": EVCAP}, cont=True, timeout=2400)
    ck.add_tlc(r, "Transform/" + label)
    bad = collections.OrderedDict()
    if r.is_violation:
        for inv, pid, init in re.findall(r"Error: Invariant (\w+) is violated.*?/\\ pair = (\d+)\n/\\ init = (.*?)\n", r.out, re.S):
            bad.setdefault(int(pid), []).append((inv, init))
    return bad, {q["id"]: q for q in pairs}, r


def report(ck, bad, pairs, ps, r):
    byid = {p["id"]: p for p in ps}
    n = 0
    for pid, items in bad.items():
        if n >= 6:
            break
        sub = Check("C17", ck.tier, ck.seed)
        p1 = dict(byid[pid])
        p1["id"] = 1
        bad1, pairs1, r1 = explore(sub, "confirm", [p1])
        if not bad1:
            continue
        invs = sorted({a for a, _ in bad1[1]})
        m = re.search(r"/\\ lost = (.*?)\n/\\ new = (.*?)\n", r1.out, re.S)
        ck.violation("C17: transformation %s violates %s from initial state %s: behaviours lost=%s new=%s" %
                     (p1["xf"], invs, bad1[1][0][1], m.group(1)[:300] if m else "?", m.group(2)[:300] if m else "?"),
                     {"program": p1, "original_cfg": pairs1[1].get("orig"), "transformed_cfg": pairs1[1].get("xf")})
        n += 1


def run(tier, seed):
    ck = Check("C17", tier, seed + 7000)
    build("xform_runner")
    n = 250 if tier == "quick" else 4000
    done = k = 0
    while done < n:
        m = min(500, n - done)
        ps = gen(ck, m)
        for p in ps:
            p["id"] += done
        if k == 0:   # fixed regression cases (replays of earlier findings)
            rd = os.path.join(vlib.ROOT, "tools", "regress")
            ps += [json.load(open(os.path.join(rd, f))) for f in sorted(os.listdir(rd)) if f.startswith("c17_")]
        bad, pairs, r = explore(ck, "b%d" % k, ps)
        if k == 0:
            q = next((x for x in pairs.values() if x["err"] == 0 and json.dumps(x["orig"]) != json.dumps(x["xf"])), None)
            if q:
                ck.sample({"transforms": q["xfnames"], "original": q["orig"], "transformed": q["xf"]})
        report(ck, bad, pairs, ps, r)
        done += m
        k += 1
    ck.cov["rule"] = ("seeded CFGs (chains, diamonds, loops, nested/irreducible loops, self loops, entry loops, blocks unreachable from "
                      "the entry or not reaching the exit, `unreachable` statements, random graphs) with assertions and a function "
                      "declaration with 1-2 outputs x a transformation sequence out of %s; every box initial state; behaviours = "
                      "(evaluated conditions, final outputs) of exit-reaching executions, %d small steps matched within %d. "
                      "non-trivial = pairs whose CFG was actually changed" % (XFS, SUB, SUP))
    ck.assumptions += ["statement alphabet restricted to constant-magnitude changes so that bounded executions stay inside the universe",
                       "at most %d condition events per execution" % EVCAP]
    return ck.finish()


def replay(path):
    case = json.load(open(path))["case"]
    ck = Check("C17", "quick", 0)
    build("xform_runner")
    bad, pairs, r = explore(ck, "replay", [case["program"]])
    report(ck, bad, pairs, [case["program"]], r)
    return ck.finish()
