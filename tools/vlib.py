"""Shared machinery of the /verif checks: build, run harness, run TLC, verdict, evidence.

Exit codes of a check: 0 property held on everything explored (KNOWN-FINDING lines allowed),
1 + 'VIOLATION property=<id> replay=<path>' for an unlisted counterexample,
2 broken check (build failure, TLC parse error, harness crash) -- never a VIOLATION.
"""
import json, os, re, shutil, subprocess, sys, time, random

ROOT = os.path.dirname(os.path.dirname(os.path.abspath(__file__)))
REPO = os.environ.get("VERIF_REPO", "/repo")
SPEC = os.path.join(ROOT, "spec")
BUILD = os.path.abspath(os.environ.get("VERIF_BUILD", os.path.join(ROOT, "build")))
TLA_CP = "/opt/veriftools/tla/tla2tools.jar:/opt/veriftools/tla/CommunityModules-deps.jar"
NCPU = os.cpu_count() or 4


class Broken(Exception):
    pass


def log(*a):
    print(*a, flush=True)


def sh(cmd, timeout=None, env=None, cwd=None, check=False):
    e = dict(os.environ)
    if env:
        e.update({k: str(v) for k, v in env.items()})
    try:
        p = subprocess.run(cmd, shell=isinstance(cmd, str), cwd=cwd or ROOT, env=e, timeout=timeout,
                           stdout=subprocess.PIPE, stderr=subprocess.STDOUT, text=True, errors="replace")
    except subprocess.TimeoutExpired as ex:
        out = ex.stdout if isinstance(ex.stdout, str) else (ex.stdout or b"").decode("utf8", "replace")
        return 124, out
    if check and p.returncode != 0:
        raise Broken("command failed (%d): %s\n%s" % (p.returncode, cmd, p.stdout[-4000:]))
    return p.returncode, p.stdout


def build(*runners):
    """(Re)build libCrab.a from /repo's working tree plus the named harness runners."""
    t0 = time.time()
    targets = " ".join(os.path.join(BUILD, "bin", r) for r in runners)
    rc, out = sh("make -s -j%d REPO=%s B=%s %s" % (NCPU, REPO, BUILD, targets), timeout=3000)
    if rc != 0:
        raise Broken("build failed:\n" + out[-6000:])
    return time.time() - t0


def workdir(name):
    d = os.path.join(BUILD, "work", name)
    shutil.rmtree(d, ignore_errors=True)
    os.makedirs(d)
    return d


class TlcResult:
    def __init__(self, rc, out, wall):
        self.rc, self.out, self.wall = rc, out, wall
        m = re.findall(r"(\d+) states generated, (\d+) distinct states found", out)
        self.generated = int(m[-1][0]) if m else 0
        self.distinct = int(m[-1][1]) if m else 0
        self.violated = re.findall(r"Error: Invariant (\w+) is violated", out)
        self.prints = re.findall(r"^(<<.*>>)$", out, re.M)
        self.ok = rc == 0 and not self.violated
        # 12 = safety violation, 13 = liveness violation; anything else non-zero is infrastructure
        self.is_violation = rc in (12, 13) or bool(self.violated)  # -continue exits 0

    def tuples(self, tag):
        """PrintT(<<"tag", ...>>) lines as python lists (ints and strings only)."""
        res = []
        for ln in self.prints:
            if ln.startswith('<<"%s"' % tag):
                body = ln[2:-2]
                res.append([json.loads(x) if x.strip().startswith('"') else _num(x) for x in _split(body)][1:])
        # tuples that TLC's pretty-printer wrapped over several lines (long tuples): << "tag",\n   1,\n   ... >>
        cur, depth = None, 0
        for ln in self.out.splitlines():
            st = ln.strip()
            if cur is None:
                if st.startswith("<< "):
                    cur, depth = "", 0
                else:
                    continue
            cur += st + " "
            depth += st.count("<<") - st.count(">>")
            if depth <= 0:
                t = " ".join(cur.split()).replace("<< ", "<<").replace(" >>", ">>")
                cur = None
                if t.startswith('<<"%s"' % tag) and t.endswith(">>"):
                    res.append([json.loads(x) if x.strip().startswith('"') else _num(x) for x in _split(t[2:-2])][1:])
        return res

    def state_var(self, var):
        """values of `var` in the states printed with violations (in order of appearance)"""
        return re.findall(r"^/?\\?\s*%s = (.*)$" % re.escape(var), self.out, re.M)


def _num(x):
    x = x.strip()
    try:
        return int(x)
    except ValueError:
        return x


def _split(body):
    parts, depth, cur, instr = [], 0, "", False
    for ch in body:
        if ch == '"':
            instr = not instr
        if not instr:
            if ch in "<[{(":
                depth += 1
            elif ch in ">]})":
                depth -= 1
            elif ch == "," and depth == 0:
                parts.append(cur)
                cur = ""
                continue
        cur += ch
    if cur.strip():
        parts.append(cur)
    return parts


def tlc(spec, cfg, name, env=None, workers=None, timeout=1500, extra=None, heap="8g", simulate=None, cont=False):
    """Run TLC on spec/<spec>.tla with spec/<cfg>.cfg. Every run has its own metadir under build/."""
    # time limits are a protection against a hung TLC, not part of any judgement: generous, and three times as generous in
    # the thorough tier (a loaded or slower machine must not turn a long batch into a broken check)
    timeout = int(timeout * (3 if os.environ.get("VERIF_TIER") == "thorough" else 2))
    md = os.path.join(BUILD, "tlc", name)
    shutil.rmtree(md, ignore_errors=True)
    os.makedirs(md)
    cmd = ["timeout", str(timeout), "java", "-XX:+UseParallelGC", "-Xmx" + heap, "-Xss64m", "-cp", TLA_CP, "tlc2.TLC",
           "-workers", str(workers or NCPU), "-metadir", md, "-config", cfg + ".cfg"]
    cmd.append("-noGenerateSpecTE")  # never write trace-expression specs (slow with many violations)
    if cont:
        cmd.append("-continue")
    if simulate:
        cmd += ["-simulate", simulate]
    cmd += (extra or [])
    cmd.append(spec + ".tla")
    t0 = time.time()
    rc, out = sh(cmd, env=env, cwd=SPEC, timeout=timeout + 30)
    r = TlcResult(rc, out, time.time() - t0)
    with open(os.path.join(md, "tlc.out"), "w") as f:
        f.write(out)
    shutil.rmtree(os.path.join(md, "states"), ignore_errors=True)
    if rc not in (0, 12, 13):
        raise Broken("TLC failed (exit %d) on %s/%s:\n%s" % (rc, spec, cfg, out[-5000:]))
    return r


def known_findings(pid):
    p = os.path.join(ROOT, "known_findings.json")
    if not os.path.exists(p):
        return []
    with open(p) as f:
        kf = json.load(f)
    return [k for k in kf.get("findings", []) if pid in k.get("properties", []) and k.get("status") == "open"]


def write_known_for_spec(path):
    """The spec reads the open signatures through JsonDeserialize: give it a plain list file."""
    p = os.path.join(ROOT, "known_findings.json")
    kf = json.load(open(p)) if os.path.exists(p) else {"findings": []}
    op = [k for k in kf.get("findings", []) if k.get("status") == "open"]
    with open(path, "w") as f:
        json.dump(op, f)
    return op


class Check:
    """One run of one property's check: accumulates coverage, decides the exit status."""

    def __init__(self, pid, tier, seed, level="model_checking"):
        self.pid, self.tier, self.seed, self.level = pid, tier, seed, level
        self.t0 = time.time()
        self.cov = {"states": 0, "transitions": 0, "traces_validated_against_impl": 0, "samples": [],
                    "evaluations": 0, "distinct_nontrivial": 0, "rule": "", "exhaustive": False, "tlc_runs": []}
        self.assumptions = []
        self.violations = []  # (description, replay_path)
        self.known_seen = {}  # finding id -> list of cases
        self.rng = random.Random(seed)

    def add_tlc(self, r, label):
        self.cov["states"] += r.distinct
        self.cov["transitions"] += r.generated
        self.cov["tlc_runs"].append({"run": label, "distinct_states": r.distinct, "states_generated": r.generated,
                                     "wall_s": round(r.wall, 1)})

    def sample(self, x, limit=4):
        if len(self.cov["samples"]) < limit:
            self.cov["samples"].append(x)

    def known(self, fid, what):
        self.known_seen.setdefault(fid, []).append(what)

    def violation(self, desc, replay_obj):
        d = os.path.join(ROOT, "replays")
        os.makedirs(d, exist_ok=True)
        path = os.path.join(d, "%s-%s-%d-%d.json" % (self.pid, self.tier, self.seed, len(self.violations)))
        with open(path, "w") as f:
            json.dump({"property": self.pid, "description": desc, "case": replay_obj}, f, indent=1)
        self.violations.append((desc, path))

    def finish(self):
        wall = time.time() - self.t0
        for fid, cases in sorted(self.known_seen.items()):
            log("KNOWN-FINDING: property=%s %s (%d occurrence(s) in this run, e.g. %s)" %
                (self.pid, fid, len(cases), json.dumps(cases[0])[:300]))
        self.cov["known_findings_reobserved"] = {k: len(v) for k, v in self.known_seen.items()}
        nc = self.cov.get("harness_no_claim") or {}
        if nc:      # crashes / CRAB_ERROR exits / timeouts of the real code: no claim for those cases, but never silent
            log("NOTE: no claim for %d case(s) in which the real code exited or timed out: %s" % (sum(nc.values()), json.dumps(nc)[:400]))
        ev = {"property_id": self.pid, "tier": self.tier, "seed": self.seed, "level": self.level,
              "coverage": self.cov, "assumptions": self.assumptions, "wall_s": round(wall, 2),
              "violations": len(self.violations)}
        os.makedirs(os.path.join(ROOT, "evidence"), exist_ok=True)
        with open(os.path.join(ROOT, "evidence", self.pid + ".json"), "w") as f:
            json.dump(ev, f, indent=1)
        for desc, path in self.violations:
            log("VIOLATION property=%s replay=%s" % (self.pid, path))
            log("  " + desc[:1000])
        if self.violations:
            return 1
        log("OK property=%s tier=%s states=%d transitions=%d impl_traces=%d wall=%.1fs" %
            (self.pid, self.tier, self.cov["states"], self.cov["transitions"],
             self.cov["traces_validated_against_impl"], wall))
        return 0


def read_ndjson(path):
    with open(path) as f:
        return [json.loads(l) for l in f if l.strip()]


def write_ndjson(path, recs):
    with open(path, "w") as f:
        for r in recs:
            f.write(json.dumps(r, separators=(",", ":")) + "\n")
