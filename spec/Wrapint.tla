----------------------------- MODULE Wrapint -----------------------------
(* C13: fixed-width integers = arithmetic modulo 2^w, 1 <= w <= 64.
   Oracle for crab::wrapint (include/crab/numbers/wrapint.hpp, lib/wrapint.cpp).

   Two models, chosen by the width:
     w <= 15        a value is a native TLC integer 0 .. 2^w-1 (all products
                    stay below 2^30, TLC integers are 32 bit);
     16 <= w <= 64  a value is an EAGER tuple of eight base-256 limbs,
                    little endian (limb 1 = bits 0..7).  Limb products and
                    column sums stay below 2^20.
   Raw data (what the harness writes): a value is the list of the bytes of
   wrapint::get_uint64_t(), least significant first, trailing zero bytes
   dropped ([] = 0).  A raw value is only valid for width w if it is < 2^w
   (the class invariant 0 <= _n < 2^_width).

   Division, remainder and right shifts of wide words are not computed; their
   DEFINING RELATIONS are checked on the value reported by the implementation
   (a = q*b + r /\ r < b, which has exactly one solution, so the check is an
   exact-equality check).

   Big integers travel as [neg |-> BOOLEAN, c |-> chunks], chunks = base-1000
   digits, least significant first (the harness cuts the decimal string). *)
EXTENDS Integers, Sequences

P2 == <<1, 2, 4, 8, 16, 32, 64, 128, 256, 512, 1024, 2048, 4096, 8192, 16384,
        32768, 65536, 131072, 262144, 524288, 1048576, 2097152, 4194304,
        8388608, 16777216, 33554432, 67108864, 134217728, 268435456,
        536870912, 1073741824>>
Pow2(k) == P2[k + 1]                       \* 0 <= k <= 30

Min(x, y) == IF x <= y THEN x ELSE y
AbsZ(z) == IF z < 0 THEN -z ELSE z

(* ------------------------------ raw data ------------------------------ *)
G(v, i) == IF i <= Len(v) THEN v[i] ELSE 0
Pad8(v) == <<G(v, 1), G(v, 2), G(v, 3), G(v, 4), G(v, 5), G(v, 6), G(v, 7), G(v, 8)>>
Pad7(v) == <<G(v, 1), G(v, 2), G(v, 3), G(v, 4), G(v, 5), G(v, 6), G(v, 7)>>
IsBytes(v) == Len(v) <= 8 /\ \A i \in 1..Len(v) : v[i] \in 0..255
Z8 == <<0, 0, 0, 0, 0, 0, 0, 0>>

(* -------------------------- wide words: limbs -------------------------- *)
(* keep the low w bits *)
Mask(w, t) ==
  LET q == w \div 8  m == Pow2(w % 8)
      L(i) == IF i < q THEN t[i + 1] ELSE IF i = q THEN t[i + 1] % m ELSE 0
  IN <<L(0), L(1), L(2), L(3), L(4), L(5), L(6), L(7)>>

AddC(a, b, cin) ==
  LET s1 == a[1] + b[1] + cin
      s2 == a[2] + b[2] + (s1 \div 256)
      s3 == a[3] + b[3] + (s2 \div 256)
      s4 == a[4] + b[4] + (s3 \div 256)
      s5 == a[5] + b[5] + (s4 \div 256)
      s6 == a[6] + b[6] + (s5 \div 256)
      s7 == a[7] + b[7] + (s6 \div 256)
      s8 == a[8] + b[8] + (s7 \div 256)
  IN <<s1 % 256, s2 % 256, s3 % 256, s4 % 256, s5 % 256, s6 % 256, s7 % 256, s8 % 256>>
Not8(b) == <<255 - b[1], 255 - b[2], 255 - b[3], 255 - b[4], 255 - b[5], 255 - b[6], 255 - b[7], 255 - b[8]>>
Add8(a, b) == AddC(a, b, 0)                \* modulo 2^64
Sub8(a, b) == AddC(a, Not8(b), 1)          \* modulo 2^64

(* schoolbook product, all 16 limbs *)
RECURSIVE ColSum(_, _, _, _)
ColSum(a, b, k, i) ==
  IF i > Min(k, 7) THEN 0
  ELSE (IF k - i <= 7 THEN a[i + 1] * b[k - i + 1] ELSE 0) + ColSum(a, b, k, i + 1)
MulFull(a, b) ==
  LET t0 == ColSum(a, b, 0, 0)
      t1 == ColSum(a, b, 1, 0) + (t0 \div 256)
      t2 == ColSum(a, b, 2, 0) + (t1 \div 256)
      t3 == ColSum(a, b, 3, 0) + (t2 \div 256)
      t4 == ColSum(a, b, 4, 0) + (t3 \div 256)
      t5 == ColSum(a, b, 5, 0) + (t4 \div 256)
      t6 == ColSum(a, b, 6, 0) + (t5 \div 256)
      t7 == ColSum(a, b, 7, 0) + (t6 \div 256)
      t8 == ColSum(a, b, 8, 0) + (t7 \div 256)
      t9 == ColSum(a, b, 9, 0) + (t8 \div 256)
      t10 == ColSum(a, b, 10, 0) + (t9 \div 256)
      t11 == ColSum(a, b, 11, 0) + (t10 \div 256)
      t12 == ColSum(a, b, 12, 0) + (t11 \div 256)
      t13 == ColSum(a, b, 13, 0) + (t12 \div 256)
      t14 == ColSum(a, b, 14, 0) + (t13 \div 256)
      t15 == t14 \div 256
  IN <<t0 % 256, t1 % 256, t2 % 256, t3 % 256, t4 % 256, t5 % 256, t6 % 256, t7 % 256,
       t8 % 256, t9 % 256, t10 % 256, t11 % 256, t12 % 256, t13 % 256, t14 % 256, t15 % 256>>
Lo8(p) == <<p[1], p[2], p[3], p[4], p[5], p[6], p[7], p[8]>>
HiZero(p) == p[9] = 0 /\ p[10] = 0 /\ p[11] = 0 /\ p[12] = 0 /\ p[13] = 0 /\ p[14] = 0 /\ p[15] = 0 /\ p[16] = 0
Mul8(a, b) == Lo8(MulFull(a, b))           \* modulo 2^64

RECURSIVE LtFrom(_, _, _)
LtFrom(a, b, i) == IF i = 0 THEN FALSE ELSE IF a[i] # b[i] THEN a[i] < b[i] ELSE LtFrom(a, b, i - 1)
LtU(a, b) == LtFrom(a, b, 8)
LeU(a, b) == ~LtU(b, a)

(* 2^k as a word, 0 <= k <= 64 (2^64 = 0 modulo 2^64) *)
Pow2L(k) ==
  LET q == k \div 8  m == Pow2(k % 8)  L(i) == IF i = q THEN m ELSE 0
  IN <<L(0), L(1), L(2), L(3), L(4), L(5), L(6), L(7)>>

BitL(w, a, i) == (a[(i \div 8) + 1] \div Pow2(i % 8)) % 2     \* bit i, 0-based
MsbL(w, a) == BitL(w, a, w - 1) = 1

(* bitwise operations, bit by bit: T is the truth table <<f(0,0),f(0,1),f(1,0),f(1,1)>> *)
RECURSIVE BW(_, _, _, _)
BW(T, a, b, n) == IF n = 0 THEN 0 ELSE T[2 * (a % 2) + (b % 2) + 1] + 2 * BW(T, a \div 2, b \div 2, n - 1)
TAnd == <<0, 0, 0, 1>>
TOr == <<0, 1, 1, 1>>
TXor == <<0, 1, 1, 0>>
BW8(T, a, b) == <<BW(T, a[1], b[1], 8), BW(T, a[2], b[2], 8), BW(T, a[3], b[3], 8), BW(T, a[4], b[4], 8),
                  BW(T, a[5], b[5], 8), BW(T, a[6], b[6], 8), BW(T, a[7], b[7], 8), BW(T, a[8], b[8], 8)>>

AddL(w, a, b) == Mask(w, Add8(a, b))
SubL(w, a, b) == Mask(w, Sub8(a, b))
MulL(w, a, b) == Mask(w, Mul8(a, b))
NegL(w, a) == Mask(w, Sub8(Z8, a))
ShlL(w, a, k) == Mask(w, Mul8(a, Pow2L(k)))          \* a * 2^k mod 2^w
LtSL(w, a, b) == IF MsbL(w, a) # MsbL(w, b) THEN MsbL(w, a) ELSE LtU(a, b)
MagL(w, a) == IF MsbL(w, a) THEN NegL(w, a) ELSE a   \* |signed(a)| as an unsigned word (|smin| = 2^(w-1))

(* q = floor(a / b) for unsigned words, b # 0:  q*b <= a < q*b + b *)
IsUDivL(a, b, q) ==
  LET p == MulFull(q, b) IN HiZero(p) /\ LeU(Lo8(p), a) /\ LtU(Sub8(a, Lo8(p)), b)
(* r = a mod b given the witness q: a = q*b + r /\ r < b  (unique solution) *)
IsUDivRemL(a, b, q, r) ==
  LET p == MulFull(q, b) IN HiZero(p) /\ LeU(Lo8(p), a) /\ Sub8(a, Lo8(p)) = r /\ LtU(r, b)
(* signed division truncating towards zero, result modulo 2^w.  The magnitude
   of the quotient is recovered from the reported word by the bijection
   q -> -q, so that the relation pins the word exactly (smin / -1 = smin). *)
IsSDivRemL(w, a, b, q, r) ==
  LET mq == IF MsbL(w, a) # MsbL(w, b) THEN NegL(w, q) ELSE q
      mr == IF MsbL(w, a) THEN NegL(w, r) ELSE r
  IN IsUDivRemL(MagL(w, a), MagL(w, b), mq, mr)
(* logical right shift: a = q * 2^k + r, r < 2^k *)
IsLShrL(a, k, q) == IsUDivL(a, Pow2L(k), q)
(* arithmetic right shift = floor(signed(a) / 2^k) mod 2^w
                          = lshr(a,k) + (2^w - 2^(w-k)) if the sign bit is set *)
AShrHiL(w, a, k) == IF MsbL(w, a) THEN NegL(w, Mask(w, Pow2L(w - k))) ELSE Z8
IsAShrL(w, a, k, q) == IsLShrL(a, k, SubL(w, q, AShrHiL(w, a, k)))
AShrFromLShrL(w, a, k, l) == AddL(w, l, AShrHiL(w, a, k))

SExtL(w, e, a) == IF MsbL(w, a) THEN AddL(w + e, a, NegL(w + e, Mask(w + e, Pow2L(w)))) ELSE a
TruncL(t, a) == Mask(t, a)

(* ----------------------- small words: native ints ----------------------- *)
SgnN(w, a) == IF a >= Pow2(w - 1) THEN a - Pow2(w) ELSE a
WrapN(w, z) == ((z % Pow2(w)) + Pow2(w)) % Pow2(w)
TDivZ(A, B) == LET q == AbsZ(A) \div AbsZ(B) IN IF (A < 0) # (B < 0) THEN -q ELSE q
TRemZ(A, B) == A - B * TDivZ(A, B)
FloorDivZ(A, m) == IF A >= 0 THEN A \div m ELSE -((-A + m - 1) \div m)     \* m > 0

AddN(w, a, b) == (a + b) % Pow2(w)
SubN(w, a, b) == (a + Pow2(w) - b) % Pow2(w)
MulN(w, a, b) == (a * b) % Pow2(w)
NegN(w, a) == (Pow2(w) - a) % Pow2(w)
UDivN(w, a, b) == a \div b
URemN(w, a, b) == a % b
SDivN(w, a, b) == WrapN(w, TDivZ(SgnN(w, a), SgnN(w, b)))
SRemN(w, a, b) == WrapN(w, TRemZ(SgnN(w, a), SgnN(w, b)))
ShlN(w, a, k) == (a * Pow2(k)) % Pow2(w)
LShrN(w, a, k) == a \div Pow2(k)
AShrN(w, a, k) == WrapN(w, FloorDivZ(SgnN(w, a), Pow2(k)))
AndN(w, a, b) == BW(TAnd, a, b, w)
OrN(w, a, b) == BW(TOr, a, b, w)
XorN(w, a, b) == BW(TXor, a, b, w)
MsbN(w, a) == a >= Pow2(w - 1)
LtSN(w, a, b) == SgnN(w, a) < SgnN(w, b)

(* ------------------- values of either representation ------------------- *)
Wide(w) == w >= 16
ValidRaw(w, v) == IsBytes(v) /\ (IF Wide(w) THEN Mask(w, Pad8(v)) = Pad8(v)
                                 ELSE Len(v) <= 2 /\ G(v, 1) + 256 * G(v, 2) < Pow2(w))
Val(w, v) == IF Wide(w) THEN Pad8(v) ELSE G(v, 1) + 256 * G(v, 2)
(* change of representation (the number stays the same) *)
ToL(w, x) == IF Wide(w) THEN x ELSE <<x % 256, x \div 256, 0, 0, 0, 0, 0, 0>>
OfL(w, l) == IF Wide(w) THEN l ELSE l[1] + 256 * l[2]

Zero(w) == IF Wide(w) THEN Z8 ELSE 0
One(w) == IF Wide(w) THEN <<1, 0, 0, 0, 0, 0, 0, 0>> ELSE 1
OfSmall(w, k) == OfL(w, Mask(w, <<k % 256, k \div 256, 0, 0, 0, 0, 0, 0>>))   \* 0 <= k < 65536
Add(w, a, b) == IF Wide(w) THEN AddL(w, a, b) ELSE AddN(w, a, b)
Sub(w, a, b) == IF Wide(w) THEN SubL(w, a, b) ELSE SubN(w, a, b)
Mul(w, a, b) == IF Wide(w) THEN MulL(w, a, b) ELSE MulN(w, a, b)
Neg(w, a) == IF Wide(w) THEN NegL(w, a) ELSE NegN(w, a)
And(w, a, b) == IF Wide(w) THEN BW8(TAnd, a, b) ELSE AndN(w, a, b)
Or(w, a, b) == IF Wide(w) THEN BW8(TOr, a, b) ELSE OrN(w, a, b)
Xor(w, a, b) == IF Wide(w) THEN BW8(TXor, a, b) ELSE XorN(w, a, b)
Shl(w, a, k) == IF Wide(w) THEN ShlL(w, a, k) ELSE ShlN(w, a, k)
Ult(w, a, b) == IF Wide(w) THEN LtU(a, b) ELSE a < b
Ule(w, a, b) == IF Wide(w) THEN LeU(a, b) ELSE a <= b
Slt(w, a, b) == IF Wide(w) THEN LtSL(w, a, b) ELSE LtSN(w, a, b)
Msb(w, a) == IF Wide(w) THEN MsbL(w, a) ELSE MsbN(w, a)
SMax(w) == OfL(w, Sub8(Pow2L(w - 1), <<1, 0, 0, 0, 0, 0, 0, 0>>))
SMin(w) == OfL(w, Pow2L(w - 1))
UMax(w) == OfL(w, Mask(w, Not8(Z8)))
(* q is the value of the operation (exact): native computation or defining relation *)
IsUDiv(w, a, b, q) == IF Wide(w) THEN IsUDivL(a, b, q) ELSE q = UDivN(w, a, b)
IsURem(w, a, b, q, r) == IF Wide(w) THEN IsUDivRemL(a, b, q, r) ELSE r = URemN(w, a, b)
IsSDiv(w, a, b, q, r) == IF Wide(w) THEN IsSDivRemL(w, a, b, q, r) ELSE q = SDivN(w, a, b)
IsSRem(w, a, b, q, r) == IF Wide(w) THEN IsSDivRemL(w, a, b, q, r) ELSE r = SRemN(w, a, b)
IsLShr(w, a, k, q) == IF Wide(w) THEN IsLShrL(a, k, q) ELSE q = LShrN(w, a, k)
IsAShr(w, a, k, q) == IF Wide(w) THEN IsAShrL(w, a, k, q) ELSE q = AShrN(w, a, k)
(* extensions / truncation change the width, hence possibly the representation *)
ZExt(w, e, a) == OfL(w + e, ToL(w, a))
SExt(w, e, a) == OfL(w + e, SExtL(w, e, ToL(w, a)))
Trunc(w, t, a) == OfL(t, TruncL(t, ToL(w, a)))

(* ------------------------------ big integers ------------------------------ *)
(* c * m + d on seven base-1000 digits (m <= 256, d <= 255) *)
MulAdd7(c, m, d) ==
  LET t1 == c[1] * m + d
      t2 == c[2] * m + (t1 \div 1000)
      t3 == c[3] * m + (t2 \div 1000)
      t4 == c[4] * m + (t3 \div 1000)
      t5 == c[5] * m + (t4 \div 1000)
      t6 == c[6] * m + (t5 \div 1000)
      t7 == c[7] * m + (t6 \div 1000)
  IN <<t1 % 1000, t2 % 1000, t3 % 1000, t4 % 1000, t5 % 1000, t6 % 1000, t7 % 1000>>
Z7 == <<0, 0, 0, 0, 0, 0, 0>>
(* decimal digits of an unsigned word (< 2^64 < 10^21) *)
ToDec(a) ==
  LET d8 == MulAdd7(Z7, 256, a[8])
      d7 == MulAdd7(d8, 256, a[7])
      d6 == MulAdd7(d7, 256, a[6])
      d5 == MulAdd7(d6, 256, a[5])
      d4 == MulAdd7(d5, 256, a[4])
      d3 == MulAdd7(d4, 256, a[3])
      d2 == MulAdd7(d3, 256, a[2])
  IN MulAdd7(d2, 256, a[1])
(* a * 1000 + d on eight base-256 limbs, modulo 2^64 *)
MulAdd8(a, d) ==
  LET t1 == a[1] * 1000 + d
      t2 == a[2] * 1000 + (t1 \div 256)
      t3 == a[3] * 1000 + (t2 \div 256)
      t4 == a[4] * 1000 + (t3 \div 256)
      t5 == a[5] * 1000 + (t4 \div 256)
      t6 == a[6] * 1000 + (t5 \div 256)
      t7 == a[7] * 1000 + (t6 \div 256)
      t8 == a[8] * 1000 + (t7 \div 256)
  IN <<t1 % 256, t2 % 256, t3 % 256, t4 % 256, t5 % 256, t6 % 256, t7 % 256, t8 % 256>>
(* the word (modulo 2^64) of a decimal magnitude of at most 21 digits *)
OfDec(c) ==
  LET c7 == Pad7(c)
      a7 == MulAdd8(Z8, c7[7])
      a6 == MulAdd8(a7, c7[6])
      a5 == MulAdd8(a6, c7[5])
      a4 == MulAdd8(a5, c7[4])
      a3 == MulAdd8(a4, c7[3])
      a2 == MulAdd8(a3, c7[2])
  IN MulAdd8(a2, c7[1])
IsChunks(c) == Len(c) <= 7 /\ \A i \in 1..Len(c) : c[i] \in 0..999
BigIsZero(z) == Pad7(z.c) = Z7
(* the residue modulo 2^w of a (signed) big integer, as a word *)
BigModL(w, z) == LET m == OfDec(z.c) IN Mask(w, IF z.neg THEN Sub8(Z8, m) ELSE m)
(* unsigned / signed big integer of a w-bit value *)
IsUBig(w, a, z) == IsChunks(z.c) /\ ~z.neg /\ Pad7(z.c) = ToDec(ToL(w, a))
IsSBig(w, a, z) ==
  /\ IsChunks(z.c)
  /\ LET l == ToL(w, a) IN
       IF MsbL(w, l) THEN z.neg /\ Pad7(z.c) = ToDec(NegL(w, l))
                     ELSE ~z.neg /\ Pad7(z.c) = ToDec(l)
=============================================================================
