#!/bin/sh
# usage: tools/mutcheck.sh <patch-file|-e 'sed-expr' file> -- <check id>...
# Runs checks against a scratch worktree of /repo with a mutation applied (never touches /repo).
set -e
WT=/tmp/wt_mut; BD=/tmp/build_mut; git -C /repo worktree remove --force $WT >/dev/null 2>&1 || true
git -C /repo worktree add -q --detach $WT HEAD
trap 'git -C /repo worktree remove --force '$WT' >/dev/null 2>&1 || true' EXIT
if [ "$1" = "-e" ]; then sed -i "$2" $WT/$3; shift 3; else git -C $WT apply "$1"; shift; fi
[ "$1" = "--" ] && shift
git -C $WT diff --stat | tail -1
for id in "$@"; do
  VERIF_REPO=$WT VERIF_BUILD=$BD VERIF_TIER=${VERIF_TIER:-quick} /verif/tools/check $id 2>&1 | grep -E "^VIOLATION|^OK|^BROKEN|^KNOWN" | cut -c1-300 | head -5
done
