#include "domreg.hpp"
#include "domtypes.hpp"
#include <crab/domains/split_dbm.hpp>
#include <crab/domains/term_equiv.hpp>
#include <crab/domains/uf_domain.hpp>
using namespace crab::domains;
using namespace vh;
typedef split_dbm_domain<z_number, varname_t, VH_DBM_GRAPH> split_dbm_t;
typedef term_domain<term::TDomInfo<z_number, varname_t, split_dbm_t>> term_sdbm_t;
typedef uf_domain<z_number, varname_t> uf_t;
VH_DOMREG(term_sdbm, term_sdbm_t)
VH_DOMREG(uf, uf_t)
