----------------------------- MODULE CrabIR -----------------------------
(* Concrete semantics of CrabIR statements over the integers.

   This is the half that the repository does not contain: what a statement
   DOES to a concrete state.  A scalar state is a tuple s with s[i] the value
   of variable i (booleans are 0/1).  Statements are the JSON records produced
   by tools/gen (see DESIGN.md section 2): fields are accessed only when the
   statement kind has them.

   Succ(st, s, U, Hv) = the set of states in which st can terminate when started
   in s.  Empty set = the execution does not continue (assume/assert false,
   division by zero, `unreachable`) or the step is outside the model (value
   leaves -U..U, unsigned operation on a negative operand, ...): in both cases
   no claim is made about it, which can only make a check weaker (rule R1).
   Hv(i) = the values a havoc of variable i may produce.                      *)
EXTENDS Integers, Sequences, FiniteSets

Abs(a) == IF a < 0 THEN -a ELSE a
Sgn(a) == IF a < 0 THEN -1 ELSE IF a > 0 THEN 1 ELSE 0
Pow2(k) == IF k = 0 THEN 1 ELSE IF k = 1 THEN 2 ELSE IF k = 2 THEN 4 ELSE IF k = 3 THEN 8
           ELSE IF k = 4 THEN 16 ELSE IF k = 5 THEN 32 ELSE IF k = 6 THEN 64 ELSE 128

(* truncating (C-like) signed division and remainder; b # 0 *)
TDiv(a, b) == Sgn(a) * Sgn(b) * (Abs(a) \div Abs(b))
TRem(a, b) == a - b * TDiv(a, b)

(* infinite-precision two's complement bitwise operations for |a|,|b| < 128 *)
RECURSIVE BitsN(_, _, _, _)
BitsN(f, a, b, n) ==   \* f \in {"and","or","xor"}, a,b naturals, n bits left
  IF n = 0 THEN 0
  ELSE LET x == a % 2  y == b % 2
           z == CASE f = "and" -> x * y
                  [] f = "or"  -> IF x + y > 0 THEN 1 ELSE 0
                  [] OTHER     -> (x + y) % 2
       IN z + 2 * BitsN(f, a \div 2, b \div 2, n - 1)
ToU8(a) == a % 256
FromU8(u) == IF u >= 128 THEN u - 256 ELSE u
Bitwise(f, a, b) == FromU8(BitsN(f, ToU8(a), ToU8(b), 8))

-------------------------------------------------------------------------
(* linear expressions  LE = [k |-> c, t |-> << <<coef, var>>, ... >>] *)
RECURSIVE SumTerms(_, _, _)
SumTerms(t, s, k) == IF k > Len(t) THEN 0 ELSE t[k][1] * s[t[k][2]] + SumTerms(t, s, k + 1)
EvalLE(e, s) == e.k + SumTerms(e.t, s, 1)

(* linear constraints  CST = [e |-> LE, r |-> "le"|"lt"|"eq"|"ne"]  meaning e r 0 *)
Holds(c, s) ==
  LET v == EvalLE(c.e, s)
  IN CASE c.r = "le" -> v <= 0
       [] c.r = "lt" -> v < 0
       [] c.r = "eq" -> v = 0
       [] OTHER      -> v # 0

(* right operand of a binary operation: variable (zk = 0) or constant (zk = 1) *)
Opnd(st, s) == IF st.zk = 1 THEN st.z ELSE s[st.z]

(* the set of values of y f z: empty when undefined / outside the model *)
ArithVal(f, a, b) ==
  CASE f = "add" -> {a + b}
    [] f = "sub" -> {a - b}
    [] f = "mul" -> {a * b}
    [] f = "sdiv" -> IF b = 0 THEN {} ELSE {TDiv(a, b)}
    [] f = "srem" -> IF b = 0 THEN {} ELSE {TRem(a, b)}
    [] f = "udiv" -> IF b <= 0 \/ a < 0 THEN {} ELSE {a \div b}
    [] f = "urem" -> IF b <= 0 \/ a < 0 THEN {} ELSE {a % b}
BitwVal(f, a, b) ==
  CASE f \in {"and", "or", "xor"} -> IF Abs(a) < 128 /\ Abs(b) < 128 THEN {Bitwise(f, a, b)} ELSE {}
    [] f = "shl"  -> IF b < 0 \/ b > 6 THEN {} ELSE {a * Pow2(b)}
    [] f = "ashr" -> IF b < 0 \/ b > 6 THEN {} ELSE {a \div Pow2(b)}      \* floor
    [] f = "lshr" -> IF b < 0 \/ b > 6 \/ a < 0 THEN {} ELSE {a \div Pow2(b)}

InU(n, U) == -U <= n /\ n <= U
Upd(s, x, n) == [s EXCEPT ![x] = n]
Set1(s, x, ns, U) == {Upd(s, x, n) : n \in {m \in ns : InU(m, U)}}

BoolVal(f, a, b) ==
  CASE f = "and" -> a * b
    [] f = "or"  -> IF a + b > 0 THEN 1 ELSE 0
    [] OTHER     -> (a + b) % 2

UNW == 99   \* content of a never-written array cell (outside every universe used)
(* 1-based cell number of byte offset idx for element size es in an array of n cells; 0 = invalid access *)
CellOf(idx, es, n) == IF idx >= 0 /\ idx % es = 0 /\ idx \div es < n THEN idx \div es + 1 ELSE 0

Succ(st, s, U, Hv(_)) ==
  CASE st.op = "assign"  -> Set1(s, st.x, {EvalLE(st.e, s)}, U)
    [] st.op = "arith"   -> Set1(s, st.x, ArithVal(st.f, s[st.y], Opnd(st, s)), U)
    [] st.op = "bitw"    -> Set1(s, st.x, BitwVal(st.f, s[st.y], Opnd(st, s)), U)
    [] st.op = "assume"  -> IF Holds(st.c, s) THEN {s} ELSE {}
    [] st.op = "assert"  -> IF Holds(st.c, s) THEN {s} ELSE {}
    [] st.op = "havoc"   -> {Upd(s, st.x, n) : n \in Hv(st.x)}
    [] st.op = "select"  -> Set1(s, st.x, {IF Holds(st.c, s) THEN EvalLE(st.e1, s) ELSE EvalLE(st.e2, s)}, U)
    [] st.op = "unreach" -> {}
    [] st.op = "bassign_cst" -> {Upd(s, st.x, IF Holds(st.c, s) THEN 1 ELSE 0)}
    [] st.op = "bassign_var" -> {Upd(s, st.x, IF st.neg = 1 THEN 1 - s[st.y] ELSE s[st.y])}
    [] st.op = "bop"     -> {Upd(s, st.x, BoolVal(st.f, s[st.y], s[st.z]))}
    [] st.op = "bassume" -> IF s[st.x] = (IF st.neg = 1 THEN 0 ELSE 1) THEN {s} ELSE {}
    [] st.op = "bassert" -> IF s[st.x] = 1 THEN {s} ELSE {}
    [] st.op = "bselect" -> {Upd(s, st.x, IF s[st.c] = 1 THEN s[st.y] ELSE s[st.z])}
    [] st.op = "nop"     -> {s}
    \* ---- arrays: an array variable holds a tuple of cells; UNW marks a cell that was never written.
    \* Indices are byte offsets; all accesses of an array use one element size es (word-level assumption);
    \* a misaligned or out-of-range access and a read of an unwritten cell are outside the model (no successor).
    [] st.op = "ainit"   -> LET lb == EvalLE(st.lb, s)  ub == EvalLE(st.ub, s)  val == EvalLE(st.v, s)
                            IN IF ~InU(val, U) THEN {}
                               ELSE {Upd(s, st.a, [k \in DOMAIN s[st.a] |-> IF lb <= (k - 1) * st.es /\ (k - 1) * st.es <= ub THEN val ELSE UNW])}
    [] st.op = "astore"  -> LET c == CellOf(EvalLE(st.i, s), st.es, Len(s[st.a]))  val == EvalLE(st.v, s)
                            IN IF c = 0 \/ ~InU(val, U) THEN {} ELSE {Upd(s, st.a, [s[st.a] EXCEPT ![c] = val])}
    [] st.op = "astore_range" ->
                            LET lo == EvalLE(st.i, s)  hi == EvalLE(st.j, s)  val == EvalLE(st.v, s)
                            IN IF ~InU(val, U) \/ CellOf(lo, st.es, Len(s[st.a])) = 0 \/ CellOf(hi, st.es, Len(s[st.a])) = 0 THEN {}
                               ELSE {Upd(s, st.a, [k \in DOMAIN s[st.a] |-> IF lo <= (k - 1) * st.es /\ (k - 1) * st.es <= hi THEN val ELSE s[st.a][k]])}
    [] st.op = "aload"   -> LET c == CellOf(EvalLE(st.i, s), st.es, Len(s[st.a]))
                            IN IF c = 0 THEN {} ELSE IF s[st.a][c] = UNW THEN {} ELSE Set1(s, st.x, {s[st.a][c]}, U)
    [] st.op = "aassign" -> {Upd(s, st.a, s[st.b])}

SuccSet(st, S, U, Hv(_)) == UNION {Succ(st, s, U, Hv) : s \in S}
=========================================================================
