------------------------------ MODULE Scalars ------------------------------
(* C08: what crab's scalar value abstractions MEAN and what their operations
   must guarantee.

   An abstract scalar is known to this module only through a DESCRIPTION d
   exported by harness/scalar_runner.cpp from the public query methods of the
   real object (lb()/ub()/is_bottom(), get_modulo()/get_remainder(), the sign
   predicates, ...).  InG(kind, d, n) is the concretisation: "the concrete
   value n is described by d".  Concrete values are integers, except for
       bv  (boolean_value)   0 / 1
       sr  (small_range)     a SET of variable indices (the counted variables)
       qi  (interval<q>)     a rational <<p, q>> with q > 0
   The concrete operations are those of CrabIR (truncating sdiv/srem, udiv /
   urem / lshr only on non-negative operands, floor ashr, two's complement
   and/or/xor): where CrabIR gives no value, no claim is made.

   Contracts (evaluated by ScalarJudge on every record):
     SOUND   x in gamma(a), y in gamma(b), v in x op y   =>  v in gamma(result)
             join/widening contain both operands, meet/narrowing contain the
             intersection, "leq = yes" implies inclusion, conversions contain
             their argument, queries (is_top, singleton, ...) agree with gamma
     TIGHT   interval<z_number>: + - unary- * join meet return EXACTLY the hull
             (closed-form reference Ref*, itself cross-checked against brute
             force here and in ScalarRef.tla)
     EXACT   bound<z_number> arithmetic / comparisons equal extended-integer
             arithmetic wherever that is defined
   Quantification is over a finite sample of gamma: the window -W..W plus the
   finite bounds / residues of the operands and their neighbours, so that an
   infinite bound is sampled beyond every finite bound in play.              *)
EXTENDS CrabIR, TLC, IOUtils

W == atoi(IOEnv.C08_W)          \* half-width of the sample window
Win == -W..W

-----------------------------------------------------------------------------
(* two's complement tables for the window, built EAGERLY (tuples), so that a
   lookup costs nothing; outside the window CrabIR!Bitwise is evaluated.      *)
RECURSIVE BwRow(_, _, _)
BwRow(f, a, k) == IF k = 0 THEN <<>> ELSE Append(BwRow(f, a, k - 1), Bitwise(f, a, k - W - 1))
RECURSIVE BwMat(_, _)
BwMat(f, k) == IF k = 0 THEN <<>> ELSE Append(BwMat(f, k - 1), BwRow(f, k - W - 1, 2 * W + 1))
BwAnd == BwMat("and", 2 * W + 1)
BwOr  == BwMat("or", 2 * W + 1)
BwXor == BwMat("xor", 2 * W + 1)
BwVal(f, a, b) ==
  IF a \in Win /\ b \in Win
  THEN (CASE f = "and" -> BwAnd [] f = "or" -> BwOr [] OTHER -> BwXor)[a + W + 1][b + W + 1]
  ELSE Bitwise(f, a, b)

NumOps == {"add", "sub", "mul", "sdiv", "srem", "udiv", "urem", "and", "or", "xor", "shl", "lshr", "ashr"}
(* the set of values of x op y over the integers; {} = undefined / no claim *)
NumVal(op, x, y) ==
  CASE op \in {"add", "sub", "mul", "sdiv", "srem", "udiv", "urem"} -> ArithVal(op, x, y)
    [] op \in {"and", "or", "xor"} -> IF Abs(x) < 128 /\ Abs(y) < 128 THEN {BwVal(op, x, y)} ELSE {}
    [] OTHER -> BitwVal(op, x, y)

(* rationals <<p, q>>, q > 0 *)
QLe(x, y) == x[1] * y[2] <= y[1] * x[2]
QVal(op, x, y) ==
  CASE op = "add" -> {<<x[1] * y[2] + y[1] * x[2], x[2] * y[2]>>}
    [] op = "sub" -> {<<x[1] * y[2] - y[1] * x[2], x[2] * y[2]>>}
    [] op = "mul" -> {<<x[1] * y[1], x[2] * y[2]>>}
    [] op = "div" -> IF y[1] = 0 THEN {}
                     ELSE IF y[1] > 0 THEN {<<x[1] * y[2], x[2] * y[1]>>}
                     ELSE {<<-(x[1] * y[2]), x[2] * (-y[1])>>}
QWin == {<<p, q>> \in (-(3 * 4)..(3 * 4)) \X (1..3) : Abs(p) <= 4 * q}

-----------------------------------------------------------------------------
(* concretisation predicates, one per abstraction *)
ZiIn(d, n) == /\ d.b = 0 /\ d.li # 1 /\ d.ui # -1
              /\ (d.li = -1 \/ d.lb[1] <= n)
              /\ (d.ui = 1 \/ n <= d.ub[1])
QiIn(d, x) == /\ d.b = 0
              /\ (Len(d.lb) = 0 \/ QLe(d.lb, x))
              /\ (Len(d.ub) = 0 \/ QLe(x, d.ub))
CgIn(d, n) == d.b = 0 /\ (IF d.m = 0 THEN n = d.r ELSE (n - d.r) % Abs(d.m) = 0)
IcIn(d, n) == d.bot = 0 /\ ZiIn(d.i, n) /\ CgIn(d.c, n)
SgIn(d, n) == /\ d.bot = 0
              /\ \/ d.top = 1
                 \/ d.eqz = 1 /\ n = 0
                 \/ d.ltz = 1 /\ n < 0
                 \/ d.gtz = 1 /\ n > 0
                 \/ d.lez = 1 /\ n <= 0
                 \/ d.gez = 1 /\ n >= 0
                 \/ d.nez = 1 /\ n # 0
CtIn(d, n) == d.bot = 0 /\ (d.top = 1 \/ (Len(d.c) = 1 /\ d.c[1] = n))
BvIn(d, n) == d.bot = 0 /\ (d.top = 1 \/ (d.t = 1 /\ n = 1) \/ (d.f = 1 /\ n = 0))
DiIn(d, n) == CASE d.s = "bot" -> FALSE
                [] d.s = "top" -> TRUE
                [] OTHER -> \E k \in 1..Len(d.l) : ZiIn(d.l[k], n)
(* small_range: the abstract counter of the variables having some property;
   1(V) = exactly the variable V, [0,1](V) = none or exactly V *)
SrIn(d, S) == CASE d.k = "_|_"     -> FALSE
                [] d.k = "[0,0]"   -> S = {}
                [] d.k = "[1,1]"   -> S = {d.v[1]}
                [] d.k = "[0,1]"   -> S = {} \/ S = {d.v[1]}
                [] d.k = "[1,+oo]" -> S # {}
                [] d.k = "[0,+oo]" -> TRUE

InG(k, d, n) ==
  CASE k = "zi" -> ZiIn(d, n) [] k = "qi" -> QiIn(d, n) [] k = "cg" -> CgIn(d, n)
    [] k = "ic" -> IcIn(d, n) [] k = "sg" -> SgIn(d, n) [] k = "ct" -> CtIn(d, n)
    [] k = "bv" -> BvIn(d, n) [] k = "di" -> DiIn(d, n) [] k = "sr" -> SrIn(d, n)

(* characteristic points of a description (finite bounds, residues) *)
ZiPts(d) == IF d.b = 1 THEN {}
            ELSE (IF d.li = 0 THEN {d.lb[1]} ELSE {}) \cup (IF d.ui = 0 THEN {d.ub[1]} ELSE {})
CgPts(d) == IF d.b = 1 THEN {} ELSE {d.r, d.r + d.m, d.r - d.m, d.r + 2 * d.m}
Pts(k, d) ==
  CASE k = "zi" -> ZiPts(d) [] k = "cg" -> CgPts(d) [] k = "ic" -> ZiPts(d.i) \cup CgPts(d.c)
    [] k = "sg" -> {} [] k = "ct" -> {d.c[j] : j \in 1..Len(d.c)}
    [] k = "di" -> UNION {ZiPts(d.l[j]) : j \in 1..Len(d.l)}
    [] OTHER -> {}
Near(S) == S \cup {n - 1 : n \in S} \cup {n + 1 : n \in S}
(* the finite universe from which concrete values are drawn *)
Univ(k, P) == CASE k = "bv" -> {0, 1} [] k = "sr" -> SUBSET (1..3) [] k = "qi" -> QWin
                [] OTHER -> Win \cup Near(P)
Smp(k, d, U) == {n \in U : InG(k, d, n)}

-----------------------------------------------------------------------------
(* extended integers <<s, n>>: s = -1 / +1 is -oo / +oo, s = 0 the integer n *)
ELe(p, q) == IF p[1] = q[1] THEN (p[1] # 0 \/ p[2] <= q[2]) ELSE p[1] < q[1]
EMin(p, q) == IF ELe(p, q) THEN p ELSE q
EMax(p, q) == IF ELe(p, q) THEN q ELSE p
ENeg(p) == <<-p[1], -p[2]>>
EAdd(p, q) == IF p[1] # 0 THEN p ELSE IF q[1] # 0 THEN q ELSE <<0, p[2] + q[2]>>  \* never -oo + +oo here
ESgn(p) == IF p[1] # 0 THEN p[1] ELSE Sgn(p[2])
EMul(p, q) == IF ESgn(p) = 0 \/ ESgn(q) = 0 THEN <<0, 0>>       \* 0 * oo = 0 (hull of {0 * y})
              ELSE IF p[1] # 0 \/ q[1] # 0 THEN <<ESgn(p) * ESgn(q), 0>>
              ELSE <<0, p[2] * q[2]>>
EMin4(a, b, c, d) == EMin(EMin(a, b), EMin(c, d))
EMax4(a, b, c, d) == EMax(EMax(a, b), EMax(c, d))

(* normalised integer interval: <<>> (empty) or <<lo, hi>> with lo <= hi *)
NI(lo, hi) == IF ELe(lo, hi) /\ lo[1] # 1 /\ hi[1] # -1 THEN <<lo, hi>> ELSE <<>>
ZiLo(d) == <<d.li, IF d.li = 0 THEN d.lb[1] ELSE 0>>
ZiHi(d) == <<d.ui, IF d.ui = 0 THEN d.ub[1] ELSE 0>>
ZiN(d) == IF d.b = 1 THEN <<>> ELSE NI(ZiLo(d), ZiHi(d))

(* closed-form reference: the least interval containing {x op y} *)
RefAdd(A, B) == IF A = <<>> \/ B = <<>> THEN <<>> ELSE <<EAdd(A[1], B[1]), EAdd(A[2], B[2])>>
RefNeg(A) == IF A = <<>> THEN <<>> ELSE <<ENeg(A[2]), ENeg(A[1])>>
RefSub(A, B) == RefAdd(A, RefNeg(B))
RefMul(A, B) == IF A = <<>> \/ B = <<>> THEN <<>>
                ELSE LET ll == EMul(A[1], B[1]) lu == EMul(A[1], B[2])
                         ul == EMul(A[2], B[1]) uu == EMul(A[2], B[2])
                     IN <<EMin4(ll, lu, ul, uu), EMax4(ll, lu, ul, uu)>>
RefJoin(A, B) == IF A = <<>> THEN B ELSE IF B = <<>> THEN A ELSE <<EMin(A[1], B[1]), EMax(A[2], B[2])>>
RefMeet(A, B) == IF A = <<>> \/ B = <<>> THEN <<>> ELSE NI(EMax(A[1], B[1]), EMin(A[2], B[2]))
TightOps == {"add", "sub", "mul", "join", "meet"}
Ref(op, A, B) == CASE op = "add" -> RefAdd(A, B) [] op = "sub" -> RefSub(A, B) [] op = "mul" -> RefMul(A, B)
                   [] op = "join" -> RefJoin(A, B) [] op = "meet" -> RefMeet(A, B)

(* brute force on finite intervals *)
SetMin(S) == CHOOSE m \in S : \A n \in S : m <= n     \* TLC enumerates S in increasing order
SetMax(S) == -SetMin({-n : n \in S})
HullOf(S) == IF S = {} THEN <<>> ELSE <<<<0, SetMin(S)>>, <<0, SetMax(S)>>>>
IsFin(A) == A = <<>> \/ (A[1][1] = 0 /\ A[2][1] = 0)
Ivl(A) == IF A = <<>> THEN {} ELSE A[1][2]..A[2][2]
Width(A) == IF A = <<>> THEN 0 ELSE A[2][2] - A[1][2] + 1
Brute(op, A, B) ==
  CASE op = "add"  -> HullOf({x + y : x \in Ivl(A), y \in Ivl(B)})
    [] op = "sub"  -> HullOf({x - y : x \in Ivl(A), y \in Ivl(B)})
    [] op = "mul"  -> HullOf({x * y : x \in Ivl(A), y \in Ivl(B)})
    [] op = "join" -> HullOf(Ivl(A) \cup Ivl(B))
    [] op = "meet" -> HullOf(Ivl(A) \cap Ivl(B))
BruteNeg(A) == HullOf({-x : x \in Ivl(A)})
(* an infinite bound replaced by the finite K *)
Cut(A, K) == IF A = <<>> THEN <<>>
             ELSE <<IF A[1][1] = -1 THEN <<0, -K>> ELSE A[1], IF A[2][1] = 1 THEN <<0, K>> ELSE A[2]>>
(* R is the hull of op on (A, B) with infinite bounds, judged from two finite
   cuts K1 < K2 that lie beyond every finite quantity in play: a bound of the
   true hull is finite iff the brute-force bound is the same for both cuts,
   and infinite iff it moves outwards.                                       *)
LimitOk(R, H1, H2) ==
  IF R = <<>> THEN H1 = <<>> /\ H2 = <<>>
  ELSE /\ H1 # <<>> /\ H2 # <<>>
       /\ IF R[1][1] = 0 THEN H1[1] = R[1] /\ H2[1] = R[1] ELSE R[1][1] = -1 /\ H2[1][2] < H1[1][2]
       /\ IF R[2][1] = 0 THEN H1[2] = R[2] /\ H2[2] = R[2] ELSE R[2][1] = 1 /\ H2[2][2] > H1[2][2]

(* bound<z_number>: extended-integer arithmetic, {} where it is not defined or
   where crab follows a convention of its own (n / oo, oo / oo): no claim *)
BdE(d) == <<d.s, IF d.s = 0 THEN d.n ELSE 0>>
RefBd(op, p, q) ==
  CASE op = "add" -> IF p[1] * q[1] = -1 THEN {} ELSE {EAdd(p, q)}
    [] op = "sub" -> IF p[1] * q[1] = 1 THEN {} ELSE {EAdd(p, ENeg(q))}
    [] op = "mul" -> {EMul(p, q)}
    [] op = "div" -> IF q[1] # 0 \/ q[2] = 0 THEN {}
                     ELSE IF p[1] = 0 THEN {<<0, TDiv(p[2], q[2])>>} ELSE {<<p[1] * Sgn(q[2]), 0>>}
    [] op = "min" -> {EMin(p, q)}
    [] op = "max" -> {EMax(p, q)}
RefBdAns(op, p, q) ==
  CASE op = "le" -> ELe(p, q) [] op = "lt" -> ~ELe(q, p) [] op = "ge" -> ELe(q, p)
    [] op = "gt" -> ~ELe(p, q) [] op = "eq" -> p = q [] op = "ne" -> p # q
=============================================================================
