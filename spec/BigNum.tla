------------------------------ MODULE BigNum ------------------------------
(* C20: arbitrary-precision integer arithmetic written from first principles,
   used as the oracle for crab's number layer (ikos::z_number, ikos::q_number,
   crab::safe_i64).

   A magnitude is an eager tuple of base-1000 limbs, little-endian, without a
   most-significant zero limb; <<>> is 0.  An integer is a record
   [neg |-> BOOLEAN, m |-> magnitude] with neg = FALSE for zero, so that
   mathematical equality is TLA+ equality of the records.

   Numbers cross the boundary as JSON lists <<negflag, limb1, limb2, ...>> that
   harness/num_runner.cpp cuts out of decimal strings by plain string slicing
   (3 characters per limb), so no arithmetic of the code under test is trusted
   in transport.

   TLC notes: integers are 32 bit, so every intermediate value below stays
   under 2^31 (limb*factor+carry with factor <= 2^20).  Recursive functions
   mention their recursive call exactly once (LET P == R[k-1]).              *)
EXTENDS Integers, Sequences

B == 1000

Max2(x, y) == IF x >= y THEN x ELSE y
Limb(a, k) == IF k <= Len(a) THEN a[k] ELSE 0

LimbsOk(a) == \A k \in 1..Len(a) : a[k] \in 0..(B - 1)

RECURSIVE Strip(_)
Strip(a) == IF Len(a) = 0 THEN <<>>
            ELSE IF a[Len(a)] = 0 THEN Strip(SubSeq(a, 1, Len(a) - 1)) ELSE a

(* magnitude of a small natural (< 2^31) *)
RECURSIVE SmallM(_)
SmallM(c) == IF c = 0 THEN <<>> ELSE <<c % B>> \o SmallM(c \div B)

---------------------------------------------------------------------------
(* magnitudes *)

RECURSIVE CmpFrom(_, _, _)
CmpFrom(a, b, k) == IF k = 0 THEN 0
                    ELSE IF a[k] < b[k] THEN -1
                    ELSE IF a[k] > b[k] THEN 1
                    ELSE CmpFrom(a, b, k - 1)

(* -1, 0, 1 ; both stripped *)
CmpM(a, b) == IF Len(a) < Len(b) THEN -1
              ELSE IF Len(a) > Len(b) THEN 1
              ELSE CmpFrom(a, b, Len(a))

AddM(a, b) ==
  LET n == Max2(Len(a), Len(b))
      R[k \in 0..n] ==
        IF k = 0 THEN << <<>>, 0 >>
        ELSE LET P == R[k - 1]
                 s == Limb(a, k) + Limb(b, k) + P[2]
             IN << Append(P[1], s % B), s \div B >>
      F == R[n]
  IN IF F[2] = 0 THEN F[1] ELSE Append(F[1], F[2])

(* a - b for a >= b *)
SubM(a, b) ==
  LET n == Len(a)
      R[k \in 0..n] ==
        IF k = 0 THEN << <<>>, 0 >>
        ELSE LET P == R[k - 1]
                 d == a[k] - Limb(b, k) - P[2]
             IN IF d < 0 THEN << Append(P[1], d + B), 1 >> ELSE << Append(P[1], d), 0 >>
  IN Strip(R[n][1])

(* a * d for a small factor 0 <= d <= 2^20 *)
MulSmallM(a, d) ==
  IF d = 0 THEN <<>>
  ELSE LET n == Len(a)
           R[k \in 0..n] ==
             IF k = 0 THEN << <<>>, 0 >>
             ELSE LET P == R[k - 1]
                      s == a[k] * d + P[2]
                  IN << Append(P[1], s % B), s \div B >>
           F == R[n]
       IN F[1] \o SmallM(F[2])

(* a * 1000^j *)
ShiftM(a, j) == IF Len(a) = 0 \/ j = 0 THEN a ELSE [i \in 1..j |-> 0] \o a

(* schoolbook multiplication: one shifted partial product per limb of b *)
MulM(a, b) ==
  LET n == Len(b)
      R[k \in 0..n] ==
        IF k = 0 THEN <<>>
        ELSE LET P == R[k - 1]
                 row == ShiftM(MulSmallM(a, b[k]), k - 1)
             IN AddM(P, row)
  IN R[n]

(* short division by a small divisor 1 <= d <= 2^20: << quotient, remainder >> *)
DivSmallM(a, d) ==
  LET n == Len(a)
      R[k \in 0..n] ==            \* k limbs consumed from the most significant end
        IF k = 0 THEN << <<>>, 0 >>
        ELSE LET P == R[k - 1]
                 cur == P[2] * B + a[n - k + 1]
             IN << <<cur \div d>> \o P[1], cur % d >>
      F == R[n]
  IN << Strip(F[1]), F[2] >>

RECURSIVE Pow2M(_)
Pow2M(k) == IF k = 0 THEN <<1>>
            ELSE IF k >= 20 THEN MulSmallM(Pow2M(k - 20), 1048576)
            ELSE MulSmallM(Pow2M(k - 1), 2)

(* digits in base d (2 <= d <= 2^20), little-endian *)
RECURSIVE DigitsM(_, _)
DigitsM(m, d) == IF Len(m) = 0 THEN <<>>
                 ELSE LET qr == DivSmallM(m, d) IN <<qr[2]>> \o DigitsM(qr[1], d)

(* value of little-endian digits in base d, by Horner from the top *)
FromDigitsM(D, d) ==
  LET n == Len(D)
      R[k \in 0..n] ==
        IF k = 0 THEN <<>>
        ELSE LET P == R[k - 1] IN AddM(MulSmallM(P, d), SmallM(D[n - k + 1]))
  IN R[n]

---------------------------------------------------------------------------
(* signed integers *)

Z(neg, m) == LET s == Strip(m) IN [neg |-> neg /\ Len(s) > 0, m |-> s]
Zero == [neg |-> FALSE, m |-> <<>>]
One == [neg |-> FALSE, m |-> <<1>>]
FromInt(n) == IF n < 0 THEN Z(TRUE, SmallM(-n)) ELSE Z(FALSE, SmallM(n))

(* JSON transport form <<negflag, limbs...>> *)
NumOk(t) == Len(t) >= 2 /\ t[1] \in {0, 1} /\ LimbsOk(Tail(t))
Num(t) == Z(t[1] = 1, Tail(t))
(* canonical decimal text: no leading zero limb unless the number is 0, no "-0" *)
CanonText(t) == NumOk(t) /\ (Len(t) > 2 => t[Len(t)] # 0) /\ (t[1] = 1 => t[Len(t)] # 0)

IsZero(x) == Len(x.m) = 0
Sign(x) == IF IsZero(x) THEN 0 ELSE IF x.neg THEN -1 ELSE 1
Neg(x) == Z(~x.neg, x.m)
Abs(x) == Z(FALSE, x.m)

Add(x, y) ==
  IF x.neg = y.neg THEN Z(x.neg, AddM(x.m, y.m))
  ELSE LET c == CmpM(x.m, y.m)
       IN IF c = 0 THEN Zero
          ELSE IF c > 0 THEN Z(x.neg, SubM(x.m, y.m))
          ELSE Z(y.neg, SubM(y.m, x.m))

Sub(x, y) == Add(x, Neg(y))
Mul(x, y) == Z(x.neg # y.neg, MulM(x.m, y.m))

Cmp(x, y) ==
  IF x.neg # y.neg THEN (IF x.neg THEN -1 ELSE 1)
  ELSE IF x.neg THEN CmpM(y.m, x.m) ELSE CmpM(x.m, y.m)

Lt(x, y) == Cmp(x, y) < 0
Le(x, y) == Cmp(x, y) <= 0

Pow2(k) == Z(FALSE, Pow2M(k))

MinI64 == Neg(Pow2(63))
MaxI64 == Sub(Pow2(63), One)
MaxU64 == Sub(Pow2(64), One)
FitsI64(x) == Le(MinI64, x) /\ Le(x, MaxI64)
FitsU64(x) == ~x.neg /\ Le(x, MaxU64)

---------------------------------------------------------------------------
(* defining relations *)

(* truncating division: a = q*b + r, |r| < |b|, r = 0 or sign(r) = sign(a).
   For b # 0 exactly one pair (q, r) satisfies it. *)
TDivOk(a, b, q, r) ==
  /\ ~IsZero(b)
  /\ Add(Mul(q, b), r) = a
  /\ CmpM(r.m, b.m) < 0
  /\ (IsZero(r) \/ r.neg = a.neg)

(* q is THE truncated quotient of a by b (the remainder is computed here) *)
TQuotOk(a, b, q) == TDivOk(a, b, q, Sub(a, Mul(q, b)))
(* r is THE truncated remainder: a - r is a multiple of b is not expressible without q,
   so remainders are always judged together with the quotient of the same operands *)

(* floor right shift: a = q*2^k + r with 0 <= r < 2^k *)
FloorShrOk(a, k, q) ==
  LET p == Pow2(k)
      r == Sub(a, Mul(q, p))
  IN ~r.neg /\ CmpM(r.m, p.m) < 0

ShlOk(a, k, r) == r = Mul(a, Pow2(k))

(* floor / ceiling of the rational n/d, d # 0 *)
FloorOk(n, d, lo) ==
  LET nn == IF d.neg THEN Neg(n) ELSE n
      dd == Abs(d)
  IN ~IsZero(d) /\ Le(Mul(lo, dd), nn) /\ Lt(nn, Mul(Add(lo, One), dd))

CeilOk(n, d, up) ==
  LET nn == IF d.neg THEN Neg(n) ELSE n
      dd == Abs(d)
  IN ~IsZero(d) /\ Lt(Mul(Sub(up, One), dd), nn) /\ Le(nn, Mul(up, dd))

(* n1/d1 = n2/d2 as rationals (d1, d2 # 0) *)
QEq(n1, d1, n2, d2) == ~IsZero(d1) /\ ~IsZero(d2) /\ Mul(n1, d2) = Mul(n2, d1)
(* sign-normalised comparison of n1/d1 with n2/d2: -1, 0, 1 *)
QCmp(n1, d1, n2, d2) ==
  LET l == Mul(n1, d2)
      r == Mul(n2, d1)
      c == Cmp(l, r)
  IN IF d1.neg # d2.neg THEN -c ELSE c

---------------------------------------------------------------------------
(* infinite two's complement, through base-65536 digits obtained by short
   division (no use of the code under test, no use of a TLC bit operator).

   x >= 0 : digits of x, extended with 0
   x <  0 : complemented digits of |x|-1, extended with 65535              *)
D16 == 65536

TCDigits(x) == IF x.neg THEN DigitsM(SubM(x.m, <<1>>), D16) ELSE DigitsM(x.m, D16)
TCDigit(x, D, k) == IF x.neg THEN (D16 - 1) - Limb(D, k) ELSE Limb(D, k)

RECURSIVE BitOpN(_, _, _, _)
BitOpN(op, x, y, n) ==
  IF n = 0 THEN 0
  ELSE LET bx == x % 2
           by == y % 2
           b == CASE op = "and" -> bx * by
                  [] op = "or" -> bx + by - bx * by
                  [] op = "xor" -> (bx + by) % 2
       IN b + 2 * BitOpN(op, x \div 2, y \div 2, n - 1)

BoolOp(op, p, q) == CASE op = "and" -> p /\ q
                      [] op = "or" -> p \/ q
                      [] op = "xor" -> p # q

BitwiseOk(op, a, b, r) ==
  LET Da == TCDigits(a)
      Db == TCDigits(b)
      Dr == TCDigits(r)
      W == Max2(Len(Da), Max2(Len(Db), Len(Dr)))
  IN /\ r.neg = BoolOp(op, a.neg, b.neg)        \* the infinite sign extension
     /\ \A k \in 1..W : TCDigit(r, Dr, k) = BitOpN(op, TCDigit(a, Da, k), TCDigit(b, Db, k), 16)

IsPow2M(m) ==
  LET D == DigitsM(m, D16)
  IN /\ Len(D) > 0
     /\ \A k \in 1..(Len(D) - 1) : D[k] = 0
     /\ D[Len(D)] \in {1, 2, 4, 8, 16, 32, 64, 128, 256, 512, 1024, 2048, 4096, 8192, 16384, 32768}

(* z_number::fill_ones(x), x >= 0: the smallest 2^k - 1 (k >= 1) that is >= x; 0 for 0 *)
FillOnesOk(x, r) ==
  IF IsZero(x) THEN IsZero(r)
  ELSE /\ ~r.neg /\ IsPow2M(AddM(r.m, <<1>>))
       /\ Le(x, r)
       /\ (r = One \/ Le(r, Sub(Mul(FromInt(2), x), One)))   \* the previous candidate (r-1)/2 is < x

(* hexadecimal text (characters, most significant first, optional leading "-") denotes x *)
HexVal == [c \in {"0","1","2","3","4","5","6","7","8","9","a","b","c","d","e","f"} |->
            CASE c = "0" -> 0 [] c = "1" -> 1 [] c = "2" -> 2 [] c = "3" -> 3 [] c = "4" -> 4
              [] c = "5" -> 5 [] c = "6" -> 6 [] c = "7" -> 7 [] c = "8" -> 8 [] c = "9" -> 9
              [] c = "a" -> 10 [] c = "b" -> 11 [] c = "c" -> 12 [] c = "d" -> 13 [] c = "e" -> 14
              [] c = "f" -> 15]

HexDenotes(chars, x) ==
  LET neg == Len(chars) > 0 /\ chars[1] = "-"
      body == IF neg THEN Tail(chars) ELSE chars
      n == Len(body)
  IN /\ n > 0
     /\ \A k \in 1..n : body[k] \in DOMAIN HexVal
     /\ Z(neg, FromDigitsM([k \in 1..n |-> HexVal[body[n - k + 1]]], 16)) = x

(* little-endian 64-bit words (each given as a transported natural) denote the magnitude m *)
WordsDenote(ws, m) ==
  LET n == Len(ws)
      R[k \in 0..n] ==
        IF k = 0 THEN <<>>
        ELSE LET P == R[k - 1] IN AddM(MulM(P, Pow2M(64)), Num(ws[n - k + 1]).m)
  IN R[n] = m
=============================================================================
