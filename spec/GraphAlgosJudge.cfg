\* implementation level: one initial state per record of harness/graph_runner (env GRAPH_RECORDS)
SPECIFICATION JudgeSpec
CONSTANTS
  MinN = 1
  MaxN = 1
  Entries = "first"
INVARIANTS
  Contract
  UseSiteNote
CHECK_DEADLOCK FALSE
