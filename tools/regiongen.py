"""Seeded generator of CrabIR programs over regions and references (C15).

Variable order (the exporter relies on it): integer scalars x,y,z, then booleans b1,b2, then region variables, then
reference variables; `kinds` has one more entry, "heap", for the allocator bookkeeping component of the concrete state
(spec/CrabIR.tla, section "regions and references").

Memory layout of a program (the partition of memory into typed regions that the region domain assumes):
  class 1 = region A (int cells), class 2 = region B (int or bool cells), class 3 = region RR (cells hold references
  into class 1).  Objects allocated "in A" have one shape per program: plain [A], struct [A,B] (field 0 in A, field 1
  in B, reached with gep_ref offset 1) or array [A,A].  A2 is a second region variable of class 1 (target of
  region_copy), UK an unknown-typed region and A3 a typed one (region_cast A -> UK -> A3).  Reference variables have a
  static class: p,q,t -> 1, r -> 2, m -> 3: every access uses a region variable of the reference's class.
Every reference is assigned in the entry block before it is used (make_ref, null, or a copy of another reference).
Offsets are in cells: gep_ref uses offset 0 (copy of a reference) or 1 (next field / next element, also symbolic 0..1).
`ssa=True`: a reference variable is the target of at most one make_ref statement in the program text.

The generator keeps a rough static picture G of the references (null? which object? cell written in which region
variable? freed?) only to keep most executions inside the model (no dereference of null, no load of a never-written
cell); it is not an oracle - executions that leave the model anyway simply end (spec)."""
import copy
import hist
from proggen import negate

X, Y, Z, B1, B2, B3 = 1, 2, 3, 4, 5, 6
INTS = [X, Y, Z]
BOOLS = [B1, B2]  # B3: output of the (single) intrinsic with a result; never assigned by anything else
NADDR = 8  # spec/CrabIR.tla


def le_const(c):
    return {"k": c, "t": []}


def le_var(v, k=0, coef=1):
    return {"k": k, "t": [[coef, v]]}


def rc(k, p, q=0, off=0):
    return {"k": k, "p": p, "q": q, "off": off}


def program(rng, pid, ssa=None, shape=None, features=None):
    if ssa is None:
        ssa = rng.random() < 0.7
    shapeA = rng.choice(["plain", "struct", "struct", "array"])
    btype = rng.choice(["int", "int", "bool"])
    has_rr = rng.random() < 0.45
    has_copy = rng.random() < 0.4
    has_cast = rng.random() < 0.2
    feats = {"tags": rng.random() < 0.35, "deref": rng.random() < 0.3, "unfreed": rng.random() < 0.3, "free": rng.random() < 0.5,
             "cmp": rng.random() < 0.5, "conv": rng.random() < 0.2}
    if features:
        feats.update(features)
    vars_ = [{"n": "x", "t": "int", "w": 32}, {"n": "y", "t": "int", "w": 32}, {"n": "z", "t": "int", "w": 32},
             {"n": "b1", "t": "bool"}, {"n": "b2", "t": "bool"}, {"n": "b3", "t": "bool"}]
    kinds = ["int", "int", "int", "bool", "bool", "bool"]

    def decl(name, t):
        vars_.append({"n": name, "t": t, "w": 32} if t not in ("brgn", "urgn") else {"n": name, "t": t})
        kinds.append(t)
        return len(vars_)

    A = decl("A", "rgn")
    Bv = decl("B", "brgn" if btype == "bool" else "rgn")
    # the region that holds references is declared with an UNKNOWN type in a third of the programs (a dynamically typed region:
    # untracked with region.skip_unknown_regions, the default); the concrete semantics is the same
    rr_unknown = has_rr and rng.random() < 0.33
    RR = decl("RR", "urgn" if rr_unknown else "rrgn") if has_rr else 0
    A2 = decl("A2", "rgn") if has_copy else 0
    UK = decl("UK", "urgn") if has_cast else 0
    A3 = decl("A3", "rgn") if has_cast else 0
    rgns = [v for v in (A, Bv, RR, A2, UK, A3) if v]
    P_, Q_, T_, R_ = decl("p", "ref"), decl("q", "ref"), decl("t", "ref"), decl("r", "ref")
    M_ = decl("m", "ref") if has_rr else 0
    # a second reference into the region that holds references (two objects / two references in one smashed region)
    N_ = decl("n", "ref") if has_rr and rng.random() < 0.5 else 0
    refs = [v for v in (P_, Q_, T_, R_, M_, N_) if v]
    ref_cls = {P_: 1, Q_: 1, T_: 1, R_: 2}
    if M_:
        ref_cls[M_] = 3
    if N_:
        ref_cls[N_] = 3
    kinds.append("heap")
    cls_refs = {c: [v for v in refs if ref_cls[v] == c] for c in (1, 2, 3)}
    main_rgn = {1: A, 2: Bv, 3: RR}
    layoutA = {"plain": [1], "struct": [1, 2], "array": [1, 1]}[shapeA]
    ctr = {"site": 0, "assert": 0, "obj": 0, "mk": set(), "cells": 0, "budget": NADDR, "inloop": False, "intr": 0}
    blocks = []
    # static picture of the references
    G = {"nn": {v: "undef" for v in refs}, "obj": {v: None for v in refs}, "wr": {v: set() for v in refs}, "off": {v: 0 for v in refs},
         "dead": set(), "mdead": {v: False for v in refs}, "copied": False, "cast": False, "frozen": None}

    def blk(st=None):
        blocks.append({"succ": [], "stmts": st or []})
        return len(blocks)

    def edge(a, b):
        blocks[a - 1]["succ"].append(b)

    def join(g1, g2):
        g = copy.deepcopy(g1)
        for v in refs:
            if g1["nn"][v] != g2["nn"][v]:
                g["nn"][v] = "maybe"
            if g1["obj"][v] != g2["obj"][v]:
                g["obj"][v] = None
            if g1["off"][v] != g2["off"][v]:
                g["off"][v] = None
            g["wr"][v] = g1["wr"][v] & g2["wr"][v] if g1["obj"][v] == g2["obj"][v] and g1["obj"][v] is not None else set()
            g["mdead"][v] = g1["mdead"][v] or g2["mdead"][v]
        g["dead"] = g1["dead"] | g2["dead"]
        g["copied"] = g1["copied"] and g2["copied"]
        g["cast"] = g1["cast"] and g2["cast"]
        return g

    def writable(v):
        return (G["frozen"] is None or v in G["frozen"]) and v not in MK

    def ok_deref(v):
        return G["nn"][v] in ("nn", "maybe") and G["obj"][v] not in G["dead"]

    def guard(v, out):
        """make v non-null for the rest of the block"""
        if G["nn"][v] == "maybe":
            out.append({"op": "rassume", "c": rc(rng.choice(["ne", "ne", "gt"]), v)})
            G["nn"][v] = "nn"

    def rvars(c):
        if c == 1:
            return [A] + ([A2] if A2 and G["copied"] else []) + ([A3] if A3 and G["cast"] else [])
        return [main_rgn[c]]

    def rvar(c):
        rv = rvars(c)
        return rv[0] if rng.random() < 0.65 else rng.choice(rv)

    def set_ref(v, nn, obj, off, wr, mdead=False):
        G["nn"][v], G["obj"][v], G["off"][v], G["wr"][v], G["mdead"][v] = nn, obj, off, set(wr), mdead

    def same_cell(v):
        return [u for u in refs if u != v and G["obj"][u] is not None and G["obj"][u] == G["obj"][v] and G["off"][u] == G["off"][v]
                and G["off"][v] is not None and ref_cls[u] == ref_cls[v]]

    def mkref(v):
        c = ref_cls[v]
        lay = layoutA if c == 1 else [c]
        ctr["site"] += 1
        ctr["obj"] += 1
        ctr["mk"].add(v)
        ctr["cells"] += len(lay)
        set_ref(v, "nn", ctr["obj"], 0, [])
        return {"op": "mkref", "x": v, "r": main_rgn[c], "sz": len(lay), "site": ctr["site"], "cls": lay}

    # ssa: the references in MK are "allocation variables": assigned by exactly one make_ref statement and by nothing else
    MK = set()
    if ssa:
        MK = {P_} | {v for v in refs if v != P_ and rng.random() < 0.4}
        if M_:
            MK.add(M_)
        if N_ and rng.random() < 0.6:
            MK.add(N_)

    def can_mk(v):
        """allocation budget: the concrete model has NADDR cells; allocating loops run twice"""
        size = len(layoutA) if ref_cls[v] == 1 else 1
        return writable(v) and (not ssa or (v in MK and v not in ctr["mk"])) and not ctr["inloop"] and ctr["cells"] + size <= ctr["budget"]

    def pick(cands, pred):
        c = [v for v in cands if pred(v)]
        return rng.choice(c) if c else None

    def store(v=None, rv=None):
        out = []
        v = v or pick([P_, P_, Q_, Q_, T_, R_], ok_deref)
        if v is None:
            return out
        c = ref_cls[v]
        guard(v, out)
        rv = rv or rvar(c)
        s = {"op": "rstore", "ref": v, "r": rv, "cls": c}
        if c == 2 and btype == "bool":
            if rng.random() < 0.5:
                s.update(vk=1, v=rng.randint(0, 1))
            else:
                s.update(vk=0, v=rng.choice(BOOLS))
        elif c == 3:
            src = pick(cls_refs[1], lambda u: G["nn"][u] != "undef")
            if src is None or rng.random() < 0.2:
                s.update(vk=1, v=0)
            else:
                s.update(vk=0, v=src)
        elif rng.random() < 0.55:
            s.update(vk=1, v=rng.randint(-2, 2))
        else:
            s.update(vk=0, v=rng.choice(INTS))
        out.append(s)
        G["wr"][v].add(rv)
        for u in same_cell(v):
            G["wr"][u].add(rv)
        return out

    def load(v=None, x=None, avoid=()):
        """load through v; a store is put in front when the cell is not known to be written"""
        out = []
        v = v or pick([P_, P_, Q_, Q_, T_, R_], ok_deref)
        if v is None:
            return out
        c = ref_cls[v]
        guard(v, out)
        known = [rv for rv in rvars(c) if rv in G["wr"][v]]
        if known and rng.random() < 0.9:
            rv = rng.choice(known)
        else:
            rv = rvar(c)
            if rng.random() < 0.85:
                out += store(v, rv)
        if c == 2 and btype == "bool":
            tgt = rng.choice(BOOLS)
        else:
            cand = [i for i in INTS if i not in avoid] or INTS
            tgt = x or rng.choice(cand)
        out.append({"op": "rload", "x": tgt, "ref": v, "r": rv, "cls": c})
        return out

    def alias(dst=None, src=None):
        c = ref_cls[dst] if dst else rng.choice([1, 1, 1, 2])
        cand = cls_refs[c]
        if len(cand) < 2:
            c, cand = 1, cls_refs[1]
        dst = dst or pick(cand, writable)
        if dst is None:
            return []
        src = src or pick(cand, lambda u: u != dst and G["nn"][u] != "undef" and G["obj"][u] not in G["dead"] and not G["mdead"][u])
        if src is None:
            return []
        set_ref(dst, G["nn"][src], G["obj"][src], G["off"][src], G["wr"][src], G["mdead"][src])
        rg = main_rgn[c]
        return [{"op": "gep", "x": dst, "xr": rg, "y": src, "yr": rg, "off": le_const(0), "cls": c, "ycls": c}]

    def field():
        """next field (struct) / next element (array) of an object allocated in A"""
        src = pick(cls_refs[1], lambda u: ok_deref(u) and G["off"][u] == 0 and not G["mdead"][u])
        if src is None or shapeA == "plain":
            return alias()
        out = []
        guard(src, out)
        if shapeA == "struct":
            if not writable(R_):
                return out
            set_ref(R_, "nn", G["obj"][src], 1, [])
            return out + [{"op": "gep", "x": R_, "xr": Bv, "y": src, "yr": A, "off": le_const(1), "cls": 2, "ycls": 1}]
        dst = pick(cls_refs[1], writable)
        if dst is None:
            return out
        if rng.random() < 0.4:
            i = rng.choice(INTS)
            set_ref(dst, "nn", G["obj"][src], None, [])
            return out + [{"op": "havoc", "x": i}, {"op": "assume", "c": {"e": le_var(i, -1), "r": "le"}},
                          {"op": "assume", "c": {"e": le_var(i, 0, -1), "r": "le"}},
                          {"op": "gep", "x": dst, "xr": A, "y": src, "yr": A, "off": le_var(i), "cls": 1, "ycls": 1}]
        set_ref(dst, "nn", G["obj"][src], 1, [])
        return out + [{"op": "gep", "x": dst, "xr": A, "y": src, "yr": A, "off": le_const(1), "cls": 1, "ycls": 1}]

    def defined(v):
        return G["nn"][v] != "undef"

    def nullc(filtering):
        """null test; when it filters executions prefer tests that can hold"""
        v = pick(refs, lambda u: defined(u) and (not filtering or G["nn"][u] == "maybe")) or pick(refs, defined)
        if G["nn"][v] == "nn" and filtering:
            return rc(rng.choice(["ne", "gt"]), v), v, "nn"
        if G["nn"][v] == "null" and filtering:
            return rc("eq", v), v, "null"
        k = rng.choice(["eq", "ne", "ne", "gt"])
        return rc(k, v), v, ("null" if k == "eq" else "nn")

    def cmpc():
        c = rng.choice([1, 1, 2])
        cand = [u for u in (cls_refs[c] if len(cls_refs[c]) >= 2 else cls_refs[1]) if defined(u)]
        if len(cand) < 2:
            return nullc(False)[0]
        a, b = rng.sample(cand, 2)
        ks = ["eq", "ne", "eq", "ne"] + (["lt", "le", "gt", "ge"] if feats["cmp"] else [])
        return rc(rng.choice(ks), a, b, 0)

    def refcond():
        return nullc(False)[0] if rng.random() < 0.6 else cmpc()

    def rselect():
        c = rng.choice([1, 1, 2])
        cand = cls_refs[c] if len(cls_refs[c]) >= 2 else cls_refs[1]
        c = ref_cls[cand[0]]
        rg = main_rgn[c]
        dst = pick(cand, writable)
        ops = [u for u in cand if defined(u)]
        if dst is None or not ops:
            return []
        y, z = rng.choice(ops), rng.choice(ops)
        r = rng.random()
        if r < 0.25:
            y = 0
        elif r < 0.5:
            z = 0
        ny = "null" if y == 0 else G["nn"][y]
        nz = "null" if z == 0 else G["nn"][z]
        same = y and z and G["obj"][y] == G["obj"][z] and G["off"][y] == G["off"][z]
        set_ref(dst, ny if ny == nz else "maybe", G["obj"][y] if same else None, G["off"][y] if same else None,
                (G["wr"][y] & G["wr"][z]) if same else [], bool((y and G["mdead"][y]) or (z and G["mdead"][z]) or not same))
        return [{"op": "rselect", "x": dst, "xr": rg, "c": rng.choice(BOOLS), "y": y, "yr": rg if y else 0, "z": z, "zr": rg if z else 0, "cls": c}]

    def free():
        v = pick(cls_refs[1] + cls_refs[1] + cls_refs[2], lambda u: ok_deref(u) and G["off"][u] == 0 and not (ref_cls[u] == 2 and shapeA == "struct"))
        if v is None:
            return []
        out = []
        guard(v, out)
        c = ref_cls[v]
        out.append({"op": "rmref", "r": main_rgn[c], "x": v, "cls": c})
        if G["obj"][v] is not None:
            G["dead"].add(G["obj"][v])
        for u in refs:
            if G["obj"][u] is None and ref_cls[u] in (c, 2 if c == 1 else c):
                G["mdead"][u] = True
        if G["obj"][v] is None:
            G["mdead"][v] = True
            G["nn"][v] = "maybe"
            G["obj"][v] = -1 - ctr["obj"]
            G["dead"].add(G["obj"][v])
        return out

    def copy_region():
        out = []
        tail = []
        if rng.random() < 0.6:  # the target already has some content that the copy must replace
            v = pick(cls_refs[1], lambda u: G["nn"][u] == "nn" and ok_deref(u) and not G["mdead"][u])
            if v is not None:
                c1 = rng.randint(-2, 2)
                out.append({"op": "rstore", "ref": v, "r": A2, "cls": 1, "vk": 1, "v": c1})
                if A not in G["wr"][v] or rng.random() < 0.5:
                    out.append({"op": "rstore", "ref": v, "r": A, "cls": 1, "vk": 1, "v": rng.choice([c for c in range(-2, 3) if c != c1])})
                    G["wr"][v].add(A)
                    for u in same_cell(v):
                        G["wr"][u].add(A)
                if rng.random() < 0.6:
                    tail = [{"op": "rload", "x": rng.choice(INTS), "ref": v, "r": A2, "cls": 1}]
        G["copied"] = True
        for v in cls_refs[1]:
            if A in G["wr"][v]:
                G["wr"][v].add(A2)
            else:
                G["wr"][v].discard(A2)
        return out + [{"op": "rcopy", "l": A2, "r": A}] + tail

    def cast_region():
        G["cast"] = True
        for v in cls_refs[1]:
            if A in G["wr"][v]:
                G["wr"][v].add(A3)
            else:
                G["wr"][v].discard(A3)
        return [{"op": "rcast", "l": UK, "r": A}, {"op": "rcast", "l": A3, "r": UK}]

    def scalar():
        return hist.stmt(rng, INTS, [], "c17")

    def realloc():
        """non-SSA: keep an alias of an object, allocate again into the same variable, write the new object, read the old one"""
        v = pick(cls_refs[1], lambda u: G["nn"][u] == "nn" and ok_deref(u) and not G["mdead"][u] and can_mk(u))
        q = pick(cls_refs[1], lambda u: u != v and writable(u))
        if v is None or q is None:
            return store()
        out = store(v, A) + alias(dst=q, src=v) + [mkref(v)] + store(v, A)
        return out + [{"op": "rload", "x": rng.choice(INTS), "ref": q, "r": A, "cls": 1}]

    def symgep():
        """two references into the same region whose distance is only known to lie in 0..1 (element 0 or 1 of an array):
        write through the base, derive the second reference with a symbolic offset, write through it, read the base back"""
        v = pick(cls_refs[1], lambda u: G["nn"][u] == "nn" and ok_deref(u) and G["off"][u] == 0 and not G["mdead"][u])
        q = pick(cls_refs[1], lambda u: u != v and writable(u))
        if shapeA != "array" or v is None or q is None:
            return field()
        i = rng.choice(INTS)
        out = store(v, A)
        set_ref(q, "nn", G["obj"][v], None, [])
        out += [{"op": "havoc", "x": i}, {"op": "assume", "c": {"e": le_var(i, -1), "r": "le"}},
                {"op": "assume", "c": {"e": le_var(i, 0, -1), "r": "le"}},
                {"op": "gep", "x": q, "xr": A, "y": v, "yr": A, "off": le_var(i), "cls": 1, "ycls": 1}]
        out += store(q, A)
        return out + [{"op": "rload", "x": rng.choice([j for j in INTS if j != i] or INTS), "ref": v, "r": A, "cls": 1}]

    def cursor():
        """a reference that already points to one object is re-assigned by a load from the region that holds references
        (cur := *m after *m := src): what it pointed to before (allocation site, tags, nullity) must not survive the load"""
        if not RR or not ok_deref(M_):
            return field()
        src = pick(cls_refs[1], lambda u: G["nn"][u] == "nn" and not G["mdead"][u] and G["obj"][u] not in G["dead"])
        if src is None:
            return field()
        dst = pick(cls_refs[1], lambda u: u != src and writable(u) and G["nn"][u] != "undef" and G["obj"][u] != G["obj"][src])
        if dst is None:
            return field()
        out = []
        guard(M_, out)
        out.append({"op": "rstore", "ref": M_, "r": RR, "cls": 3, "vk": 0, "v": src})
        G["wr"][M_].add(RR)
        for u in same_cell(M_):
            G["wr"][u].add(RR)
        out.append({"op": "rload", "x": dst, "ref": M_, "r": RR, "cls": 3})
        set_ref(dst, G["nn"][src], G["obj"][src], G["off"][src], G["wr"][src], G["mdead"][src])
        return out

    def two_stores():
        """two different references into the region that holds references: *m := a; *n := b; then load *m back into a
        class-1 reference (the first cell still holds a)"""
        ms = [u for u in cls_refs[3] if ok_deref(u)]
        if len(ms) < 2 or G["obj"][ms[0]] == G["obj"][ms[1]]:
            return cursor()
        m1, m2 = rng.sample(ms, 2)
        srcs = [u for u in cls_refs[1] if G["nn"][u] == "nn" and not G["mdead"][u] and G["obj"][u] not in G["dead"]]
        if not srcs:
            return cursor()
        a = rng.choice(srcs)
        b = rng.choice(srcs)
        out = []
        guard(m1, out)
        guard(m2, out)
        out.append({"op": "rstore", "ref": m1, "r": RR, "cls": 3, "vk": 0, "v": a})
        out.append({"op": "rstore", "ref": m2, "r": RR, "cls": 3, "vk": 0, "v": b} if rng.random() < 0.8 else
                   {"op": "rstore", "ref": m2, "r": RR, "cls": 3, "vk": 1, "v": 0})
        for mm in (m1, m2):
            G["wr"][mm].add(RR)
            for u in same_cell(mm):
                G["wr"][u].add(RR)
        dst = pick(cls_refs[1], lambda u: u != a and writable(u))
        if dst is None:
            return out
        out.append({"op": "rload", "x": dst, "ref": m1, "r": RR, "cls": 3})
        set_ref(dst, G["nn"][a], G["obj"][a], G["off"][a], G["wr"][a], G["mdead"][a])
        return out

    def one():
        if RR and N_ and rng.random() < 0.08:
            return two_stores()
        if RR and rng.random() < 0.07:
            return cursor()
        r = rng.random()
        if not ssa and r < 0.06:
            return realloc()
        if shapeA == "array" and 0.06 <= r < 0.12:
            return symgep()
        if r < 0.22:
            return store()
        if r < 0.36:
            return load()
        if r < 0.44:
            return alias()
        if r < 0.51:
            return field()
        if r < 0.59:
            v = pick(refs, can_mk)
            if v is None:
                return alias()
            out = [mkref(v)]
            if rng.random() < 0.4:  # as in tests/domains/region/*.cc: malloc succeeded
                out.append({"op": "rassume", "c": rc("gt", v)})
            if rng.random() < 0.6:
                out += store(v)
            return out
        if r < 0.63:
            v = pick(refs, writable)
            if v is None:
                return []
            set_ref(v, "null", None, None, [])
            return [{"op": "rnull", "x": v, "hv": 1}]
        if r < 0.68:
            if rng.random() < 0.65:
                c, v, res = nullc(True)
                G["nn"][v] = res
                return [{"op": "rassume", "c": c}]
            return [{"op": "rassume", "c": cmpc()}]
        if r < 0.73:
            out = [{"op": "bassign_ref", "x": rng.choice(BOOLS), "c": refcond()}]
            if rng.random() < 0.5:
                out += rselect()
            return out
        if r < 0.76:
            return rselect()
        if r < 0.79 and feats["free"]:
            return free()
        if r < 0.82 and A2:
            return copy_region()
        if r < 0.845 and UK:
            return cast_region()
        if r < 0.865:
            ctr["assert"] += 1
            c = refcond()
            if rng.random() < 0.7:  # an assertion that the static picture expects to hold (a failing assert ends the execution)
                v = pick(refs, lambda u: G["nn"][u] in ("nn", "null"))
                if v is not None:
                    c = rc("ne" if G["nn"][v] == "nn" else "eq", v)
            return [{"op": "rassert", "c": c, "id": ctr["assert"]}]
        if r < 0.91 and RR:
            mref = pick(cls_refs[3], ok_deref)
            if mref is None:
                return []
            out = []
            if rng.random() < 0.5 or RR not in G["wr"][mref]:
                return store(mref, RR)
            dst = pick(cls_refs[1], writable)
            if dst is None:
                return []
            guard(mref, out)
            set_ref(dst, "maybe", None, None, [], True)
            return out + [{"op": "rload", "x": dst, "ref": mref, "r": RR, "cls": 3}]
        if r < 0.935 and feats["tags"]:
            v = pick([P_, Q_, R_], lambda u: ok_deref(u) and G["wr"][u])
            if v is None:
                return store()
            out = []
            guard(v, out)
            c = ref_cls[v]
            return out + [{"op": "addtag", "r": rng.choice(sorted(G["wr"][v])), "ref": v, "cls": c, "tag": rng.choice([1, 2])}]
        # intrinsics with a result: the result variable is fresh (b3, written by this statement only) - domains that do
        # not understand an intrinsic, or cannot answer, leave its outputs untouched (crab convention)
        if r < 0.95 and feats["deref"] and not ctr["intr"]:
            ctr["intr"] = 1
            v = pick([P_, Q_, T_, R_], defined)
            c = ref_cls[v]
            return [{"op": "isderef", "x": B3, "r": main_rgn[c], "ref": v, "cls": c, "n": rng.choice([1, 1, 2])}]
        if r < 0.965 and feats["unfreed"] and not ctr["intr"]:
            ctr["intr"] = 1
            v = pick([P_, Q_, T_, R_], defined)
            c = ref_cls[v]
            return [{"op": "isunfreed", "x": B3, "r": main_rgn[c], "ref": v, "cls": c}]
        if r < 0.975 and feats["conv"]:
            v = pick(cls_refs[1], defined)
            i = rng.choice(INTS)
            out = [{"op": "r2i", "r": A, "ref": v, "x": i}]
            dst = pick(cls_refs[1], writable)
            if dst is not None and rng.random() < 0.6:
                out.append({"op": "i2r", "y": i, "r": A, "x": dst, "cls": 1})
                set_ref(dst, G["nn"][v], G["obj"][v], G["off"][v], G["wr"][v], G["mdead"][v])
            return out
        return [scalar()]

    def some(n):
        out = []
        for _ in range(n):
            out += one()
        return out

    def loads(n, avoid=()):
        """loads at the end of a block into distinct scalars"""
        out, used = [], set(avoid)
        for _ in range(n):
            s = load(avoid=used)
            if not s or s[-1]["x"] in used:
                continue
            used.add(s[-1]["x"])
            out += s
        return out

    shape_ = shape or rng.choice(["line", "diamond", "diamond", "loop", "loop", "alloc-loop"])
    if shape_ == "alloc-loop":
        ctr["budget"] = NADDR - 2 * len(layoutA)  # two iterations
    # ---- entry block: regions initialised, every reference assigned
    init = [{"op": "rinit", "r": v} for v in (A, Bv, RR) if v]
    if A2 and rng.random() < 0.6:
        init.append({"op": "rinit", "r": A2})
    if UK:
        init.append({"op": "rinit", "r": UK})
    for b in BOOLS:  # booleans get a value (their initial value is arbitrary)
        init.append({"op": "bassign_cst", "x": b, "c": hist.cst(rng, INTS)})
    first = True
    for v in refs:
        c = ref_cls[v]
        earlier = [u for u in cls_refs[c] if u < v and G["nn"][u] != "undef"]
        r = rng.random()
        base = pick(cls_refs[1], lambda u: G["nn"][u] == "nn" and G["off"][u] == 0)
        if c == 2 and shapeA == "struct" and r < 0.6 and base:
            set_ref(v, "nn", G["obj"][base], 1, [])
            init.append({"op": "gep", "x": v, "xr": Bv, "y": base, "yr": A, "off": le_const(1), "cls": 2, "ycls": 1})
        elif v in MK:
            if shape_ == "alloc-loop" and v == P_:
                pass  # allocated in the loop body only
            elif ctr["cells"] + (len(layoutA) if c == 1 else 1) <= ctr["budget"]:
                init.append(mkref(v))
                if rng.random() < 0.4:
                    init.append({"op": "rassume", "c": rc("gt", v)})
            else:
                MK.discard(v)
                set_ref(v, "null", None, None, [])
                init.append({"op": "rnull", "x": v, "hv": 0})
        elif ssa and not earlier:
            set_ref(v, "null", None, None, [])
            init.append({"op": "rnull", "x": v, "hv": 0})
        elif not ssa and (first or r < 0.5 or c == 3) and can_mk(v):
            init.append(mkref(v))
            if rng.random() < 0.4:
                init.append({"op": "rassume", "c": rc("gt", v)})
        elif r < 0.65:
            set_ref(v, "null", None, None, [])
            init.append({"op": "rnull", "x": v, "hv": rng.choice([0, 0, 1])})
        elif earlier:
            init += alias(dst=v, src=rng.choice(earlier))
        else:
            set_ref(v, "null", None, None, [])
            init.append({"op": "rnull", "x": v, "hv": 0})
        first = False
        if rng.random() < 0.6 and G["nn"][v] == "nn":
            init += store(v)
    if feats["tags"]:
        for _ in range(rng.randint(1, 2)):
            v = pick([P_, Q_, T_, R_], lambda u: G["nn"][u] == "nn" and G["wr"][u])
            if v is not None:
                init.append({"op": "addtag", "r": rng.choice(sorted(G["wr"][v])), "ref": v, "cls": ref_cls[v], "tag": rng.choice([1, 2])})
    pre = some(rng.randint(0, 2))
    if A2 and rng.random() < 0.6:
        pre += copy_region()
    if UK and rng.random() < 0.6:
        pre += cast_region()
    e = blk(init + pre)
    shape = shape_
    if shape == "line":
        m = blk(some(rng.randint(1, 4)) + loads(1))
        x = blk(some(rng.randint(0, 2)) + loads(2))
        edge(e, m)
        edge(m, x)
    elif shape == "diamond":
        r = rng.random()
        Gt = Gf = None
        if r < 0.4:
            g = hist.cst(rng, INTS, rels=("le", "le", "lt", "eq", "ne"))
            gt, gf = {"op": "assume", "c": g}, {"op": "assume", "c": negate(g)}
        elif r < 0.75:
            v = pick(refs, lambda u: G["nn"][u] == "maybe") or pick(refs, defined)
            if G["nn"][v] != "maybe" and ref_cls[v] != 3 and rng.random() < 0.7:
                rg = main_rgn[ref_cls[v]]
                blocks[e - 1]["stmts"].append({"op": "rselect", "x": v, "xr": rg, "c": rng.choice(BOOLS), "y": 0, "yr": 0, "z": v, "zr": rg,
                                               "cls": ref_cls[v]})
                G["nn"][v] = "maybe"
            gt, gf = {"op": "rassume", "c": rc("eq", v)}, {"op": "rassume", "c": rc(rng.choice(["ne", "gt"]), v)}
            Gt, Gf = copy.deepcopy(G), copy.deepcopy(G)
            Gt["nn"][v], Gf["nn"][v] = "null", "nn"
        else:
            b = rng.choice(BOOLS)
            blocks[e - 1]["stmts"].append({"op": "bassign_ref", "x": b, "c": refcond()})
            gt, gf = {"op": "bassume", "x": b, "neg": 0}, {"op": "bassume", "x": b, "neg": 1}
        G0 = copy.deepcopy(G)
        G = Gt or copy.deepcopy(G0)
        t = blk([gt] + some(rng.randint(1, 3)))
        Gt = G
        G = Gf or copy.deepcopy(G0)
        f = blk([gf] + some(rng.randint(1, 3)))
        G = join(Gt, G)
        x = blk(some(rng.randint(0, 2)) + loads(2))
        edge(e, t)
        edge(e, f)
        edge(t, x)
        edge(f, x)
    else:
        v = rng.choice(INTS)
        blocks[e - 1]["stmts"].append({"op": "assign", "x": v, "e": le_const(0)})
        # references that the body may reassign: nothing is known about them at the loop head
        W = set(rng.sample(refs, rng.randint(1, 2)))
        if shape == "alloc-loop":
            u = P_ if ssa else rng.choice(cls_refs[1])
            W.add(u)
        W -= (MK - ({P_} if shape == "alloc-loop" else set()))
        for w in W:
            set_ref(w, "maybe", None, None, [], True)
        for w in refs:
            G["wr"][w] -= {A2, A3}
        G["copied"] = G["cast"] = False
        G["frozen"] = W
        Gh = copy.deepcopy(G)
        h = blk([])
        g = {"e": le_var(v, -(1 if shape == "alloc-loop" else rng.randint(1, 2))), "r": "le"}
        body_st = [{"op": "assume", "c": g}]
        ctr["inloop"] = True
        if shape == "alloc-loop":
            body_st.append(mkref(u))
            body_st += store(u)
            if RR and rng.random() < 0.6 and ok_deref(M_):
                body_st += store(M_, RR)
        body_st += [s for s in some(rng.randint(1, 3)) if not (s["op"] in ("assign", "arith", "havoc", "select", "r2i") and s["x"] == v)]
        body_st += loads(1, avoid=(v,))
        body_st.append({"op": "arith", "f": "add", "x": v, "y": v, "zk": 1, "z": 1})
        body = blk(body_st)
        dead = G["dead"]
        G = Gh
        G["dead"] = dead
        G["frozen"] = None
        ctr["inloop"] = False
        x = blk([{"op": "assume", "c": negate(g)}] + some(rng.randint(0, 2)) + loads(2))
        edge(e, h)
        edge(h, body)
        edge(h, x)
        edge(body, h)
    return {"id": pid, "shape": "region-" + shape, "ssa": 1 if ssa else 0, "layoutA": shapeA, "btype": btype, "vars": vars_, "kinds": kinds,
            "nv": len(vars_), "refs": refs, "rgns": rgns, "entry": 1, "exit": len(blocks), "blocks": blocks, "init": []}


def count_ops(p):
    c = {}
    for b in p["blocks"]:
        for s in b["stmts"]:
            c[s["op"]] = c.get(s["op"], 0) + 1
    return c
