"""C19 Environment maps and sets behave as their mathematical counterparts.

Oracle: the TLA+ state machine spec/EnvMap.tla (total maps Key -> Value with default top / bottom marker,
finite sets, sets-or-top), evaluated by TLC in both directions:
  B  spec/EnvMapGen.tla generates the operation histories: BFS over all transitions reachable within <= 3 steps
     with 4 keys (one history per transition, VIEW without history), BFS of one step from populated start states
     (every pair of non-empty key sets in two registers, optional shared copy), and -simulate behaviours of 12/24
     steps with 10 keys (weighted kinds);
  A  harness/map_runner.cpp replays every history on the real ikos::separate_domain / patricia_tree_set /
     discrete_domain with keys whose indices are chosen here (bit patterns), logs the full projection after each
     step, and spec/EnvMapTrace.tla validates every step: IsEvent /\\ spec action /\\ projection EQUALS next state.
Python only moves files, picks key universes / seeds, parses TLC output and writes evidence."""
import collections, json, os, re, threading
from concurrent.futures import ThreadPoolExecutor
import vlib
from vlib import Check, build, tlc, workdir

PID = "C19"
B63, B64 = 1 << 63, 1 << 64
# key universes: position j of the specification's key set is the crab variable with index U[j-1]
U4 = [[0, 1, 2, 3], [4, 5, 7, 8], [15, 16, 255, 256], [0, 1 << 20, (1 << 31) - 1, 1 << 31], [256, 255, 1, 0],
      [1, B63, B64 - 2, 3], [6, 2, 10, 14], [1023, 1024, 1025, 0]]
U10 = [[0, 1, 2, 3, 4, 5, 7, 8, 15, 16], [16, 15, 8, 7, 5, 4, 3, 2, 1, 0],
       [255, 256, 257, 511, 512, 0, 1, 65535, 65536, 1 << 20],
       [(1 << 31) - 1, 1 << 31, 1 << 32, B63, B64 - 2, 0, 1, 2, 3, 1 << 62],
       [5, 7, 8, 15, 16, 255, 256, 1 << 20, (1 << 31) - 1, B63 + 1]]
FAMS = [("map", "itv"), ("map", "bool"), ("pset", "itv"), ("dset", "itv")]   # sets ignore the lattice
H_RE = re.compile(r'^<<"H", (".*")>>$', re.M)


def tagged(r, tag):
    """PrintT(<<tag, ToJson(tuple)>>) lines (each record is one line whatever its length), duplicates removed"""
    seen, res = set(), []
    for m in re.findall(r'^<<"%s", (".*")>>$' % tag, r.out, re.M):
        if m not in seen:
            seen.add(m)
            res.append(json.loads(json.loads(m)))
    return res

LOCK = threading.Lock()


def base_env(nk, lat):
    return {"C19_NKEYS": nk, "C19_LAT": lat, "C19_GENVALS": "small", "C19_MAXREN": 1, "C19_MAXLEN": 3, "C19_FAM": "map",
            "C19_PROFILE": "mixed", "C19_SELMOD": 1, "C19_SEED": 1}


def histories_of(r):
    return [json.loads(json.loads(m)) for m in H_RE.findall(r.out)]


def gen_bfs(ck, cfg, fam, lat, maxlen, selmod, seed):
    """cfg: 'Bfs' (all transitions within maxlen steps from Init) or 'Rich' (one step from populated start states)"""
    env = base_env(4, lat)
    env.update({"C19_FAM": fam, "C19_MAXLEN": maxlen, "C19_SELMOD": selmod, "C19_SEED": seed})
    label = "gen-%s-%s-%s" % (cfg.lower(), fam, lat)
    # one worker: strict breadth-first order, so the history printed for a state is a shortest one and the run is reproducible
    r = tlc("EnvMapGen", "EnvMapGen" + cfg, "c19-" + label, env=env, workers=1, timeout=1500, heap="4g", extra=["-noGenerateSpecTE"])
    if r.is_violation or not r.ok:
        raise vlib.Broken("the EnvMap machine violates its own invariants (TypeOK / LatticeLaws):\n" + r.out[-3000:])
    hs = histories_of(r)
    with LOCK:
        ck.add_tlc(r, label)
        ck.cov["generation"][label] = {"histories": len(hs), "distinct_states": r.distinct, "transitions": r.generated,
                                       "keys": 4, "expanded_1_in": selmod}
    return hs


def gen_sim(ck, fam, lat, profile, n, seed, maxlen=12, nk=10):
    env = base_env(nk, lat)
    env.update({"C19_FAM": fam, "C19_MAXLEN": maxlen, "C19_PROFILE": profile, "C19_GENVALS": "full", "C19_MAXREN": 2})
    label = "gen-sim-%s-%s-%s" % (fam, lat, profile)
    r = tlc("EnvMapGen", "EnvMapGenSim", "c19-" + label, env=env, workers=1, timeout=1200, heap="4g",
            simulate="num=%d" % n, extra=["-noGenerateSpecTE", "-seed", str(seed), "-depth", str(maxlen + 1)])
    if r.is_violation:
        raise vlib.Broken("EnvMap TypeOK violated in simulation:\n" + r.out[-3000:])
    hs = histories_of(r)
    m = re.search(r"The number of states generated: (\d+)", r.out)
    gen = int(m.group(1)) if m else 0
    with LOCK:
        ck.cov["transitions"] += gen
        ck.cov["tlc_runs"].append({"run": label, "mode": "simulate", "states_generated": gen, "traces": len(hs), "seed": seed,
                                   "wall_s": round(r.wall, 1)})
        ck.cov["generation"][label] = {"histories": len(hs), "states_generated": gen, "max_len": maxlen, "keys": nk}
    return hs


class Ids:
    n = 0

    @classmethod
    def next(cls):
        cls.n += 1
        return cls.n


def record(h, fam, lat, uni, lf, alts=None):
    r = {"id": Ids.next(), "fam": fam, "lat": lat, "nk": len(uni), "uni": [str(x) for x in uni], "lf": lf, "steps": h,
         "alts": alts or []}
    return r


def tree_records(hists, fam, lat, unis_for):
    """histories that differ only in their last event become ONE record: common prefix + alternative last events"""
    groups = collections.OrderedDict()
    for h in hists:
        alts = groups.setdefault(json.dumps(h[:-1]), [])
        if h[-1] not in alts:
            alts.append(h[-1])
    recs = []
    for i, (pk, alts) in enumerate(groups.items()):
        prefix = json.loads(pk)
        for u in unis_for(i, prefix):
            recs.append(record(prefix, fam, lat, u, len(prefix) + 1, alts))
    return recs


def history_of(o, step, alt):
    return o["steps"] + [o["alts"][alt - 1]] if alt else o["steps"][:step]


def run_harness(wd, label, recs):
    hp, op = os.path.join(wd, label + ".h.ndjson"), os.path.join(wd, label + ".o.ndjson")
    vlib.write_ndjson(hp, recs)
    rc, out = vlib.sh([os.path.join(vlib.BUILD, "bin", "map_runner"), hp, op], timeout=1800)
    if rc != 0:
        raise vlib.Broken("map_runner failed (%d): %s" % (rc, out[-2000:]))
    return vlib.read_ndjson(op)


def validate_chunk(ck, wd, label, nk, lat, outs, kp, workers=3):
    tp = os.path.join(wd, label + ".traces.ndjson")
    vlib.write_ndjson(tp, outs)
    env = base_env(nk, lat)
    env.update({"C19_TRACES": tp, "KNOWN_FINDINGS": kp})
    r = tlc("EnvMapTrace", "EnvMapTrace", "c19-" + label, env=env, workers=workers, cont=True, timeout=2400, heap="5g",
            extra=["-noGenerateSpecTE"])
    fails = [dict(id=f[0], step=f[1], alt=f[2], op=f[3], code=f[4]) for f in tagged(r, "FAIL")]
    knowns = [dict(kid=f[0], id=f[1], step=f[2], alt=f[3], op=f[4], code=f[5]) for f in tagged(r, "KNOWN")]
    stuck = tagged(r, "STUCK")
    expect = {(f[0], f[1], f[2]): json.loads(f[3]) for f in tagged(r, "EXPECT")}
    if stuck:
        raise vlib.Broken("a generated history is not a behaviour of EnvMap (generator and validator disagree): %s" % stuck[:3])
    if r.is_violation and not fails:
        raise vlib.Broken("TLC reported a violation but printed no FAIL record:\n" + r.out[-3000:])
    if fails and not r.is_violation:
        raise vlib.Broken("FAIL records without an invariant violation:\n" + r.out[-3000:])
    with LOCK:
        ck.add_tlc(r, label)
    return fails, knowns, expect


def validate(ck, wd, label, outs, kp, pool, chunk_states=60000):
    """outs: harness records (any mix of families); grouped by (nk, lat) and cut into chunks validated in parallel"""
    groups = collections.OrderedDict()
    errs = [o for o in outs if "err" in o]
    for o in outs:
        if "err" not in o:
            groups.setdefault((o["nk"], o["lat"]), []).append(o)
    jobs = []
    for (nk, lat), lst in groups.items():
        cur, size, k = [], 0, 0
        for o in lst:
            cur.append(o)
            size += len(o["steps"]) + 1 + len(o["alts"])
            if size >= chunk_states:
                jobs.append((nk, lat, cur, "%s-%d-%s-%d" % (label, nk, lat, k)))
                cur, size, k = [], 0, k + 1
        if cur:
            jobs.append((nk, lat, cur, "%s-%d-%s-%d" % (label, nk, lat, k)))
    futs = [pool.submit(validate_chunk, ck, wd, "val-" + lab, nk, lat, lst, kp) for nk, lat, lst, lab in jobs]
    fails, knowns, expect = [], [], {}
    for f in futs:
        a, b, c = f.result()
        fails += a
        knowns += b
        expect.update(c)
    return fails, knowns, expect, errs


def big(ob):
    return any(len(reg.get("it", reg.get("el", []))) >= 2 for reg in ob["R"])


def nontrivial_cases(o):
    """measured on the implementation's own projection: the judged behaviours (history, or prefix + alternative) after
    which some register of the REAL container holds >= 2 bindings / elements"""
    res = []
    head = [o["fam"], o["lat"], o["uni"]]
    if any(big(ob) for ob in o.get("obs", [])):
        res.append(json.dumps(head + [o["steps"]]))
    for a, ob in zip(o["alts"], o.get("aobs", [])):
        if big(ob):
            res.append(json.dumps(head + [o["steps"], a]))
    return res


def account(ck, outs):
    ops = ck.cov["validated_steps_per_operation"]
    for o in outs:
        if "err" in o:
            continue
        fam = o["fam"] if o["fam"] != "map" else "map/" + o["lat"]
        if o["fam"] == "map" and o["lf"] == 1 and o["obs"]:
            # measured from the REAL container's projections: project() on an environment with > 5 bindings and a key list of
            # >= 60% of that size takes the remove-instead-of-copy path of separate_domain::project
            for i, st in enumerate(o["steps"]):
                if st[0] == "project" and i > 0:
                    nb = len(o["obs"][i - 1]["R"][st[1] - 1]["it"])
                    if nb > 5 and len(st[6]) >= nb * 60 // 100:
                        ck.cov["project_remove_path_steps"] = ck.cov.get("project_remove_path_steps", 0) + 1
            mx = max(len(r["it"]) for ob in o["obs"] for r in ob["R"])
            ck.cov["max_bindings_in_a_register"] = max(ck.cov.get("max_bindings_in_a_register", 0), mx)
        judged = o["steps"][o["lf"] - 1:] + o["alts"]
        for st in judged:
            key = "%s:%s" % (fam, st[0])
            ops[key] = ops.get(key, 0) + 1
        u = ",".join(o["uni"])
        ck.cov["behaviours_per_universe"][u] = ck.cov["behaviours_per_universe"].get(u, 0) + max(1, len(o["alts"]))
        ck.cov["traces_validated_against_impl"] += max(1, len(o["alts"]))
        ck.cov["validated_steps"] += len(judged)
    ck.cov["evaluations"] += sum(max(1, len(o.get("alts", []))) for o in outs)


REL = {"leq", "geq", "equal"}


def confirm_and_report(ck, wd, fails, byid, kp, max_reports=8):
    """One report per (family, lattice, operation) for mismatches in the STATE of a container, and one per mismatching
    ANSWER kind (<=, >=, == between registers) whatever the last operation was: the shortest failing history of the
    group is re-run alone first."""
    per = collections.OrderedDict()
    for f in fails:
        per.setdefault((f["id"], f["step"], f["alt"]), {"op": f["op"], "codes": set()})["codes"].add(f["code"])
    groups = collections.OrderedDict()
    for (tid, step, alt), d in sorted(per.items(), key=lambda kv: (kv[0][1], kv[0][0], kv[0][2])):
        o = byid[tid]
        lat = o["lat"] if o["fam"] == "map" else "-"
        if d["codes"] - REL:
            key = (o["fam"], lat, d["op"], "state")
        else:
            key = (o["fam"], lat, "any", "answer " + ",".join(sorted(d["codes"])))
        groups.setdefault(key, []).append((tid, step, alt, d))
    ck.cov["failure_groups"] = {"%s/%s %s: %s" % k: len(v) for k, v in groups.items()}
    n = 0
    for key, fs in groups.items():
        if n >= max_reports:
            break
        tid, step, alt, d = fs[0]
        o = byid[tid]
        one = record(history_of(o, step, alt), o["fam"], o["lat"], [int(x) for x in o["uni"]], 1)
        out1 = run_harness(wd, "confirm", [one])
        f1, _, e1 = validate_chunk(ck, wd, "val-confirm", one["nk"], one["lat"], out1, kp, workers=1)
        again = sorted({x["code"] for x in f1 if x["step"] == step} & d["codes"])
        if not again:
            vlib.log("NOTE: failure %s did not repeat in isolation; not reported" % (key,))
            continue
        observed = out1[0]["obs"][step - 1]
        exp = e1.get((one["id"], step, 0))
        ck.violation("%s (lattice %s): after operation '%s' the real container differs from the EnvMap machine in: %s; "
                     "history (key positions -> indices %s): %s; expected next state %s; observed projection %s; %d case(s) of this kind"
                     % (key[0], key[1], d["op"], ", ".join(again), one["uni"], json.dumps(one["steps"]),
                        json.dumps(exp), json.dumps(observed), len(fs)),
                     {"history": one, "step": step, "mismatch": again, "expected_state": exp, "observed": observed})
        n += 1


def new_check(tier, seed):
    ck = Check(PID, tier, seed)
    ck.cov.update({"generation": {}, "validated_steps_per_operation": {}, "behaviours_per_universe": {}, "validated_steps": 0})
    return ck


def run(tier, seed):
    ck = new_check(tier, seed)
    build("map_runner")
    wd = workdir("c19")
    kp = os.path.join(wd, "known.json")
    vlib.write_known_for_spec(kp)
    quick = tier == "quick"
    sel_bfs = {("map", "itv"): 16, ("map", "bool"): 10, ("pset", "itv"): 4, ("dset", "itv"): 3} if quick else {}
    sel_rich = {("map", "itv"): 12, ("map", "bool"): 10, ("pset", "itv"): 8, ("dset", "itv"): 6} if quick else {}
    nsim = 350 if quick else 3000
    with ThreadPoolExecutor(max_workers=6) as pool:
        # ---- direction B: TLC generates (in parallel, one worker each)
        gb = {fl: pool.submit(gen_bfs, ck, "Bfs", fl[0], fl[1], 3, sel_bfs.get(fl, 1), seed) for fl in FAMS}
        gr = {fl: pool.submit(gen_bfs, ck, "Rich", fl[0], fl[1], 3, sel_rich.get(fl, 1), seed) for fl in FAMS}
        gs = {}
        for k, (fam, lat) in enumerate(FAMS):
            for j, prof in enumerate(["mixed", "dense"] if fam == "map" else ["mixed"]):
                gs[(fam, lat, prof)] = pool.submit(gen_sim, ck, fam, lat, prof, nsim if prof == "mixed" else nsim // 2,
                                                   seed * 1000 + 10 * k + j, 12 if prof == "mixed" else 24)

        def uni_bfs(i, prefix):   # histories of <= 2 steps under several universes, the rest under one (rotating)
            if len(prefix) <= 1:
                return U4 if not quick else [U4[(i + seed) % len(U4)], U4[(i + seed + 3) % len(U4)]]
            return [U4[(i + seed) % len(U4)]]

        def uni_rich(i, prefix):
            return [U4[(i + seed) % len(U4)]]

        recs = []
        for (fam, lat), fut in gb.items():
            recs += tree_records(fut.result(), fam, lat, uni_bfs)
        for (fam, lat), fut in gr.items():
            recs += tree_records(fut.result(), fam, lat, uni_rich)
        for (fam, lat, prof), fut in gs.items():
            for i, h in enumerate(fut.result()):
                recs.append(record(h, fam, lat, U10[(i + seed) % len(U10)], 1))
        # ---- replay on the real containers
        outs_all = run_harness(wd, "all", recs)
        byid = {o["id"]: o for o in outs_all}
        # ---- direction A: TLC validates every recorded step
        fails, knowns, expect, errs = validate(ck, wd, "t", outs_all, kp, pool)
    account(ck, outs_all)
    if errs:
        ck.cov["harness_no_claim"] = len(errs)
        raise vlib.Broken("%d histories crashed the containers or hit CRAB_ERROR inside the adaptor, e.g. %s" % (len(errs), errs[0]))
    nt = set()
    for o in outs_all:
        nt.update(nontrivial_cases(o))
    ck.cov["distinct_nontrivial"] = len(nt)
    sims = [o for o in outs_all if o["lf"] == 1]
    trees = [o for o in outs_all if o["lf"] != 1]
    for o in sims[:1] + sims[-1:]:
        ck.sample(o)
    for o in trees[len(trees) // 2: len(trees) // 2 + 1]:
        ck.sample({k: (v if k not in ("alts", "aobs") else v[:2]) for k, v in o.items()})
    for k in knowns:
        o = byid[k["id"]]
        ck.known(k["kid"], {"operation": k["op"], "mismatch": k["code"], "history": history_of(o, k["step"], k["alt"])})
    ck.cov["rule"] = ("histories are generated by TLC from spec/EnvMap.tla (3 registers per family; families: environments over "
                      "interval<z_number> with bounds -1..1,+-oo, environments over boolean_value, patricia_tree_set, "
                      "discrete_domain): (a) BFS with 4 keys, one history per transition of the graph reachable within 3 steps "
                      "(all transitions up to 2 steps; third steps from %s of the 2-step states, chosen by a seeded hash); (b) BFS of "
                      "one step from populated start states: every pair of non-empty key sets in registers 1 and 2, two value "
                      "patterns, register 3 top or a shared copy (binary operations and copy from every start state, the other "
                      "operations from %s of the start states); (a),(b) are judged at the last step; "
                      "(c) -simulate behaviours with 10 keys, 12 steps (mixed) and 24 steps (dense: register 1 written most often, "
                      "only proper values set), judged after every step. Each history is replayed with key indices from the "
                      "listed universes. A judged behaviour = a simulated history, or a prefix plus one alternative last event. "
                      "non-trivial = distinct (family, lattice, universe, judged behaviour) after which the REAL container's logged "
                      "projection has a register with >= 2 bindings/elements (a tree with an internal node)"
                      % (("every one", "all") if not quick else ("1 in 16/10/4/3 (itv/bool/pset/dset)", "1 in 12/10/8/6")))
    ck.cov["exhaustive"] = False
    ck.assumptions += ["3 registers, 4 keys (BFS) / 10 keys (simulation), interval bounds within -1..1 and +-oo; the machine is checked "
                       "for these constants only",
                       "contract preconditions (Pre in EnvMap.tla): rename targets are unconstrained and disjoint from the sources; "
                       "join(k, v) (weak update) is never given bottom; discrete_domain difference / remove are not applied to top",
                       "patricia_tree_set::operator+(e)/operator-(e) do not compile when instantiated; the adaptor uses copy and +=/-=",
                       "begin()/end() of a bottom environment and size()/begin() of a top discrete_domain are CRAB_ERRORs by contract and "
                       "are not called",
                       "the projection is exported by harness/map_runner.cpp through the public API only"]
    confirm_and_report(ck, wd, fails, byid, kp)
    return ck.finish()


def replay(path):
    case = json.load(open(path))["case"]
    ck = new_check("quick", 0)
    build("map_runner")
    wd = workdir("c19-replay")
    kp = os.path.join(wd, "known.json")
    vlib.write_known_for_spec(kp)
    h = case["history"]
    one = record(h["steps"], h["fam"], h["lat"], [int(x) for x in h["uni"]], 1)
    outs = run_harness(wd, "replay", [one])
    fails, knowns, expect = validate_chunk(ck, wd, "val-replay", one["nk"], one["lat"], outs, kp, workers=1)
    account(ck, outs)
    ck.cov["rule"] = "replay of one recorded history"
    ck.sample(outs[0])
    per = collections.OrderedDict()
    for f in fails:
        per.setdefault((f["step"], f["op"]), []).append(f["code"])
    for (step, op), codes in per.items():
        ck.violation("replayed: after step %d ('%s') the real container differs from the EnvMap machine in: %s; expected %s" %
                     (step, op, ", ".join(sorted(codes)), json.dumps(expect.get((one["id"], step, 0)))), case)
    return ck.finish()
