#include "domreg.hpp"
#include <crab/domains/wrapped_interval_domain.hpp>
using namespace crab::domains;
using namespace vh;
typedef wrapped_interval_domain<z_number, varname_t> wrapped_int_t;
VH_DOMREG(wrapped_int, wrapped_int_t)
