--------------------------- MODULE WidenChain ---------------------------
(* C05 (chains): a chain  acc_0, acc_{i+1} = acc_i WIDEN (acc_i JOIN x_{i+1})  built on a real domain
   from arbitrary values x_i becomes stationary w.r.t. the domain's own inclusion test.
   The histories (tools/hist.py chain_history) are validated for soundness by DomainOps; here
   the recorded answers of the "chain" inclusion tests  acc_{i+1} <= acc_i  are judged:
     - the number of STRICT increases (answer no) is at most Cap, a bound that depends only on the
       number of variables and thresholds (every unary / difference / octagonal constraint over the
       variables of the chain is relaxed at most once per threshold and dropped at most once), not on how
       far the values x_i grow.  Chains judged for stabilisation are LONGER than their cap, so a chain that
       keeps growing exceeds it.  (A stationary tail is not demanded: a slowly growing chain may
       legitimately cross a threshold at a late step.)
   One TLC state per (history, domain). *)
EXTENDS Integers, Sequences, FiniteSets, TLC, Json, IOUtils

Traces == ndJsonDeserialize(IOEnv.DOM_TRACES)
EnvCap == atoi(IOEnv.CHAIN_CAP)
TailLen == atoi(IOEnv.CHAIN_TAIL)

VARIABLES t, d
Init == t \in DOMAIN Traces /\ d \in DOMAIN Traces[t].obs
Next == UNCHANGED <<t, d>>
Spec == Init /\ [][Next]_<<t, d>>

Tr == Traces[t]
\* the bound on strict increases: per chain (number of constraints over its variables x (1 + thresholds)), at most EnvCap
Cap == IF "cap" \in DOMAIN Tr /\ Tr.cap < EnvCap THEN Tr.cap ELSE EnvCap
ChainSteps == {k \in DOMAIN Tr.steps : Tr.steps[k].op = "leq" /\ "chain" \in DOMAIN Tr.steps[k]}
Ans(k) == Tr.obs[d].steps[k].ans
Increases == {k \in ChainSteps : Ans(k) = 0}
LastK == {k \in ChainSteps : Cardinality({j \in ChainSteps : j > k}) < TailLen}

Stabilises ==
  Tr.obs[d].err = 0 =>
     \/ Cardinality(Increases) <= Cap
     \/ ~PrintT(<<"CHAIN", Tr.id, Tr.obs[d].dom, Cardinality(Increases), Cardinality(ChainSteps), Cap>>)

Longest == TRUE \/ PrintT(<<"LEN", Tr.id, Tr.obs[d].dom, Cardinality(Increases)>>)
=========================================================================
