#include "domreg.hpp"
#include "domtypes.hpp"
#include <crab/domains/intervals.hpp>
#include <crab/domains/dis_intervals.hpp>
#include <crab/domains/split_dbm.hpp>
#include <crab/domains/term_equiv.hpp>
#include <crab/domains/combined_domains.hpp>
#include <crab/domains/fixed_tvpi_domain.hpp>
using namespace crab::domains;
using namespace vh;
typedef dis_interval_domain<z_number, varname_t> dis_intervals_t;
typedef split_dbm_domain<z_number, varname_t, VH_DBM_GRAPH> split_dbm_t;
typedef term_domain<term::TDomInfo<z_number, varname_t, dis_intervals_t>> term_dis_int_t;
typedef reduced_numerical_domain_product2<term_dis_int_t, split_dbm_t> num_t;
typedef fixed_tvpi_domain<split_dbm_t> fixed_tvpi_t;
VH_DOMREG(num_product, num_t)
VH_DOMREG(fixed_tvpi, fixed_tvpi_t)
