// C13 adaptor: drives the real crab::wrapint and crab::domains::wrapped_interval
// and writes what they computed as ndjson records. No oracle here: the modular
// arithmetic and the gamma of wrapped intervals live in spec/Wrapint.tla and
// spec/WrappedInterval.tla and are evaluated by TLC.
//
// usage: wrap_runner <jobs.json> <out.ndjson>
// jobs.json = [job,...]; values are decimal strings of uint64 numbers.
//   {"gen":"wi_all","w":W}                          all pairs a,b in 0..2^W-1 (shift amount b mod W)
//   {"k":"wi","w":W,"a":A,"b":B,"sh":K}             one wrapint operand pair
//   {"k":"wx","w":W,"a":A,"es":[..],"ts":[..]}      sext/zext by e bits, keep_lower(t), bignum conversions
//   {"k":"wc","w":W,"src":"z"|"s"|"u","n":"dec"}    constructors from z_number / string / uint64
//   {"k":"wk","w":W}                                constants
//   {"gen":"ib_all","w":W,"from":F,"count":C}       all pairs of intervals (incl. top() and bottom()), full gamma
//   {"gen":"iu_all","w":W,"es":[..],"ts":[..]}      all intervals, unary operations
//   {"k":"ib","w":W,"a":IV,"b":IV,"xs":[..],"ys":[..]}   IV = {"s":S,"e":E} | {"top":true} | {"bot":true}
//   {"k":"iu","w":W,"a":IV,"xs":[..],"es":[..],"ts":[..]}   (+ "full":true: at() for all 2^W values instead of xs)
// Raw value in a record = bytes of get_uint64_t(), least significant first, trailing zero bytes dropped.
// CRAB_ERROR exits the process: the jobs run in a forked child that publishes (job, operation) in shared
// memory before each call; if the child dies the operation is recorded in "nc" (no claim) and skipped.
#include "vjson.hpp"
#include <crab/domains/wrapped_interval.hpp>
#include <crab/fixpoint/thresholds.hpp>
#include <crab/numbers/wrapint.hpp>

#include <cstdio>
#include <cstring>
#include <set>
#include <sys/mman.h>
#include <sys/wait.h>
#include <unistd.h>

typedef crab::wrapint W;
typedef crab::domains::wrapped_interval<ikos::z_number> I;
typedef uint64_t u64;

struct Shared {
  long job;
  char op[64];
};
static Shared *g_sh = nullptr;
static std::set<std::string> g_skip; // operations to skip for the first job of this child
static long g_skip_job = -1;
static long g_cur_job = -1;

// returns true if the operation may be executed (and publishes it)
static bool go(const std::string &op, std::vector<std::string> &nc) {
  if (g_cur_job == g_skip_job && g_skip.count(op)) {
    nc.push_back(op);
    return false;
  }
  std::strncpy(g_sh->op, op.c_str(), sizeof(g_sh->op) - 1);
  g_sh->op[sizeof(g_sh->op) - 1] = 0;
  return true;
}

static std::string raw(u64 v) {
  std::string s = "[";
  bool first = true;
  while (v) {
    s += (first ? "" : ",") + std::to_string((unsigned)(v & 0xff));
    v >>= 8;
    first = false;
  }
  return s + "]";
}
static std::string raw(const W &x) { return raw(x.get_uint64_t()); }

// decimal string -> {"neg":..,"c":[base-1000 digits, least significant first]} by slicing
static std::string big(const std::string &dec) {
  bool neg = !dec.empty() && dec[0] == '-';
  std::string d = neg ? dec.substr(1) : dec;
  std::string s = std::string("{\"neg\":") + (neg ? "true" : "false") + ",\"c\":[";
  bool first = true;
  for (long end = (long)d.size(); end > 0; end -= 3) {
    long beg = end >= 3 ? end - 3 : 0;
    std::string ch = d.substr(beg, end - beg);
    size_t nz = ch.find_first_not_of('0');
    ch = nz == std::string::npos ? "0" : ch.substr(nz);
    s += (first ? "" : ",") + ch;
    first = false;
  }
  return s + "]}";
}
static std::string big(const ikos::z_number &z) { return big(z.get_str()); }

static std::string strs(const std::vector<std::string> &v) {
  std::string s = "[";
  for (size_t i = 0; i < v.size(); ++i) s += (i ? "," : "") + vj::q(v[i]);
  return s + "]";
}
static const char *B(bool b) { return b ? "true" : "false"; }

struct Iv {
  int kind; // 0 = (s,e), 1 = top(), 2 = bottom()
  u64 s, e;
};
struct Job {
  std::string k;
  int w = 0;
  u64 a = 0, b = 0, sh = 0;
  Iv ia, ib;
  bool full = false;
  std::vector<u64> xs, ys;
  std::vector<int> es, ts;
  std::string src, n;
};

static I mk(const Iv &v, int w) {
  if (v.kind == 1) return I::top();
  if (v.kind == 2) return I::bottom();
  return I(W(v.s, (u64)w), W(v.e, (u64)w));
}
static std::string ivjson(const I &x) {
  if (x.is_bottom()) return "{\"b\":true,\"t\":false,\"s\":[],\"e\":[],\"w\":0}";
  if (x.is_top()) return "{\"b\":false,\"t\":true,\"s\":[],\"e\":[],\"w\":0}";
  return "{\"b\":false,\"t\":false,\"s\":" + raw(x.start()) + ",\"e\":" + raw(x.end()) +
         ",\"w\":" + std::to_string((unsigned)x.start().get_bitwidth()) + "}";
}
// an operand: the flags are those of the implementation, (s,e) as constructed
static std::string ivin(const Iv &v, const I &x) {
  return std::string("{\"b\":") + B(x.is_bottom()) + ",\"t\":" + B(x.is_top()) + ",\"s\":" +
         (v.kind == 0 ? raw(v.s) : "[]") + ",\"e\":" + (v.kind == 0 ? raw(v.e) : "[]") + ",\"c\":" + std::to_string(v.kind) + "}";
}

struct Obj { // JSON object under construction
  std::string s;
  void add(const std::string &k, const std::string &v) { s += (s.empty() ? "" : ",") + vj::q(k) + ":" + v; }
  std::string str() const { return "{" + s + "}"; }
};

// ------------------------------------------------------------------ wrapint
static std::string run_wi(long id, const Job &j) {
  u64 w = j.w;
  std::vector<std::string> nc;
  Obj v, p;
  W a(j.a, w), b(j.b, w), k(j.sh, w);
#define V(name, expr) if (go(name, nc)) { W r_ = (expr); v.add(name, raw(r_)); }
#define P(name, expr) if (go(name, nc)) { bool r_ = (expr); p.add(name, B(r_)); }
  V("add", a + b)
  V("sub", a - b)
  V("mul", a * b)
  V("neg", -a)
  V("and", a & b)
  V("or", a | b)
  V("xor", a ^ b)
  V("shl", a << k)
  V("lshr", a.lshr(k))
  V("ashr", a.ashr(k))
  if (!b.is_zero()) { // documented precondition (CRAB_ERROR "division by zero")
    V("udiv", a.udiv(b))
    V("urem", a.urem(b))
    V("sdiv", a.sdiv(b))
    V("srem", a.srem(b))
  }
  if (go("addeq", nc)) { W t(a); t += b; v.add("addeq", raw(t)); }
  if (go("subeq", nc)) { W t(a); t -= b; v.add("subeq", raw(t)); }
  if (go("muleq", nc)) { W t(a); t *= b; v.add("muleq", raw(t)); }
  if (go("preinc", nc)) { W t(a); W r = ++t; v.add("preinc", raw(r)); }
  if (go("predec", nc)) { W t(a); W r = --t; v.add("predec", raw(r)); }
  if (go("postinc_ret", nc)) { W t(a); W r = t++; v.add("postinc_ret", raw(r)); v.add("postinc_new", raw(t)); } else nc.push_back("postinc_new");
  if (go("postdec_ret", nc)) { W t(a); W r = t--; v.add("postdec_ret", raw(r)); v.add("postdec_new", raw(t)); } else nc.push_back("postdec_new");
  P("ult", a < b)
  P("ule", a <= b)
  P("ugt", a > b)
  P("uge", a >= b)
  P("eq", a == b)
  P("ne", a != b)
  P("msb", a.msb())
  P("zero", a.is_zero())
  P("slt", a.get_signed_bignum() < b.get_signed_bignum())
#undef V
#undef P
  Obj o;
  o.add("id", std::to_string(id));
  o.add("k", "\"wi\"");
  o.add("w", std::to_string(j.w));
  o.add("a", raw(a));
  o.add("b", raw(b));
  o.add("sh", std::to_string(j.sh));
  o.add("v", v.str());
  o.add("p", p.str());
  o.add("nc", strs(nc));
  return o.str();
}

static std::string run_wx(long id, const Job &j) {
  u64 w = j.w;
  std::vector<std::string> nc;
  W a(j.a, w);
  std::string ext = "[", tr = "[";
  for (size_t q = 0; q < j.es.size(); ++q) {
    int e = j.es[q];
    Obj x;
    x.add("e", std::to_string(e));
    if (go("sext:" + std::to_string(e), nc)) { W r = a.sext(e); x.add("s", raw(r)); x.add("sw", std::to_string((unsigned)r.get_bitwidth())); }
    if (go("zext:" + std::to_string(e), nc)) { W r = a.zext(e); x.add("z", raw(r)); x.add("zw", std::to_string((unsigned)r.get_bitwidth())); }
    ext += (q ? "," : "") + x.str();
  }
  for (size_t q = 0; q < j.ts.size(); ++q) {
    int t = j.ts[q];
    Obj x;
    x.add("t", std::to_string(t));
    if (go("trunc:" + std::to_string(t), nc)) { W r = a.keep_lower(t); x.add("r", raw(r)); x.add("rw", std::to_string((unsigned)r.get_bitwidth())); }
    tr += (q ? "," : "") + x.str();
  }
  Obj o;
  o.add("id", std::to_string(id));
  o.add("k", "\"wx\"");
  o.add("w", std::to_string(j.w));
  o.add("a", raw(a));
  o.add("ext", ext + "]");
  o.add("tr", tr + "]");
  if (go("ub", nc)) o.add("ub", big(a.get_unsigned_bignum()));
  if (go("sb", nc)) o.add("sb", big(a.get_signed_bignum()));
  if (go("us", nc)) o.add("us", big(a.get_unsigned_str()));
  if (go("ss", nc)) o.add("ss", big(a.get_signed_str()));
  o.add("nc", strs(nc));
  return o.str();
}

static std::string run_wc(long id, const Job &j) {
  u64 w = j.w;
  std::vector<std::string> nc;
  Obj o;
  o.add("id", std::to_string(id));
  o.add("k", "\"wc\"");
  o.add("w", std::to_string(j.w));
  o.add("src", vj::q(j.src));
  if (j.src == "z") {
    o.add("z", big(j.n));
    if (go("ctor-z", nc)) { W r(ikos::z_number(j.n), w); o.add("r", raw(r)); }
  } else if (j.src == "s") {
    o.add("z", big(j.n));
    if (go("ctor-s", nc)) { W r(j.n, w); o.add("r", raw(r)); }
  } else {
    u64 n = std::strtoull(j.n.c_str(), nullptr, 10);
    o.add("u", raw(n));
    if (go("ctor-u", nc)) { W r(n, w); o.add("r", raw(r)); }
  }
  o.add("nc", strs(nc));
  return o.str();
}

static std::string run_wk(long id, const Job &j) {
  u64 w = j.w;
  Obj o;
  o.add("id", std::to_string(id));
  o.add("k", "\"wk\"");
  o.add("w", std::to_string(j.w));
  o.add("smax", raw(W::get_signed_max(w)));
  o.add("smin", raw(W::get_signed_min(w)));
  o.add("umax", raw(W::get_unsigned_max(w)));
  o.add("umin", raw(W::get_unsigned_min(w)));
  return o.str();
}

// ------------------------------------------------------------ wrapped_interval
static crab::thresholds<ikos::z_number> &thresholds() {
  static crab::thresholds<ikos::z_number> ts;
  static bool init = false;
  if (!init) {
    typedef ikos::bound<ikos::z_number> bound_t;
    const char *vals[] = {"2", "5", "11", "100", "127", "255", "40000", "65535", "2147483647", "3000000000", "9223372036854775807"};
    for (const char *v : vals) ts.add(bound_t(ikos::z_number(std::string(v))));
    init = true;
  }
  return ts;
}

static std::string run_ib(long id, const Job &j) {
  u64 w = j.w;
  std::vector<std::string> nc;
  I a = mk(j.ia, j.w), b = mk(j.ib, j.w);
  Obj r, p;
#define R(name, expr) if (go(name, nc)) { I r_ = (expr); r.add(name, ivjson(r_)); }
  R("add", a + b)
  R("sub", a - b)
  R("mul", a * b)
  R("sdiv", a.SDiv(b))
  R("udiv", a.UDiv(b))
  R("srem", a.SRem(b))
  R("urem", a.URem(b))
  R("shl", a.Shl(b))
  R("lshr", a.LShr(b))
  R("ashr", a.AShr(b))
  R("and", a.And(b))
  R("or", a.Or(b))
  R("xor", a.Xor(b))
  R("join", a | b)
  R("meet", a & b)
  R("widen", a || b)
  R("narrow", a && b)
  R("widen_th", a.widening_thresholds(b, thresholds()))
  R("trim", ikos::linear_interval_solver_impl::trim_interval<I>(a, b))
#undef R
  if (go("leq", nc)) p.add("leq", B(a <= b));
  if (go("geq", nc)) p.add("geq", B(b <= a));
  if (go("eq", nc)) p.add("eq", B(a == b));
  if (go("ne", nc)) p.add("ne", B(a != b));
  Obj o;
  o.add("id", std::to_string(id));
  o.add("k", "\"ib\"");
  o.add("w", std::to_string(j.w));
  o.add("a", ivin(j.ia, a));
  o.add("b", ivin(j.ib, b));
  o.add("full", B(j.full));
  std::string xs = "[", ys = "[";
  for (size_t q = 0; q < j.xs.size(); ++q) xs += (q ? "," : "") + raw(j.xs[q]);
  for (size_t q = 0; q < j.ys.size(); ++q) ys += (q ? "," : "") + raw(j.ys[q]);
  o.add("xs", xs + "]");
  o.add("ys", ys + "]");
  if (!j.full && j.w >= 16) {
    // witnesses of the real wrapint for the operations that the specification checks by relation
    std::string ud = "[", sd = "[", sh = "[";
    bool first = true;
    for (size_t qi = 0; qi < j.xs.size(); ++qi)
      for (size_t qj = 0; qj < j.ys.size(); ++qj) {
        W x(j.xs[qi], w), y(j.ys[qj], w);
        std::string tag = ":" + std::to_string(qi) + ":" + std::to_string(qj);
        std::string sep = first ? "" : ",";
        first = false;
        if (!y.is_zero() && go("wit_ud" + tag, nc)) ud += sep + "[" + raw(x.udiv(y)) + "," + raw(x.urem(y)) + "]"; else ud += sep + "[]";
        if (!y.is_zero() && go("wit_sd" + tag, nc)) sd += sep + "[" + raw(x.sdiv(y)) + "," + raw(x.srem(y)) + "]"; else sd += sep + "[]";
        if (y.get_uint64_t() < w && go("wit_sh" + tag, nc)) sh += sep + "[" + raw(x.lshr(y)) + "]"; else sh += sep + "[]";
      }
    o.add("wit", "{\"ud\":" + ud + "],\"sd\":" + sd + "],\"sh\":" + sh + "]}");
  }
  o.add("r", r.str());
  o.add("p", p.str());
  o.add("nc", strs(nc));
  return o.str();
}

static std::string run_iu(long id, const Job &j) {
  u64 w = j.w;
  std::vector<std::string> nc;
  I a = mk(j.ia, j.w);
  Obj o;
  o.add("id", std::to_string(id));
  o.add("k", "\"iu\"");
  o.add("w", std::to_string(j.w));
  o.add("a", ivin(j.ia, a));
  o.add("full", B(j.full));
  std::string xs = "[", at = "[";
  if (j.full) {
    for (u64 x = 0; x < ((u64)1 << w); ++x) at += (x ? "," : "") + std::string(B(a.at(W(x, w))));
  } else {
    for (size_t q = 0; q < j.xs.size(); ++q) {
      xs += (q ? "," : "") + raw(j.xs[q]);
      at += (q ? "," : "") + std::string(B(a.at(W(j.xs[q], w))));
    }
  }
  o.add("xs", xs + "]");
  o.add("at", at + "]");
  Obj r;
  if (go("neg", nc)) r.add("neg", ivjson(-a));
  if (go("lhl_s", nc)) r.add("lhl_s", ivjson(a.lower_half_line(true)));
  if (go("lhl_u", nc)) r.add("lhl_u", ivjson(a.lower_half_line(false)));
  if (go("uhl_s", nc)) r.add("uhl_s", ivjson(a.upper_half_line(true)));
  if (go("uhl_u", nc)) r.add("uhl_u", ivjson(a.upper_half_line(false)));
  o.add("r", r.str());
  if (go("single", nc)) o.add("single", B(a.is_singleton()));
  std::string ext = "[", tr = "[";
  for (size_t q = 0; q < j.es.size(); ++q) {
    int e = j.es[q];
    Obj x;
    x.add("e", std::to_string(e));
    if (go("sext:" + std::to_string(e), nc)) x.add("s", ivjson(a.SExt(e)));
    if (go("zext:" + std::to_string(e), nc)) x.add("z", ivjson(a.ZExt(e)));
    ext += (q ? "," : "") + x.str();
  }
  for (size_t q = 0; q < j.ts.size(); ++q) {
    int t = j.ts[q];
    Obj x;
    x.add("t", std::to_string(t));
    if (go("trunc:" + std::to_string(t), nc)) x.add("r", ivjson(a.Trunc(t)));
    tr += (q ? "," : "") + x.str();
  }
  o.add("ext", ext + "]");
  o.add("tr", tr + "]");
  o.add("nc", strs(nc));
  return o.str();
}

static std::string run(long id, const Job &j) {
  if (j.k == "wi") return run_wi(id, j);
  if (j.k == "wx") return run_wx(id, j);
  if (j.k == "wc") return run_wc(id, j);
  if (j.k == "wk") return run_wk(id, j);
  if (j.k == "ib") return run_ib(id, j);
  return run_iu(id, j);
}

// ----------------------------------------------------------------- job list
static u64 U(const vj::Value &v) { return std::strtoull(v.s.c_str(), nullptr, 10); }
static Iv iv_of(const vj::Value &v) {
  Iv r{0, 0, 0};
  if (v.has("top")) r.kind = 1;
  else if (v.has("bot")) r.kind = 2;
  else { r.s = U(v["s"]); r.e = U(v["e"]); }
  return r;
}
static std::vector<Iv> all_ivs(int w) {
  std::vector<Iv> r;
  r.push_back(Iv{2, 0, 0});
  r.push_back(Iv{1, 0, 0});
  for (u64 s = 0; s < ((u64)1 << w); ++s)
    for (u64 e = 0; e < ((u64)1 << w); ++e) r.push_back(Iv{0, s, e});
  return r;
}
static void ints(const vj::Value &j, const char *key, std::vector<int> &out) {
  if (!j.has(key)) return;
  for (size_t q = 0; q < j[key].size(); ++q) out.push_back((int)j[key][q].i());
}
static void vals(const vj::Value &j, const char *key, std::vector<u64> &out) {
  if (!j.has(key)) return;
  for (size_t q = 0; q < j[key].size(); ++q) out.push_back(U(j[key][q]));
}

int main(int argc, char **argv) {
  if (argc < 3) return 2;
  vj::Value jobs = vj::parse_file(argv[1]);
  std::vector<Job> js;
  for (size_t q = 0; q < jobs.size(); ++q) {
    const vj::Value &j = jobs[q];
    Job b;
    b.w = (int)j["w"].i();
    if (j.has("gen")) {
      std::string g = j["gen"].s;
      if (g == "wi_all") {
        b.k = "wi";
        for (u64 x = 0; x < ((u64)1 << b.w); ++x)
          for (u64 y = 0; y < ((u64)1 << b.w); ++y) { b.a = x; b.b = y; b.sh = y % b.w; js.push_back(b); }
      } else if (g == "ib_all") {
        b.k = "ib";
        b.full = true;
        std::vector<Iv> all = all_ivs(b.w);
        u64 n = all.size() * all.size(), from = j.geti("from", 0), count = j.geti("count", n);
        for (u64 m = from; m < from + count && m < n; ++m) { b.ia = all[m / all.size()]; b.ib = all[m % all.size()]; js.push_back(b); }
      } else if (g == "iu_all") {
        b.k = "iu";
        b.full = true;
        ints(j, "es", b.es);
        ints(j, "ts", b.ts);
        std::vector<Iv> all = all_ivs(b.w);
        for (size_t m = 0; m < all.size(); ++m) { b.ia = all[m]; js.push_back(b); }
      } else return 2;
      continue;
    }
    b.k = j["k"].s;
    if (j.has("a") && j["a"].is_obj()) b.ia = iv_of(j["a"]);
    else if (j.has("a")) b.a = U(j["a"]);
    if (j.has("b") && j["b"].is_obj()) b.ib = iv_of(j["b"]);
    else if (j.has("b")) b.b = U(j["b"]);
    b.sh = j.geti("sh", 0);
    b.full = j.has("full");
    vals(j, "xs", b.xs);
    vals(j, "ys", b.ys);
    ints(j, "es", b.es);
    ints(j, "ts", b.ts);
    b.src = j.gets("src", "");
    b.n = j.gets("n", "0");
    js.push_back(b);
  }

  g_sh = (Shared *)mmap(nullptr, sizeof(Shared), PROT_READ | PROT_WRITE, MAP_SHARED | MAP_ANONYMOUS, -1, 0);
  if (g_sh == MAP_FAILED) return 2;
  { FILE *f = fopen(argv[2], "w"); if (!f) return 2; fclose(f); }
  long next = 0, crashes = 0;
  std::set<std::string> skip;
  long skip_job = -1;
  while (next < (long)js.size()) {
    g_sh->job = next;
    g_sh->op[0] = 0;
    pid_t pid = fork();
    if (pid < 0) return 2;
    if (pid == 0) {
      FILE *out = fopen(argv[2], "a");
      if (!out) _exit(3);
      g_skip = skip;
      g_skip_job = skip_job;
      for (long q = next; q < (long)js.size(); ++q) {
        g_sh->job = q;
        g_sh->op[0] = 0;
        g_cur_job = q;
        std::string line = run(q + 1, js[q]);
        g_sh->op[0] = 0;
        fputs(line.c_str(), out);
        fputc('\n', out);
        fflush(out);
      }
      fclose(out);
      _exit(0);
    }
    int status = 0;
    waitpid(pid, &status, 0);
    if (WIFEXITED(status) && WEXITSTATUS(status) == 0) break;
    if (WIFEXITED(status) && WEXITSTATUS(status) == 3) return 2;
    // the child died in job g_sh->job while executing g_sh->op
    long dead = g_sh->job;
    std::string op = g_sh->op;
    if (op.empty()) { std::cerr << "wrap_runner: child died outside an operation in job " << dead << "\n"; return 2; }
    if (dead != skip_job) { skip.clear(); skip_job = dead; }
    if (skip.count(op)) { std::cerr << "wrap_runner: repeated death in " << op << "\n"; return 2; }
    skip.insert(op);
    ++crashes;
    next = dead;
  }
  std::cerr << "wrap_runner: " << js.size() << " records, " << crashes << " operation(s) died (no claim)\n";
  return 0;
}
