"""C03 Every abstract-domain operation is sound under arbitrary operation histories.
Seeded random histories (DomainOps behaviours) are replayed on every domain that builds here;
TLC validates every recorded step against the collecting semantics (spec/DomainOps.tla)."""
import json
import vlib, hist
from vlib import Check, build
from checks import domops

PARAMS = [None, None, None,
          {"zones.chrome_dijkstra": "false", "oct.chrome_dijkstra": "false"},
          {"zones.widen_restabilize": "false", "oct.widen_restabilize": "false"},
          {"zones.special_assign": "false", "oct.special_assign": "false"},
          {"zones.close_bounds_inline": "true", "oct.close_bounds_inline": "true"},
          {"powerset.max_disjuncts": "2"}, {"powerset.exact_meet": "true"},
          {"array_adaptive.is_smashable": "false"}]

PROFILE = "c03"
PID = "C03"
RULE = ("seeded random operation histories over 3 registers, 3 integer variables and 1 boolean (coefficients in "
        "{-2,-1,1,2}, constants -3..3, all statement kinds of spec/CrabIR, forget/project/rename/expand, join/meet/"
        "widen/narrow/copy/top/bottom, queries), each replayed on every domain x a domain-parameter setting; "
        "non-trivial = history with >= 1 relational assume/assign and >= 1 lattice operation; counted per distinct history")


def gen(ck, n, length, profile):
    hs = []
    for i in range(n):
        if ck.rng.random() < 0.2:
            # relational histories over 4 integer variables (closure code of zones/octagons needs chains of 4)
            hs.append(hist.history(ck.rng, i + 1, nints=4, nbools=0, length=length + 2, profile=profile, stmt_profile="rel",
                                   params=ck.rng.choice(PARAMS)))
        else:
            hs.append(hist.history(ck.rng, i + 1, length=length, profile=profile, params=ck.rng.choice(PARAMS)))
    return hs


def run_generic(pid, profile, tier, seed, domains=None, extra_domains=(), n_quick=260, n_thorough=1500, rule=RULE):
    ck = Check(pid, tier, seed)
    build("dom_replay")
    doms = list(domains or domops.all_domains()) + list(extra_domains)
    box, univ = 2, 12
    n = n_quick if tier == "quick" else n_thorough
    chunk = 300
    allf, allk = [], []
    nontriv = set()
    done = 0
    k = 0
    while done < n:
        m = min(chunk, n - done)
        hs = gen(ck, m, ck.rng.choice([8, 10, 12]), profile)
        for h in hs:
            h["id"] += done
            if hist.is_nontrivial(h):
                nontriv.add(json.dumps(h["steps"], sort_keys=True))
        fails, knowns, traces = domops.run_batch(ck, "b%d" % k, hs, doms, box=box, univ=univ)
        allf += fails
        allk += knowns
        if k == 0:
            ck.sample({"history": hs[0], "domains": doms})
        done += m
        k += 1
    # directed families for the relational domains (cheap: few domains, short histories)
    fam = {"C03": hist.chain_closure_history, "C04": hist.point_leq_history}.get(pid)
    if fam is not None:
        rdoms = [d for d in doms if d in ("intervals", "sparse_dbm", "split_dbm", "split_oct", "term_sdbm", "as_sdbm", "pack_sdbm",
                                         "fixed_tvpi", "lw_soct", "num_product", "pow_sdbm", "ref_split_dbm", "ref_split_oct", "bool_dbm")]
        nf = 400 if tier == "quick" else 2000
        for off in range(0, nf, 1000):
            hs = [fam(ck.rng, 500000 + off + i, params=ck.rng.choice(PARAMS)) for i in range(min(1000, nf - off))]
            fails, knowns, _ = domops.run_batch(ck, "fam%d" % off, hs, rdoms, box=box, univ=univ)
            allf += fails
            allk += knowns
            for h in hs:
                nontriv.add(json.dumps(h["steps"], sort_keys=True))
        ck.cov["directed_family"] = {"name": fam.__name__, "histories": nf, "domains": rdoms}
    if pid in ("C03", "C04"):
        # large-magnitude family: constants around +-2^25..2^27 (beyond float precision; DBM weights, interval bounds,
        # congruences with large moduli), each trace with its own sample of top (spec/DomainOps.tla RangeT / UT)
        nf = 200 if tier == "quick" else 1200
        for off in range(0, nf, 400):
            hs = [hist.large_history(ck.rng, 900000 + off + i, params=ck.rng.choice(PARAMS)) for i in range(min(400, nf - off))]
            fails, knowns, _ = domops.run_batch(ck, "large%d" % off, hs, doms, box=box, univ=univ, timeout=3000)
            allf += fails
            allk += knowns
            for h in hs:
                if hist.is_nontrivial(h):
                    nontriv.add(json.dumps(h["steps"], sort_keys=True))
        ck.cov["large_magnitude_family"] = {"name": "large_history", "histories": nf, "domains": len(doms),
                                           "constants": "0, +-1, +-M, +-(M+1) and their pairwise sums, 2^25 <= M < 2^26 + 2^25"}
    if pid == "C16":    # directed family: copies and originals receiving the same operations
        nf = 300 if tier == "quick" else 1000
        tdoms = [d for d in doms if hist.exact_projection(d.split("#")[0])]     # the twin judgement needs a faithful projection
        for off in range(0, nf, 500):
            hs = [hist.twin_history(ck.rng, 700000 + off + i, params=ck.rng.choice(PARAMS)) for i in range(min(500, nf - off))]
            fails, knowns, _ = domops.run_batch(ck, "twin%d" % off, hs, tdoms, box=box, univ=univ, timeout=3000)
            allf += fails
            allk += knowns
            for h in hs:
                nontriv.add(json.dumps(h["steps"], sort_keys=True))
        ck.cov["directed_family"] = {"name": "twin_history", "histories": nf, "domains": tdoms}
        # second directed family: disjuncts that become equal, then explicit minimize()/normalize()
        nf2 = 200 if tier == "quick" else 1000
        for off in range(0, nf2, 500):
            hs = [hist.dup_disjunct_history(ck.rng, 750000 + off + i, params=ck.rng.choice(PARAMS)) for i in range(min(500, nf2 - off))]
            fails, knowns, _ = domops.run_batch(ck, "dup%d" % off, hs, doms, box=box, univ=univ, timeout=3000)
            allf += fails
            allk += knowns
            for h in hs:
                nontriv.add(json.dumps(h["steps"], sort_keys=True))
        ck.cov["directed_family_2"] = {"name": "dup_disjunct_history", "histories": nf2, "domains": len(doms)}
        # third directed family: a widening result mutated in place and widened again (wrappers caching the un-normalised result)
        nf3 = 150 if tier == "quick" else 1200
        wdoms = [d for d in doms if d.startswith("ref_") or ("ref_" + d) in doms]
        for off in range(0, nf3, 500):
            hs = [hist.widen_mutate_widen_history(ck.rng, 760000 + off + i, params=ck.rng.choice(PARAMS)) for i in range(min(500, nf3 - off))]
            fails, knowns, _ = domops.run_batch(ck, "wmw%d" % off, hs, wdoms, box=box, univ=univ, timeout=3000)
            allf += fails
            allk += knowns
        ck.cov["directed_family_3"] = {"name": "widen_mutate_widen_history", "histories": nf3, "domains": wdoms}
    if pid == "C04":    # directed family: bounds plus weak relational constraints against stronger relational constraints
        rdoms2 = [d for d in doms if d in ("split_dbm", "sparse_dbm", "split_oct", "sdbm_ss", "sdbm_pt", "sdbm_ht", "sdbm_safe", "sdbm_big",
                                          "spdbm_safe", "soct_safe", "term_sdbm", "as_sdbm", "pack_sdbm", "bool_dbm", "pow_sdbm", "ref_split_dbm",
                                          "ref_split_oct", "num_product", "fixed_tvpi", "intervals")]
        nfb = 400 if tier == "quick" else 1500
        for off in range(0, nfb, 1000):
            hs = [hist.bounds_diff_leq_history(ck.rng, 550000 + off + i, params=ck.rng.choice(PARAMS)) for i in range(min(1000, nfb - off))]
            fails, knowns, _ = domops.run_batch(ck, "fambd%d" % off, hs, rdoms2, box=box, univ=univ, timeout=3000)
            allf += fails
            allk += knowns
            for h in hs:
                nontriv.add(json.dumps(h["steps"], sort_keys=True))
        ck.cov["directed_family_4"] = {"name": "bounds_diff_leq_history", "histories": nfb, "domains": rdoms2}
    if pid == "C04":    # second directed family: inclusion between values of the disjunctive domains
        ddoms = [d for d in doms if d in ("pow_int", "pow_sdbm", "dis_intervals", "vp_int", "term_dis_int", "ric", "congruences", "intervals")]
        nf = 200 if tier == "quick" else 1000
        for off in range(0, nf, 500):
            hs = [hist.disjunct_leq_history(ck.rng, 600000 + off + i, params=ck.rng.choice(PARAMS)) for i in range(min(500, nf - off))]
            fails, knowns, _ = domops.run_batch(ck, "famdisj%d" % off, hs, ddoms, box=box, univ=univ, timeout=3000)
            allf += fails
            allk += knowns
            for h in hs:
                nontriv.add(json.dumps(h["steps"], sort_keys=True))
        ck.cov["directed_family_2"] = {"name": "disjunct_leq_history", "histories": nf, "domains": ddoms}
        # third directed family: environments over different variable sets (6 variables, box -1..1)
        wdoms = [d for d in doms if d in ("intervals", "dis_intervals", "congruences", "ric", "constant", "sign", "sign_constant", "bool_int",
                                          "term_int", "aa_int", "pow_int", "vp_int", "rgn_int", "ref_intervals", "split_dbm", "split_oct")]
        nf = 150 if tier == "quick" else 1000
        for off in range(0, nf, 500):
            hs = [hist.wide_join_history(ck.rng, 650000 + off + i, params=ck.rng.choice(PARAMS)) for i in range(min(500, nf - off))]
            fails, knowns, _ = domops.run_batch(ck, "famwide%d" % off, hs, wdoms, box=1, univ=6, timeout=3000)
            allf += fails
            allk += knowns
            for h in hs:
                nontriv.add(json.dumps(h["steps"], sort_keys=True))
        ck.cov["directed_family_3"] = {"name": "wide_join_history", "histories": nf, "domains": wdoms}
    ck.cov["distinct_nontrivial"] = len(nontriv)
    ck.cov["histories"] = n
    ck.cov["domains"] = doms
    ck.cov["rule"] = rule
    ck.cov["box_radius"] = box
    ck.assumptions += ["witness sets: top is sampled by the box -%d..%d per integer variable; witnesses leaving -%d..%d are dropped" % (box, box, univ, univ),
                       "domains backed by apron/elina/ldd/pplite are not available offline",
                       "a step on which the real code calls CRAB_ERROR or times out yields no claim (counted in harness_no_claim)"]
    domops.report(ck, allf, allk, box, univ)
    return ck.finish()


def run(tier, seed):
    return run_generic(PID, PROFILE, tier, seed)


def replay(path):
    case = json.load(open(path))["case"]
    ck = Check(PID, "quick", 0)
    build("dom_replay")
    fails, knowns, _ = domops.run_batch(ck, "replay", [case["history"]], [case["domain"]], box=2, univ=12)
    for f in fails:
        ck.violation("replayed: %s %s at step %d" % (f["dom"], f["why"], f["step"]), case)
    return ck.finish()
