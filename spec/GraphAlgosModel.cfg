\* design level: ALL digraphs with 1..3 nodes, every entry node, every exit node
SPECIFICATION ModelSpec
CONSTANTS
  MinN = 1
  MaxN = 3
  Entries = "all"
INVARIANTS
  M_DomBasics
  M_DomIsDataflowSolution
  M_IdomUnique
  M_IdomAsInHeader
  M_DomTreeAncestors
  M_FrontierIsCytron
  M_FrontierFacts
  M_ControlDepIsFerrante
  M_PostDomIsPathBased
  M_SccFacts
  M_SccGraphAcyclic
  M_OrdersExist
CHECK_DEADLOCK FALSE
