\* design level: ALL 65536 digraphs with 4 nodes, entry node 1 (w.l.o.g.: every relabelling is enumerated), every exit node
SPECIFICATION ModelSpec
CONSTANTS
  MinN = 4
  MaxN = 4
  Entries = "first"
INVARIANTS
  M_DomBasics
  M_DomIsDataflowSolution
  M_IdomUnique
  M_IdomAsInHeader
  M_DomTreeAncestors
  M_FrontierIsCytron
  M_FrontierFacts
  M_ControlDepIsFerrante
  M_PostDomIsPathBased
  M_SccFacts
  M_SccGraphAcyclic
  M_OrdersExist
CHECK_DEADLOCK FALSE
