----------------------------- MODULE NumJudge -----------------------------
(* C20, implementation level, judge pattern: every record written by
   harness/num_runner (operands of one call of the real z_number / q_number /
   safe_i64 / linear_expression / linear_constraint code and what it
   returned) is one TLC initial state; the invariant is the contract of that
   operation, written with the arithmetic of BigNum and the valuation
   semantics of LinCst.

   Record fields (family "num"): op, via (API path), err (1 = the call ended in
   CRAB_ERROR, i.e. exit(1) of the forked child), sig (terminating signal or
   0); operands a, b, ... and results r, q, ... in transport form
   <<negflag, limb, limb, ...>> (see BigNum).  Result fields are absent when
   err = 1, so they are only touched under err = 0.                          *)
EXTENDS BigNum, LinCst, TLC, Json, IOUtils

Recs == ndJsonDeserialize(IOEnv.NUM_RECORDS)

(* One initial state per record.  TLC evaluates invariants of INITIAL states in a single
   thread, so the contract is attached to the one successor of every initial state
   (judged = TRUE): successors are computed and checked by all workers in parallel. *)
VARIABLES i, judged
vars == <<i, judged>>
Init == i \in DOMAIN Recs /\ judged = FALSE
Next == ~judged /\ judged' = TRUE /\ UNCHANGED i
Spec == Init /\ [][Next]_vars

Flag(b) == IF b THEN 1 ELSE 0
NoErr(r) == r.err = 0 /\ r.sig = 0
(* the call must fail with CRAB_ERROR exactly when `bad` holds; otherwise `post` *)
ErrIff(r, bad, post) == r.sig = 0 /\ r.err = Flag(bad) /\ (r.err = 0 => post)

---------------------------------------------------------------------------
ZOk(r) ==
  CASE r.op \in {"add", "sub", "mul"} ->
         /\ NoErr(r) /\ NumOk(r.a) /\ NumOk(r.b) /\ CanonText(r.r)
         /\ LET a == Num(r.a)
                b == Num(r.b)
            IN Num(r.r) = (CASE r.op = "add" -> Add(a, b) [] r.op = "sub" -> Sub(a, b) [] r.op = "mul" -> Mul(a, b))
    [] r.op = "divrem" ->
         /\ NumOk(r.a) /\ NumOk(r.b)
         /\ ErrIff(r, IsZero(Num(r.b)),
                   CanonText(r.q) /\ CanonText(r.r) /\ TDivOk(Num(r.a), Num(r.b), Num(r.q), Num(r.r)))
    [] r.op = "neg" ->
         NoErr(r) /\ NumOk(r.a) /\ CanonText(r.r) /\ Num(r.r) = Neg(Num(r.a))
    [] r.op \in {"inc", "dec"} ->        \* r: value afterwards, old: what the postfix form returned
         /\ NoErr(r) /\ NumOk(r.a) /\ CanonText(r.r) /\ CanonText(r.old)
         /\ Num(r.r) = (IF r.op = "inc" THEN Add(Num(r.a), One) ELSE Sub(Num(r.a), One))
         /\ Num(r.old) = (IF r.via = "post" THEN Num(r.a) ELSE Num(r.r))
    [] r.op = "cmp" ->                  \* flags: ==, !=, <, <=, >, >=
         /\ NoErr(r) /\ NumOk(r.a) /\ NumOk(r.b)
         /\ LET c == Cmp(Num(r.a), Num(r.b))
            IN r.flags = <<Flag(c = 0), Flag(c # 0), Flag(c < 0), Flag(c <= 0), Flag(c > 0), Flag(c >= 0)>>
    [] r.op \in {"and", "or", "xor"} ->
         /\ NoErr(r) /\ NumOk(r.a) /\ NumOk(r.b) /\ CanonText(r.r)
         /\ BitwiseOk(r.op, Num(r.a), Num(r.b), Num(r.r))
    [] r.op = "shl" ->
         NoErr(r) /\ NumOk(r.a) /\ r.k >= 0 /\ CanonText(r.r) /\ ShlOk(Num(r.a), r.k, Num(r.r))
    [] r.op = "shr" ->
         NoErr(r) /\ NumOk(r.a) /\ r.k >= 0 /\ CanonText(r.r) /\ FloorShrOk(Num(r.a), r.k, Num(r.r))
    [] r.op = "shr_huge" ->            \* shift amount b >= 2^64, given as a number.  a has n base-65536 digits, so
                                        \* |a| < 2^(16n) <= 2^b and floor(a / 2^b) is 0 (a >= 0) or -1 (a < 0)
         /\ NoErr(r) /\ NumOk(r.a) /\ NumOk(r.b) /\ CanonText(r.r)
         /\ LET a == Num(r.a)
                bits == 16 * Len(DigitsM(a.m, D16))
            IN Le(FromInt(bits), Num(r.b)) /\ Num(r.r) = (IF a.neg THEN FromInt(-1) ELSE Zero)
    [] r.op = "shl_huge" ->            \* a * 2^b with b >= 2^64 has more than 2^64 bits unless a = 0: it cannot be
                                        \* represented, so anything but an error report is a silently wrong number
         /\ NumOk(r.a) /\ NumOk(r.b) /\ Le(Pow2(64), Num(r.b)) /\ r.sig = 0
         /\ IF IsZero(Num(r.a)) THEN r.err = 0 /\ CanonText(r.r) /\ IsZero(Num(r.r)) ELSE r.err = 1
    [] r.op = "fill" ->
         NoErr(r) /\ NumOk(r.a) /\ ~Num(r.a).neg /\ CanonText(r.r) /\ FillOnesOk(Num(r.a), Num(r.r))
    [] r.op = "str" ->                  \* z_number(s).get_str() = s ; equal numbers hash equally
         NoErr(r) /\ CanonText(r.a) /\ r.r = r.a /\ r.heq = 1
    [] r.op = "to_i64" ->               \* fits_int64() and the int64_t cast
         /\ NumOk(r.a) /\ r.fits = Flag(FitsI64(Num(r.a)))
         /\ ErrIff(r, ~FitsI64(Num(r.a)), CanonText(r.v) /\ Num(r.v) = Num(r.a))
    [] r.op \in {"from_i64", "from_u64"} ->
         /\ NoErr(r) /\ CanonText(r.a) /\ r.r = r.a
         /\ (IF r.op = "from_i64" THEN FitsI64(Num(r.a)) ELSE FitsU64(Num(r.a)))
    [] r.op = "to_hex" ->
         NoErr(r) /\ NumOk(r.a) /\ HexDenotes(r.h, Num(r.a)) /\ (Len(r.h) > 1 => r.h[1] # "0")
    [] r.op = "from_hex" ->
         NoErr(r) /\ CanonText(r.r) /\ HexDenotes(r.h, Num(r.r))
    [] r.op = "raw" ->                  \* to_raw_data / from_raw_data, ord = 1: most significant word first
         /\ NoErr(r) /\ NumOk(r.a) /\ CanonText(r.back)
         /\ LET ws == IF r.ord = 1 THEN [k \in 1..Len(r.words) |-> r.words[Len(r.words) - k + 1]] ELSE r.words
            IN /\ \A k \in 1..Len(ws) : NumOk(ws[k]) /\ FitsU64(Num(ws[k]))
               /\ WordsDenote(ws, Num(r.a).m)
               /\ (Len(ws) > 0 => ~IsZero(Num(ws[Len(ws)])))
         /\ r.nonneg = Flag(~Num(r.a).neg)
         /\ Num(r.back) = Abs(Num(r.a))

---------------------------------------------------------------------------
(* rationals: inputs n/d as given to the constructor (ctor = "pair": q_number(n, d);
   "div": q_number(n) / q_number(d); "str": q_number("n/d")) *)
QOk(r) ==
  CASE r.op = "q_round" ->
         /\ NumOk(r.n) /\ NumOk(r.d)
         /\ ErrIff(r, IsZero(Num(r.d)),
                   /\ CanonText(r.lo) /\ CanonText(r.up) /\ CanonText(r.on) /\ CanonText(r.od)
                   /\ QEq(Num(r.on), Num(r.od), Num(r.n), Num(r.d))        \* numerator()/denominator()
                   /\ FloorOk(Num(r.n), Num(r.d), Num(r.lo))              \* round_to_lower
                   /\ CeilOk(Num(r.n), Num(r.d), Num(r.up)))              \* round_to_upper
    [] r.op \in {"q_add", "q_sub", "q_mul", "q_div"} ->
         /\ NumOk(r.n1) /\ NumOk(r.d1) /\ NumOk(r.n2) /\ NumOk(r.d2)
         /\ ~IsZero(Num(r.d1)) /\ ~IsZero(Num(r.d2))
         /\ LET n1 == Num(r.n1)
                d1 == Num(r.d1)
                n2 == Num(r.n2)
                d2 == Num(r.d2)
                (* mathematical result as an unreduced fraction en/ed *)
                en == CASE r.op = "q_add" -> Add(Mul(n1, d2), Mul(n2, d1))
                        [] r.op = "q_sub" -> Sub(Mul(n1, d2), Mul(n2, d1))
                        [] r.op = "q_mul" -> Mul(n1, n2)
                        [] r.op = "q_div" -> Mul(n1, d2)
                ed == IF r.op = "q_div" THEN Mul(d1, n2) ELSE Mul(d1, d2)
            IN ErrIff(r, r.op = "q_div" /\ IsZero(n2),
                      /\ CanonText(r.rn) /\ CanonText(r.rd)
                      /\ Sign(Num(r.rd)) = 1                             \* result is in canonical sign form
                      /\ QEq(Num(r.rn), Num(r.rd), en, ed))
    [] r.op \in {"q_neg", "q_inc", "q_dec"} ->
         /\ NoErr(r) /\ NumOk(r.n1) /\ NumOk(r.d1) /\ ~IsZero(Num(r.d1))
         /\ CanonText(r.rn) /\ CanonText(r.rd) /\ Sign(Num(r.rd)) = 1
         /\ LET n1 == Num(r.n1)
                d1 == Num(r.d1)
                en == CASE r.op = "q_neg" -> Neg(n1) [] r.op = "q_inc" -> Add(n1, d1) [] r.op = "q_dec" -> Sub(n1, d1)
            IN QEq(Num(r.rn), Num(r.rd), en, d1)
    [] r.op = "q_shl" ->
         /\ NoErr(r) /\ NumOk(r.n1) /\ NumOk(r.d1) /\ ~IsZero(Num(r.d1)) /\ r.k >= 0
         /\ CanonText(r.rn) /\ CanonText(r.rd) /\ Sign(Num(r.rd)) = 1
         /\ QEq(Num(r.rn), Num(r.rd), Mul(Num(r.n1), Pow2(r.k)), Num(r.d1))
    [] r.op = "q_cmp" ->
         /\ NoErr(r) /\ NumOk(r.n1) /\ NumOk(r.d1) /\ NumOk(r.n2) /\ NumOk(r.d2)
         /\ ~IsZero(Num(r.d1)) /\ ~IsZero(Num(r.d2))
         /\ LET c == QCmp(Num(r.n1), Num(r.d1), Num(r.n2), Num(r.d2))
            IN r.flags = <<Flag(c = 0), Flag(c # 0), Flag(c < 0), Flag(c <= 0), Flag(c > 0), Flag(c >= 0)>>

---------------------------------------------------------------------------
(* crab::safe_i64: the result is the mathematical one, or overflow is reported
   (CRAB_ERROR) exactly when the mathematical result does not fit in int64 *)
SOk(r) ==
  CASE r.op \in {"s_add", "s_sub", "s_mul"} ->
         /\ NumOk(r.a) /\ NumOk(r.b) /\ FitsI64(Num(r.a)) /\ FitsI64(Num(r.b))
         /\ LET a == Num(r.a)
                b == Num(r.b)
                m == CASE r.op = "s_add" -> Add(a, b) [] r.op = "s_sub" -> Sub(a, b) [] r.op = "s_mul" -> Mul(a, b)
            IN ErrIff(r, ~FitsI64(m), CanonText(r.r) /\ Num(r.r) = m)
    [] r.op = "s_neg" ->
         /\ NumOk(r.a) /\ FitsI64(Num(r.a))
         /\ ErrIff(r, ~FitsI64(Neg(Num(r.a))), CanonText(r.r) /\ Num(r.r) = Neg(Num(r.a)))
    [] r.op = "s_div" ->
         (* b # 0.  |a/b| <= |a| <= 2^63, so the only quotient that does not fit is 2^63 itself:
            overflow reported  <=>  2^63 is the truncated quotient;
            no overflow        <=>  the exported (fitting) value is the truncated quotient.
            The truncated quotient is unique, so this is "exactly when". *)
         /\ NumOk(r.a) /\ NumOk(r.b) /\ FitsI64(Num(r.a)) /\ FitsI64(Num(r.b)) /\ ~IsZero(Num(r.b))
         /\ r.sig = 0
         /\ IF r.err = 1 THEN TQuotOk(Num(r.a), Num(r.b), Pow2(63))
            ELSE CanonText(r.r) /\ FitsI64(Num(r.r)) /\ TQuotOk(Num(r.a), Num(r.b), Num(r.r))
    [] r.op = "s_fromz" ->
         /\ NumOk(r.a)
         /\ ErrIff(r, ~FitsI64(Num(r.a)), CanonText(r.r) /\ Num(r.r) = Num(r.a))
    [] r.op = "s_cmp" ->
         /\ NoErr(r) /\ NumOk(r.a) /\ NumOk(r.b) /\ FitsI64(Num(r.a)) /\ FitsI64(Num(r.b))
         /\ LET c == Cmp(Num(r.a), Num(r.b))
            IN r.flags = <<Flag(c = 0), Flag(c # 0), Flag(c < 0), Flag(c <= 0), Flag(c > 0), Flag(c >= 0)>>

---------------------------------------------------------------------------
Ok(r) == CASE r.fam = "z" -> ZOk(r)
           [] r.fam = "q" -> QOk(r)
           [] r.fam = "s" -> SOk(r)
           [] r.fam = "lin" -> NoErr(r) /\ LinOk(r)

---------------------------------------------------------------------------
(* Known findings: open entries of /verif/known_findings.json whose signature is
   {"engine": "num_runner", "cls": <class>}.  A class is an input predicate written
   HERE (a signature cannot carry a predicate).  A record that violates its contract
   and belongs to a listed class is reported as KNOWN (printed), not as a violation.
   With no such entry in known_findings.json nothing is excused. *)
Known == JsonDeserialize(IOEnv.NUM_KNOWN)

NegDen(r) == r.fam = "q" /\ r.ctor = "pair"
             /\ \E f \in {"d", "d1", "d2"} : f \in DOMAIN r /\ NumOk(r[f]) /\ Num(r[f]).neg

InClass(cls, r) == CASE cls = "q-pair-negative-denominator" -> NegDen(r)
                     [] cls = "z-shift-amount-beyond-64-bits" -> r.fam = "z" /\ r.op \in {"shl_huge", "shr_huge"}
                     [] OTHER -> FALSE

KnownFor(r) ==
  {k \in 1..Len(Known) :
     /\ "sig" \in DOMAIN Known[k] /\ "properties" \in DOMAIN Known[k]
     /\ \E j \in 1..Len(Known[k].properties) : Known[k].properties[j] = "C20"
     /\ "engine" \in DOMAIN Known[k].sig /\ Known[k].sig.engine = "num_runner"
     /\ "cls" \in DOMAIN Known[k].sig /\ InClass(Known[k].sig.cls, r)}

Contract ==
  \/ ~judged
  \/ Ok(Recs[i])
  \/ LET K == KnownFor(Recs[i])
     IN K # {} /\ \A k \in K : PrintT(<<"KNOWN", Known[k].id, Recs[i].id>>)
=============================================================================
