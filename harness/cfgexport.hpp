// crab CFG -> JSON (the inverse of progbuild.hpp) through the public statement accessors.
#pragma once
#include "progbuild.hpp"

namespace vh {

inline void put_le(std::ostream &o, const z_lin_exp_t &e, const VarTab &vt) {
  o << "{\"k\":" << e.constant().get_str() << ",\"t\":[";
  bool first = true;
  for (auto it = e.begin(); it != e.end(); ++it) {
    o << (first ? "" : ",") << "[" << it->first.get_str() << "," << vt.find(it->second) << "]";
    first = false;
  }
  o << "]}";
}
inline void put_cst(std::ostream &o, const z_lin_cst_t &c, const VarTab &vt) {
  o << "{\"e\":";
  put_le(o, c.expression(), vt);
  const char *r = c.is_inequality() ? "le" : c.is_strict_inequality() ? "lt" : c.is_equality() ? "eq" : "ne";
  o << ",\"r\":\"" << r << "\"}";
}

inline void put_stmt(std::ostream &o, const z_cfg_t::statement_t &s, const VarTab &vt) {
  typedef z_basic_block_t B;
  if (s.is_bin_op()) {
    auto &b = static_cast<const B::bin_op_t &>(s);
    static const char *names[] = {"add", "sub", "mul", "sdiv", "udiv", "srem", "urem", "and", "or", "xor", "shl", "lshr", "ashr"};
    int code = (int)b.op();
    bool arith = code <= 6;
    o << "{\"op\":\"" << (arith ? "arith" : "bitw") << "\",\"f\":\"" << names[code] << "\",\"x\":" << vt.find(b.lhs());
    auto y = b.left().get_variable();
    o << ",\"y\":" << (y ? vt.find(*y) : 0);
    auto z = b.right().get_variable();
    if (z)
      o << ",\"zk\":0,\"z\":" << vt.find(*z) << "}";
    else
      o << ",\"zk\":1,\"z\":" << b.right().constant().get_str() << "}";
  } else if (s.is_assign()) {
    auto &a = static_cast<const B::assign_t &>(s);
    o << "{\"op\":\"assign\",\"x\":" << vt.find(a.lhs()) << ",\"e\":";
    put_le(o, a.rhs(), vt);
    o << "}";
  } else if (s.is_assume()) {
    auto &a = static_cast<const B::assume_t &>(s);
    o << "{\"op\":\"assume\",\"c\":";
    put_cst(o, a.constraint(), vt);
    o << "}";
  } else if (s.is_assert()) {
    auto &a = static_cast<const B::assert_t &>(s);
    o << "{\"op\":\"assert\",\"c\":";
    put_cst(o, a.constraint(), vt);
    o << ",\"id\":" << a.get_debug_info().get_id() << "}";
  } else if (s.is_havoc()) {
    auto &h = static_cast<const B::havoc_t &>(s);
    o << "{\"op\":\"havoc\",\"x\":" << vt.find(h.get_variable()) << "}";
  } else if (s.is_select()) {
    auto &x = static_cast<const B::select_t &>(s);
    o << "{\"op\":\"select\",\"x\":" << vt.find(x.lhs()) << ",\"c\":";
    put_cst(o, x.cond(), vt);
    o << ",\"e1\":";
    put_le(o, x.left(), vt);
    o << ",\"e2\":";
    put_le(o, x.right(), vt);
    o << "}";
  } else if (s.is_unreachable()) {
    o << "{\"op\":\"unreach\"}";
  } else if (s.is_bool_bin_op()) {
    auto &b = static_cast<const B::bool_bin_op_t &>(s);
    const char *f = b.op() == crab::cfg::BINOP_BAND ? "and" : b.op() == crab::cfg::BINOP_BOR ? "or" : "xor";
    o << "{\"op\":\"bop\",\"f\":\"" << f << "\",\"x\":" << vt.find(b.lhs()) << ",\"y\":" << vt.find(b.left()) << ",\"z\":"
      << vt.find(b.right()) << "}";
  } else if (s.is_bool_assign_cst()) {
    auto &b = static_cast<const B::bool_assign_cst_t &>(s);
    if (!b.is_rhs_linear_constraint()) {
      o << "{\"op\":\"unknown\"}";
    } else {
      o << "{\"op\":\"bassign_cst\",\"x\":" << vt.find(b.lhs()) << ",\"c\":";
      put_cst(o, b.rhs_as_linear_constraint(), vt);
      o << "}";
    }
  } else if (s.is_bool_assign_var()) {
    auto &b = static_cast<const B::bool_assign_var_t &>(s);
    o << "{\"op\":\"bassign_var\",\"x\":" << vt.find(b.lhs()) << ",\"y\":" << vt.find(b.rhs()) << ",\"neg\":" << (b.is_rhs_negated() ? 1 : 0)
      << "}";
  } else if (s.is_bool_assume()) {
    auto &b = static_cast<const B::bool_assume_t &>(s);
    o << "{\"op\":\"bassume\",\"x\":" << vt.find(b.cond()) << ",\"neg\":" << (b.is_negated() ? 1 : 0) << "}";
  } else if (s.is_bool_assert()) {
    auto &b = static_cast<const B::bool_assert_t &>(s);
    o << "{\"op\":\"bassert\",\"x\":" << vt.find(b.cond()) << ",\"id\":" << b.get_debug_info().get_id() << "}";
  } else if (s.is_bool_select()) {
    auto &b = static_cast<const B::bool_select_t &>(s);
    o << "{\"op\":\"bselect\",\"x\":" << vt.find(b.lhs()) << ",\"c\":" << vt.find(b.cond()) << ",\"y\":" << vt.find(b.left())
      << ",\"z\":" << vt.find(b.right()) << "}";
  } else if (s.is_int_cast()) {
    auto &c = static_cast<const B::int_cast_t &>(s);
    const char *f = c.op() == crab::cfg::CAST_ZEXT ? "zext" : c.op() == crab::cfg::CAST_SEXT ? "sext" : "trunc";
    bool sb = c.src().get_type().is_bool(), db = c.dst().get_type().is_bool();
    o << "{\"op\":\"cast\",\"f\":\"" << f << "\",\"x\":" << vt.find(c.dst()) << ",\"y\":" << vt.find(c.src()) << ",\"sk\":\""
      << (sb ? "bool" : "int") << "\",\"dk\":\"" << (db ? "bool" : "int") << "\",\"sw\":" << c.src_width() << ",\"dw\":" << c.dst_width() << "}";
  } else if (s.is_callsite()) {
    auto &c = static_cast<const B::callsite_t &>(s);
    o << "{\"op\":\"callx\",\"lhs\":[";
    for (unsigned k = 0; k < c.get_num_lhs(); ++k) o << (k ? "," : "") << vt.find(c.get_lhs()[k]);
    o << "],\"args\":[";
    for (unsigned k = 0; k < c.get_num_args(); ++k) o << (k ? "," : "") << vt.find(c.get_args()[k]);
    o << "]}";
  } else if (s.is_arr_init()) {
    auto &a = static_cast<const B::arr_init_t &>(s);
    o << "{\"op\":\"ainit\",\"a\":" << vt.find(a.array()) << ",\"es\":" << a.elem_size().constant().get_str() << ",\"lb\":";
    put_le(o, a.lb_index(), vt);
    o << ",\"ub\":";
    put_le(o, a.ub_index(), vt);
    o << ",\"v\":";
    put_le(o, a.val(), vt);
    o << "}";
  } else if (s.is_arr_write()) {
    auto &a = static_cast<const B::arr_store_t &>(s);
    bool single = a.lb_index().equal(a.ub_index());
    o << "{\"op\":\"" << (single ? "astore" : "astore_range") << "\",\"a\":" << vt.find(a.array()) << ",\"es\":"
      << a.elem_size().constant().get_str() << ",\"i\":";
    put_le(o, a.lb_index(), vt);
    if (!single) {
      o << ",\"j\":";
      put_le(o, a.ub_index(), vt);
    }
    o << ",\"v\":";
    put_le(o, a.value(), vt);
    o << ",\"strong\":" << (a.is_strong_update() ? 1 : 0) << "}";
  } else if (s.is_arr_read()) {
    auto &a = static_cast<const B::arr_load_t &>(s);
    o << "{\"op\":\"aload\",\"x\":" << vt.find(a.lhs()) << ",\"a\":" << vt.find(a.array()) << ",\"es\":"
      << a.elem_size().constant().get_str() << ",\"i\":";
    put_le(o, a.index(), vt);
    o << "}";
  } else if (s.is_arr_assign()) {
    auto &a = static_cast<const B::arr_assign_t &>(s);
    o << "{\"op\":\"aassign\",\"a\":" << vt.find(a.lhs()) << ",\"b\":" << vt.find(a.rhs()) << "}";
  } else {
    o << "{\"op\":\"unknown\"}";
  }
}

// blocks are exported in the order of `labels` (index = position + 1); edges refer to these indices;
// an edge to a label that is not a block of the CFG is exported as 0 (ill-formed, judged by the spec)
inline void put_cfg(std::ostream &o, z_cfg_t &cfg, const VarTab &vt) {
  std::vector<std::string> labels;
  for (auto it = cfg.label_begin(); it != cfg.label_end(); ++it) labels.push_back(*it);
  std::sort(labels.begin(), labels.end(), [](const std::string &a, const std::string &b) { return bindex(a) < bindex(b); });
  auto idx = [&](const std::string &l) -> long {
    for (size_t k = 0; k < labels.size(); ++k)
      if (labels[k] == l) return (long)k + 1;
    return 0;
  };
  o << "{\"entry\":" << idx(cfg.entry()) << ",\"exit\":" << (cfg.has_exit() ? idx(cfg.exit()) : 0) << ",\"labels\":[";
  for (size_t k = 0; k < labels.size(); ++k) o << (k ? "," : "") << bindex(labels[k]);
  o << "],\"blocks\":[";
  for (size_t k = 0; k < labels.size(); ++k) {
    z_basic_block_t &bb = cfg.get_node(labels[k]);
    o << (k ? "," : "") << "{\"succ\":[";
    bool first = true;
    for (auto n : boost::make_iterator_range(bb.next_blocks())) {
      o << (first ? "" : ",") << idx(n);
      first = false;
    }
    o << "],\"pred\":[";
    first = true;
    for (auto n : boost::make_iterator_range(bb.prev_blocks())) {
      o << (first ? "" : ",") << idx(n);
      first = false;
    }
    o << "],\"stmts\":[";
    first = true;
    for (auto &s : boost::make_iterator_range(bb.begin(), bb.end())) {
      o << (first ? "" : ",");
      put_stmt(o, s, vt);
      first = false;
    }
    o << "]}";
  }
  o << "]}";
}

} // namespace vh
