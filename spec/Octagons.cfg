SPECIFICATION Spec
INVARIANT AssumeExact
INVARIANT ForgetExact
INVARIANT JoinIsHull
INVARIANT MeetExact
INVARIANT LeqExact
CHECK_DEADLOCK FALSE
