#include "domreg.hpp"
#include <crab/domains/intervals.hpp>
#include <crab/domains/constant_domain.hpp>
#include <crab/domains/sign_domain.hpp>
#include <crab/domains/sign_constant_domain.hpp>
using namespace crab::domains;
using namespace vh;
typedef ikos::interval_domain<z_number, varname_t> intervals_t;
typedef constant_domain<z_number, varname_t> constant_t;
typedef sign_domain<z_number, varname_t> sign_t;
typedef sign_constant_domain<z_number, varname_t> sign_constant_t;
VH_DOMREG(intervals, intervals_t)
VH_DOMREG(constant, constant_t)
VH_DOMREG(sign, sign_t)
VH_DOMREG(sign_constant, sign_constant_t)
