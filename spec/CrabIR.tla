----------------------------- MODULE CrabIR -----------------------------
(* Concrete semantics of CrabIR statements over the integers.

   This is the half that the repository does not contain: what a statement
   DOES to a concrete state.  A scalar state is a tuple s with s[i] the value
   of variable i (booleans are 0/1).  Statements are the JSON records produced
   by tools/gen (see DESIGN.md section 2): fields are accessed only when the
   statement kind has them.

   Succ(st, s, U, Hv) = the set of states in which st can terminate when started
   in s.  Empty set = the execution does not continue (assume/assert false,
   division by zero, `unreachable`) or the step is outside the model (value
   leaves -U..U, unsigned operation on a negative operand, ...): in both cases
   no claim is made about it, which can only make a check weaker (rule R1).
   Hv(i) = the values a havoc of variable i may produce.                      *)
EXTENDS Integers, Sequences, FiniteSets

Abs(a) == IF a < 0 THEN -a ELSE a
Sgn(a) == IF a < 0 THEN -1 ELSE IF a > 0 THEN 1 ELSE 0
Pow2(k) == IF k = 0 THEN 1 ELSE IF k = 1 THEN 2 ELSE IF k = 2 THEN 4 ELSE IF k = 3 THEN 8
           ELSE IF k = 4 THEN 16 ELSE IF k = 5 THEN 32 ELSE IF k = 6 THEN 64 ELSE 128

(* truncating (C-like) signed division and remainder; b # 0 *)
TDiv(a, b) == Sgn(a) * Sgn(b) * (Abs(a) \div Abs(b))
TRem(a, b) == a - b * TDiv(a, b)

(* infinite-precision two's complement bitwise operations for |a|,|b| < 128 *)
RECURSIVE BitsN(_, _, _, _)
BitsN(f, a, b, n) ==   \* f \in {"and","or","xor"}, a,b naturals, n bits left
  IF n = 0 THEN 0
  ELSE LET x == a % 2  y == b % 2
           z == CASE f = "and" -> x * y
                  [] f = "or"  -> IF x + y > 0 THEN 1 ELSE 0
                  [] OTHER     -> (x + y) % 2
       IN z + 2 * BitsN(f, a \div 2, b \div 2, n - 1)
ToU8(a) == a % 256
FromU8(u) == IF u >= 128 THEN u - 256 ELSE u
Bitwise(f, a, b) == FromU8(BitsN(f, ToU8(a), ToU8(b), 8))

-------------------------------------------------------------------------
(* linear expressions  LE = [k |-> c, t |-> << <<coef, var>>, ... >>] *)
RECURSIVE SumTerms(_, _, _)
SumTerms(t, s, k) == IF k > Len(t) THEN 0 ELSE t[k][1] * s[t[k][2]] + SumTerms(t, s, k + 1)
EvalLE(e, s) == e.k + SumTerms(e.t, s, 1)

(* linear constraints  CST = [e |-> LE, r |-> "le"|"lt"|"eq"|"ne"]  meaning e r 0 *)
Holds(c, s) ==
  LET v == EvalLE(c.e, s)
  IN CASE c.r = "le" -> v <= 0
       [] c.r = "lt" -> v < 0
       [] c.r = "eq" -> v = 0
       [] OTHER      -> v # 0

(* right operand of a binary operation: variable (zk = 0) or constant (zk = 1) *)
Opnd(st, s) == IF st.zk = 1 THEN st.z ELSE s[st.z]

(* the set of values of y f z: empty when undefined / outside the model *)
ArithVal(f, a, b) ==
  CASE f = "add" -> {a + b}
    [] f = "sub" -> {a - b}
    [] f = "mul" -> {a * b}
    [] f = "sdiv" -> IF b = 0 THEN {} ELSE {TDiv(a, b)}
    [] f = "srem" -> IF b = 0 THEN {} ELSE {TRem(a, b)}
    [] f = "udiv" -> IF b <= 0 \/ a < 0 THEN {} ELSE {a \div b}
    [] f = "urem" -> IF b <= 0 \/ a < 0 THEN {} ELSE {a % b}
BitwVal(f, a, b) ==
  CASE f \in {"and", "or", "xor"} -> IF Abs(a) < 128 /\ Abs(b) < 128 THEN {Bitwise(f, a, b)} ELSE {}
    [] f = "shl"  -> IF b < 0 \/ b > 6 THEN {} ELSE {a * Pow2(b)}
    [] f = "ashr" -> IF b < 0 \/ b > 6 THEN {} ELSE {a \div Pow2(b)}      \* floor
    [] f = "lshr" -> IF b < 0 \/ b > 6 \/ a < 0 THEN {} ELSE {a \div Pow2(b)}

InU(n, U) == -U <= n /\ n <= U
Upd(s, x, n) == [s EXCEPT ![x] = n]
Set1(s, x, ns, U) == {Upd(s, x, n) : n \in {m \in ns : InU(m, U)}}

BoolVal(f, a, b) ==
  CASE f = "and" -> a * b
    [] f = "or"  -> IF a + b > 0 THEN 1 ELSE 0
    [] OTHER     -> (a + b) % 2

UNW == 99   \* content of a never-written array cell (outside every universe used)
(* 1-based cell number of byte offset idx for element size es in an array of n cells; 0 = invalid access *)
CellOf(idx, es, n) == IF idx >= 0 /\ idx % es = 0 /\ idx \div es < n THEN idx \div es + 1 ELSE 0

-------------------------------------------------------------------------
(* ---- regions and references (C15) ------------------------------------------------------------------
   Memory model (region_domain.hpp header, VSTTE'21): memory is a set of cells with addresses 1..NADDR; 0 is null.
   Addresses are abstract units: an object of size n occupies n consecutive addresses, gep_ref with offset k moves k
   units and must stay inside the object (otherwise: outside the model).  Memory is PARTITIONED into regions: every
   address belongs to one region class, fixed when the object is allocated (field "cls" of mkref = class of each cell
   of the object; a struct whose fields live in different regions).  Several region VARIABLES may have the same class
   (region_copy creates another version of the same part of memory).
     reference variable : an address, 0 = null, UND = never assigned (using it = outside the model)
     region variable    : tuple of 2*NADDR integers: [a] content of the cell at address a as seen by this region
                          variable (UNW = never written), [NADDR+a] tag mask of that content (bit 1 = tag 1, bit 2 = tag 2)
     the LAST component of the state is the allocator bookkeeping h:
       h[1] next unused address (addresses are never reused, so distinct allocations get distinct addresses)
       h[2][a] allocation site   h[3][a] 1 = allocated and not freed   h[4][a] region class
       h[5][a] offset of a inside its object                           h[6][a] size of its object
   Dereferencing null, a freed or foreign (wrong class) address, and loading a never-written cell have no successor.
   Tags: weakest reading of the tag analysis - add_tag tags the content of one cell, a store replaces the content and
   thereby clears the cell's tags (the real analysis also lets tags flow through scalar variables; every tag of this
   semantics is also a tag of that one), region_copy copies them. *)
NADDR == 8
UND == -77   \* outside every universe, never the value of an integer variable
HeapOf(s) == s[Len(s)]
EmptyRegion == [k \in 1..(2 * NADDR) |-> IF k <= NADDR THEN UNW ELSE 0]
EmptyHeap == <<1, [k \in 1..NADDR |-> 0], [k \in 1..NADDR |-> 0], [k \in 1..NADDR |-> 0], [k \in 1..NADDR |-> 0], [k \in 1..NADDR |-> 0]>>
IsAddr(a) == 1 <= a /\ a <= NADDR
(* a may be dereferenced through a region of class c *)
Deref(s, a, c) == IsAddr(a) /\ HeapOf(s)[3][a] = 1 /\ HeapOf(s)[4][a] = c
Or2(m, n) == LET b1 == IF m % 2 = 1 \/ n % 2 = 1 THEN 1 ELSE 0
                 b2 == IF (m \div 2) % 2 = 1 \/ (n \div 2) % 2 = 1 THEN 2 ELSE 0
             IN b1 + b2
(* reference constraints RC = [k |-> "eq"|"ne"|"lt"|"le"|"gt"|"ge", p |-> var, q |-> var or 0 (= null), off |-> n]: p k q + off *)
RefDefined(c, s) == s[c.p] # UND /\ (c.q = 0 \/ s[c.q] # UND)
HoldsRef(c, s) ==
  LET a == s[c.p]
      b == IF c.q = 0 THEN 0 ELSE s[c.q] + c.off
  IN CASE c.k = "eq" -> a = b
       [] c.k = "ne" -> a # b
       [] c.k = "lt" -> a < b
       [] c.k = "le" -> a <= b
       [] c.k = "gt" -> a > b
       [] OTHER      -> a >= b
(* allocation of an object of st.sz cells at the next unused addresses *)
Alloc(st, s) ==
  LET h == HeapOf(s)
      a == h[1]
      n == st.sz
      In(k) == a <= k /\ k < a + n
      h2 == <<a + n,
              [k \in 1..NADDR |-> IF In(k) THEN st.site ELSE h[2][k]],
              [k \in 1..NADDR |-> IF In(k) THEN 1 ELSE h[3][k]],
              [k \in 1..NADDR |-> IF In(k) THEN st.cls[k - a + 1] ELSE h[4][k]],
              [k \in 1..NADDR |-> IF In(k) THEN k - a ELSE h[5][k]],
              [k \in 1..NADDR |-> IF In(k) THEN n ELSE h[6][k]]>>
  IN IF a + n - 1 > NADDR THEN {} ELSE {[s EXCEPT ![st.x] = a, ![Len(s)] = h2]}
(* free of the object whose base address is a *)
Free(s, a) ==
  LET h == HeapOf(s)
      h2 == [h EXCEPT ![3] = [k \in 1..NADDR |-> IF a <= k /\ k < a + h[6][a] THEN 0 ELSE h[3][k]]]
  IN [s EXCEPT ![Len(s)] = h2]
StoreCell(s, r, a, v) == [s EXCEPT ![r] = [k \in 1..(2 * NADDR) |-> IF k = a THEN v ELSE IF k = NADDR + a THEN 0 ELSE s[r][k]]]

Succ(st, s, U, Hv(_)) ==
  CASE st.op = "assign"  -> Set1(s, st.x, {EvalLE(st.e, s)}, U)
    [] st.op = "arith"   -> Set1(s, st.x, ArithVal(st.f, s[st.y], Opnd(st, s)), U)
    [] st.op = "bitw"    -> Set1(s, st.x, BitwVal(st.f, s[st.y], Opnd(st, s)), U)
    [] st.op = "assume"  -> IF Holds(st.c, s) THEN {s} ELSE {}
    [] st.op = "assert"  -> IF Holds(st.c, s) THEN {s} ELSE {}
    [] st.op = "havoc"   -> {Upd(s, st.x, n) : n \in Hv(st.x)}
    [] st.op = "select"  -> Set1(s, st.x, {IF Holds(st.c, s) THEN EvalLE(st.e1, s) ELSE EvalLE(st.e2, s)}, U)
    [] st.op = "unreach" -> {}
    [] st.op = "bassign_cst" -> {Upd(s, st.x, IF Holds(st.c, s) THEN 1 ELSE 0)}
    [] st.op = "bassign_var" -> {Upd(s, st.x, IF st.neg = 1 THEN 1 - s[st.y] ELSE s[st.y])}
    [] st.op = "bop"     -> {Upd(s, st.x, BoolVal(st.f, s[st.y], s[st.z]))}
    [] st.op = "bassume" -> IF s[st.x] = (IF st.neg = 1 THEN 0 ELSE 1) THEN {s} ELSE {}
    [] st.op = "bassert" -> IF s[st.x] = 1 THEN {s} ELSE {}
    [] st.op = "bselect" -> {Upd(s, st.x, IF s[st.c] = 1 THEN s[st.y] ELSE s[st.z])}
    [] st.op = "nop"     -> {s}
    \* ---- call of an EXTERNAL function in an intra-procedural analysis: the outputs (one or two) receive arbitrary values
    [] st.op = "callx"   -> IF Len(st.lhs) = 1 THEN {Upd(s, st.lhs[1], n) : n \in Hv(st.lhs[1])}
                            ELSE {Upd(Upd(s, st.lhs[1], n), st.lhs[2], m) : n \in Hv(st.lhs[1]), m \in Hv(st.lhs[2])}
    \* ---- integer conversions (zext / sext / trunc) under crab's mathematical-integer reading: the value is kept when it
    \* is representable on both sides; boolean -> integer by zext is 0/1; integer -> boolean by trunc is "non-zero is true"
    \* (flat_boolean_domain.hpp); sext of a boolean and zext of a negative integer have no agreed meaning: no successor
    \* (no claim).  st.sk / st.dk = "bool" | "int" are the kinds of source and destination, st.sw / st.dw their widths.
    [] st.op = "cast"    -> LET v == s[st.y]
                            IN IF st.sk = "bool" /\ st.dk = "int" THEN (IF st.f = "zext" THEN {Upd(s, st.x, v)} ELSE {})
                               ELSE IF st.sk = "int" /\ st.dk = "bool" THEN (IF st.f = "trunc" THEN {Upd(s, st.x, IF v # 0 THEN 1 ELSE 0)} ELSE {})
                               ELSE IF st.sk = "bool" THEN {}
                               ELSE IF st.f = "zext" /\ v < 0 THEN {}
                               ELSE IF Abs(v) >= Pow2(IF st.sw < st.dw THEN st.sw - 1 ELSE st.dw - 1) THEN {}    \* widths >= 8 only
                               ELSE Set1(s, st.x, {v}, U)
    \* ---- arrays: an array variable holds a tuple of cells; UNW marks a cell that was never written.
    \* Indices are byte offsets; all accesses of an array use one element size es (word-level assumption);
    \* a misaligned or out-of-range access and a read of an unwritten cell are outside the model (no successor).
    [] st.op = "ainit"   -> LET lb == EvalLE(st.lb, s)  ub == EvalLE(st.ub, s)  val == EvalLE(st.v, s)
                            IN IF ~InU(val, U) THEN {}
                               ELSE {Upd(s, st.a, [k \in DOMAIN s[st.a] |-> IF lb <= (k - 1) * st.es /\ (k - 1) * st.es <= ub THEN val ELSE UNW])}
    [] st.op = "astore"  -> LET c == CellOf(EvalLE(st.i, s), st.es, Len(s[st.a]))  val == EvalLE(st.v, s)
                            IN IF c = 0 \/ ~InU(val, U) THEN {} ELSE {Upd(s, st.a, [s[st.a] EXCEPT ![c] = val])}
    [] st.op = "astore_range" ->
                            LET lo == EvalLE(st.i, s)  hi == EvalLE(st.j, s)  val == EvalLE(st.v, s)
                            IN IF ~InU(val, U) \/ CellOf(lo, st.es, Len(s[st.a])) = 0 \/ CellOf(hi, st.es, Len(s[st.a])) = 0 THEN {}
                               ELSE {Upd(s, st.a, [k \in DOMAIN s[st.a] |-> IF lo <= (k - 1) * st.es /\ (k - 1) * st.es <= hi THEN val ELSE s[st.a][k]])}
    [] st.op = "aload"   -> LET c == CellOf(EvalLE(st.i, s), st.es, Len(s[st.a]))
                            IN IF c = 0 THEN {} ELSE IF s[st.a][c] = UNW THEN {} ELSE Set1(s, st.x, {s[st.a][c]}, U)
    [] st.op = "aassign" -> {Upd(s, st.a, s[st.b])}
    \* ---- regions and references (see the comment above NADDR)
    [] st.op = "rinit"   -> {Upd(s, st.r, EmptyRegion)}
    [] st.op = "rcopy"   -> {Upd(s, st.l, s[st.r])}
    [] st.op = "rcast"   -> {Upd(s, st.l, s[st.r])}
    [] st.op = "mkref"   -> Alloc(st, s)
    [] st.op = "rnull"   -> IF st.hv = 1 \/ s[st.x] = UND \/ s[st.x] = 0 THEN {Upd(s, st.x, 0)} ELSE {}
    [] st.op = "rmref"   -> LET a == s[st.x]
                            IN IF a = 0 THEN {s}
                               ELSE IF a # UND /\ Deref(s, a, st.cls) /\ HeapOf(s)[5][a] = 0 THEN {Free(s, a)} ELSE {}
    [] st.op = "rstore"  -> LET a == s[st.ref]
                                v == IF st.vk = 1 THEN st.v ELSE s[st.v]
                            IN IF a = UND \/ ~Deref(s, a, st.cls) \/ v = UND \/ ~InU(v, U) THEN {} ELSE {StoreCell(s, st.r, a, v)}
    [] st.op = "rload"   -> LET a == s[st.ref]
                            IN IF a = UND \/ ~Deref(s, a, st.cls) THEN {}
                               ELSE IF s[st.r][a] = UNW THEN {} ELSE {Upd(s, st.x, s[st.r][a])}
    [] st.op = "gep"     -> LET y == s[st.y]
                                o == EvalLE(st.off, s)
                                h == HeapOf(s)
                            IN IF y = UND THEN {}
                               ELSE IF y = 0 THEN (IF o = 0 THEN {Upd(s, st.x, 0)} ELSE {})
                               ELSE IF ~Deref(s, y, st.ycls) \/ h[5][y] + o < 0 \/ h[5][y] + o >= h[6][y] THEN {}
                               ELSE IF h[4][y + o] # st.cls THEN {} ELSE {Upd(s, st.x, y + o)}
    [] st.op = "rassume" -> IF RefDefined(st.c, s) /\ HoldsRef(st.c, s) THEN {s} ELSE {}
    [] st.op = "rassert" -> IF RefDefined(st.c, s) /\ HoldsRef(st.c, s) THEN {s} ELSE {}
    [] st.op = "bassign_ref" -> IF RefDefined(st.c, s) THEN {Upd(s, st.x, IF HoldsRef(st.c, s) THEN 1 ELSE 0)} ELSE {}
    [] st.op = "rselect" -> LET v == IF s[st.c] = 1 THEN (IF st.y = 0 THEN 0 ELSE s[st.y]) ELSE (IF st.z = 0 THEN 0 ELSE s[st.z])
                            IN IF v = UND THEN {} ELSE IF v # 0 /\ ~Deref(s, v, st.cls) THEN {} ELSE {Upd(s, st.x, v)}
    [] st.op = "r2i"     -> IF s[st.ref] = UND THEN {} ELSE Set1(s, st.x, {s[st.ref]}, U)
    [] st.op = "i2r"     -> IF s[st.y] = 0 THEN {Upd(s, st.x, 0)}
                            ELSE IF Deref(s, s[st.y], st.cls) THEN {Upd(s, st.x, s[st.y])} ELSE {}
    \* intrinsics of the region domain
    [] st.op = "addtag"  -> LET a == s[st.ref]
                            IN IF a = UND \/ ~Deref(s, a, st.cls) \/ s[st.r][a] = UNW THEN {}
                               ELSE {Upd(s, st.r, [s[st.r] EXCEPT ![NADDR + a] = Or2(@, st.tag)])}
    [] st.op = "isderef" -> LET a == s[st.ref]
                            IN IF a = UND \/ (a # 0 /\ ~Deref(s, a, st.cls)) THEN {}
                               ELSE {Upd(s, st.x, IF a # 0 /\ HeapOf(s)[5][a] + st.n <= HeapOf(s)[6][a] THEN 1 ELSE 0)}
    [] st.op = "isunfreed" -> LET a == s[st.ref]
                              IN IF a = UND \/ (a # 0 /\ (~IsAddr(a) \/ HeapOf(s)[4][a] # st.cls)) THEN {}
                                 ELSE {Upd(s, st.x, IF a = 0 \/ HeapOf(s)[3][a] = 1 THEN 1 ELSE 0)}

SuccSet(st, S, U, Hv(_)) == UNION {Succ(st, s, U, Hv) : s \in S}
=========================================================================
