"""Shared driver of the DomainOps trace validation (C03, C04, C05-chains, C16).
histories -> real domains (harness/dom_replay) -> observations -> TLC (spec/DomainOps.tla)."""
import json, os, collections
import vlib, hist
from vlib import tlc, workdir

ALL_DOMAINS = None


def all_domains():
    global ALL_DOMAINS
    if ALL_DOMAINS is None:
        rc, out = vlib.sh([os.path.join(vlib.BUILD, "bin", "dom_replay"), "--list"], check=True)
        ALL_DOMAINS = out.split()
    return ALL_DOMAINS

# which property a failing judgement belongs to (the codes partition all failures)
def attribute(why, step):
    op = step["op"]
    if why in ("other-register-changed", "stutter-changed-meaning", "differs-from-paired-replay", "twin-copies-differ") or op in ("copy", "normalize", "minimize", "query"):
        # copies and the stuttering operations (C16: "read-only queries or explicit normalisation/minimisation never change
        # what a value describes"): any judgement that fails at such a step belongs to C16
        return "C16"
    if op in ("widen", "widenjoin", "narrow"):
        return "C05"
    if op in ("join", "meet", "leq", "top", "bottom", "isbot", "istop"):
        return "C04"
    return "C03"


def run_batch(ck, label, histories, domains, box=2, univ=12, timeout=1500, step_timeout=20):
    """returns list of failures: dict(trace, step, dom, why, witness, property)"""
    wd = workdir(ck.pid.lower() + "-" + label)
    hp, op_, tp, kp = [os.path.join(wd, x) for x in ("h.ndjson", "o.ndjson", "traces.ndjson", "known.json")]
    vlib.write_ndjson(hp, histories)
    rc, out = vlib.sh([os.path.join(vlib.BUILD, "bin", "dom_replay"), hp, op_] + list(domains), timeout=3000,
                      env={"VH_STEP_TIMEOUT": step_timeout})
    if rc != 0:
        raise vlib.Broken("dom_replay failed (%d): %s" % (rc, out[-2000:]))
    recs = vlib.read_ndjson(op_)
    traces = hist.merge(histories, recs)
    vlib.write_ndjson(tp, traces)
    vlib.write_known_for_spec(kp)
    r = tlc("DomainOps", "DomainOps", ck.pid.lower() + "-" + label,
            env={"DOM_TRACES": tp, "KNOWN_FINDINGS": kp, "BOX": box, "UNIV": univ},
            # deep traces: TLC stops at the first UNLISTED failing step (reconstructing thousands of error traces
            # under -continue takes tens of minutes); steps matching a known finding never stop it
            cont=os.environ.get("VERIF_TLC_CONTINUE") == "1", timeout=timeout)
    ck.add_tlc(r, "DomainOps/" + label)
    errs = collections.Counter((x["dom"], x["err"]) for x in recs if "err" in x)
    ok_traces = sum(1 for x in recs if "err" not in x)
    ck.cov["traces_validated_against_impl"] += ok_traces
    ck.cov["evaluations"] += ok_traces
    ck.cov.setdefault("harness_no_claim", {})
    for (d, e), n in errs.items():
        ck.cov["harness_no_claim"]["%s:%s" % (d, e)] = ck.cov["harness_no_claim"].get("%s:%s" % (d, e), 0) + n
    byid = {h["id"]: h for h in histories}
    fails, seen = [], set()
    for f in r.tuples("FAIL"):
        key = json.dumps(f[:4])
        if key in seen:
            continue
        seen.add(key)
        tid, step, dom, why = f[:4]
        st = byid[tid]["steps"][step - 1]
        fails.append({"trace": tid, "step": step, "dom": dom, "why": why, "witness": f[4] if len(f) > 4 else None,
                      "property": attribute(why, st), "history": byid[tid]})
    # C16: a type-erased wrapper (ref_<domain>) that fails a step which its unwrapped domain passes does not describe
    # "exactly what the unwrapped domain describes": such a failure belongs to C16 whatever the operation is
    failed = {(f["trace"], f["step"], f["dom"]) for f in fails}
    for f in fails:
        if f["dom"].startswith("ref_") and f["dom"][4:] in domains and (f["trace"], f["step"], f["dom"][4:]) not in failed:
            f["property"] = "C16"
    knowns, seenk = [], set()
    for f in r.tuples("KNOWN"):
        key = json.dumps(f[:5])
        if key in seenk:
            continue
        seenk.add(key)
        kid, tid, step, dom, why = f[:5]
        st = byid[tid]["steps"][step - 1]
        knowns.append({"id": kid, "trace": tid, "step": step, "dom": dom, "why": why, "property": attribute(why, st),
                       "op": st})
    if r.is_violation and not fails:
        raise vlib.Broken("TLC reported a violation but no FAIL record was printed:\n" + r.out[-3000:])
    return fails, knowns, traces


def confirm(ck, f, box, univ):
    """re-run the failing history alone on the failing domain; True if the failure repeats"""
    h = dict(f["history"])
    h["steps"] = h["steps"][: f["step"]]
    dom = f["dom"]
    doms = [dom]
    if f["why"] == "differs-from-paired-replay":
        base = dom[:-2] if dom.endswith("#s") else dom[4:] if dom.startswith("ref_") else dom
        doms = [base, dom]
    sub = vlib.Check(ck.pid, ck.tier, ck.seed)
    fails, _, _ = run_batch(sub, "confirm", [h], doms, box=box, univ=univ, timeout=600)
    return any(x["dom"] == dom and x["step"] == f["step"] for x in fails)


def report(ck, fails, knowns, box, univ, max_reports=8):
    mine = [f for f in fails if f["property"] == ck.pid]
    other = collections.Counter(f["property"] for f in fails if f["property"] != ck.pid)
    if other:
        ck.cov["failures_attributed_to_other_properties"] = dict(other)
        vlib.log("NOTE: %s failing step(s) belong to other properties' checks: %s" % (sum(other.values()), dict(other)))
    for k in knowns:
        if k["property"] == ck.pid:
            ck.known(k["id"], {"domain": k["dom"], "step": k["op"], "judgement": k["why"]})
    # one report per (domain, judgement, operation)
    groups = collections.OrderedDict()
    for f in sorted(mine, key=lambda x: x["step"]):
        st = f["history"]["steps"][f["step"] - 1]
        key = (f["dom"], f["why"], st["op"], st.get("s", {}).get("op"), st.get("s", {}).get("f"))
        groups.setdefault(key, []).append(f)
    n = 0
    for key, fs in groups.items():
        if n >= max_reports:
            break
        f = fs[0]
        if not confirm(ck, f, box, univ):
            vlib.log("NOTE: failure %s did not repeat in isolation; not reported" % (key,))
            continue
        h = dict(f["history"])
        h["steps"] = h["steps"][: f["step"]]
        ck.violation("domain %s: %s at step %d (%s) of history %d; witness state %s; %d similar case(s)" %
                     (f["dom"], f["why"], f["step"], json.dumps(h["steps"][-1]), f["trace"], f["witness"], len(fs)),
                     {"domain": f["dom"], "judgement": f["why"], "witness": f["witness"], "history": h})
        n += 1
