--------------------------- MODULE ProgSoundBV ---------------------------
(* C13 (second half): programs under MACHINE-INTEGER semantics for the wrapped-interval domain.
   Same structure as ProgSound, but every integer variable is a w-bit word read as a signed number in
   -2^(w-1) .. 2^(w-1)-1 and every arithmetic result wraps around modulo 2^w (including across the signed
   and unsigned overflow boundaries).  Conditions are single-variable comparisons with constants (signed
   reading), so that no intermediate expression can overflow.  The invariants reported by the real
   intra_fwd_analyzer over wrapped_interval_domain must contain every state of every execution:
   at(v) is the signed interval (or top when the wrapped interval crosses the signed limit). *)
EXTENDS Gamma, TLC, Json, IOUtils

Progs == ndJsonDeserialize(IOEnv.PROGRAMS)
Excluded == JsonDeserialize(IOEnv.EXCLUDED)

VARIABLES p, b, i, s
vars == <<p, b, i, s>>
P == Progs[p]
W == P.bv
Half == Pow2(W - 1)
Word == (-Half)..(Half - 1)
Wrap(n) == ((n + Half) % (2 * Half)) - Half
Stmts == P.blocks[b].stmts
AtExit == i = Len(Stmts) + 1

WordOf(pp) == LET h == Pow2(Progs[pp].bv - 1) IN (-h)..(h - 1)
Init == /\ p \in DOMAIN Progs
        /\ b = Progs[p].entry
        /\ i = 1
        /\ s \in {q \in [1..Progs[p].nv -> WordOf(p)] : AllHold(Progs[p].init, q)}

(* machine semantics of the statements used by the generator (tools/checks/c13.py bv programs) *)
SuccBV(st) ==
  CASE st.op = "assign" -> {Upd(s, st.x, Wrap(EvalLE(st.e, s)))}
    [] st.op = "arith" /\ st.f \in {"add", "sub", "mul"} ->
          {Upd(s, st.x, Wrap(CHOOSE v \in ArithVal(st.f, s[st.y], Opnd(st, s)) : TRUE))}
    [] st.op \in {"assume", "assert"} -> IF Holds(st.c, s) THEN {s} ELSE {}
    [] st.op = "havoc" -> {Upd(s, st.x, n) : n \in Word}
    [] st.op = "select" -> {Upd(s, st.x, Wrap(IF Holds(st.c, s) THEN EvalLE(st.e1, s) ELSE EvalLE(st.e2, s)))}
    [] st.op = "nop" -> {s}

ExecStmt == /\ ~AtExit
            /\ s' \in SuccBV(Stmts[i])
            /\ i' = i + 1
            /\ UNCHANGED <<p, b>>
Goto == /\ AtExit
        /\ \E k \in DOMAIN P.blocks[b].succ : b' = P.blocks[b].succ[k]
        /\ i' = 1
        /\ UNCHANGED <<p, s>>
Next == ExecStmt \/ Goto
Spec == Init /\ [][Next]_vars

IsExcluded(r) == \E k \in DOMAIN Excluded : Excluded[k][1] = P.id /\ Excluded[k][2] = r
Judged == {r \in DOMAIN P.runs : P.runs[r].err = 0 /\ ~IsExcluded(r)}
InvOK(r) ==
  /\ (i = 1 => InGamma(s, P.runs[r].pre[b]))
  /\ (AtExit => InGamma(s, P.runs[r].post[b]))
Verdicts(r, id) == {P.runs[r].checks[k].res : k \in {q \in DOMAIN P.runs[r].checks : P.runs[r].checks[q].id = id}}
CheckOK(r) ==
  IF AtExit \/ Stmts[i].op # "assert" THEN TRUE
  ELSE LET v == Verdicts(r, Stmts[i].id)
       IN "unreach" \notin v /\ ("safe" \in v => Holds(Stmts[i].c, s))
FailingInv == {r \in Judged : ~InvOK(r)}
FailingCheck == {r \in Judged : ~CheckOK(r)}
InvariantsSound == FailingInv = {}
VerdictsSound == FailingCheck = {}
Compact == [prog |-> P.id, block |-> b, idx |-> i, state |-> s,
            bad_invariant |-> {<<r, P.runs[r].dom>> : r \in FailingInv},
            bad_verdict |-> {<<r, P.runs[r].dom>> : r \in FailingCheck}]
===========================================================================
