"""C01 Forward analysis invariants over-approximate every concrete execution."""
import json
import vlib, proggen
from vlib import Check, build
from checks import progsound

PID = "C01"


def gen_programs(ck, n, doms, asserts):
    ps = []
    for i in range(n):
        p = proggen.program(ck.rng, i + 1, asserts=asserts)
        p["runs"] = [progsound.run_config(ck.rng, d) for d in doms]
        ps.append(p)
    return ps


def nontrivial(merged):
    n = 0
    for p in merged:
        multi = proggen.has_loop(p) or any(len(b["succ"]) >= 2 for b in p["blocks"])
        if not multi:
            continue
        for r in p["runs"]:
            if r["err"] == 0 and any(o["bot"] == 0 and o["top"] == 0 for o in r["pre"]):
                n += 1
    return n


def run_generic(pid, tier, seed, asserts, which):
    ck = Check(pid, tier, seed)
    build("prog_runner")
    doms = progsound.all_domains()
    n = 120 if tier == "quick" else 2500
    chunk = 250
    done = 0
    k = 0
    while done < n:
        m = min(chunk, n - done)
        ps = gen_programs(ck, m, doms, asserts)
        for p in ps:
            p["id"] += done
        if k == 0 and which == "inv":      # fixed regression programs (minimised replays of earlier findings, with their own configurations)
            import os
            rd = os.path.join(vlib.ROOT, "tools", "regress")
            for j, f in enumerate(sorted(os.listdir(rd))):
                if f.startswith("c01_"):
                    q = json.load(open(os.path.join(rd, f)))
                    q = dict(q.get("case", q).get("program", q))
                    q["id"] = 900000 + j
                    ps.append(q)
        viols, merged, timeouts = progsound.explore(ck, "b%d" % k, ps)
        ck.cov["distinct_nontrivial"] += nontrivial(merged)
        if k == 0:
            ck.sample({"program": {x: ps[0][x] for x in ("id", "shape", "entry", "exit", "blocks", "init")},
                       "run_configs": ps[0]["runs"][:3]})
        for v in viols:
            mine = v["bad_invariant"] if which == "inv" else v["bad_verdict"]
            other = v["bad_verdict"] if which == "inv" else v["bad_invariant"]
            if other and not mine:
                vlib.log("NOTE: program %d violates %s for %s (reported by that property's check)" %
                         (v["prog"], "C02" if which == "inv" else "C01", other))
            for run, dom in mine[:3]:
                cfg = v["program"]["runs"][run - 1]
                desc = ("%s: domain %s (config %s) %s at block b%d idx %d; concrete state %s is reached by the execution %s" %
                        (pid, dom, json.dumps(cfg), "invariant does not contain a reachable state" if which == "inv"
                         else "assertion verdict contradicted", v["block"], v["idx"], v["state"], v["execution"][-12:]))
                prog = dict(v["program"])
                prog["runs"] = [cfg]
                ck.violation(desc, {"program": prog, "execution": v["execution"], "state": v["state"]})
        done += m
        k += 1
    ck.cov["programs"] = n
    ck.cov["domains"] = doms
    ck.cov["rule"] = ("seeded random CrabIR programs (chains, diamonds, loops, nested / irreducible loops, self loops, loop at the "
                      "entry block, unreachable blocks, random graphs; all statement kinds of spec/CrabIR) x every domain x a "
                      "random fixpoint/domain parameter setting; every concrete execution from every box state satisfying the "
                      "initial constraints is explored by TLC. non-trivial = (program with a loop or >= 2 paths, run) whose "
                      "invariant at some block is neither top nor bottom")
    ck.assumptions += ["integer variables range over -2..2 initially and after havoc; executions leaving -12..12 are not followed",
                       "runs in which the real code calls CRAB_ERROR or times out give no claim (harness_no_claim)",
                       "apron/elina/ldd/pplite domains are not available offline"]
    return ck.finish()


def run(tier, seed):
    return run_generic(PID, tier, seed, asserts=False, which="inv")


def replay(path):
    case = json.load(open(path))["case"]
    ck = Check(PID, "quick", 0)
    build("prog_runner")
    viols, _, _ = progsound.explore(ck, "replay", [case["program"]])
    for v in viols:
        ck.violation("replayed: %s" % v["violated"], case)
    return ck.finish()
