SPECIFICATION Spec
INVARIANT InvariantsSound
INVARIANT VerdictsSound
CHECK_DEADLOCK FALSE
ALIAS Compact
