"""C04 The inclusion test and the lattice operations agree with concretisation (DomainOps, lattice-heavy histories)."""
from checks import c03

PID = "C04"


def run(tier, seed):
    return c03.run_generic(PID, "c04", tier, seed + 1000,
                           rule=c03.RULE + "; C04 profile: 38% lattice operations (join/meet/copy/top/bottom), 25% queries (leq/is_bottom/is_top)")


def replay(path):
    return c03.replay(path)
