// Shared adaptor code: CrabIR language typedefs, JSON -> crab objects
// (variables, linear expressions/constraints, CFGs) and the observation
// (projection) function obs() that exports an abstract value as JSON.
// There is no oracle in here.
#pragma once
#include "vjson.hpp"

#include <crab/cfg/basic_block_traits.hpp>
#include <crab/cfg/cfg.hpp>
#include <crab/cg/cg.hpp>
#include <crab/config.h>
#include <crab/domains/abstract_domain_params.hpp>
#include <crab/support/debug.hpp>
#include <crab/types/tag.hpp>
#include <crab/types/varname_factory.hpp>

#include <sstream>

namespace crab {
namespace cfg_impl {
using variable_factory_t = var_factory_impl::str_variable_factory;
using varname_t = typename variable_factory_t::varname_t;
using basic_block_label_t = std::string;
using z_cfg_t = cfg::cfg<basic_block_label_t, varname_t, ikos::z_number>;
using z_cfg_ref_t = cfg::cfg_ref<z_cfg_t>;
using z_cfg_rev_t = cfg::cfg_rev<z_cfg_ref_t>;
using z_basic_block_t = z_cfg_t::basic_block_t;
using z_var = variable<ikos::z_number, varname_t>;
using z_var_or_cst_t = variable_or_constant<ikos::z_number, varname_t>;
using z_lin_exp_t = ikos::linear_expression<ikos::z_number, varname_t>;
using z_lin_cst_t = ikos::linear_constraint<ikos::z_number, varname_t>;
using z_lin_cst_sys_t = ikos::linear_constraint_system<ikos::z_number, varname_t>;
using z_ref_cst_t = reference_constraint<ikos::z_number, varname_t>;
} // namespace cfg_impl
namespace cg_impl {
using z_cg_t = cg::call_graph<cfg_impl::z_cfg_ref_t>;
using z_cg_ref_t = cg::call_graph_ref<z_cg_t>;
} // namespace cg_impl
template <> class variable_name_traits<std::string> {
public:
  static std::string to_string(std::string varname) { return varname; }
};
template <> class basic_block_traits<cfg_impl::z_basic_block_t> {
public:
  using bb_label_t = typename cfg_impl::z_basic_block_t::basic_block_label_t;
  static std::string to_string(const bb_label_t &bbl) { return bbl; }
};
} // namespace crab

namespace vh {
using namespace crab::cfg_impl;
using ikos::z_number;

// ---- variables -----------------------------------------------------------
struct VarTab {
  variable_factory_t *vfac;
  std::vector<z_var> vars; // index 0 unused
  std::vector<std::string> types;
  std::map<std::string, int> index;
  explicit VarTab(variable_factory_t &f) : vfac(&f) {}
  // decl: [{"n":"x","t":"int"|"bool"|"arr"|"rgn"|"ref","w":32}, ...]
  void declare(const vj::Value &decl) {
    vars.clear();
    types.clear();
    index.clear();
    z_var dummy((*vfac)["__dummy"], crab::INT_TYPE, 32);
    vars.push_back(dummy);
    types.push_back("");
    for (size_t i = 0; i < decl.size(); ++i) {
      const vj::Value &d = decl[i];
      std::string n = d["n"].str(), t = d.gets("t", "int");
      unsigned w = d.geti("w", 32);
      crab::variable_type ty(crab::INT_TYPE, w);
      if (t == "bool") ty = crab::variable_type(crab::BOOL_TYPE, 1);
      else if (t == "arr") ty = crab::variable_type(crab::ARR_INT_TYPE, 0);
      else if (t == "barr") ty = crab::variable_type(crab::ARR_BOOL_TYPE, 0);
      else if (t == "rgn") ty = crab::variable_type(crab::REG_INT_TYPE, w);
      else if (t == "brgn") ty = crab::variable_type(crab::REG_BOOL_TYPE, 1);
      else if (t == "rrgn") ty = crab::variable_type(crab::REG_REF_TYPE, w);
      else if (t == "urgn") ty = crab::variable_type(crab::REG_UNKNOWN_TYPE, 0);
      else if (t == "ref") ty = crab::variable_type(crab::REF_TYPE, w);
      vars.push_back(z_var((*vfac)[n], ty));
      types.push_back(t);
      index[n] = (int)i + 1;
    }
  }
  const z_var &v(long i) const { return vars.at(i); }
  size_t n() const { return vars.size() - 1; }
  int find(const z_var &x) const {
    auto it = index.find(x.name().str());
    return it == index.end() ? 0 : it->second;
  }
};

inline z_number num(const vj::Value &v) { return z_number(v.s); }

// LE = {"k":c,"t":[[coef,var],...]}
inline z_lin_exp_t lin_exp(const vj::Value &e, const VarTab &vt) {
  z_lin_exp_t r(num(e["k"]));
  const vj::Value &t = e["t"];
  for (size_t i = 0; i < t.size(); ++i) r = r + z_lin_exp_t(num(t[i][0]), vt.v(t[i][1].i()));
  return r;
}
// CST = {"e":LE,"r":"le"|"lt"|"eq"|"ne"}   meaning  e r 0
inline z_lin_cst_t lin_cst(const vj::Value &c, const VarTab &vt) {
  z_lin_exp_t e = lin_exp(c["e"], vt);
  const std::string &r = c["r"].str();
  z_lin_cst_t::kind_t k = z_lin_cst_t::INEQUALITY;
  if (r == "lt") k = z_lin_cst_t::STRICT_INEQUALITY;
  else if (r == "eq") k = z_lin_cst_t::EQUALITY;
  else if (r == "ne") k = z_lin_cst_t::DISEQUATION;
  return z_lin_cst_t(e, k);
}

// ---- export --------------------------------------------------------------
// Numbers leave as plain JSON integers when they fit TLC's 32-bit integers with
// head-room; otherwise the exporter weakens (never strengthens) what it emits.
static const long BIGK = 1L << 30;  // constants
static const long BIGC = 1L << 20;  // coefficients

inline bool fits(const z_number &n, long lim) { return n >= z_number(-lim) && n <= z_number(lim); }

// returns false if the constraint cannot be exported (caller drops it: weaker)
inline bool emit_cst(std::ostream &o, const z_lin_cst_t &c, const VarTab &vt) {
  std::ostringstream s;
  const z_lin_exp_t &e = c.expression();
  if (!fits(e.constant(), BIGK)) return false;
  s << "{\"e\":{\"k\":" << e.constant().get_str() << ",\"t\":[";
  bool first = true;
  for (auto it = e.begin(); it != e.end(); ++it) {
    int idx = vt.find(it->second);
    if (!idx || !fits(it->first, BIGC)) return false;
    // only integer/boolean scalars have a value in the concrete states of the specs: a constraint that mentions the
    // ghost variable of a region (region_domain) is dropped (weaker)
    if (vt.types[idx] != "int" && vt.types[idx] != "bool") return false;
    s << (first ? "" : ",") << "[" << it->first.get_str() << "," << idx << "]";
    first = false;
  }
  const char *r = c.is_inequality() ? "le" : c.is_strict_inequality() ? "lt" : c.is_equality() ? "eq" : "ne";
  s << "]},\"r\":\"" << r << "\"}";
  o << s.str();
  return true;
}

inline void emit_csts(std::ostream &o, const z_lin_cst_sys_t &sys, const VarTab &vt, long &dropped) {
  o << "[";
  bool first = true;
  for (auto it = sys.begin(); it != sys.end(); ++it) {
    std::ostringstream s;
    if (emit_cst(s, *it, vt)) {
      o << (first ? "" : ",") << s.str();
      first = false;
    } else
      ++dropped;
  }
  o << "]";
}

template <typename Itv> inline void emit_itv(std::ostream &o, const Itv &i) {
  // [haslb, lb, hasub, ub]; bottom interval is [1,1,1,0]
  if (i.is_bottom()) {
    o << "[1,1,1,0]";
    return;
  }
  auto lb = i.lb(), ub = i.ub();
  o << "[";
  if (lb.is_finite() && *(lb.number()) >= z_number(-BIGK)) {
    z_number n = *(lb.number());
    if (n > z_number(BIGK)) n = z_number(BIGK); // weaker, still excludes every small box
    o << "1," << n.get_str();
  } else
    o << "0,0";
  o << ",";
  if (ub.is_finite() && *(ub.number()) <= z_number(BIGK)) {
    z_number n = *(ub.number());
    if (n < z_number(-BIGK)) n = z_number(-BIGK);
    o << "1," << n.get_str();
  } else
    o << "0,0";
  o << "]";
}

// obs(a): the projection of an abstract value. `qvars` = indices of the
// variables whose interval is queried (integer/boolean scalars).
template <typename D>
inline void emit_obs(std::ostream &o, const D &a, const VarTab &vt, const std::vector<int> &qvars, bool with_disj = true) {
  long dropped = 0;
  bool bot = a.is_bottom();
  o << "{\"bot\":" << (bot ? 1 : 0) << ",\"top\":" << (a.is_top() ? 1 : 0) << ",\"itv\":[";
  for (size_t k = 0; k < qvars.size(); ++k) {
    o << (k ? "," : "");
    if (bot)
      o << "[1,1,1,0]";
    else
      emit_itv(o, a.at(vt.v(qvars[k])));
  }
  o << "],\"csts\":";
  if (bot)
    o << "[]";
  else {
    z_lin_cst_sys_t sys = a.to_linear_constraint_system();
    if (sys.is_false())
      o << "[{\"e\":{\"k\":1,\"t\":[]},\"r\":\"le\"}]";
    else
      emit_csts(o, sys, vt, dropped);
  }
  o << ",\"disj\":";
  if (bot || !with_disj)
    o << "[[]]";
  else {
    auto d = a.to_disjunctive_linear_constraint_system();
    if (d.is_false())
      o << "[]";
    else if (d.is_true())
      o << "[[]]";
    else {
      o << "[";
      bool first = true;
      for (auto it = d.begin(); it != d.end(); ++it) {
        o << (first ? "" : ",");
        first = false;
        if (it->is_false())
          o << "[{\"e\":{\"k\":1,\"t\":[]},\"r\":\"le\"}]";
        else
          emit_csts(o, *it, vt, dropped);
      }
      o << "]";
    }
  }
  o << ",\"dropped\":" << dropped << "}";
}

// ---- domain parameters ---------------------------------------------------
// params: {"zones.chrome_dijkstra":"false", ...}
inline void set_domain_params(const vj::Value &p) {
  if (!p.is_obj()) return;
  for (auto &kv : p.o) crab::domains::crab_domain_params_man::get().set_param(kv.first, kv.second.s);
}

} // namespace vh
