#include "domreg.hpp"
#include "domtypes.hpp"
#include <crab/domains/intervals.hpp>
#include <crab/domains/dis_intervals.hpp>
#include <crab/domains/term_equiv.hpp>
using namespace crab::domains;
using namespace vh;
typedef ikos::interval_domain<z_number, varname_t> intervals_t;
typedef dis_interval_domain<z_number, varname_t> dis_intervals_t;
typedef term_domain<term::TDomInfo<z_number, varname_t, intervals_t>> term_int_t;
typedef term_domain<term::TDomInfo<z_number, varname_t, dis_intervals_t>> term_dis_int_t;
VH_DOMREG(term_int, term_int_t)
VH_DOMREG(term_dis_int, term_dis_int_t)
