---- MODULE ProgSound_TTrace_1790367488 ----
EXTENDS ProgSound, Sequences, TLCExt, Toolbox, Naturals, TLC

_expression ==
    LET ProgSound_TEExpression == INSTANCE ProgSound_TEExpression
    IN ProgSound_TEExpression!expression
----

_trace ==
    LET ProgSound_TETrace == INSTANCE ProgSound_TETrace
    IN ProgSound_TETrace!trace
----

_inv ==
    ~(
        TLCGet("level") = Len(_TETrace)
        /\
        p = (1)
        /\
        b = (4)
        /\
        s = (<<-1, -2, 0, 1>>)
        /\
        i = (3)
    )
----

_init ==
    /\ b = _TETrace[1].b
    /\ i = _TETrace[1].i
    /\ p = _TETrace[1].p
    /\ s = _TETrace[1].s
----

_next ==
    /\ \E i,j \in DOMAIN _TETrace:
        /\ \/ /\ j = i + 1
              /\ i = TLCGet("level")
        /\ b  = _TETrace[i].b
        /\ b' = _TETrace[j].b
        /\ i  = _TETrace[i].i
        /\ i' = _TETrace[j].i
        /\ p  = _TETrace[i].p
        /\ p' = _TETrace[j].p
        /\ s  = _TETrace[i].s
        /\ s' = _TETrace[j].s

\* Uncomment the ASSUME below to write the states of the error trace
\* to the given file in Json format. Note that you can pass any tuple
\* to `JsonSerialize`. For example, a sub-sequence of _TETrace.
    \* ASSUME
    \*     LET J == INSTANCE Json
    \*         IN J!JsonSerialize("ProgSound_TTrace_1790367488.json", _TETrace)

=============================================================================

 Note that you can extract this module `ProgSound_TEExpression`
  to a dedicated file to reuse `expression` (the module in the 
  dedicated `ProgSound_TEExpression.tla` file takes precedence 
  over the module `ProgSound_TEExpression` below).

---- MODULE ProgSound_TEExpression ----
EXTENDS ProgSound, Sequences, TLCExt, Toolbox, Naturals, TLC

expression == 
    [
        \* To hide variables of the `ProgSound` spec from the error trace,
        \* remove the variables below.  The trace will be written in the order
        \* of the fields of this record.
        b |-> b
        ,i |-> i
        ,p |-> p
        ,s |-> s
        
        \* Put additional constant-, state-, and action-level expressions here:
        \* ,_stateNumber |-> _TEPosition
        \* ,_bUnchanged |-> b = b'
        
        \* Format the `b` variable as Json value.
        \* ,_bJson |->
        \*     LET J == INSTANCE Json
        \*     IN J!ToJson(b)
        
        \* Lastly, you may build expressions over arbitrary sets of states by
        \* leveraging the _TETrace operator.  For example, this is how to
        \* count the number of times a spec variable changed up to the current
        \* state in the trace.
        \* ,_bModCount |->
        \*     LET F[s \in DOMAIN _TETrace] ==
        \*         IF s = 1 THEN 0
        \*         ELSE IF _TETrace[s].b # _TETrace[s-1].b
        \*             THEN 1 + F[s-1] ELSE F[s-1]
        \*     IN F[_TEPosition - 1]
    ]

=============================================================================



Parsing and semantic processing can take forever if the trace below is long.
 In this case, it is advised to uncomment the module below to deserialize the
 trace from a generated binary file.

\*
\*---- MODULE ProgSound_TETrace ----
\*EXTENDS ProgSound, IOUtils, TLC
\*
\*trace == IODeserialize("ProgSound_TTrace_1790367488.bin", TRUE)
\*
\*=============================================================================
\*

---- MODULE ProgSound_TETrace ----
EXTENDS ProgSound, TLC

trace == 
    <<
    ([p |-> 1,b |-> 1,s |-> <<-2, -2, 0, 1>>,i |-> 1]),
    ([p |-> 1,b |-> 2,s |-> <<-2, -2, 0, 1>>,i |-> 1]),
    ([p |-> 1,b |-> 2,s |-> <<-2, 3, 0, 1>>,i |-> 2]),
    ([p |-> 1,b |-> 2,s |-> <<-2, 3, 0, 1>>,i |-> 3]),
    ([p |-> 1,b |-> 2,s |-> <<0, 3, 0, 1>>,i |-> 4]),
    ([p |-> 1,b |-> 4,s |-> <<0, 3, 0, 1>>,i |-> 1]),
    ([p |-> 1,b |-> 4,s |-> <<0, -2, 0, 1>>,i |-> 2]),
    ([p |-> 1,b |-> 4,s |-> <<-1, -2, 0, 1>>,i |-> 3])
    >>
----


=============================================================================

---- CONFIG ProgSound_TTrace_1790367488 ----

INVARIANT
    _inv

CHECK_DEADLOCK
    \* CHECK_DEADLOCK off because of PROPERTY or INVARIANT above.
    FALSE

INIT
    _init

NEXT
    _next

CONSTANT
    _TETrace <- _trace

ALIAS
    _expression
=============================================================================
\* Generated on Fri Sep 25 20:18:20 UTC 2026