--------------------------- MODULE Thresholds ---------------------------
(* C05 (widening with thresholds): crab::thresholds<Number> (include/crab/fixpoint/thresholds.hpp) as a state
   machine, and the interval widening with thresholds built on it (interval.hpp: widening_thresholds).

   State: the sorted vector of thresholds (-oo and +oo are the model values NEG and POS), the capacity `cap`.
   Actions: Add(v) exactly as the code does it (capacity test, duplicates dropped, a value adjacent to an existing
   threshold REPLACES it: "don't add consecutive thresholds").
   Queries: GetNext(v) = first threshold strictly above v, GetPrev(v) = last threshold strictly below v.

   Design-level invariants (checked by TLC on every reachable state of the machine, Thresholds.cfg):
     Shape       strictly sorted, first -oo, last +oo, 0 or a replacement of it ... (see below), length <= max(3, cap)
     NextPrevOK  GetNext(v) > v and no threshold lies strictly between; symmetrically for GetPrev
     WidenCovers [l,u] widen_ts [l2,u2] contains both intervals
     WidenRank   a chain  acc := acc widen_ts (acc join x)  has at most 2 * (Len(ts) - 1) strict increases
                 (every bound moves to a threshold that lies strictly further out)

   Binding (ThresholdsJudge.cfg, "judge pattern"): TLC's breadth-first search over this machine prints one history per
   reachable state (ThresholdsGen.cfg); harness/thr_runner.cpp replays every history on the real class and records
   the vector after every add and the answers of get_next / get_prev for every probe value; Judge compares each
   recorded step with the machine's step: equality of the vectors and of all answers. *)
EXTENDS Integers, Sequences, FiniteSets, TLC, Json, IOUtils

NEG == -1000
POS == 1000
K == atoi(IOEnv.THR_K)              \* values added / probed: -K..K
MaxLen == atoi(IOEnv.THR_MAXLEN)    \* adds per history
Vals == (-K)..K
Probes == Vals \cup {NEG, POS}
Caps == {2, 3, 4, 5, 99}

VARIABLES ts, cap, hist, r       \* r: index of the record being judged (judge configuration only)
vars == <<ts, cap, hist, r>>

\* index of the first element strictly greater than v (std::upper_bound); the last element is POS, so it exists for v < POS
UpperIdx(q, v) == CHOOSE i \in 1..(Len(q) + 1) : (i = Len(q) + 1 \/ q[i] > v) /\ \A j \in 1..(i - 1) : q[j] <= v
\* index of the first element >= v (std::lower_bound)
LowerIdx(q, v) == CHOOSE i \in 1..(Len(q) + 1) : (i = Len(q) + 1 \/ q[i] >= v) /\ \A j \in 1..(i - 1) : q[j] < v
InsertAt(q, i, v) == SubSeq(q, 1, i - 1) \o <<v>> \o SubSeq(q, i, Len(q))
Plus1(b) == IF b \in {NEG, POS} THEN b ELSE b + 1       \* bound arithmetic: oo + 1 = oo
Minus1(b) == IF b \in {NEG, POS} THEN b ELSE b - 1

AddModel(q, c, v) ==
  IF Len(q) >= c THEN q
  ELSE IF \E i \in DOMAIN q : q[i] = v THEN q
  ELSE LET ub == UpperIdx(q, v) IN
       IF v > 0 /\ ub - 1 # 1 /\ Plus1(q[ub - 1]) = v THEN [q EXCEPT ![ub - 1] = v]
       ELSE IF v < 0 /\ Minus1(q[ub]) = v THEN [q EXCEPT ![ub] = v]
       ELSE InsertAt(q, ub, v)

GetNext(q, v) == IF v = POS THEN POS ELSE LET ub == UpperIdx(q, v) IN IF ub <= Len(q) THEN q[ub] ELSE q[Len(q)]
GetPrev(q, v) == IF v = NEG THEN NEG
                 ELSE LET lb == LowerIdx(q, v) IN IF lb <= Len(q) /\ lb >= 2 THEN q[lb - 1] ELSE q[1]

Init == ts = <<NEG, 0, POS>> /\ cap \in Caps /\ hist = <<>> /\ r = 0
Add(v) == /\ Len(hist) < MaxLen
          /\ ts' = AddModel(ts, cap, v)
          /\ hist' = Append(hist, v)
          /\ UNCHANGED <<cap, r>>
Next == \E v \in Vals : Add(v)
Spec == Init /\ [][Next]_vars
View == <<ts, cap>>

---------------------------------------------------------------------------
Shape == /\ ts[1] = NEG /\ ts[Len(ts)] = POS
         /\ \A i \in 1..(Len(ts) - 1) : ts[i] < ts[i + 1]
         /\ Len(ts) <= (IF cap < 3 THEN 3 ELSE cap)
NextPrevOK ==
  \A v \in Probes :
    /\ (v # POS => GetNext(ts, v) > v /\ ~\E i \in DOMAIN ts : v < ts[i] /\ ts[i] < GetNext(ts, v))
    /\ (v # NEG => GetPrev(ts, v) < v /\ ~\E i \in DOMAIN ts : GetPrev(ts, v) < ts[i] /\ ts[i] < v)
\* interval widening with thresholds (interval.hpp), on non-empty intervals <<l, u>>
Itvs == {<<l, u>> \in Probes \X Probes : l <= u /\ l # POS /\ u # NEG}
WidenTs(a, b) == <<IF b[1] < a[1] THEN GetPrev(ts, b[1]) ELSE a[1], IF a[2] < b[2] THEN GetNext(ts, b[2]) ELSE a[2]>>
Covers(a, b) == a[1] <= b[1] /\ b[2] <= a[2]
WidenCovers == \A a, b \in Itvs : Covers(WidenTs(a, b), a) /\ Covers(WidenTs(a, b), b)
\* every strict increase moves a bound onto a threshold strictly further out: at most Len(ts) - 1 moves per bound
WidenMoves == \A a, b \in Itvs : LET w == WidenTs(a, b) IN
                 /\ (w[1] # a[1] => w[1] < a[1] /\ \E i \in DOMAIN ts : ts[i] = w[1])
                 /\ (w[2] # a[2] => w[2] > a[2] /\ \E i \in DOMAIN ts : ts[i] = w[2])
Emit == hist = <<>> \/ PrintT(<<"H", cap, ToJson(hist)>>)

---------------------------------------------------------------------------
(* judge: one record per history replayed on the real class:
   [cap, adds: <<v...>>, after: <<vector after each add>>, next: <<answers for Probes in ProbeSeq order after the LAST add>>, prev: ...] *)
Recs == ndJsonDeserialize(IOEnv.THR_RECORDS)
ProbeSeq == [i \in 1..(2 * K + 3) |-> IF i = 1 THEN NEG ELSE IF i = 2 * K + 3 THEN POS ELSE i - 2 - K]
JInit == r \in DOMAIN Recs /\ ts = <<>> /\ cap = 0 /\ hist = <<>>
JNext == UNCHANGED <<r, ts, cap, hist>>
JSpec == JInit /\ [][JNext]_<<r, ts, cap, hist>>
RECURSIVE Fold(_, _, _, _)
Fold(q, c, adds, n) == IF n = 0 THEN q ELSE AddModel(Fold(q, c, adds, n - 1), c, adds[n])
ModelAfter(rec, n) == Fold(<<NEG, 0, POS>>, rec.cap, rec.adds, n)
Judge ==
  LET rec == Recs[r]
      final == ModelAfter(rec, Len(rec.adds))
      ok == /\ \A n \in DOMAIN rec.adds : rec.after[n] = ModelAfter(rec, n)
            /\ \A i \in DOMAIN ProbeSeq : rec.next[i] = GetNext(final, ProbeSeq[i]) /\ rec.prev[i] = GetPrev(final, ProbeSeq[i])
  IN ok \/ ~PrintT(<<"FAIL", r, rec.cap, ToJson(rec.adds)>>)
=========================================================================
