---------------------------- MODULE WrapJudge ----------------------------
(* C13, scalar level, part 1: every record written by harness/wrap_runner for
   the real crab::wrapint is judged against the modular arithmetic of module
   Wrapint.  EXACT equality for every operation.  One TLC initial state per
   record (judge pattern).  Record kinds (field k):

   "wi"  one operand pair: w, a, b (raw values), sh (shift amount, 0 <= sh < w),
         v  = [operation |-> raw result]  (binary ops use b, shifts use sh)
         p  = [predicate |-> BOOLEAN]
         nc = operations for which the implementation gave no result
              (precondition b # 0 of the divisions, or the process died: "no claim")
   "wx"  one operand: ext = <<[e, s, sw, z, zw]>> (sext/zext by e bits, result
         widths), tr = <<[t, r, rw]>> (keep_lower(t)), ub/sb = unsigned/signed
         big integer of a
   "wc"  constructors: src = "z" (z_number), "s" (decimal string), "u" (uint64)
   "wk"  the four constants of width w *)
EXTENDS Wrapint, TLC, Json, IOUtils

Recs == ndJsonDeserialize(IOEnv.WRAP_RECORDS)

VARIABLE i
Init == i \in DOMAIN Recs
Next == UNCHANGED i
Spec == Init /\ [][Next]_i

Rng(s) == {s[k] : k \in DOMAIN s}

DirectOps == {"add", "sub", "mul", "and", "or", "xor", "addeq", "subeq", "muleq",
              "neg", "preinc", "predec", "postinc_ret", "postinc_new", "postdec_ret", "postdec_new", "shl"}
RelOps == {"udiv", "urem", "sdiv", "srem", "lshr", "ashr"}
DivOps == {"udiv", "urem", "sdiv", "srem"}
Preds == {"ult", "ule", "ugt", "uge", "eq", "ne", "msb", "zero", "slt"}

(* value of the operations that are computed directly *)
Direct(op, w, a, b, k) ==
  CASE op \in {"add", "addeq"} -> Add(w, a, b)
    [] op \in {"sub", "subeq"} -> Sub(w, a, b)
    [] op \in {"mul", "muleq"} -> Mul(w, a, b)
    [] op = "and" -> And(w, a, b)
    [] op = "or" -> Or(w, a, b)
    [] op = "xor" -> Xor(w, a, b)
    [] op = "neg" -> Neg(w, a)
    [] op \in {"preinc", "postinc_new"} -> Add(w, a, One(w))
    [] op \in {"predec", "postdec_new"} -> Sub(w, a, One(w))
    [] op \in {"postinc_ret", "postdec_ret"} -> a
    [] op = "shl" -> Shl(w, a, k)

(* the operations checked through their defining relation; the sibling result
   (remainder for a quotient and vice versa) is used as the witness; if the
   sibling call died there is no witness and no claim (counted by the check) *)
Related(op, w, a, b, k, res, v) ==
  CASE op = "lshr" -> IsLShr(w, a, k, res)
    [] op = "ashr" -> IsAShr(w, a, k, res)
    [] op = "udiv" -> IsUDiv(w, a, b, res)
    [] op = "urem" -> IF Wide(w) THEN "udiv" \in DOMAIN v => ValidRaw(w, v.udiv) /\ IsURem(w, a, b, Val(w, v.udiv), res)
                                 ELSE IsURem(w, a, b, 0, res)
    [] op = "sdiv" -> IF Wide(w) THEN "srem" \in DOMAIN v => ValidRaw(w, v.srem) /\ IsSDiv(w, a, b, res, Val(w, v.srem))
                                 ELSE IsSDiv(w, a, b, res, 0)
    [] op = "srem" -> IF Wide(w) THEN "sdiv" \in DOMAIN v => ValidRaw(w, v.sdiv) /\ IsSRem(w, a, b, Val(w, v.sdiv), res)
                                 ELSE IsSRem(w, a, b, 0, res)

Pred(op, w, a, b) ==
  CASE op = "ult" -> Ult(w, a, b)
    [] op = "ule" -> Ule(w, a, b)
    [] op = "ugt" -> Ult(w, b, a)
    [] op = "uge" -> Ule(w, b, a)
    [] op = "eq" -> a = b
    [] op = "ne" -> a # b
    [] op = "msb" -> Msb(w, a)
    [] op = "zero" -> a = Zero(w)
    [] op = "slt" -> Slt(w, a, b)

WiFailing(r) ==
  LET w == r.w  a == Val(w, r.a)  b == Val(w, r.b)  nc == Rng(r.nc) IN
  IF ~(w \in 1..64 /\ ValidRaw(w, r.a) /\ ValidRaw(w, r.b) /\ r.sh \in 0..(w - 1)) THEN {"bad-input"}
  ELSE
       {op \in DirectOps \cap DOMAIN r.v : ~(ValidRaw(w, r.v[op]) /\ Val(w, r.v[op]) = Direct(op, w, a, b, r.sh))}
  \cup {op \in RelOps \cap DOMAIN r.v : ~(ValidRaw(w, r.v[op]) /\ Related(op, w, a, b, r.sh, Val(w, r.v[op]), r.v))}
  \cup {op \in Preds \cap DOMAIN r.p : r.p[op] # Pred(op, w, a, b)}
  \* every operation whose precondition holds must have been observed (or have died)
  \cup {"missing-" \o op : op \in {o \in (DirectOps \cup RelOps) \ (DOMAIN r.v \cup nc) : o \notin DivOps \/ b # Zero(w)}}
  \cup {"missing-" \o op : op \in Preds \ (DOMAIN r.p \cup nc)}

WxFailing(r) ==
  LET w == r.w  a == Val(w, r.a) IN
  IF ~(w \in 1..64 /\ ValidRaw(w, r.a)) THEN {"bad-input"}
  ELSE
       {"sext" : x \in {y \in Rng(r.ext) : "s" \in DOMAIN y /\
                  ~(y.sw = w + y.e /\ ValidRaw(w + y.e, y.s) /\ Val(w + y.e, y.s) = SExt(w, y.e, a))}}
  \cup {"zext" : x \in {y \in Rng(r.ext) : "z" \in DOMAIN y /\
                  ~(y.zw = w + y.e /\ ValidRaw(w + y.e, y.z) /\ Val(w + y.e, y.z) = ZExt(w, y.e, a))}}
  \cup {"trunc" : x \in {y \in Rng(r.tr) : "r" \in DOMAIN y /\
                  ~(y.rw = y.t /\ ValidRaw(y.t, y.r) /\ Val(y.t, y.r) = Trunc(w, y.t, a))}}
  \cup (IF "ub" \in DOMAIN r /\ ~IsUBig(w, a, r.ub) THEN {"get_unsigned_bignum"} ELSE {})
  \cup (IF "sb" \in DOMAIN r /\ ~IsSBig(w, a, r.sb) THEN {"get_signed_bignum"} ELSE {})
  \cup (IF "us" \in DOMAIN r /\ ~IsUBig(w, a, r.us) THEN {"get_unsigned_str"} ELSE {})
  \cup (IF "ss" \in DOMAIN r /\ ~IsSBig(w, a, r.ss) THEN {"get_signed_str"} ELSE {})

WcFailing(r) ==
  LET w == r.w
      exp == CASE r.src = "z" -> BigModL(w, r.z)
               [] r.src = "s" -> BigModL(w, [neg |-> FALSE, c |-> r.z.c])
               [] r.src = "u" -> Mask(w, Pad8(r.u))
  IN IF "r" \notin DOMAIN r THEN {}
     ELSE IF ValidRaw(w, r.r) /\ Pad8(r.r) = exp THEN {} ELSE {"ctor-" \o r.src}

WkFailing(r) ==
  LET w == r.w
      C(name, exp) == IF ValidRaw(w, r[name]) /\ Val(w, r[name]) = exp THEN {} ELSE {name}
  IN C("smax", SMax(w)) \cup C("smin", SMin(w)) \cup C("umax", UMax(w)) \cup C("umin", Zero(w))

Failing(r) ==
  CASE r.k = "wi" -> WiFailing(r)
    [] r.k = "wx" -> WxFailing(r)
    [] r.k = "wc" -> WcFailing(r)
    [] r.k = "wk" -> WkFailing(r)

Contract ==
  LET F == Failing(Recs[i]) IN
  F = {} \/ ((\A f \in F : PrintT(<<"FAIL", Recs[i].id, f>>)) /\ FALSE)
=============================================================================
