------------------------- MODULE WrappedInterval -------------------------
(* C13: wrapped intervals (Navas et al., APLAS'12) as implemented by
   crab::domains::wrapped_interval.  An interval is observed through the
   public API as [b |-> is_bottom(), t |-> is_top(), s |-> start(), e |-> end(),
   w |-> bit width of start()] (raw values, see Wrapint).  Its meaning on the
   w-bit circle:
       gamma(bottom) = {}      gamma(top) = 0 .. 2^w - 1
       gamma(s, e)   = { x : (x - s) mod 2^w <= (e - s) mod 2^w }
   i.e. the values met walking clockwise from s to e; s > e (unsigned) crosses
   the south pole 1..1 -> 0..0, an interval containing 01..1 and 10..0 in this
   order crosses the north pole.

   Soundness contract of an abstract operation F for the concrete operation f:
       \A x \in gamma(a), y \in gamma(b) : f_w(x, y) \in gamma(F(a, b))
   with f_w the arithmetic modulo 2^w of module Wrapint. *)
EXTENDS Wrapint, FiniteSets

(* an observed interval is well formed for width w *)
ValidIv(w, I) == I.b \/ I.t \/ (I.w = w /\ ValidRaw(w, I.s) /\ ValidRaw(w, I.e))

(* ---- any width: membership of a value (Wrapint representation for w) ---- *)
In(w, x, I) ==
  /\ ~I.b
  /\ I.t \/ LET s == Val(w, I.s) IN Ule(w, Sub(w, x, s), Sub(w, Val(w, I.e), s))

(* ---- w <= 15: the whole gamma is enumerated ---- *)
(* native view of an interval: s = start, d = (end - start) mod 2^w *)
NI(w, I) == IF I.b \/ I.t THEN [b |-> I.b, t |-> I.t, s |-> 0, d |-> 0]
            ELSE [b |-> FALSE, t |-> FALSE, s |-> Val(w, I.s), d |-> SubN(w, Val(w, I.e), Val(w, I.s))]
InN(w, x, J) == ~J.b /\ (J.t \/ SubN(w, x, J.s) <= J.d)
GammaN(w, J) == IF J.b THEN {} ELSE IF J.t THEN 0..(Pow2(w) - 1) ELSE {AddN(w, J.s, k) : k \in 0..J.d}

BinArith == {"add", "sub", "mul", "sdiv", "udiv", "srem", "urem", "shl", "lshr", "ashr", "and", "or", "xor"}
(* the concrete operation is defined for these operands (division by zero and
   shifts by >= w bits have no defined result: no claim) *)
DefinedN(op, w, x, y) ==
  CASE op \in {"sdiv", "udiv", "srem", "urem"} -> y # 0
    [] op \in {"shl", "lshr", "ashr"} -> y < w
    [] OTHER -> TRUE
ConcN(op, w, x, y) ==
  CASE op = "add" -> AddN(w, x, y)
    [] op = "sub" -> SubN(w, x, y)
    [] op = "mul" -> MulN(w, x, y)
    [] op = "sdiv" -> SDivN(w, x, y)
    [] op = "udiv" -> UDivN(w, x, y)
    [] op = "srem" -> SRemN(w, x, y)
    [] op = "urem" -> URemN(w, x, y)
    [] op = "shl" -> ShlN(w, x, y)
    [] op = "lshr" -> LShrN(w, x, y)
    [] op = "ashr" -> AShrN(w, x, y)
    [] op = "and" -> AndN(w, x, y)
    [] op = "or" -> OrN(w, x, y)
    [] op = "xor" -> XorN(w, x, y)

(* ---- wide words: the concrete result of the relation-checked operations
        comes from the real wrapint as a WITNESS wt that is first validated
        against the defining relation; only then is it used ---- *)
DefinedW(op, w, x, y) ==
  CASE op \in {"sdiv", "udiv", "srem", "urem"} -> y # Zero(w)
    [] op \in {"shl", "lshr", "ashr"} -> Ult(w, y, OfSmall(w, w))
    [] OTHER -> TRUE
ShAmt(w, y) == IF Wide(w) THEN y[1] ELSE y          \* only used when y < w <= 64
NeedsWitness(op, w) == Wide(w) /\ op \in {"sdiv", "udiv", "srem", "urem", "lshr", "ashr"}
WitnessFamily(op) == IF op \in {"udiv", "urem"} THEN "ud" ELSE IF op \in {"sdiv", "srem"} THEN "sd" ELSE "sh"
WitnessOk(op, w, x, y, wt) ==
  CASE op \in {"udiv", "urem"} -> Len(wt) = 2 /\ ValidRaw(w, wt[1]) /\ ValidRaw(w, wt[2]) /\ IsUDivRemL(x, y, Val(w, wt[1]), Val(w, wt[2]))
    [] op \in {"sdiv", "srem"} -> Len(wt) = 2 /\ ValidRaw(w, wt[1]) /\ ValidRaw(w, wt[2]) /\ IsSDivRemL(w, x, y, Val(w, wt[1]), Val(w, wt[2]))
    [] op \in {"lshr", "ashr"} -> Len(wt) = 1 /\ ValidRaw(w, wt[1]) /\ IsLShrL(x, ShAmt(w, y), Val(w, wt[1]))
(* the concrete result, any width (wt only read for NeedsWitness) *)
Conc(op, w, x, y, wt) ==
  IF ~Wide(w) THEN ConcN(op, w, x, y)
  ELSE CASE op = "add" -> AddL(w, x, y)
         [] op = "sub" -> SubL(w, x, y)
         [] op = "mul" -> MulL(w, x, y)
         [] op = "and" -> BW8(TAnd, x, y)
         [] op = "or" -> BW8(TOr, x, y)
         [] op = "xor" -> BW8(TXor, x, y)
         [] op = "shl" -> ShlL(w, x, ShAmt(w, y))
         [] op \in {"udiv", "sdiv", "lshr"} -> Val(w, wt[1])
         [] op \in {"urem", "srem"} -> Val(w, wt[2])
         [] op = "ashr" -> AShrFromLShrL(w, x, ShAmt(w, y), Val(w, wt[1]))
=============================================================================
