"""C05 Widening stabilises every chain and every analysis run terminates.
(1) chains acc := acc WIDEN (acc JOIN x_i) on every real domain: soundness of every step (spec/DomainOps.tla) and
    stabilisation within a cap independent of the magnitudes (spec/WidenChain.tla);
(2) widening/narrowing steps of random histories (DomainOps, steps attributed to C05);
(3) every analysis run of loop-heavy programs terminates (watchdog in harness/prog_runner; spec/ProgSound Terminates);
(4) design level: the TLA+ model of the iterator terminates under fairness (spec/Fixpoint.tla, FixpointLive.cfg)."""
import json, os
import vlib, hist, proggen
from vlib import Check, build, tlc
from checks import domops, progsound, c03, c06

CAP, TAIL = 30, 6
LONG_N, LONG_CAP = 110, 80


def run(tier, seed):
    ck = Check("C05", tier, seed + 3000)
    build("dom_replay", "prog_runner", "fixpo_runner", "inter_runner")
    doms = [d for d in domops.all_domains()]
    box, univ = 2, 12
    # (1) chains
    # chains are long histories: a small box (-1..1) and universe (-6..6) keep the witness sets small; the
    # stabilisation judgement (WidenChain) does not depend on them
    nchains = 10 if tier == "quick" else 60
    hs = [hist.chain_history(ck.rng, i + 1, n=ck.rng.choice([25, 35]), params=ck.rng.choice(c03.PARAMS), stride=True if i < 2 else None)
          for i in range(nchains)]
    fails, knowns, traces = [], [], []
    for off in range(0, nchains, 15):       # batches: one TLC run validates 15 chains x all domains step by step
        f_, k_, t_ = domops.run_batch(ck, "chains%d" % off, hs[off:off + 15], doms, box=1, univ=6, timeout=2400, step_timeout=60)
        fails += f_
        knowns += k_
        traces += t_
    tp = os.path.join(vlib.workdir("c05-chains"), "traces.ndjson")
    caps = {h["id"]: hist.chain_cap(h) for h in hs}
    slim = []
    for t in traces:        # the stabilisation judgement only reads the answers of the inclusion tests: drop the observations
        t["cap"] = caps[t["id"]]
        q = {k: v for k, v in t.items() if k != "obs"}
        q["obs"] = [{"dom": o["dom"], "err": o["err"], "steps": [{"ans": x["ans"]} for x in o["steps"]]} for o in t["obs"]]
        slim.append(q)
    vlib.write_ndjson(tp, slim)
    r = tlc("WidenChain", "WidenChain", "c05-chainjudge", env={"DOM_TRACES": tp, "CHAIN_CAP": CAP, "CHAIN_TAIL": TAIL}, cont=True)
    ck.add_tlc(r, "WidenChain")
    # long chains (longer than any legitimate number of relaxations): only the stabilisation judgement
    nlong = 6 if tier == "quick" else 24
    hl = []
    for i in range(nlong):
        h = hist.chain_history(ck.rng, 5000 + i, n=LONG_N, params=ck.rng.choice(c03.PARAMS), stride=True if i < 2 else None)
        for st in h["steps"]:       # at most 2 thresholds so that the cap below is a true bound
            if "ts" in st:
                st["ts"] = st["ts"][:2]
        hl.append(h)
    # plain widening with arbitrary (not joined) further values over 4-5 variables in shuffled declaration order
    nplain = 24 if tier == "quick" else 60
    hplain = [hist.plain_chain_history(ck.rng, 6000 + i, n=LONG_N, params=ck.rng.choice(c03.PARAMS)) for i in range(nplain)]
    # (replayed on the environment-based domains and one representative of every other family: 110-step chains are slow
    # on the disjunctive and term domains)
    PLAIN_DOMS = [d for d in doms if d in ("intervals", "ric", "congruences", "constant", "sign", "sign_constant", "dis_intervals", "bool_int",
                                           "aa_int", "term_int", "rgn_int", "ref_intervals", "split_dbm", "sparse_dbm", "split_oct", "lw_soct",
                                           "sdbm_pt", "vp_int", "fixed_tvpi")]
    wdl = vlib.workdir("c05-long")
    hp, op_, tpl = [os.path.join(wdl, x) for x in ("h.ndjson", "o.ndjson", "traces.ndjson")]
    vlib.write_ndjson(hp, hl)
    rc, out = vlib.sh([os.path.join(vlib.BUILD, "bin", "dom_replay"), hp, op_] + doms, timeout=3000, env={"VH_STEP_TIMEOUT": 120})
    if rc != 0:
        raise vlib.Broken("dom_replay failed on long chains: " + out[-1500:])
    hp2, op2 = os.path.join(wdl, "hplain.ndjson"), os.path.join(wdl, "oplain.ndjson")
    vlib.write_ndjson(hp2, hplain)
    rc, out = vlib.sh([os.path.join(vlib.BUILD, "bin", "dom_replay"), hp2, op2] + PLAIN_DOMS, timeout=3000, env={"VH_STEP_TIMEOUT": 120})
    if rc != 0:
        raise vlib.Broken("dom_replay failed on plain chains: " + out[-1500:])
    recs_long = vlib.read_ndjson(op_) + vlib.read_ndjson(op2)
    hl = hl + hplain
    ck.cov["plain_widen_chains"] = {"chains": nplain, "steps": LONG_N, "domains": PLAIN_DOMS}
    bylong = {h["id"]: h for h in hl}
    tl = hist.merge(hl, recs_long)
    for t in tl:            # the stabilisation judgement only needs the answers of the inclusion tests
        t["cap"] = hist.chain_cap(bylong[t["id"]])
        for o in t["obs"]:
            o["steps"] = [{"ans": x["ans"]} for x in o["steps"]]
    vlib.write_ndjson(tpl, tl)
    rl = tlc("WidenChain", "WidenChain", "c05-longjudge", env={"DOM_TRACES": tpl, "CHAIN_CAP": LONG_CAP, "CHAIN_TAIL": TAIL}, cont=True)
    ck.add_tlc(rl, "WidenChain/long")
    ck.cov["traces_validated_against_impl"] += sum(1 for t in tl for o in t["obs"] if o["err"] == 0)
    bylong = {h["id"]: h for h in hl}
    kf_plain = [k for k in vlib.known_findings("C05") if k["sig"].get("kind") == "plain-widen-chain"]
    for tid, dom, inc, total, cap in sorted({tuple(x) for x in rl.tuples("CHAIN")}):
        h = dict(bylong[tid])
        kf = [k for k in kf_plain if dom in k["sig"]["doms"] and any(st["op"] == "widen" for st in h["steps"])]
        if kf:      # listed finding: plain chains (right operand not joined with the accumulator) on the lookahead-widening domain
            ck.known(kf[0]["id"], {"domain": dom, "history": tid, "strict_increases": inc, "steps": total, "cap": cap})
            continue
        ck.violation("domain %s: widening chain of history %d does not stabilise: %d strict increases in %d widening steps (cap %d = "
                     "constraints over the chain's variables x (1 + thresholds))" % (dom, tid, inc, total, cap),
                     {"domain": dom, "history": h})
    traces = traces + tl
    longest = {}
    for t in traces:
        for o in t["obs"]:
            if o["err"] == 0:
                n = sum(1 for st, rs in zip(t["steps"], o["steps"]) if st.get("chain") and rs["ans"] == 0)
                longest[o["dom"]] = max(longest.get(o["dom"], 0), n)
    ck.cov["longest_strict_chain_per_domain"] = longest
    ck.cov["chain_cap"] = CAP
    byid = {h["id"]: h for h in hs}
    for tid, dom, inc, total, cap in {tuple(x) for x in r.tuples("CHAIN")}:
        ck.violation("domain %s: widening chain of history %d: %d strict increases in %d widening steps exceed the cap %d" % (dom, tid, inc, total, cap), {"domain": dom, "history": byid[tid]})
    if r.is_violation and not r.tuples("CHAIN"):
        raise vlib.Broken("WidenChain violated without CHAIN record:\n" + r.out[-2000:])
    ck.sample({"chain_history_first_steps": hs[0]["steps"][:14], "thresholds": hs[0]["steps"][-3].get("ts")})
    # (2) random histories: widening / narrowing steps
    n2 = 120 if tier == "quick" else 800
    hs2 = []
    for i in range(n2):
        h = hist.history(ck.rng, 10000 + i, length=10, profile="c05", params=ck.rng.choice(c03.PARAMS))
        hs2.append(h)
    f2, k2 = [], []
    for off in range(0, n2, 300):       # batches of 300 histories x all domains per TLC run
        f_, k_, _ = domops.run_batch(ck, "widen%d" % off, hs2[off:off + 300], doms, box=box, univ=univ)
        f2 += f_
        k2 += k_
    # (2a) directed: the result of a widening mutated in place, then widened again
    nw = 150 if tier == "quick" else 800
    for off in range(0, nw, 500):
        hsw = [hist.widen_mutate_widen_history(ck.rng, 20000 + off + i, params=ck.rng.choice(c03.PARAMS)) for i in range(min(500, nw - off))]
        f_, k_, _ = domops.run_batch(ck, "wmw%d" % off, hsw, doms, box=box, univ=univ, timeout=3000)
        f2 += f_
        k2 += k_
    ck.cov["widen_mutate_widen_histories"] = nw
    # (2b) the same on large magnitudes (thresholds next to values around +-2^25..2^27)
    n3 = 100 if tier == "quick" else 800
    for off in range(0, n3, 400):
        hs3 = [hist.large_history(ck.rng, 900000 + off + i, params=ck.rng.choice(c03.PARAMS),
                                  lat=("widen", "widen", "widenjoin", "widenjoin", "narrow", "join", "copy")) for i in range(min(400, n3 - off))]
        f_, k_, _ = domops.run_batch(ck, "widenlarge%d" % off, hs3, doms, box=box, univ=univ, timeout=3000)
        f2 += f_
        k2 += k_
    ck.cov["large_magnitude_family"] = {"name": "large_history", "histories": n3}
    domops.report(ck, fails + f2, knowns + k2, box, univ)
    # (3) termination of analysis runs on loop-heavy programs
    np_ = 80 if tier == "quick" else 500
    ps = []
    pdoms = progsound.all_domains()
    for i in range(np_):
        p = proggen.program(ck.rng, i + 1, shape=ck.rng.choice(["loop", "nested", "irreducible", "selfloop", "entryloop", "twoloops", "random"]))
        p["runs"] = [progsound.run_config(ck.rng, d) for d in pdoms]
        ps.append(p)
    timeouts = []
    for off in range(0, len(ps), 250):      # batches of 250 programs x all domains per runner + TLC run
        _, _, to_ = progsound.explore(ck, "term%d" % off, ps[off:off + 250])
        timeouts += to_
    ck.cov["analysis_runs"] = sum(len(p["runs"]) for p in ps)
    for t in timeouts[:5]:
        p = next(x for x in ps if x["id"] == t["id"])
        q = dict(p)
        q["runs"] = [p["runs"][t["run"] - 1]]
        ck.violation("analysis run does not terminate within the watchdog limit: domain %s config %s" % (t["dom"], json.dumps(q["runs"][0])),
                     {"program": q})
    # (3b) termination of inter-procedural analysis runs: random call graphs (30% recursive), self / mutual recursion, and
    # recursion whose base case is never met (the exit of the function stays unreachable while its argument grows)
    from checks import c09, intersound
    import intergen
    ni = 24 if tier == "quick" else 200
    ips = []
    for i in range(ni):
        fam = ck.rng.choice([intergen.program, intergen.program, intergen.countdown_program, intergen.mutual_program,
                             intergen.diverging_program, intergen.diverging_program])
        q = fam(ck.rng, 400000 + i)
        q["runs"] = [c09.td_config(ck.rng, d) for d in ("intervals", "split_dbm", "split_oct", "dis_intervals", "term_int", "ric")]
        for r in q["runs"]:
            if q.get("recursive"):
                r["rec"] = ck.rng.choice([1, 1, 0])
        if not q.get("family") == "diverging":      # (bottom-up analysis needs an exit block that the function reaches)
            q["runs"] += [c09.bu_config(ck.rng, d, b) for d, b in (("intervals", "split_dbm"), ("split_dbm", "split_dbm"))]
        ips.append(q)
    wdi = vlib.workdir("c05-inter")
    ipp, iop = os.path.join(wdi, "p.ndjson"), os.path.join(wdi, "o.ndjson")
    vlib.write_ndjson(ipp, ips)
    rc, out = vlib.sh([os.path.join(vlib.BUILD, "bin", "inter_runner"), ipp, iop], timeout=3000, env={"VH_STEP_TIMEOUT": 30})
    if rc != 0:
        raise vlib.Broken("inter_runner failed (%d): %s" % (rc, out[-1500:]))
    irecs = vlib.read_ndjson(iop)
    ck.cov["inter_analysis_runs"] = len(irecs)
    ck.cov["traces_validated_against_impl"] += sum(1 for x in irecs if "err" not in x)
    nonterm = [x for x in irecs if x.get("err") == "timeout" or (x.get("err") == "crash" and x.get("status") == 1011)]
    for t in nonterm[:5]:
        p = next(x for x in ips if x["id"] == t["id"])
        q = dict(p)
        q["runs"] = [p["runs"][t["run"] - 1]]
        ck.violation("inter-procedural analysis run does not terminate (%s): config %s" %
                     ("watchdog" if t["err"] == "timeout" else "stack exhausted by the analysis (SIGSEGV)", json.dumps(q["runs"][0])),
                     {"program": q, "kind": "inter"})
    # (4) design level: the iterator model terminates
    cs = c06.gen_configs(ck.rng, "quick")[:3000 if tier == "quick" else 10632]
    for i, c in enumerate(cs):
        c["id"] = i + 1
    sub = Check("C06", tier, seed)
    bad, mg = c06.run_configs(sub, "c05live", cs, liveness=True)
    for v in sub.violations:
        ck.violations.append(v)
    for run_ in sub.cov["tlc_runs"]:
        if run_["run"].startswith("FixpointLive"):
            ck.cov["states"] += run_["distinct_states"]
            ck.cov["transitions"] += run_["states_generated"]
            ck.cov["tlc_runs"].append(run_)
    thresholds_phase(ck, tier)
    ck.cov["distinct_nontrivial"] = len(hs) * len(doms)
    ck.cov["rule"] = ("(1) %d seeded chains of 30-45 widening steps (values growing linearly in every variable, relational constraints "
                      "drifting, optional threshold sets) x every domain: strict increases <= %d and last %d steps stationary; "
                      "(2) random histories with raw widen / widen-join / narrow steps; (3) loop-heavy programs x every domain x "
                      "random parameters must terminate (30 s watchdog); (4) liveness <>done of the iterator model. "
                      "non-trivial = (chain, domain) pairs" % (nchains, CAP, TAIL))
    ck.assumptions += ["termination is checked up to a watchdog / cap, not proved", "chain values stay below 2^9"]
    return ck.finish()


def thresholds_phase(ck, tier):
    """(5) crab::thresholds as a state machine (spec/Thresholds.tla): TLC checks the design-level invariants on every reachable
    state and prints one history per state; every history is replayed on the real class and judged step by step"""
    build("thr_runner")
    K, maxlen = (3, 4) if tier == "quick" else (4, 5)
    env = {"THR_K": K, "THR_MAXLEN": maxlen, "THR_RECORDS": "/dev/null"}
    r = tlc("Thresholds", "Thresholds", "c05-thresholds-model", env=env, workers=1, timeout=1500)
    ck.add_tlc(r, "Thresholds(K=%d,adds<=%d)" % (K, maxlen))
    if r.is_violation or not r.ok:
        raise vlib.Broken("the thresholds machine violates its own invariants:\n" + r.out[-3000:])
    hs = []
    for cap, adds in {(x[0], x[1]) for x in r.tuples("H")}:
        hs.append({"cap": cap, "adds": json.loads(adds), "k": K})
    hs.sort(key=lambda h: (h["cap"], len(h["adds"]), h["adds"]))
    wd = vlib.workdir("c05-thresholds")
    hp, op_ = os.path.join(wd, "h.ndjson"), os.path.join(wd, "o.ndjson")
    vlib.write_ndjson(hp, hs)
    rc, out = vlib.sh([os.path.join(vlib.BUILD, "bin", "thr_runner"), hp, op_], timeout=600)
    if rc != 0:
        raise vlib.Broken("thr_runner failed: " + out[-1500:])
    recs = vlib.read_ndjson(op_)
    if len(recs) != len(hs):
        raise vlib.Broken("thr_runner answered %d of %d histories" % (len(recs), len(hs)))
    env["THR_RECORDS"] = op_
    rj = tlc("Thresholds", "ThresholdsJudge", "c05-thresholds-judge", env=env, cont=True, timeout=1500)
    ck.add_tlc(rj, "ThresholdsJudge")
    ck.cov["traces_validated_against_impl"] += len(recs)
    ck.cov["thresholds"] = {"values": [-K, K], "max_adds": maxlen, "capacities": [2, 3, 4, 5, "unbounded"], "histories_replayed": len(recs),
                            "reachable_states": r.distinct}
    for f in sorted({tuple(x) for x in rj.tuples("FAIL")})[:5]:
        rec = recs[f[0] - 1]
        ck.violation("crab::thresholds (capacity %s) differs from the model after adds %s: vector / get_next / get_prev" % (f[1], f[2]),
                     {"thresholds": rec})
    if rj.is_violation and not rj.tuples("FAIL"):
        raise vlib.Broken("ThresholdsJudge violated without FAIL record:\n" + rj.out[-2000:])


def replay(path):
    case = json.load(open(path))["case"]
    if "thresholds" in case:
        ck = Check("C05", "quick", 0)
        build("thr_runner")
        wd = vlib.workdir("c05-thresholds-replay")
        hp, op_ = os.path.join(wd, "h.ndjson"), os.path.join(wd, "o.ndjson")
        K = (len(case["thresholds"]["next"]) - 3) // 2
        vlib.write_ndjson(hp, [{"cap": case["thresholds"]["cap"], "adds": case["thresholds"]["adds"], "k": K}])
        rc, out = vlib.sh([os.path.join(vlib.BUILD, "bin", "thr_runner"), hp, op_], timeout=600)
        rj = tlc("Thresholds", "ThresholdsJudge", "c05-thresholds-replay", env={"THR_K": K, "THR_MAXLEN": 9, "THR_RECORDS": op_}, cont=True)
        ck.add_tlc(rj, "ThresholdsJudge")
        if rj.is_violation:
            ck.violation("replayed: thresholds differ from the model", case)
        return ck.finish()
    return c03.replay(path)
