"""Seeded generator of CrabIR programs (JSON) for the program-level specifications.
CFG skeletons x statement alphabet; block i is labelled b<i>; block 1.. in creation order."""
import hist


def negate(c):
    """negation of a linear constraint over the integers (e r 0)"""
    e, r = c["e"], c["r"]
    neg = {"k": -e["k"], "t": [[-a, v] for a, v in e["t"]]}
    if r == "le":   # not(e <= 0)  ==  -e < 0
        return {"e": neg, "r": "lt"}
    if r == "lt":   # not(e < 0)   ==  -e <= 0
        return {"e": neg, "r": "le"}
    if r == "eq":
        return {"e": e, "r": "ne"}
    return {"e": e, "r": "eq"}


class Builder:
    def __init__(self, rng, nints=3, nbools=1):
        self.rng = rng
        self.ints = list(range(1, nints + 1))
        self.bools = list(range(nints + 1, nints + nbools + 1))
        names = ["x", "y", "z", "w", "u"]
        self.vars = [{"n": names[i - 1], "t": "int"} for i in self.ints] + [{"n": "b%d" % i, "t": "bool"} for i in self.bools]
        self.blocks = []
        self.nassert = 0
        self.narrow = None

    def make_narrow(self):
        """the last integer variable becomes 8 bits wide: only conversions and statements on itself use it"""
        self.narrow = self.ints.pop()
        self.vars[self.narrow - 1]["w"] = 8

    def block(self, stmts=None):
        self.blocks.append({"succ": [], "stmts": stmts or []})
        return len(self.blocks)

    def edge(self, a, b):
        if b not in self.blocks[a - 1]["succ"]:
            self.blocks[a - 1]["succ"].append(b)

    def rand_stmts(self, n, profile="full", asserts=True):
        out = []
        for _ in range(n):
            if asserts and self.rng.random() < 0.15:
                self.nassert += 1
                if profile == "bwd":   # assertions with bounds exactly at -1, 0, 1 on one variable
                    v = self.rng.choice(self.ints)
                    out.append({"op": "assert", "c": {"e": {"k": self.rng.choice([-1, 0, 1]), "t": [[self.rng.choice([1, -1]), v]]},
                                                      "r": self.rng.choice(["le", "lt", "eq", "ne"])}, "id": self.nassert})
                    continue
                if self.rng.random() < 0.25:
                    # an assertion whose bound is TIGHT in the invariant: assume(s*v <= k); assert(s*v < k) (fails exactly at
                    # the bound), or assert(s*v <= k) (holds), or assert(s*v != k): strict, non-strict and disequality forms
                    v, sg, k = self.rng.choice(self.ints), self.rng.choice([1, 1, -1]), self.rng.randint(-2, 2)
                    out.append({"op": "assume", "c": {"e": {"k": -k, "t": [[sg, v]]}, "r": "le"}})
                    out.append({"op": "assert", "c": {"e": {"k": -k, "t": [[sg, v]]}, "r": self.rng.choice(["lt", "lt", "le", "ne"])},
                                "id": self.nassert})
                    continue
                if self.bools and self.rng.random() < 0.2:
                    out.append({"op": "bassert", "x": self.rng.choice(self.bools), "id": self.nassert})
                else:
                    out.append({"op": "assert", "c": hist.cst(self.rng, self.ints, rels=("le", "le", "lt", "eq", "ne")),
                                "id": self.nassert})
            elif profile in ("full", "linear") and self.rng.random() < 0.05:
                # call of an external function (intra-procedural analysis: the outputs are havocked)
                out.append({"op": "callx", "lhs": self.rng.sample(self.ints, self.rng.randint(1, 2)),
                            "args": self.rng.sample(self.ints, self.rng.randint(0, 2))})
            elif profile in ("full", "linear") and self.bools and self.rng.random() < 0.07:
                out += self.flag_pattern()
            else:
                out.append(hist.stmt(self.rng, self.ints, self.bools, profile, narrow=self.narrow))
        return out

    def flag_pattern(self):
        """directed pattern: a boolean remembers a constraint over v, then v is overwritten by one of every kind of defining
        statement, then the boolean is assumed / asserted: the remembered constraint speaks about the OLD value of v"""
        R = self.rng
        b, v = R.choice(self.bools), R.choice(self.ints)
        o = R.choice([u for u in self.ints if u != v] or self.ints)
        out = [{"op": "bassign_cst", "x": b, "c": {"e": {"k": R.randint(-1, 1), "t": [[R.choice([1, -1]), v]]}, "r": R.choice(["le", "lt", "eq"])}}]
        k = R.choice(["callx", "callx", "havoc", "assignc", "assignself", "arith", "select", "zext"])
        if k == "callx":
            out.append({"op": "callx", "lhs": [v] if R.random() < 0.6 else [v, o], "args": R.sample(self.ints, R.randint(0, 1))})
        elif k == "havoc":
            out.append({"op": "havoc", "x": v})
        elif k == "assignc":
            out.append({"op": "assign", "x": v, "e": {"k": R.randint(-2, 2), "t": []}})
        elif k == "assignself":
            out.append({"op": "assign", "x": v, "e": {"k": R.choice([-1, 1, 2]), "t": [[R.choice([1, -1]), v]]}})
        elif k == "arith":
            out.append({"op": "arith", "f": R.choice(["add", "sub", "mul"]), "x": v, "y": R.choice([v, o]), "zk": 1, "z": R.choice([-1, 1, 2])})
        elif k == "select":
            out.append({"op": "select", "x": v, "c": {"e": {"k": 0, "t": [[1, o]]}, "r": "le"}, "e1": {"k": R.randint(-2, 2), "t": []},
                        "e2": {"k": 1, "t": [[1, v]]}})
        else:
            b2 = R.choice(self.bools)
            out.append({"op": "cast", "f": "zext", "x": v, "y": b2, "sk": "bool", "dk": "int", "sw": 1, "dw": 32})
        if R.random() < 0.3:
            out.append(hist.stmt(R, [o], [], "linear"))
        out.append({"op": "bassume", "x": b, "neg": R.randint(0, 1)})
        return out

    def guard(self):
        return hist.cst(self.rng, self.ints, rels=("le", "le", "lt", "eq", "ne"))

    def counter_step(self):
        v = self.rng.choice(self.ints)
        return {"op": "arith", "f": self.rng.choice(["add", "add", "sub"]), "x": v, "y": v, "zk": 1, "z": self.rng.choice([1, 1, 2])}


def program(rng, pid, shape=None, profile="full", nstmts=(0, 3), asserts=True, nints=3, nbools=1):
    bld = Builder(rng, nints, nbools)
    R = rng
    if nints == 3 and profile in ("full", "linear") and R.random() < 0.2:
        bld.make_narrow()
    shape = shape or R.choice(["chain", "diamond", "loop", "loop", "nested", "irreducible", "selfloop", "entryloop",
                               "unreachable", "twoloops", "random"])

    def body(extra=None):
        st = bld.rand_stmts(R.randint(*nstmts), profile, asserts)
        return (extra or []) + st

    def branch(frm, to_true, to_false):
        """frm branches on a guard: successors start with assume(c) / assume(not c)"""
        if R.random() < 0.75:
            c = bld.guard()
            bld.blocks[to_true - 1]["stmts"].insert(0, {"op": "assume", "c": c})
            bld.blocks[to_false - 1]["stmts"].insert(0, {"op": "assume", "c": negate(c)})
        bld.edge(frm, to_true)
        bld.edge(frm, to_false)

    if shape == "chain":
        n = R.randint(2, 4)
        ids = [bld.block(body()) for _ in range(n)]
        for a, b_ in zip(ids, ids[1:]):
            bld.edge(a, b_)
        entry, exit_ = ids[0], ids[-1]
    elif shape == "diamond":
        e, t, f, j = bld.block(body()), bld.block(body()), bld.block(body()), bld.block(body())
        branch(e, t, f)
        bld.edge(t, j)
        bld.edge(f, j)
        entry, exit_ = e, j
    elif shape in ("loop", "entryloop", "selfloop"):
        if shape == "entryloop":
            h = bld.block(body())
            entry = h
        else:
            e = bld.block(body())
            h = bld.block(body() if R.random() < 0.5 else [])
            bld.edge(e, h)
            entry = e
        x = bld.block(body())
        if shape == "selfloop":
            # head is its own body: h -> h, h -> x
            bld.blocks[h - 1]["stmts"].append(bld.counter_step())
            bld.edge(h, h)
            bld.edge(h, x)
        else:
            bdy = bld.block(body())
            bld.blocks[bdy - 1]["stmts"].append(bld.counter_step())
            branch(h, bdy, x)
            if R.random() < 0.4:
                b2 = bld.block(body())
                bld.edge(bdy, b2)
                bld.edge(b2, h)
            else:
                bld.edge(bdy, h)
        exit_ = x
    elif shape == "nested":
        e, h1, h2, b2, l1, x = (bld.block(body()), bld.block([]), bld.block(body()), bld.block(body()),
                                bld.block(body()), bld.block(body()))
        bld.blocks[b2 - 1]["stmts"].append(bld.counter_step())
        bld.blocks[l1 - 1]["stmts"].append(bld.counter_step())
        bld.edge(e, h1)
        branch(h1, h2, x)
        branch(h2, b2, l1)
        bld.edge(b2, h2)
        bld.edge(l1, h1)
        entry, exit_ = e, x
    elif shape == "irreducible" and R.random() < 0.4:
        # both entries of the irreducible loop {a, b} go through their own pre-block; one of the pre-blocks is often
        # INFEASIBLE (the loop is then entered only through the other block, whichever of the two the WTO picks as head)
        e, pa, pb, a, b_, x = (bld.block(body()), bld.block([]), bld.block([]), bld.block(body()), bld.block(body()), bld.block(body()))
        bld.blocks[a - 1]["stmts"].append(bld.counter_step())
        if R.random() < 0.5:
            bld.edge(e, pa)
            bld.edge(e, pb)
        else:
            bld.edge(e, pb)
            bld.edge(e, pa)
        if R.random() < 0.7:
            dead = R.choice([pa, pb])
            bld.blocks[dead - 1]["stmts"].append({"op": "assume", "c": {"e": {"k": 1, "t": []}, "r": "le"}} if R.random() < 0.5
                                                 else {"op": "unreach"})
        bld.edge(pa, a)
        bld.edge(pb, b_)
        if R.random() < 0.5:
            bld.edge(a, b_)
            bld.edge(b_, a)
        else:
            bld.edge(b_, a)
            bld.edge(a, b_)
        g = bld.guard()
        gx = bld.block([{"op": "assume", "c": g}])
        bld.edge(R.choice([a, b_]), gx)
        bld.edge(gx, x)
        entry, exit_ = e, x
    elif shape == "irreducible":
        e, a, b_, x = bld.block(body()), bld.block(body()), bld.block(body()), bld.block(body())
        bld.blocks[a - 1]["stmts"].append(bld.counter_step())
        branch(e, a, b_)
        bld.edge(a, b_)
        bld.edge(b_, a)
        bld.edge(R.choice([a, b_]), x)
        if R.random() < 0.5:
            bld.edge(b_, x)
        entry, exit_ = e, x
    elif shape == "twolatch":
        # a loop head with TWO back edges (a body with a `continue`), the back edges inserted in either order; not in the
        # default shape list (requested explicitly by the checks of the data-flow analyses)
        e, h, b1, l1, l2, x = (bld.block(body()), bld.block([]), bld.block(body()), bld.block(body()), bld.block(body()), bld.block(body()))
        bld.blocks[l1 - 1]["stmts"].append(bld.counter_step())
        bld.edge(e, h)
        g = bld.guard()
        bld.blocks[b1 - 1]["stmts"].insert(0, {"op": "assume", "c": g})
        bld.blocks[x - 1]["stmts"].insert(0, {"op": "assume", "c": negate(g)})
        if R.random() < 0.5:
            bld.edge(h, b1)
            bld.edge(h, x)
        else:
            bld.edge(h, x)
            bld.edge(h, b1)
        # (the harness inserts the edges block by block in index order: the latch with the lower index contributes the FIRST
        # back edge; which latch the successor order of b1 visits first, and which one has a second successor, is varied)
        if R.random() < 0.5:
            branch(b1, l1, l2)
        else:
            branch(b1, l2, l1)
        bld.edge(l1, h)
        bld.edge(l2, h)
        if R.random() < 0.6:
            bail = bld.block(body())
            bld.edge(R.choice([l1, l2]), bail)
            bld.edge(bail, x)
        entry, exit_ = e, x
    elif shape == "unreachable":
        e, m, x, dead = bld.block(body()), bld.block(body()), bld.block(body()), bld.block(body())
        bld.edge(e, m)
        bld.edge(m, x)
        bld.edge(dead, R.choice([m, x]))
        if R.random() < 0.5:
            bld.blocks[m - 1]["stmts"].insert(R.randint(0, len(bld.blocks[m - 1]["stmts"])), {"op": "unreach"})
        entry, exit_ = e, x
    elif shape == "twoloops":
        e, h1, b1, h2, b2, x = (bld.block(body()), bld.block([]), bld.block(body()), bld.block(body()),
                                bld.block(body()), bld.block(body()))
        bld.blocks[b1 - 1]["stmts"].append(bld.counter_step())
        bld.blocks[b2 - 1]["stmts"].append(bld.counter_step())
        bld.edge(e, h1)
        branch(h1, b1, h2)
        bld.edge(b1, h1)
        branch(h2, b2, x)
        bld.edge(b2, h2)
        entry, exit_ = e, x
    else:  # random graph
        n = R.randint(3, 6)
        ids = [bld.block(body()) for _ in range(n)]
        for a in ids[:-1]:
            for t in R.sample(ids, R.randint(1, 2)):
                bld.edge(a, t)
        if not bld.blocks[0]["succ"]:
            bld.edge(ids[0], ids[1])
        entry, exit_ = ids[0], ids[-1]
    init = []
    if profile in ("full", "linear") and bld.bools and R.random() < 0.06:
        # the flag pattern as the first statements of the analysis, started from top (some domains take short cuts on top)
        bld.blocks[entry - 1]["stmts"][0:0] = bld.flag_pattern()
    elif R.random() < 0.6:
        for _ in range(R.randint(1, 2)):
            init.append(hist.cst(R, bld.ints, rels=("le", "le", "eq"), maxterms=1))
    return {"id": pid, "shape": shape, "vars": bld.vars, "kinds": [v["t"] for v in bld.vars], "nv": len(bld.vars),
            "entry": entry, "exit": exit_, "blocks": bld.blocks, "init": init}


def defuse_program(rng, pid):
    """directed family (C17, also used by C18): a definition of variable t whose ONLY use is one operand position of one
    later statement (right-hand side of an assignment, left/right operand of an arithmetic operation, condition / then- /
    else-operand of a select, an assume, an assert), possibly behind a diamond; the value flows into the single function
    output r.  Dead-code elimination must keep the definition for every operand position (the use sets of the statements)."""
    t, r, o = rng.sample([1, 2, 3], 3)
    vars_ = [{"n": n, "t": "int"} for n in ("x", "y", "z")]
    unit = lambda v: {"k": rng.randint(-1, 1), "t": [[rng.choice([1, -1]), v]]}
    const = lambda: {"k": rng.randint(-2, 2), "t": []}
    d = rng.choice(["assign", "assignv", "arith", "select"])
    if d == "assign":
        dfn = {"op": "assign", "x": t, "e": const()}
    elif d == "assignv":
        dfn = {"op": "assign", "x": t, "e": unit(o)}
    elif d == "arith":
        dfn = {"op": "arith", "f": rng.choice(["add", "sub"]), "x": t, "y": o, "zk": 1, "z": rng.randint(-2, 2)}
    else:
        dfn = {"op": "select", "x": t, "c": {"e": unit(o), "r": rng.choice(["le", "lt", "eq"])}, "e1": const(), "e2": const()}
    u = rng.choice(["assign", "arith_y", "arith_z", "sel_c", "sel_e1", "sel_e2", "assume", "assert"])
    post = []
    if u == "assign":
        use = {"op": "assign", "x": r, "e": unit(t)}
    elif u == "arith_y":
        use = {"op": "arith", "f": rng.choice(["add", "sub"]), "x": r, "y": t, "zk": 1, "z": rng.randint(-2, 2)}
    elif u == "arith_z":
        use = {"op": "arith", "f": rng.choice(["add", "sub"]), "x": r, "y": o, "zk": 0, "z": t}
    elif u == "sel_c":
        use = {"op": "select", "x": r, "c": {"e": unit(t), "r": rng.choice(["le", "lt", "eq"])}, "e1": const(), "e2": unit(o)}
    elif u == "sel_e1":
        use = {"op": "select", "x": r, "c": {"e": unit(o), "r": rng.choice(["le", "lt", "eq"])}, "e1": unit(t), "e2": const()}
    elif u == "sel_e2":
        use = {"op": "select", "x": r, "c": {"e": unit(o), "r": rng.choice(["le", "lt", "eq"])}, "e1": const(), "e2": unit(t)}
    elif u == "assume":
        use = {"op": "assume", "c": {"e": unit(t), "r": rng.choice(["le", "lt", "eq", "ne"])}}
        post = [{"op": "assign", "x": r, "e": unit(o)}]
    else:
        use = {"op": "assert", "c": {"e": unit(t), "r": rng.choice(["le", "lt", "eq", "ne"])}, "id": 1}
        post = [{"op": "assign", "x": r, "e": unit(o)}]
    pre = [{"op": "assign", "x": r, "e": const()}] if rng.random() < 0.5 else []
    shape = rng.choice(["line", "split", "diamond"])
    if shape == "line":
        blocks = [{"succ": [2], "stmts": pre + [dfn]}, {"succ": [], "stmts": [use] + post}]
        ex = 2
    elif shape == "split":
        blocks = [{"succ": [2], "stmts": pre + [dfn]}, {"succ": [3], "stmts": []}, {"succ": [], "stmts": [use] + post}]
        ex = 3
    else:       # the use sits in one arm of a diamond
        blocks = [{"succ": [2, 3], "stmts": pre + [dfn]}, {"succ": [4], "stmts": [use] + post},
                  {"succ": [4], "stmts": [{"op": "assign", "x": r, "e": const()}]}, {"succ": [], "stmts": []}]
        ex = 4
    return {"id": pid, "shape": "defuse:%s>%s:%s" % (d, u, shape), "vars": vars_, "kinds": ["int"] * 3, "nv": 3, "entry": 1, "exit": ex,
            "init": [], "blocks": blocks, "fn": {"name": "f", "in": [], "out": [r]}, "outs": [r]}


def nested_branch_program(rng, pid):
    """directed family (C18 assertion crawler): NESTED branches (depth 2 or 3) on different variables in which only the
    innermost arm contains a definition; the blocks that depend directly on the outer branches hold nothing but their
    guards; an assertion after the join reads the variable defined in the innermost arm (its outcome depends, through the
    chain of control dependences, on every branching variable)."""
    vs = [1, 2, 3]
    rng.shuffle(vs)
    x = vs[0]
    depth = rng.choice([2, 2, 3])
    conds = [{"e": {"k": -rng.randint(0, 1), "t": [[rng.choice([1, -1]), vs[1 + (i % 2)]]]}, "r": rng.choice(["le", "lt"])} for i in range(depth)]
    if depth == 3:      # the third level branches on the asserted variable's own old value or on the first variable again
        conds[2] = {"e": {"k": -rng.randint(0, 1), "t": [[1, rng.choice([vs[1], vs[2]])]]}, "r": "le"}
    vars_ = [{"n": n, "t": "int"} for n in ("x", "y", "z")]
    blocks = []

    def blk(st):
        blocks.append({"succ": [], "stmts": st})
        return len(blocks)
    pre = [{"op": "assign", "x": x, "e": {"k": rng.randint(0, 1), "t": []}}] if rng.random() < 0.7 else []
    cur = blk(pre)
    falses = []
    for i in range(depth):
        t = blk([{"op": "assume", "c": conds[i]}])
        f = blk([{"op": "assume", "c": negate(conds[i])}])
        blocks[cur - 1]["succ"] = [t, f]
        falses.append(f)
        cur = t
    blocks[cur - 1]["stmts"].append({"op": "assign", "x": x, "e": {"k": rng.choice([-1, 2]), "t": []}})
    j = blk([{"op": "assert", "c": {"e": {"k": 0, "t": [[-1, x]]}, "r": "le"}, "id": 1}] if rng.random() < 0.7 else
            [{"op": "assert", "c": {"e": {"k": -1, "t": [[1, x]]}, "r": rng.choice(["le", "lt", "ne"])}, "id": 1}])
    blocks[cur - 1]["succ"] = [j]
    for f in falses:
        blocks[f - 1]["succ"] = [j]
    return {"id": pid, "shape": "nestedbranch:%d" % depth, "vars": vars_, "kinds": ["int"] * 3, "nv": 3, "entry": 1, "exit": j,
            "blocks": blocks, "init": []}


def backward_pattern_program(rng, pid):
    """directed family (C11, C02 forward+backward): v is defined by ONE statement of each kind the backward transformers
    handle (select with the interesting value in the then- or the else-branch, x := k - x, x := y - x, +, -, * and / by small
    constants, linear assignment, havoc), from an operand o restricted to -2..2; an assertion on v sits in a dominated
    successor block and fails for some inputs only (e.g. only through the else value of the select)."""
    v, o, w = rng.sample([1, 2, 3], 3)
    vars_ = [{"n": n, "t": "int"} for n in ("x", "y", "z")]
    le = lambda k, t=(): {"k": k, "t": [list(u) for u in t]}
    pre = [{"op": "assume", "c": {"e": le(-2, [(1, o)]), "r": "le"}}, {"op": "assume", "c": {"e": le(-2, [(-1, o)]), "r": "le"}}]
    k = rng.choice(["sel_then", "sel_else", "sel_else", "negself", "subself", "addk", "mulk", "divk", "lin", "lin2", "havoc", "remself", "remself",
                    "mul0self"])
    c = rng.randint(-1, 1)
    if k in ("sel_then", "sel_else"):
        big, small = le(rng.choice([3, 4, -3])), le(rng.randint(-1, 1), [(1, o)]) if rng.random() < 0.5 else le(rng.randint(-1, 1))
        cond = {"e": le(-c, [(rng.choice([1, -1]), o)]), "r": rng.choice(["le", "lt", "eq"])}
        dfn = [{"op": "select", "x": v, "c": cond, "e1": big if k == "sel_then" else small, "e2": small if k == "sel_then" else big}]
    elif k == "negself":
        dfn = [{"op": "assign", "x": v, "e": le(0, [(1, o)])}, {"op": "assign", "x": v, "e": le(rng.randint(-1, 2), [(-1, v)])}]
    elif k == "subself":
        dfn = [{"op": "assign", "x": v, "e": le(rng.randint(-1, 1))}, {"op": "arith", "f": "sub", "x": v, "y": o, "zk": 0, "z": v}]
    elif k == "addk":
        dfn = [{"op": "arith", "f": rng.choice(["add", "sub"]), "x": v, "y": o, "zk": 1, "z": rng.randint(-2, 2)}]
    elif k == "mulk":
        dfn = [{"op": "arith", "f": "mul", "x": v, "y": o, "zk": 1, "z": rng.choice([-2, -1, 2, 3])}]
    elif k == "divk":
        dfn = [{"op": "arith", "f": "sdiv", "x": v, "y": o, "zk": 1, "z": rng.choice([-2, 2, 3])}]
    elif k == "remself":    # v := o + c; v := v % m  (a non-invertible SELF-update)
        dfn = [{"op": "assign", "x": v, "e": le(rng.randint(0, 3), [(1, o)])},
               {"op": "arith", "f": rng.choice(["srem", "urem", "udiv"]), "x": v, "y": v, "zk": 1, "z": rng.choice([2, 3])}]
    elif k == "mul0self":
        dfn = [{"op": "assign", "x": v, "e": le(rng.randint(-1, 1), [(1, o)])}, {"op": "arith", "f": "mul", "x": v, "y": v, "zk": 1, "z": 0}]
    elif k == "lin":
        dfn = [{"op": "assign", "x": v, "e": le(rng.randint(-1, 1), [(rng.choice([1, -1, 2]), o)])}]
    elif k == "lin2":
        dfn = [{"op": "assign", "x": w, "e": le(rng.randint(-1, 1))}, {"op": "assign", "x": v, "e": le(0, [(1, o), (rng.choice([1, -1]), w)])}]
    else:
        dfn = [{"op": "havoc", "x": v}, {"op": "assume", "c": {"e": le(-3, [(1, v)]), "r": "le"}}]
    asrt = {"op": "assert", "c": {"e": le(-rng.randint(-1, 2), [(rng.choice([1, 1, -1]), v)]), "r": rng.choice(["le", "le", "lt", "ne"])}, "id": 1}
    shape = rng.choice(["next", "next", "same", "diamond"])
    if shape == "same":
        blocks = [{"succ": [2], "stmts": pre + dfn + [asrt]}, {"succ": [], "stmts": []}]
    elif shape == "next":
        blocks = [{"succ": [2], "stmts": pre + dfn}, {"succ": [3], "stmts": [asrt]}, {"succ": [], "stmts": []}]
    else:
        g = {"e": le(0, [(1, w)]), "r": "le"}
        blocks = [{"succ": [2, 3], "stmts": pre + dfn}, {"succ": [4], "stmts": [{"op": "assume", "c": g}, asrt]},
                  {"succ": [4], "stmts": [{"op": "assume", "c": negate(g)}]}, {"succ": [], "stmts": []}]
    if rng.random() < 0.5:      # an empty entry block in front (the defining block is then not the entry of the analysis)
        for b in blocks:
            b["succ"] = [t + 1 for t in b["succ"]]
        blocks.insert(0, {"succ": [2], "stmts": []})
        shape += "+entry"
    return {"id": pid, "shape": "bwdpat:%s:%s" % (k, shape), "vars": vars_, "kinds": ["int"] * 3, "nv": 3, "entry": 1, "exit": len(blocks),
            "blocks": blocks, "init": []}


def defuse_bool_program(rng, pid):
    """directed family (C17): like defuse_program for BOOLEAN statements: a boolean t defined from a constraint whose only
    use is one operand position of one later boolean statement (bool_assign_var, left / right operand of a boolean operation,
    condition / then- / else-operand of bool_select, bool_assume, bool_assert, zext), the result flows into the integer output"""
    X, Y, B1, B2 = 1, 2, 3, 4
    t, o = rng.sample([B1, B2], 2)
    r = rng.choice([X, Y])
    src = X if r == Y else Y
    vars_ = [{"n": "x", "t": "int"}, {"n": "y", "t": "int"}, {"n": "b3", "t": "bool"}, {"n": "b4", "t": "bool"}]
    bc = lambda b, v: {"op": "bassign_cst", "x": b, "c": {"e": {"k": rng.randint(-1, 1), "t": [[rng.choice([1, -1]), v]]}, "r": rng.choice(["le", "lt", "eq"])}}
    dfn = bc(t, src)
    other = bc(o, src) if rng.random() < 0.7 else {"op": "havoc", "x": o}
    u = rng.choice(["bvar", "bop_y", "bop_z", "bsel_c", "bsel_y", "bsel_z", "bassume", "bassert", "zext"])
    res = o          # boolean receiving the result
    tail = [{"op": "cast", "f": "zext", "x": r, "y": res, "sk": "bool", "dk": "int", "sw": 1, "dw": 32}]
    if u == "bvar":
        use = [{"op": "bassign_var", "x": res, "y": t, "neg": rng.randint(0, 1)}]
    elif u == "bop_y":
        use = [{"op": "bop", "f": rng.choice(["and", "or", "xor"]), "x": res, "y": t, "z": o}]
    elif u == "bop_z":
        use = [{"op": "bop", "f": rng.choice(["and", "or", "xor"]), "x": res, "y": o, "z": t}]
    elif u == "bsel_c":
        use = [{"op": "havoc", "x": r}, {"op": "bassign_cst", "x": res, "c": {"e": {"k": 0, "t": [[1, r]]}, "r": "le"}},
               {"op": "bselect", "x": res, "c": t, "y": res, "z": o}]
    elif u == "bsel_y":
        use = [{"op": "bselect", "x": res, "c": o, "y": t, "z": o}]
    elif u == "bsel_z":
        use = [{"op": "bselect", "x": res, "c": o, "y": o, "z": t}]
    elif u == "bassume":
        use = [{"op": "bassume", "x": t, "neg": rng.randint(0, 1)}]
        tail = [{"op": "assign", "x": r, "e": {"k": rng.randint(-1, 1), "t": []}}]
    elif u == "bassert":
        use = [{"op": "bassert", "x": t, "id": 1}]
        tail = [{"op": "assign", "x": r, "e": {"k": rng.randint(-1, 1), "t": []}}]
    else:
        use = []
        tail = [{"op": "cast", "f": "zext", "x": r, "y": t, "sk": "bool", "dk": "int", "sw": 1, "dw": 32}]
    pre = [{"op": "assign", "x": r, "e": {"k": rng.randint(-1, 1), "t": []}}] if rng.random() < 0.5 else []
    if rng.random() < 0.5:
        blocks = [{"succ": [2], "stmts": pre + [other, dfn]}, {"succ": [], "stmts": use + tail}]
        ex = 2
    else:
        blocks = [{"succ": [2, 3], "stmts": pre + [other, dfn]}, {"succ": [4], "stmts": use + tail},
                  {"succ": [4], "stmts": [{"op": "assign", "x": r, "e": {"k": rng.randint(-1, 1), "t": []}}]}, {"succ": [], "stmts": []}]
        ex = 4
    return {"id": pid, "shape": "defuse-bool:%s" % u, "vars": vars_, "kinds": ["int", "int", "bool", "bool"], "nv": 4, "entry": 1, "exit": ex,
            "init": [], "blocks": blocks, "fn": {"name": "f", "in": [], "out": [r]}, "outs": [r]}


def array_live_program(rng, pid):
    """directed family (C18 liveness): two integer variables and two 2-cell arrays A, B (element size 1); array_init, stores at
    constant or symbolic indices flagged strong or weak (either way ONE cell is written and the other keeps flowing through),
    array copies, loads feeding branches, assertions and the function output; straight-line, diamond and (do-while) loop shapes.
    Liveness facts about ARRAY variables are judged like those about scalars: changing a dead array's content must not matter."""
    X, Y, A, B_ = 1, 2, 3, 4
    ints = [X, Y]
    vars_ = [{"n": "x", "t": "int", "w": 8}, {"n": "y", "t": "int", "w": 8}, {"n": "A", "t": "arr"}, {"n": "B", "t": "arr"}]
    lc = lambda c: {"k": c, "t": []}
    lv = lambda v, k=0, c=1: {"k": k, "t": [[c, v]]}
    na = [0]

    def arr():
        return rng.choice([A, A, B_])

    def val():
        return lc(rng.randint(-1, 1)) if rng.random() < 0.5 else lv(rng.choice(ints))

    def one():
        k = rng.choice(["store", "store", "store", "load", "load", "copy", "init", "symstore", "scalar", "assume", "assert", "csl", "csl"])
        if k == "csl":
            # definition of a whole array (copy / init), then a store to ONE cell of it (flagged strong or weak), then a
            # load of the OTHER cell: the first definition is still needed
            a, b = rng.sample([A, B_], 2)
            c = rng.randint(0, 1)
            d0 = {"op": "aassign", "a": a, "b": b} if rng.random() < 0.7 else {"op": "ainit", "a": a, "es": 1, "lb": lc(0), "ub": lc(1), "v": val()}
            return [d0, {"op": "astore", "a": a, "i": lc(c), "v": val(), "es": 1, "strong": rng.choice([0, 1, 1])},
                    {"op": "aload", "x": rng.choice(ints), "a": a, "i": lc(1 - c), "es": 1}]
        if k == "store":
            return [{"op": "astore", "a": arr(), "i": lc(rng.randint(0, 1)), "v": val(), "es": 1, "strong": rng.choice([0, 1, 1])}]
        if k == "load":
            return [{"op": "aload", "x": rng.choice(ints), "a": arr(), "i": lc(rng.randint(0, 1)), "es": 1}]
        if k == "copy":
            a, b = rng.sample([A, B_], 2)
            return [{"op": "aassign", "a": a, "b": b}]
        if k == "init":
            return [{"op": "ainit", "a": arr(), "es": 1, "lb": lc(0), "ub": lc(1), "v": val()}]
        if k == "symstore":
            v = rng.choice(ints)
            return [{"op": "havoc", "x": v}, {"op": "assume", "c": {"e": lv(v, -1), "r": "le"}}, {"op": "assume", "c": {"e": lv(v, 0, -1), "r": "le"}},
                    {"op": "astore", "a": arr(), "i": lv(v), "v": lc(rng.randint(-1, 1)), "es": 1, "strong": rng.choice([0, 1])}]
        if k == "scalar":
            return [hist.stmt(rng, ints, [], "c17")]
        c = {"e": {"k": rng.choice([-1, 0, 1]), "t": [[rng.choice([1, -1]), rng.choice(ints)]]}, "r": rng.choice(["le", "lt", "eq", "ne"])}
        if k == "assume":
            return [{"op": "assume", "c": c}]
        na[0] += 1
        return [{"op": "assert", "c": c, "id": na[0]}]

    def some(n):
        out = []
        for _ in range(n):
            out += one()
        return out
    shape = rng.choice(["line", "line", "diamond", "dowhile", "dowhile"])
    if shape == "line":
        blocks = [{"succ": [2], "stmts": some(rng.randint(1, 3))}, {"succ": [3], "stmts": some(rng.randint(1, 3))},
                  {"succ": [], "stmts": some(rng.randint(0, 2))}]
    elif shape == "diamond":
        g = {"e": {"k": 0, "t": [[1, rng.choice(ints)]]}, "r": "le"}
        blocks = [{"succ": [2, 3], "stmts": some(rng.randint(1, 3))},
                  {"succ": [4], "stmts": [{"op": "assume", "c": g}] + some(rng.randint(1, 2))},
                  {"succ": [4], "stmts": [{"op": "assume", "c": negate(g)}] + some(rng.randint(0, 2))},
                  {"succ": [], "stmts": some(rng.randint(1, 2))}]
    else:       # entry; body (executed at least once, branches back on a condition over a loaded cell); exit
        v = rng.choice(ints)
        g = {"e": {"k": 0, "t": [[1, v]]}, "r": "le"}
        blocks = [{"succ": [2], "stmts": some(rng.randint(1, 2))},
                  {"succ": [3, 4], "stmts": some(rng.randint(1, 3)) + [{"op": "aload", "x": v, "a": arr(), "i": lc(rng.randint(0, 1)), "es": 1}]},
                  {"succ": [2], "stmts": [{"op": "assume", "c": g}]},
                  {"succ": [], "stmts": [{"op": "assume", "c": negate(g)}] + some(rng.randint(0, 2))}]
    # the exit block ends by loading a cell into the output
    out_v = rng.choice(ints)
    if rng.random() < 0.7:
        blocks[-1]["stmts"].append({"op": "aload", "x": out_v, "a": arr(), "i": lc(rng.randint(0, 1)), "es": 1})
    return {"id": pid, "shape": "arraylive:" + shape, "vars": vars_, "kinds": ["int", "int", "arr", "arr"], "ncells": 2, "nv": 4, "entry": 1,
            "exit": len(blocks), "blocks": blocks, "init": [], "fn": {"name": "f", "in": [], "out": [out_v]}, "outs": [out_v]}


def has_loop(p):
    # a cycle reachable from the entry
    color = {}

    def dfs(u):
        color[u] = 1
        for v in p["blocks"][u - 1]["succ"]:
            if color.get(v) == 1:
                return True
            if v not in color and dfs(v):
                return True
        color[u] = 2
        return False
    return dfs(p["entry"])


def merge(programs, run_recs):
    """programs + prog_runner output lines -> records for spec/ProgSound.tla (pure transport)"""
    by = {}
    for r in run_recs:
        by.setdefault(r["id"], {})[r["run"]] = r
    out = []
    for p in programs:
        q = {k: v for k, v in p.items() if k != "runs"}
        runs = []
        for k, cfg in enumerate(p["runs"]):
            r = by.get(p["id"], {}).get(k + 1)
            if r is None or "err" in r:
                runs.append({"dom": cfg["dom"], "err": 1, "judgeinv": 0, "why": (r or {}).get("err", "missing"), "pre": [], "post": [], "checks": []})
            else:
                runs.append({"dom": cfg["dom"], "err": 0, "judgeinv": 0 if cfg.get("use_refined") else 1,
                             "pre": r["pre"], "post": r["post"], "checks": r["checks"],
                             "cfg": {k2: v2 for k2, v2 in cfg.items() if k2 != "dom"}})
                for k2 in ("rq_pre", "rq_post", "tq_pre", "tq_post"):  # C15: answers to reference queries
                    if k2 in r:
                        runs[-1][k2] = r[k2]
        q["runs"] = runs
        out.append(q)
    return out
