// bwd_runner <programs.ndjson> <out.ndjson>     (C11, and the forward+backward part of C02)
// For every program x run configuration:
//  mode "err"/"good": necessary_preconditions_fixpoint_iterator from error states / from good final
//       states (final constraints "final"), optionally with forward invariants supplied as explicit
//       per-block constraint maps ("fwdinv": {block: [csts]}); exports the precondition of every block.
//  mode "fb": intra_forward_backward_analyzer + assertion checker; exports invariants and verdicts in the
//       same shape as prog_runner (judged by spec/ProgSound.tla).
#include "domreg.hpp"
#include "progbuild.hpp"
#include <crab/analysis/bwd_analyzer.hpp>
#include <crab/checkers/assertion.hpp>
#include <crab/checkers/base_property.hpp>
#include <crab/checkers/checker.hpp>
#include <csignal>
#include <sys/wait.h>
#include <unistd.h>

using namespace vh;
typedef crab::analyzer::necessary_preconditions_fixpoint_iterator<z_cfg_ref_t, ref_t> bwd_t;
typedef crab::analyzer::intra_forward_backward_analyzer<z_cfg_ref_t, ref_t> fb_t;
typedef crab::checker::intra_checker<fb_t> checker_t;
typedef crab::checker::assert_property_checker<fb_t> assert_checker_t;

static const char *kind_str(crab::checker::check_kind k) {
  switch (k) {
  case crab::checker::check_kind::CRAB_SAFE: return "safe";
  case crab::checker::check_kind::CRAB_ERR: return "err";
  case crab::checker::check_kind::CRAB_UNREACH: return "unreach";
  default: return "warn";
  }
}

static ref_t from_csts(const ref_t &top, const vj::Value &cs, const VarTab &vt) {
  ref_t v = top.make_top();
  z_lin_cst_sys_t sys;
  for (size_t i = 0; i < cs.size(); ++i) sys += lin_cst(cs[i], vt);
  v += sys;
  return v;
}

static void run_one(const vj::Value &p, size_t k, std::ostream &o) {
  const vj::Value &run = p["runs"][k];
  crab::domains::crab_domain_params_man::get() = crab::domains::crab_domain_params();
  if (run.has("params")) set_domain_params(run["params"]);
  variable_factory_t vfac;
  VarTab vt(vfac);
  vt.declare(p["vars"]);
  std::unique_ptr<z_cfg_t> cfg = build_cfg(p, vt);
  std::vector<int> qvars;
  for (size_t i = 1; i <= vt.n(); ++i) qvars.push_back(i);
  auto it = domreg().find(run["dom"].str());
  if (it == domreg().end()) std::exit(2);
  ref_t top = it->second();
  z_cfg_ref_t ref(*cfg);
  crab::fixpoint_parameters fp;
  fp.get_widening_delay() = run.geti("wd", 2);
  fp.get_descending_iterations() = run.geti("desc", 1);
  fp.get_max_thresholds() = run.geti("th", 0);
  size_t nb = p["blocks"].size();
  std::string mode = run["mode"].str();
  o << "{\"id\":" << p["id"].i() << ",\"run\":" << k + 1 << ",\"dom\":" << vj::q(run["dom"].str()) << ",\"mode\":" << vj::q(mode) << ",";
  if (mode == "fb") {
    ref_t init = p.has("init") ? from_csts(top, p["init"], vt) : top.make_top();
    fb_t a(ref, top);
    fb_t::assumption_map_t assumptions;
    crab::analyzer::fwd_bwd_parameters params;
    params.enable_backward() = run.geti("bwd", 1) != 0;
    params.get_max_refine_iterations() = run.geti("refine", 5);
    params.get_use_refined_invariants() = run.geti("use_refined", 0) != 0;
    a.run(init, assumptions, nullptr, fp, params);
    o << "\"pre\":[";
    for (size_t b = 1; b <= nb; ++b) {
      o << (b > 1 ? "," : "");
      emit_obs(o, a.get_pre(blabel(b)), vt, qvars, false);
    }
    o << "],\"post\":[";
    for (size_t b = 1; b <= nb; ++b) {
      o << (b > 1 ? "," : "");
      emit_obs(o, a.get_post(blabel(b)), vt, qvars, false);
    }
    o << "],\"checks\":[";
    checker_t::prop_checker_ptr prop(new assert_checker_t(0));
    checker_t checker(a, {prop});
    checker.run();
    crab::checker::checks_db db = checker.get_all_checks();
    bool first = true;
    for (auto &kv : db.get_all_checks())
      for (auto ck : kv.second) {
        o << (first ? "" : ",") << "{\"id\":" << kv.first.get_id() << ",\"res\":\"" << kind_str(ck) << "\"}";
        first = false;
      }
    o << "]}\n";
    return;
  }
  bool good = mode == "good";
  bwd_t b(ref, top, good, fp);
  ref_t post = good ? from_csts(top, run["final"], vt) : top.make_bottom();
  if (run.has("fwdinv")) {
    std::unordered_map<std::string, ref_t> inv;
    for (auto &kv : run["fwdinv"].o) inv.insert({blabel(std::atol(kv.first.c_str())), from_csts(top, kv.second, vt)});
    b.run_backward(post, inv);
  } else
    b.run_backward(post);
  o << "\"precond\":[";
  for (size_t bb = 1; bb <= nb; ++bb) {
    o << (bb > 1 ? "," : "");
    emit_obs(o, b[blabel(bb)], vt, qvars, false);
  }
  o << "]}\n";
}

int main(int argc, char **argv) {
  if (argc < 3) return 2;
  std::vector<vj::Value> ps;
  {
    std::ifstream in(argv[1]);
    std::string line;
    while (std::getline(in, line))
      if (!line.empty()) ps.push_back(vj::parse(line));
  }
  FILE *out = fopen(argv[2], "w");
  if (!out) return 2;
  long per_run_s = getenv("VH_STEP_TIMEOUT") ? atol(getenv("VH_STEP_TIMEOUT")) : 30;
  std::vector<std::pair<size_t, size_t>> jobs;
  for (size_t i = 0; i < ps.size(); ++i)
    for (size_t k = 0; k < ps[i]["runs"].size(); ++k) jobs.push_back({i, k});
  size_t next = 0;
  while (next < jobs.size()) {
    int pfd[2];
    if (pipe(pfd) != 0) return 2;
    fflush(out);
    pid_t pid = fork();
    if (pid == 0) {
      close(pfd[0]);
      for (size_t j = next; j < jobs.size(); ++j) {
        alarm(per_run_s);
        std::ostringstream s;
        run_one(ps[jobs[j].first], jobs[j].second, s);
        alarm(0);
        fputs(s.str().c_str(), out);
        fflush(out);
        char c = 1;
        if (write(pfd[1], &c, 1) != 1) _exit(5);
      }
      _exit(0);
    }
    close(pfd[1]);
    size_t done = 0;
    char buf[256];
    ssize_t n;
    while ((n = read(pfd[0], buf, sizeof buf)) > 0) done += n;
    close(pfd[0]);
    int status = 0;
    waitpid(pid, &status, 0);
    next += done;
    if (next < jobs.size()) {
      const char *why = (WIFSIGNALED(status) && WTERMSIG(status) == SIGALRM) ? "timeout" : "crash";
      const vj::Value &p = ps[jobs[next].first];
      fprintf(out, "{\"id\":%lld,\"run\":%zu,\"dom\":\"%s\",\"err\":\"%s\",\"status\":%d}\n", p["id"].i(), jobs[next].second + 1,
              p["runs"][jobs[next].second]["dom"].str().c_str(), why,
              WIFSIGNALED(status) ? 1000 + WTERMSIG(status) : WEXITSTATUS(status));
      ++next;
    }
  }
  fclose(out);
  return 0;
}
