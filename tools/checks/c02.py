"""C02 A 'safe' or 'unreachable' assertion verdict is never wrong.
Phase 1: intra-procedural forward analysis + intra_checker (harness/prog_runner);
Phase 2: forward+backward analyzer with every fwd_bwd parameter setting + checker (harness/bwd_runner, mode "fb");
Phase 3: top-down inter-procedural analyzer with the interleaved checker (harness/inter_runner).
All judged by TLC against every concrete execution (spec/ProgSound.tla VerdictsSound, spec/InterSound.tla VerdictsSound)."""
import json
import vlib, proggen, intergen
from vlib import Check, build
from checks import c01, progsound, intersound, c09

PID = "C02"
FB_DOMS = ["intervals", "split_dbm", "sparse_dbm", "split_oct", "bool_int", "dis_intervals", "term_int", "as_sdbm", "sign", "pow_int",
           "ric", "aa_int", "num_product"]


def report(ck, viols, what):
    for v in viols:
        if v.get("bad_invariant") and not v["bad_verdict"]:
            vlib.log("NOTE: program %d violates an invariant property for %s (reported by that property's check)" % (v["prog"], v["bad_invariant"]))
        for run, dom in v["bad_verdict"][:3]:
            cfg = v["program"]["runs"][run - 1]
            prog = dict(v["program"])
            prog["runs"] = [cfg]
            ck.violation("C02 (%s): domain %s (config %s): assertion verdict contradicted at %s; concrete state %s" %
                         (what, dom, json.dumps(cfg), {k: v[k] for k in ("fn", "block", "idx") if k in v}, v["state"]),
                         {"program": prog, "violation": {x: v[x] for x in v if x != "program"}, "phase": what})


def run(tier, seed):
    ck = Check(PID, tier, seed + 500)
    build("prog_runner", "bwd_runner", "inter_runner")
    doms = progsound.all_domains()
    n1, n2, n3 = (100, 80, 50) if tier == "quick" else (2000, 1500, 1000)
    verdicts = {"safe": 0, "unreach": 0, "warn": 0, "err": 0}

    def count(merged):
        for p in merged:
            for r in p["runs"]:
                if r["err"] == 0:
                    for c in r["checks"]:
                        verdicts[c["res"]] = verdicts.get(c["res"], 0) + 1
    # phase 1
    for off in range(0, n1, 250):
        ps = c01.gen_programs(ck, min(250, n1 - off), doms, True)
        for p in ps:
            p["id"] += off
        viols, merged, _ = progsound.explore(ck, "fwd%d" % off, ps)
        count(merged)
        ck.cov["distinct_nontrivial"] += c01.nontrivial(merged)
        if off == 0:
            ck.sample({"program": {x: ps[0][x] for x in ("entry", "exit", "blocks", "init")}, "run_configs": ps[0]["runs"][:2]})
        report(ck, viols, "forward")
    # phase 2
    for off in range(0, n2, 250):
        ps = []
        for i in range(min(250, n2 - off)):
            p = proggen.program(ck.rng, 100000 + off + i, asserts=True)
            p["runs"] = [{"dom": d, "mode": "fb", "bwd": 1, "refine": ck.rng.choice([0, 1, 5]), "use_refined": ck.rng.choice([0, 1]),
                          "wd": ck.rng.choice([0, 1, 2]), "desc": ck.rng.choice([0, 1, 2]), "th": ck.rng.choice([0, 0, 5])} for d in FB_DOMS]
            ps.append(p)
        for i in range(30 if tier == "quick" else 100):     # directed: one defining statement of every kind, dominated assertion
            p = proggen.backward_pattern_program(ck.rng, 150000 + off + i)
            p["runs"] = [{"dom": d, "mode": "fb", "bwd": 1, "refine": ck.rng.choice([0, 1, 5]), "use_refined": ck.rng.choice([0, 1]),
                          "wd": 1, "desc": 1, "th": 0} for d in ("intervals", "split_dbm", "split_oct", "bool_int", "dis_intervals", "term_int")]
            ps.append(p)
        if off == 0:   # fixed regression cases (replays of earlier findings)
            import os
            rd = os.path.join(vlib.ROOT, "tools", "regress")
            for f in sorted(os.listdir(rd)):
                if f.startswith("c02_"):
                    q = json.load(open(os.path.join(rd, f)))
                    q["runs"] = [{"dom": d, "mode": "fb", "bwd": 1, "refine": r, "use_refined": u, "wd": 1, "desc": 1, "th": 0}
                                 for d in ("intervals", "split_dbm") for r in (0, 5) for u in (0, 1)]
                    ps.append(q)
        viols, merged, _ = progsound.explore(ck, "fb%d" % off, ps, runner="bwd_runner")
        count(merged)
        report(ck, viols, "forward+backward")
    # phase 3
    for off in range(0, n3, 200):
        ps = []
        for i in range(min(200, n3 - off)):
            p = intergen.program(ck.rng, 200000 + off + i)
            p["runs"] = [c09.td_config(ck.rng, d) for d in intersound.DOMS]
            intergen.bound_contexts(ck.rng, p)
            ps.append(p)
        if off == 0:    # directed call graphs: self recursion, mutual recursion (with an assertion after the recursive call in the
            # non-head function), spike callees; recursive ones analysed with analyze_recursive_functions on and off
            for i in range(8 if tier == "quick" else 60):
                for fam in (intergen.countdown_program, intergen.mutual_program, intergen.spike_program):
                    q = fam(ck.rng, 250000 + 3 * i + len(ps))
                    q["runs"] = [c09.td_config(ck.rng, d) for d in intersound.DOMS]
                    if q.get("recursive"):
                        for r in q["runs"]:
                            r["rec"] = ck.rng.choice([1, 1, 0])
                    intergen.bound_contexts(ck.rng, q)
                    ps.append(q)
        viols, merged, _ = intersound.explore(ck, "td%d" % off, ps)
        count(merged)
        report(ck, viols, "top-down inter-procedural")
    ck.cov["verdicts_seen"] = verdicts
    ck.cov["rule"] = ("seeded programs with numerical and boolean assertions: (1) x every domain, intra forward + checker; (2) x 13 domains, "
                      "forward+backward analyzer with max_refine_iterations in {0,1,5}, use_refined_invariants on/off; (3) call graphs x 17 "
                      "domains, top-down analyzer with interleaved checker and random inter parameters. Every concrete execution is "
                      "explored; at each assertion: safe => condition holds, unreachable => never reached. non-trivial as in C01")
    ck.assumptions += ["box -2..2 (intra) / -1..1 (inter); bounded universe; reference assertions are not generated yet"]
    return ck.finish()


def replay(path):
    case = json.load(open(path))["case"]
    ck = Check(PID, "quick", 0)
    build("prog_runner", "bwd_runner", "inter_runner")
    ph = case.get("phase", "forward")
    if ph == "forward":
        viols, _, _ = progsound.explore(ck, "replay", [case["program"]])
    elif ph == "forward+backward":
        viols, _, _ = progsound.explore(ck, "replay", [case["program"]], runner="bwd_runner")
    else:
        viols, _, _ = intersound.explore(ck, "replay", [case["program"]])
    report(ck, viols, ph)
    return ck.finish()
