"""C13 Fixed-width integers and wrapped intervals follow modular arithmetic (scalar level).

Oracle: spec/Wrapint.tla (arithmetic modulo 2^w; native for w <= 15, eight base-256 limbs for 16..64,
division/remainder/right shifts through their defining relations) and spec/WrappedInterval.tla (gamma of a
wrapped interval on the w-bit circle, soundness contract).  harness/wrap_runner.cpp only runs the real
crab::wrapint / crab::domains::wrapped_interval<z_number> and writes what they returned; every record is
judged by TLC (spec/WrapJudge.tla: exact equality; spec/WrapJudgeIv.tla: for all x in gamma(a), y in gamma(b):
op_w(x,y) in gamma(result)).  Python generates operands, counts, and turns TLC's FAIL lines into verdicts."""
import json, os, collections
import vlib
from vlib import Check, build, tlc, workdir, read_ndjson

RUNNER = "wrap_runner"
WI_OPS = ["add", "sub", "mul", "neg", "and", "or", "xor", "shl", "lshr", "ashr", "udiv", "urem", "sdiv", "srem",
          "addeq", "subeq", "muleq", "preinc", "predec", "postinc_ret", "postinc_new", "postdec_ret", "postdec_new"]


# ----------------------------------------------------------------------------- operand generation (inputs only)
def boundary(w):
    m = 1 << w
    h = 1 << (w - 1)
    return sorted({v % m for v in (0, 1, 2, h - 1, h, h + 1, m - 2, m - 1)})


def shift_amounts(w):
    return sorted({k for k in (0, 1, 2, w // 2, w - 2, w - 1, 7, 8, 9, 15, 16, 17, 31, 32, 33, 62, 63) if 0 <= k < w})


def rand_val(rng, w):
    m = 1 << w
    c = rng.randrange(6)
    if c == 0:
        return rng.randrange(m)
    if c == 1:
        return rng.randrange(min(m, 1 << rng.randint(1, w)))           # small magnitude
    if c == 2:
        return (m - 1 - rng.randrange(min(m, 1 << rng.randint(1, w)))) % m  # small negative
    if c == 3:
        return ((1 << rng.randrange(w)) + rng.randint(-2, 2)) % m      # around a power of two
    if c == 4:
        return ((1 << (w - 1)) + rng.randint(-3, 3)) % m               # around the north pole
    v = 0
    for _ in range(rng.randint(1, 4)):
        v |= 1 << rng.randrange(w)                                     # sparse bits
    return v


def wrapint_jobs(rng, nrand, widths):
    jobs = []
    for w in widths:
        jobs.append({"k": "wk", "w": w})
        if w <= 4:
            jobs.append({"gen": "wi_all", "w": w})
            avals = list(range(1 << w))
            es, ts = list(range(0, 64 - w + 1)), list(range(1, w + 1))
        else:
            bv, sh = boundary(w), shift_amounts(w)
            n = 0
            for a in bv:
                for b in bv:
                    jobs.append({"k": "wi", "w": w, "a": str(a), "b": str(b), "sh": sh[n % len(sh)]})
                    n += 1
            for _ in range(nrand):
                jobs.append({"k": "wi", "w": w, "a": str(rand_val(rng, w)), "b": str(rand_val(rng, w)), "sh": rng.randrange(w)})
            avals = bv + [rand_val(rng, w) for _ in range(max(4, nrand // 8))]
            es = sorted({e for e in (0, 1, 2, 7, 8, 9, 16 - w, 32 - w, 63 - w, 64 - w, rng.randint(0, 64 - w)) if 0 <= e <= 64 - w})
            ts = sorted({t for t in (1, 2, 7, 8, 9, 15, 16, 17, 31, 32, 33, w - 1, w, rng.randint(1, w)) if 1 <= t <= w})
        for a in avals:
            jobs.append({"k": "wx", "w": w, "a": str(a), "es": es, "ts": ts})
        m, i63 = 1 << w, 1 << 63
        zs = {0, 1, -1, i63 - 1, -i63, m - 1, m, -m, m >> 1, -(m >> 1), m + 1}
        zs |= {rng.randint(-i63, i63 - 1) for _ in range(max(3, nrand // 10))}
        for z in sorted(z for z in zs if -i63 <= z < i63):
            jobs.append({"k": "wc", "w": w, "src": "z", "n": str(z)})
        us = {0, 1, m - 1, m % (1 << 64), (1 << 64) - 1, 1 << 63} | {rng.randrange(1 << 64) for _ in range(max(3, nrand // 10))}
        for u in sorted(us):
            jobs.append({"k": "wc", "w": w, "src": "s", "n": str(u)})
            jobs.append({"k": "wc", "w": w, "src": "u", "n": str(u)})
    return jobs


def rand_interval(rng, w):
    """an interval operand for the sampled tier: {"s","e"} | {"top"} | {"bot"}"""
    m, h = 1 << w, 1 << (w - 1)
    c = rng.randrange(12)
    if c == 0:
        return {"top": True}
    if c == 1:
        return {"bot": True}
    bv = boundary(w)
    if c == 2:
        s = rng.choice(bv + [rand_val(rng, w)])
        return {"s": str(s), "e": str(s)}                               # singleton
    if c == 3:
        s = rng.randrange(min(w, m))
        return {"s": str(s), "e": str(s)}                               # a shift amount
    if c == 4:
        return {"s": "0", "e": str(rng.randrange(min(m, 2 * w)))}       # small non-negative
    if c == 5:                                                          # crosses the north pole
        return {"s": str((h - 1 - rng.randrange(min(h, 1 << rng.randint(1, w - 1)))) % m),
                "e": str((h + rng.randrange(min(h, 1 << rng.randint(1, w - 1)))) % m)}
    if c == 6:                                                          # crosses the south pole
        return {"s": str((m - 1 - rng.randrange(min(h, 1 << rng.randint(1, w - 1)))) % m),
                "e": str(rng.randrange(min(h, 1 << rng.randint(1, w - 1))))}
    if c == 7:                                                          # both poles (long way round)
        e = rng.randrange(m)
        return {"s": str((e + 1 + rng.randrange(1, min(m - 1, 1 << rng.randint(1, w - 1)))) % m), "e": str(e)}
    if c == 8:
        return {"s": str(rng.choice(bv)), "e": str(rng.choice(bv))}
    s = rand_val(rng, w)
    return {"s": str(s), "e": str((s + rng.randrange(min(m, 1 << rng.randint(1, w)))) % m)}


def related_interval(rng, w, a):
    """an operand that overlaps / nests / complements / touches a (for the lattice operations)"""
    if "s" not in a:
        return rand_interval(rng, w)
    m = 1 << w
    s, e = int(a["s"]), int(a["e"])
    d = (e - s) % m
    i, j = rng.randrange(min(d, 3) + 1), rng.randrange(min(d, 3) + 1)
    c = rng.randrange(7)
    if c == 0:
        b = (e - i, s + j)                       # the complement side, overlapping both ends of a
    elif c == 1:
        b = (s + i, e - j) if i + j <= d else (s, e)   # nested
    elif c == 2:
        b = (s - i - rng.randrange(3), e + j)    # contains a
    elif c == 3:
        b = (e + 1, e + 1 + rng.randrange(min(m, 1 << rng.randint(1, w))))   # adjacent
    elif c == 4:
        k = rng.randrange(1, min(m, 2 + d))
        b = (s + k, e + k)                       # shifted copy
    elif c == 5:
        b = (e, s)                               # exact complement plus the end points
    else:
        b = (s, e)
    return {"s": str(b[0] % m), "e": str(b[1] % m)}


def samples_of(rng, w, iv, n):
    """concrete candidates, mostly inside the interval (TLC decides membership)"""
    m, h = 1 << w, 1 << (w - 1)
    if "bot" in iv:
        return [str(rand_val(rng, w))]
    if "top" in iv:
        c = [0, 1, h - 1, h, m - 1, rand_val(rng, w), rand_val(rng, w), rng.randrange(min(w, m))]
    else:
        s, e = int(iv["s"]), int(iv["e"])
        d = (e - s) % m
        c = [s, e, (s + 1) % m if d else s, (e - 1) % m if d else e, (s + d // 2) % m]
        for p in (0, 1, h - 1, h, m - 1, w - 1):
            if (p - s) % m <= d:
                c.append(p % m)
        c += [(s + rng.randrange(d + 1)) % m for _ in range(3)]
        c.append((e + 1) % m)                                           # usually outside
    out = []
    for v in c:
        if v not in out:
            out.append(v)
    head, rest = out[:4], out[4:]
    rng.shuffle(rest)
    return [str(v) for v in (head + rest)[:n]]


def interval_sample_jobs(rng, w, npairs, nx):
    jobs = []
    es = sorted({e for e in (0, 1, 8, 16 - w, 32 - w, 64 - w, 63 - w) if 0 <= e <= 64 - w})
    ts = sorted({t for t in (1, 7, 8, 9, 16, 31, 32, w - 1, w) if 1 <= t <= w})
    for _ in range(npairs):
        a = rand_interval(rng, w)
        b = related_interval(rng, w, a) if rng.random() < 0.45 else rand_interval(rng, w)
        jobs.append({"k": "ib", "w": w, "a": a, "b": b, "xs": samples_of(rng, w, a, nx), "ys": samples_of(rng, w, b, nx)})
    for _ in range(max(10, npairs // 3)):
        a = rand_interval(rng, w)
        jobs.append({"k": "iu", "w": w, "a": a, "xs": samples_of(rng, w, a, 2 * nx), "es": es, "ts": ts})
    return jobs


# ----------------------------------------------------------------------------- records -> jobs (for confirmation / replay)
def _int(raw):
    return sum(b << (8 * i) for i, b in enumerate(raw))


def _iv(x):
    return {"top": True} if x["c"] == 1 else {"bot": True} if x["c"] == 2 else {"s": str(_int(x["s"])), "e": str(_int(x["e"]))}


def job_of(rec):
    k, w = rec["k"], rec["w"]
    if k == "wi":
        return {"k": k, "w": w, "a": str(_int(rec["a"])), "b": str(_int(rec["b"])), "sh": rec["sh"]}
    if k == "wx":
        return {"k": k, "w": w, "a": str(_int(rec["a"])), "es": [x["e"] for x in rec["ext"]], "ts": [x["t"] for x in rec["tr"]]}
    if k == "wc":
        if rec["src"] == "u":
            return {"k": k, "w": w, "src": "u", "n": str(_int(rec["u"]))}
        mag = sum(c * 1000 ** i for i, c in enumerate(rec["z"]["c"]))
        return {"k": k, "w": w, "src": rec["src"], "n": ("-" if rec["z"]["neg"] else "") + str(mag)}
    if k == "wk":
        return {"k": k, "w": w}
    if k == "ib":
        if rec["full"]:
            n = (1 << w) * (1 << w) + 2
            idx = lambda x: 0 if x["c"] == 2 else 1 if x["c"] == 1 else 2 + _int(x["s"]) * (1 << w) + _int(x["e"])
            return {"gen": "ib_all", "w": w, "from": idx(rec["a"]) * n + idx(rec["b"]), "count": 1}
        return {"k": k, "w": w, "a": _iv(rec["a"]), "b": _iv(rec["b"]), "xs": [str(_int(v)) for v in rec["xs"]],
                "ys": [str(_int(v)) for v in rec["ys"]]}
    j = {"k": "iu", "w": w, "a": _iv(rec["a"]), "xs": [str(_int(v)) for v in rec["xs"]],
         "es": [x["e"] for x in rec["ext"]], "ts": [x["t"] for x in rec["tr"]]}
    if rec["full"]:
        j["full"] = True
    return j


def short(rec, tag):
    """the part of a record that matters for one failing operation (for messages / evidence samples)"""
    k = rec["k"]
    if k == "wi":
        d = {"w": rec["w"], "a": _int(rec["a"]), "b": _int(rec["b"]), "sh": rec["sh"]}
        if tag in rec["v"]:
            d[tag] = _int(rec["v"][tag])
        if tag in rec["p"]:
            d[tag] = rec["p"][tag]
        return d
    if k == "wx":
        d = {"w": rec["w"], "a": _int(rec["a"])}
        if tag in ("sext", "zext"):
            d[tag] = [(x["e"], _int(x[tag[0]])) for x in rec["ext"] if tag[0] in x]
        elif tag == "trunc":
            d[tag] = [(x["t"], _int(x["r"])) for x in rec["tr"] if "r" in x]
        else:
            d.update({q: rec[q] for q in ("ub", "sb") if q in rec})
        return d
    if k in ("wc", "wk"):
        return rec

    def iv(x):
        return "bottom" if x["b"] else "top" if x["t"] else [_int(x["s"]), _int(x["e"])]
    d = {"w": rec["w"], "a": iv(rec["a"]) if rec["a"].get("c", 0) != 0 else [_int(rec["a"]["s"]), _int(rec["a"]["e"])]}
    if k == "ib":
        d["b"] = iv(rec["b"]) if rec["b"].get("c", 0) != 0 else [_int(rec["b"]["s"]), _int(rec["b"]["e"])]
        if tag in rec["r"]:
            d[tag] = iv(rec["r"][tag])
        if tag in rec["p"]:
            d[tag] = rec["p"][tag]
        if not rec["full"]:
            d["xs"], d["ys"] = [_int(v) for v in rec["xs"]], [_int(v) for v in rec["ys"]]
    else:
        if tag in rec["r"]:
            d[tag] = iv(rec["r"][tag])
        if tag in ("sext", "zext"):
            d[tag] = [(x["e"], iv(x[tag[0]])) for x in rec["ext"] if tag[0] in x]
        if tag == "trunc":
            d[tag] = [(x["t"], iv(x["r"])) for x in rec["tr"] if "r" in x]
        if not rec["full"]:
            d["xs"] = [_int(v) for v in rec["xs"]]
    return d


# ----------------------------------------------------------------------------- run + judge
def harness(wd, label, jobs):
    jp, op = os.path.join(wd, label + ".jobs.json"), os.path.join(wd, label + ".ndjson")
    json.dump(jobs, open(jp, "w"))
    rc, out = vlib.sh([os.path.join(vlib.BUILD, "bin", RUNNER), jp, op], timeout=3000)
    if rc != 0:
        raise vlib.Broken("wrap_runner failed (%d) on %s: %s" % (rc, label, out[-2000:]))
    return op


def spec_of(kind):
    return "WrapJudge" if kind.startswith("w") else "WrapJudgeIv"


class Tally:
    def __init__(self):
        self.per_op = collections.Counter()       # "wrapint.add" / "interval.mul" -> results judged
        self.per_width = collections.Counter()    # "wrapint.w=17" -> records
        self.noclaim = collections.Counter()      # operation died / precondition
        self.nontrivial = set()
        self.records = 0
        self.fail = {}                            # (kind, tag) -> list of (w, label, rec)
        self.drift = collections.Counter()

    def count(self, rec):
        self.records += 1
        k, w = rec["k"], rec["w"]
        fam = "wrapint" if k.startswith("w") else "interval"
        self.per_width["%s.w=%d" % (fam, w)] += 1
        for op in rec.get("nc", []):
            self.noclaim["%s.%s.died" % (fam, op.split(":")[0])] += 1
        if k == "wi":
            for op in rec["v"]:
                self.per_op["wrapint." + op] += 1
            for op in rec["p"]:
                self.per_op["wrapint." + op] += 1
            if not rec["b"]:
                self.noclaim["wrapint.div-by-zero(precondition)"] += 4
            if rec["a"] and rec["b"]:
                self.nontrivial.add(("wi", w, tuple(rec["a"]), tuple(rec["b"]), rec["sh"]))
        elif k == "wx":
            self.per_op["wrapint.sext"] += sum(1 for x in rec["ext"] if "s" in x)
            self.per_op["wrapint.zext"] += sum(1 for x in rec["ext"] if "z" in x)
            self.per_op["wrapint.keep_lower"] += sum(1 for x in rec["tr"] if "r" in x)
            for q, name in (("ub", "get_unsigned_bignum"), ("sb", "get_signed_bignum"), ("us", "get_unsigned_str"), ("ss", "get_signed_str")):
                self.per_op["wrapint." + name] += q in rec
            if rec["a"]:
                self.nontrivial.add(("wx", w, tuple(rec["a"])))
        elif k == "wc":
            self.per_op["wrapint.ctor-" + rec["src"]] += "r" in rec
            self.nontrivial.add(("wc", w, rec["src"], json.dumps(rec.get("z", rec.get("u")))))
        elif k == "wk":
            self.per_op["wrapint.constants"] += 4
        elif k == "ib":
            nt = False
            for op, x in rec["r"].items():
                self.per_op["interval." + op] += 1
                if not x["t"] and not x["b"]:
                    self.per_op["interval.%s.precise-result" % op] += 1
                    nt = nt or op in ("add", "sub", "mul", "sdiv", "udiv", "shl", "lshr", "ashr", "join", "meet", "widen")
            for op in rec["p"]:
                self.per_op["interval." + op] += 1
            if nt:
                self.nontrivial.add(("ib", w, json.dumps(rec["a"]), json.dumps(rec["b"])))
        else:
            for op, x in rec["r"].items():
                self.per_op["interval." + op] += 1
            self.per_op["interval.at"] += len(rec["at"])
            self.per_op["interval.sext"] += sum(1 for x in rec["ext"] if "s" in x)
            self.per_op["interval.zext"] += sum(1 for x in rec["ext"] if "z" in x)
            self.per_op["interval.trunc"] += sum(1 for x in rec["tr"] if "r" in x)
            if not rec["a"]["t"] and not rec["a"]["b"]:
                self.nontrivial.add(("iu", w, json.dumps(rec["a"])))


def judge(ck, ta, wd, label, jobs, kind, timeout=1500):
    """run the real code on `jobs`, let TLC judge every record, collect the failing (record, operation) pairs"""
    op = harness(wd, label, jobs)
    r = tlc(spec_of(kind), spec_of(kind), "c13-" + label, env={"WRAP_RECORDS": op}, cont=True, timeout=timeout)
    ck.add_tlc(r, spec_of(kind) + "/" + label)
    recs = read_ndjson(op)
    if r.distinct != len(recs):
        raise vlib.Broken("TLC judged %d of %d records of %s:\n%s" % (r.distinct, len(recs), label, r.out[-3000:]))
    for rec in recs:
        ta.count(rec)
    ck.cov["traces_validated_against_impl"] += len(recs)
    for rid, tag in r.tuples("FAIL"):
        rec = recs[rid - 1]
        ta.fail.setdefault((rec["k"], tag), []).append((rec["w"], label, rec))
    for rid, tag in r.tuples("DRIFT"):
        ta.drift[tag] += 1
    if recs:
        mid = recs[len(recs) // 2]
        ck.sample({"record": label, "case": short(mid, "add" if mid["k"] in ("wi", "ib") else "neg")}, limit=8)
    return recs


def confirm(wd, items, n):
    """re-run failing cases alone (real code again, TLC again): items = [(kind, tag, rec)], all of one spec.
    Returns {index: fresh record} for the cases that fail again with the same tag."""
    op = harness(wd, "confirm%d" % n, [job_of(rec) for _, _, rec in items])
    spec = spec_of(items[0][0])
    r = tlc(spec, spec, "c13-confirm%d" % n, env={"WRAP_RECORDS": op}, cont=True, workers=2, timeout=600)
    again = read_ndjson(op)
    failed = {(rid, t) for rid, t in r.tuples("FAIL")}
    return {q: again[q] for q, (_, tag, _) in enumerate(items) if (q + 1, tag) in failed}


def known_match(kind, tag):
    for k in vlib.known_findings("C13"):
        s = k.get("sig", {})
        if s.get("engine") == RUNNER and s.get("kind") == kind and s.get("op") == tag:
            return k["id"]
    return None


def verdicts(ck, ta, wd):
    ck.cov["failing_groups"] = {}
    groups = []
    for (kind, tag), cases in sorted(ta.fail.items()):
        cases.sort(key=lambda c: (c[0], c[2]["id"]))
        widths = sorted({c[0] for c in cases})
        ck.cov["failing_groups"]["%s/%s" % (kind, tag)] = {"records": len(cases), "widths": widths}
        groups.append((kind, tag, cases, widths))
    # the smallest case of every group is confirmed in isolation (one batch per specification, then retries)
    confirmed, n = {}, 0
    for attempt in range(3):
        for fam in ("w", "i"):
            todo = [(k, t, c[attempt][2]) for k, t, c, _ in groups if k.startswith(fam) and (k, t) not in confirmed and len(c) > attempt]
            if not todo:
                continue
            n += 1
            for q, rec in confirm(wd, todo, n).items():
                confirmed[(todo[q][0], todo[q][1])] = rec
    for kind, tag, cases, widths in groups:
        again = confirmed.get((kind, tag))
        if again is None:
            vlib.log("note: %s/%s (%d records) did not reproduce in isolation" % (kind, tag, len(cases)))
            continue
        what = short(again, tag)
        fid = known_match(kind, tag)
        if fid:
            ck.known(fid, what)
            continue
        fam = "crab::wrapint" if kind.startswith("w") else "crab::domains::wrapped_interval"
        claim = ("differs from arithmetic modulo 2^w" if kind.startswith("w") else
                 "is not sound: some x in gamma(a), y in gamma(b) has op_w(x,y) outside gamma(result) (or the result is malformed)")
        if tag.startswith("witness-"):
            claim = ("the value that the real wrapint reports for sampled concrete operands violates the defining relation of the "
                     "operation, so the interval result could not be judged on them (see the wrapint violation of the same operation)")
        if kind == "wi" and tag in ("sdiv", "srem", "urem"):
            claim += " (for w >= 16 quotient and remainder are checked together by a = q*b + r: either of the two may be the wrong one)"
        wtxt = str(widths) if len(widths) <= 12 else "%d..%d (%d widths)" % (widths[0], widths[-1], len(widths))
        ck.violation("%s %s %s; %d failing record(s), widths %s; smallest case (confirmed in isolation): %s; widest case: %s" %
                     (fam, tag, claim, len(cases), wtxt, json.dumps(what), json.dumps(short(cases[-1][2], tag))), again)


def run(tier, seed):
    ck = Check("C13", tier, seed)
    build(RUNNER)
    wd = workdir("c13")
    ta = Tally()
    rng = ck.rng
    quick = tier == "quick"
    # 1. wrapint: exhaustive w = 1..4, boundary pairs + random for w = 5..64
    nrand = 36 if quick else 800
    widths = list(range(1, 65))
    for part, ws in enumerate([widths[:24], widths[24:44], widths[44:]] if not quick else [widths]):
        judge(ck, ta, wd, "wrapint%d" % part, wrapint_jobs(rng, nrand, ws), "wi")
    # 2. wrapped intervals: all (start,end) pairs incl. top()/bottom() x all operations, full gamma in TLC
    for w in (1, 2, 3):
        es = sorted({e for e in (0, 1, 2, 3, 5, 13, 16 - w, 29, 32 - w, 61, 64 - w)})
        judge(ck, ta, wd, "iv-all-w%d" % w, [{"gen": "ib_all", "w": w}, {"gen": "iu_all", "w": w, "es": es, "ts": list(range(1, w + 1))}], "ib")
    if not quick:
        w, n, step = 4, (256 + 2) ** 2, 6000
        judge(ck, ta, wd, "iv-all-w4-unary", [{"gen": "iu_all", "w": w, "es": [0, 1, 2, 4, 11, 12, 13, 28, 60], "ts": [1, 2, 3, 4]}], "iu")
        for part, frm in enumerate(range(0, n, step)):
            judge(ck, ta, wd, "iv-all-w4-%02d" % part, [{"gen": "ib_all", "w": w, "from": frm, "count": step}], "ib", timeout=2400)
    # 3. wrapped intervals at machine widths: boundary/pole-crossing operands, membership on sampled concrete values
    for w in (8, 16, 32, 64) if quick else (5, 8, 13, 16, 24, 32, 48, 63, 64):
        judge(ck, ta, wd, "iv-samples-w%d" % w, interval_sample_jobs(rng, w, 160 if quick else 1400, 5 if quick else 6), "ib")
    verdicts(ck, ta, wd)
    ck.cov["evaluations"] = sum(v for k, v in ta.per_op.items() if not k.endswith("precise-result"))
    ck.cov["distinct_nontrivial"] = len(ta.nontrivial)
    ck.cov["records"] = ta.records
    ck.cov["per_operation"] = dict(sorted(ta.per_op.items()))
    ck.cov["per_width_records"] = dict(sorted(ta.per_width.items(), key=lambda kv: (kv[0].split(".")[0], int(kv[0].split("=")[1]))))
    ck.cov["no_claim"] = dict(sorted(ta.noclaim.items()))
    ck.cov["precision_drift"] = dict(ta.drift)    # leq/eq incomplete, join not the smallest cover (w <= 3): reported, not a violation
    if ta.drift:
        vlib.log("note: precision drift (not a soundness violation): %s" % dict(ta.drift))
    ck.cov["exhaustive"] = False
    ck.cov["exhaustive_parts"] = ["wrapint: all operand pairs x all operations for w = 1..4",
                                  "wrapped_interval: all (start,end) pairs + top() + bottom(), all pairs of them x all operations, "
                                  "complete gamma enumerated by TLC, for w = 1,2,3" + ("" if quick else ",4")]
    ck.cov["rule"] = ("evaluations = operation results of the real code judged by TLC (one per operation and record). wrapint: w=1..4 all "
                      "pairs; w=5..64 all pairs of the 8 boundary values {0,1,2,2^(w-1)-1,2^(w-1),2^(w-1)+1,2^w-2,2^w-1} + seeded random "
                      "pairs, shift amounts 0..w-1; sext/zext/keep_lower/bignum conversions/constructors/constants per width. intervals: "
                      "exhaustive small widths; for machine widths random singleton/small/north-pole/south-pole/both-pole/top/bottom operands "
                      "with concrete samples whose membership TLC decides. distinct_nontrivial = distinct records with non-zero operands "
                      "(wrapint) resp. with at least one arithmetic/lattice result that is neither top nor bottom (interval pairs) or a "
                      "proper interval operand (unary)")
    ck.assumptions += ["shift amounts >= w and division by zero have no defined result: no claim (division by zero is never executed)",
                       "operations on which the real code exits (CRAB_ERROR) are recorded under no_claim, not as violations",
                       "for widths > 15 the concrete quotients/shifted values used in the interval contract are witnesses from the real "
                       "wrapint, used only after TLC validated them against the defining relation",
                       "wrapped_interval_domain (program level) is checked by the ProgSound based checks, not here",
                       "widening is only checked to cover both arguments; termination of widening sequences is not checked"]
    bv_programs(ck, tier)
    return ck.finish()


def replay(path):
    case = json.load(open(path))["case"]
    ck = Check("C13", "quick", 0)
    build(RUNNER)
    wd = workdir("c13-replay")
    ta = Tally()
    judge(ck, ta, wd, "replay", [job_of(case)], case["k"])
    verdicts(ck, ta, wd)
    ck.cov["evaluations"] = sum(ta.per_op.values())
    ck.cov["distinct_nontrivial"] = len(ta.nontrivial)
    return ck.finish()


def bv_programs(ck, tier):
    """second half of C13: programs under machine-integer semantics for the wrapped-interval DOMAIN
    (spec/ProgSoundBV.tla explores every execution with wrap-around arithmetic)"""
    import bvgen
    from checks import progsound
    build("prog_runner")
    n = 120 if tier == "quick" else 2500
    done = k = 0
    while done < n:
        m = min(400, n - done)
        ps = []
        for i in range(m):
            w = ck.rng.choice([3, 3, 4])
            p = bvgen.program(ck.rng, 700000 + done + i, w)
            p["runs"] = [{"dom": "wrapped_int", "wd": ck.rng.choice([0, 1, 2]), "desc": ck.rng.choice([0, 1, 2]), "th": ck.rng.choice([0, 0, 5]), "live": 0}
                         for _ in range(2)]
            ps.append(p)
        viols, merged, _ = progsound.explore(ck, "bv%d" % k, ps, spec="ProgSoundBV")
        ck.cov["bv_program_runs"] = ck.cov.get("bv_program_runs", 0) + sum(1 for q in merged for r in q["runs"] if r["err"] == 0)
        for v in viols:
            for run_, dom in (v["bad_invariant"] + v["bad_verdict"])[:2]:
                cfg = v["program"]["runs"][run_ - 1]
                prog = dict(v["program"])
                prog["runs"] = [cfg]
                ck.violation("C13 (wrapped-interval domain, %d-bit machine semantics): %s at block b%d idx %d; concrete state %s reached by %s" %
                             (v["program"]["bv"], v["violated"], v["block"], v["idx"], v["state"], v["execution"][-10:]),
                             {"program": prog, "execution": v["execution"], "state": v["state"], "kind": "bv-program"})
        done += m
        k += 1
