#include "domreg.hpp"
#include "domtypes.hpp"
#include <crab/domains/intervals.hpp>
#include <crab/domains/region_domain.hpp>
using namespace crab::domains;
using namespace vh;
typedef crab::var_factory_impl::str_var_alloc_col var_allocator;
template <class BaseAbsDom> struct RegionParams {
  using number_t = z_number;
  using varname_t = vh::varname_t;
  using varname_allocator_t = var_allocator;
  using base_abstract_domain_t = BaseAbsDom;
  using base_varname_t = typename BaseAbsDom::varname_t;
};
typedef region_domain<RegionParams<ikos::interval_domain<z_number, typename var_allocator::varname_t>>> rgn_int_t;
VH_DOMREG(rgn_int, rgn_int_t)
