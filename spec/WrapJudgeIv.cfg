SPECIFICATION Spec
INVARIANT Contract
INVARIANT Drift
CHECK_DEADLOCK FALSE
