---------------------------- MODULE NonInterf ----------------------------
(* C18 (liveness): if the real liveness analysis reports variable v DEAD at the end of block b, changing the
   value of v there never changes the rest of any concrete execution.

   Self-composition: two copies of the program run in lock-step from the end of block b, in states that differ
   only in v, taking the same goto choices and the same havoc values.  At every evaluated condition
   (assume / assert) the outcomes must agree -- otherwise the conditions taken or the assertion outcomes
   differ -- and at the end of the exit block the function outputs must agree.  While the outcomes agree the two
   copies are at the same program point, so one program counter suffices. *)
EXTENDS Gamma, TLC, Json, IOUtils

Progs == ndJsonDeserialize(IOEnv.PROGRAMS)
B == atoi(IOEnv.BOX)
U == atoi(IOEnv.UNIV)
MaxSteps == atoi(IOEnv.MAXSTEPS)

VARIABLES p, ob, v,   \* program, block at whose end the two states are created, the changed (dead) variable
          b, i, s1, s2, n
vars == <<p, ob, v, b, i, s1, s2, n>>

P == Progs[p]
Stmts == P.blocks[b].stmts
AtEnd == i = Len(Stmts) + 1
SeqSet(q) == {q[k] : k \in DOMAIN q}

(* the values of variable k of program pr: integers -B..B, or - for an array variable (pr.kinds[k] = "arr", programs of
   tools/proggen.py array_live_program) - every tuple of pr.ncells integer cells: changing a dead ARRAY variable means
   changing the content of at least one of its cells *)
RangeOf(pr, k) == IF "kinds" \in DOMAIN pr /\ pr.kinds[k] = "arr" THEN [1..pr.ncells -> (-B)..B]
                  ELSE IF "kinds" \in DOMAIN pr /\ pr.kinds[k] = "bool" THEN 0..1 ELSE (-B)..B
RECURSIVE StatesN(_, _)
StatesN(pr, m) == IF m = 0 THEN {<<>>} ELSE {Append(q, w) : q \in StatesN(pr, m - 1), w \in RangeOf(pr, m)}
StatesOf(pr) == IF "kinds" \in DOMAIN pr THEN StatesN(pr, pr.nv) ELSE [1..pr.nv -> (-B)..B]

Init == /\ p \in DOMAIN Progs
        /\ Progs[p].err = 0
        /\ ob \in {q \in DOMAIN Progs[p].blocks :   \* no execution stands at the end of a block containing `unreachable`
                     \A k \in DOMAIN Progs[p].blocks[q].stmts : Progs[p].blocks[q].stmts[k].op # "unreach"}
        /\ v \in {Progs[p].dead[ob][k] : k \in DOMAIN Progs[p].dead[ob]}
        /\ s1 \in StatesOf(Progs[p])
        /\ \E w \in RangeOf(Progs[p], v) \ {s1[v]} : s2 = [s1 EXCEPT ![v] = w]
        /\ b = ob /\ i = Len(Progs[p].blocks[ob].stmts) + 1
        /\ n = 0

(* both copies execute statement i with the same resolution of non-determinism *)
StepBoth ==
  /\ ~AtEnd /\ n < MaxSteps
  /\ LET st == Stmts[i]
     IN IF st.op = "havoc"
          THEN \E w \in RangeOf(P, st.x) : s1' = [s1 EXCEPT ![st.x] = w] /\ s2' = [s2 EXCEPT ![st.x] = w]
          ELSE IF st.op = "callx"     \* external call: the same arbitrary outputs in both copies
          THEN \E w1 \in RangeOf(P, st.lhs[1]) : \E w2 \in RangeOf(P, st.lhs[Len(st.lhs)]) :
                  LET upd(s) == [[s EXCEPT ![st.lhs[1]] = w1] EXCEPT ![st.lhs[Len(st.lhs)]] = w2]
                  IN (Len(st.lhs) = 2 \/ w1 = w2) /\ s1' = upd(s1) /\ s2' = upd(s2)
          ELSE /\ s1' \in Succ(st, s1, U, LAMBDA x : RangeOf(P, x))
               /\ s2' \in Succ(st, s2, U, LAMBDA x : RangeOf(P, x))
  /\ i' = i + 1 /\ n' = n + 1
  /\ UNCHANGED <<p, ob, v, b>>
Goto == /\ AtEnd /\ n < MaxSteps
        /\ \E k \in DOMAIN P.blocks[b].succ : b' = P.blocks[b].succ[k]
        /\ i' = 1 /\ n' = n + 1
        /\ UNCHANGED <<p, ob, v, s1, s2>>
Next == StepBoth \/ Goto
Spec == Init /\ [][Next]_vars

CondOf(st, s) == IF st.op \in {"assume", "assert"} THEN Holds(st.c, s)
                 ELSE IF st.op = "bassume" THEN s[st.x] = (IF st.neg = 1 THEN 0 ELSE 1)
                 ELSE IF st.op = "bassert" THEN s[st.x] = 1 ELSE TRUE
(* conditions taken and assertion outcomes agree *)
SameOutcomes == (~AtEnd /\ Stmts[i].op \in {"assume", "assert", "bassume", "bassert"}) => (CondOf(Stmts[i], s1) = CondOf(Stmts[i], s2))
(* function outputs agree at the end of the exit block *)
SameOutputs == (AtEnd /\ b = P.exit) => \A k \in DOMAIN P.outs : s1[P.outs[k]] = s2[P.outs[k]]

Compact == [prog |-> P.id, dead_at_end_of |-> ob, variable |-> v, block |-> b, idx |-> i, state1 |-> s1, state2 |-> s2]
===========================================================================
