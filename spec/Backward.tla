----------------------------- MODULE Backward -----------------------------
(* C11: the necessary-precondition (backward) analysis.

   The concrete system is the CrabIR transition system of ProgSound, started
   from EVERY block entry with EVERY box valuation (the "origin"), and carrying
   the origin along.  Whenever an execution
     - error mode: stands at an assertion whose condition is false, or
     - good mode:  stands at the end of the exit block in a state satisfying the
                   explicit final constraints,
   the origin state must be contained in the precondition that the real
   analysis reported for the origin block.  When forward invariants were
   supplied to the analysis (as explicit per-block constraint maps), only
   executions all of whose block-entry states satisfy those constraints count
   ("consistent with the supplied forward invariants"): the constraints are the
   antecedent, used from below (rule R2).                                       *)
EXTENDS Gamma, TLC, Json, IOUtils

Progs == ndJsonDeserialize(IOEnv.PROGRAMS)
Excluded == JsonDeserialize(IOEnv.EXCLUDED)
B == atoi(IOEnv.BOX)
U == atoi(IOEnv.UNIV)

VARIABLES p, ob, os,  \* origin block and origin state
          b, i, s
vars == <<p, ob, os, b, i, s>>

P == Progs[p]
Stmts == P.blocks[b].stmts
AtExit == i = Len(Stmts) + 1
Range1(k) == IF k = "bool" THEN 0..1 ELSE IF k = "arr" THEN {<<UNW, UNW, UNW, UNW>>} ELSE IF k = "arr1" THEN {<<UNW>>} ELSE (-B)..B
RECURSIVE BoxN(_, _)
BoxN(kinds, n) == IF n = 0 THEN {<<>>} ELSE {Append(q, v) : q \in BoxN(kinds, n - 1), v \in Range1(kinds[n])}
Hv(x) == Range1(P.kinds[x])

(* forward invariants supplied to (some of) the analysis runs of this program, as explicit constraints per
   block: P.fwdinv = << <<block, constraints>>, ... >>.  Only executions whose block-entry states satisfy
   them are followed (they are certainly "consistent with the supplied forward invariants"). *)
FwdOKp(pp, blk, st) == \A k \in DOMAIN Progs[pp].fwdinv :
                          Progs[pp].fwdinv[k][1] = blk => AllHold(Progs[pp].fwdinv[k][2], st)
Init == /\ p \in DOMAIN Progs
        /\ ob \in DOMAIN Progs[p].blocks
        /\ os \in {q \in BoxN(Progs[p].kinds, Len(Progs[p].kinds)) : FwdOKp(p, ob, q)}
        /\ b = ob /\ i = 1 /\ s = os
ExecStmt == /\ ~AtExit
            /\ s' \in Succ(Stmts[i], s, U, Hv)
            /\ i' = i + 1
            /\ UNCHANGED <<p, ob, os, b>>
Goto == /\ AtExit
        /\ \E k \in DOMAIN P.blocks[b].succ : b' = P.blocks[b].succ[k] /\ FwdOKp(p, P.blocks[b].succ[k], s)
        /\ i' = 1
        /\ UNCHANGED <<p, ob, os, s>>
Next == ExecStmt \/ Goto
Spec == Init /\ [][Next]_vars

---------------------------------------------------------------------------
IsExcluded(r) == \E k \in DOMAIN Excluded : Excluded[k][1] = P.id /\ Excluded[k][2] = r
Judged == {r \in DOMAIN P.runs : P.runs[r].err = 0 /\ ~IsExcluded(r) /\ P.runs[r].mode \in {"err", "good"}}

ErrNow == ~AtExit /\ Stmts[i].op \in {"assert", "bassert"}
          /\ ~(IF Stmts[i].op = "assert" THEN Holds(Stmts[i].c, s) ELSE s[Stmts[i].x] = 1)
GoodNow(r) == AtExit /\ b = P.exit /\ AllHold(P.runs[r].final, s)

(* Known finding (known_findings.json, kind "error-block-cannot-reach-exit"): the analysis is a fixpoint over the
   REVERSED CFG started at the exit block, so an assertion in a block from which the exit is unreachable (e.g. inside
   an infinite loop) is never visited and its failures are missing from every precondition.  While that entry is
   open such a failure is printed, not reported; failures in blocks that reach the exit are violations. *)
KnownSigs == JsonDeserialize(IOEnv.KNOWN_FINDINGS)
NoExitKnown == \E k \in DOMAIN KnownSigs : KnownSigs[k].sig.engine = "bwd_runner" /\ KnownSigs[k].sig.kind = "error-block-cannot-reach-exit"
RECURSIVE CoReachFrom(_)
CoReachFrom(S) == LET S2 == S \cup {u \in DOMAIN P.blocks : \E k \in DOMAIN P.blocks[u].succ : P.blocks[u].succ[k] \in S}
                  IN IF S2 = S THEN S ELSE CoReachFrom(S2)
CoReach == CoReachFrom({P.exit})
OK(r) ==
  IF P.runs[r].mode = "err"
    THEN ErrNow => \/ InGamma(os, P.runs[r].precond[ob])
                   \/ (NoExitKnown /\ b \notin CoReach /\ PrintT(<<"KNOWN", "error-block-cannot-reach-exit", P.id, r, P.runs[r].dom>>))
    ELSE GoodNow(r) => InGamma(os, P.runs[r].precond[ob])
Failing == {r \in Judged : ~OK(r)}
PreconditionsNecessary == Failing = {}

Compact == [prog |-> P.id, origin_block |-> ob, origin_state |-> os, block |-> b, idx |-> i, state |-> s,
            bad_precondition |-> {<<r, P.runs[r].dom>> : r \in Failing}]
===========================================================================
