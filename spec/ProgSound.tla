---------------------------- MODULE ProgSound ----------------------------
(* C01 / C02 (intra-procedural): the invariants and assertion verdicts that the
   REAL forward analyzer reported for a program are checked against EVERY
   concrete execution of that program.

   The transition system below is the concrete semantics of a CrabIR control
   flow graph (module CrabIR gives the statements): a state is a program point
   (block b, next statement index i; i = Len(stmts)+1 is the block's exit) and a
   valuation s.  All initial valuations of the box that satisfy the program's
   explicit initial constraints are explored, with every havoc value and every
   goto choice.  The analysis results (one record per analysed configuration =
   "run") are bound to the program record by tools/ and enter only through the
   invariants. *)
EXTENDS Gamma, TLC, Json, IOUtils

Progs == ndJsonDeserialize(IOEnv.PROGRAMS)
Excluded == JsonDeserialize(IOEnv.EXCLUDED)   \* sequence of <<program id, run>> already reported / known
B == atoi(IOEnv.BOX)
U == atoi(IOEnv.UNIV)

VARIABLES p, b, i, s
vars == <<p, b, i, s>>

P == Progs[p]
Stmts == P.blocks[b].stmts
AtExit == i = Len(Stmts) + 1

(* C15: references start unassigned (UND), regions empty, "heap" = allocator bookkeeping (last component of the state) *)
Range1(k) == IF k = "bool" THEN 0..1 ELSE IF k = "arr" THEN {<<UNW, UNW, UNW, UNW>>} ELSE IF k = "arr1" THEN {<<UNW>>}
             ELSE IF k = "ref" THEN {UND} ELSE IF k \in {"rgn", "brgn", "rrgn", "urgn"} THEN {EmptyRegion}
             ELSE IF k = "heap" THEN {EmptyHeap} ELSE (-B)..B
RECURSIVE BoxN(_, _)
BoxN(kinds, n) == IF n = 0 THEN {<<>>} ELSE {Append(q, v) : q \in BoxN(kinds, n - 1), v \in Range1(kinds[n])}
Hv(x) == Range1(P.kinds[x])

Init == /\ p \in DOMAIN Progs
        /\ b = Progs[p].entry
        /\ i = 1
        /\ s \in {q \in BoxN(Progs[p].kinds, Len(Progs[p].kinds)) : AllHold(Progs[p].init, q)}

ExecStmt == /\ ~AtExit
            /\ s' \in Succ(Stmts[i], s, U, Hv)
            /\ i' = i + 1
            /\ UNCHANGED <<p, b>>
Goto == /\ AtExit
        /\ \E k \in DOMAIN P.blocks[b].succ : b' = P.blocks[b].succ[k]
        /\ i' = 1
        /\ UNCHANGED <<p, s>>
Next == ExecStmt \/ Goto
Spec == Init /\ [][Next]_vars

---------------------------------------------------------------------------
IsExcluded(r) == \E k \in DOMAIN Excluded : Excluded[k][1] = P.id /\ Excluded[k][2] = r
(* runs of the whole program from its entry block without assumption maps *)
Judged == {r \in DOMAIN P.runs : P.runs[r].err = 0 /\ ~IsExcluded(r)}

(* C01: invariant at block entry / block exit contains the current state *)
(* runs of the refining forward-backward analyzer with use_refined_invariants report reachable states
   INTERSECTED with the necessary preconditions of errors: they are not invariants (judgeinv = 0) *)
InvOK(r) ==
  P.runs[r].judgeinv = 1 =>
    /\ (i = 1 => InGamma(s, P.runs[r].pre[b]))
    /\ (AtExit => InGamma(s, P.runs[r].post[b]))

(* C02: verdicts of the assertion the execution stands at *)
Verdicts(r, id) == {P.runs[r].checks[k].res : k \in {q \in DOMAIN P.runs[r].checks : P.runs[r].checks[q].id = id}}
CondHolds(st) == IF st.op = "assert" THEN Holds(st.c, s) ELSE s[st.x] = 1
(* Known finding (known_findings.json, kind "refined-unreach"): with use_refined_invariants the
   forward-backward analyzer reports reachable states INTERSECTED with the co-reachable-from-error states, so
   an assertion that cannot fail is classified 'unreachable' although executions reach it.  While that entry is
   open, 'unreachable' of such a run is judged like 'safe' (the condition must hold) and the occurrence is
   printed; every other contradiction is a violation. *)
KnownSigs == JsonDeserialize(IOEnv.KNOWN_FINDINGS)
RefinedUnreachKnown == \E k \in DOMAIN KnownSigs : KnownSigs[k].sig.engine = "bwd_runner" /\ KnownSigs[k].sig.kind = "refined-unreach"
CheckOK(r) ==
  IF AtExit \/ Stmts[i].op \notin {"assert", "bassert"} THEN TRUE
  ELSE LET v == Verdicts(r, Stmts[i].id)
       IN IF P.runs[r].judgeinv = 0 /\ RefinedUnreachKnown /\ "unreach" \in v
            THEN CondHolds(Stmts[i]) /\ PrintT(<<"KNOWN", "refined-unreach", P.id, r, P.runs[r].dom>>)
            ELSE /\ "unreach" \notin v
                 /\ ("safe" \in v => CondHolds(Stmts[i]))

FailingInv == {r \in Judged : ~InvOK(r)}
FailingCheck == {r \in Judged : ~CheckOK(r)}
InvariantsSound == FailingInv = {}
VerdictsSound == FailingCheck = {}

(* error traces show the concrete execution and who is wrong about it *)
Compact == [prog |-> P.id, block |-> b, idx |-> i, state |-> s,
            bad_invariant |-> {<<r, P.runs[r].dom>> : r \in FailingInv},
            bad_verdict |-> {<<r, P.runs[r].dom>> : r \in FailingCheck}]
===========================================================================
