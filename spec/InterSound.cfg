SPECIFICATION Spec
INVARIANT InvariantsSound
INVARIANT SummariesSound
INVARIANT VerdictsSound
CHECK_DEADLOCK FALSE
ALIAS Compact
