---------------------------- MODULE EnvMapTrace ----------------------------
(* C19, direction A: validation of histories replayed on the real containers
   (harness/map_runner.cpp) against the EnvMap state machine.

   One TLC behaviour = one recorded history (Tr.steps), optionally followed by ONE of
   the recorded alternative next events (Tr.alts: the adaptor applied each of them
   to a copy of the registers reached by Tr.steps; this is how the transition
   coverage of the BFS is recorded without repeating the common prefix, and it
   also checks that an operation on a copy leaves the shared trees of the other
   copies intact).  Every recorded step must be a step
   of EnvMap (IsEvent: the recorded event satisfies the operation's contract
   Pre and the machine takes the corresponding action), and the projection of
   the real containers logged after the step must EQUAL the projection of the
   machine's next state:
     environments  is_bottom, is_top, at(k) for every key, the begin()/end()
                   iteration = exactly the non-top bindings, each once,
                   a <= b for every pair of registers  <=>  point-wise;
     sets          elements by iteration (each once), membership of every key,
                   size, empty, subset / superset / equality between registers;
     discrete sets is_top, is_bottom, elements, contain(k), size, <=, ==.
   A mismatch is printed as FAIL (with the expected projection) and violates
   the invariant Conform, unless it matches an OPEN signature of
   known_findings.json (engine "map_runner"): then KNOWN is printed instead.
   After a mismatch in the STATE of a container the trace is abandoned (the
   implementation no longer is in the state the machine is in); a mismatch
   that only concerns an answer about a pair of registers (<=, >=, ==) does
   not stop the trace. *)
EXTENDS EnvMap, Json

Traces == ndJsonDeserialize(IOEnv.C19_TRACES)
KnownSigs == JsonDeserialize(IOEnv.KNOWN_FINDINGS)

VARIABLES t,        \* index of the trace
          l,        \* steps consumed
          verdict,  \* judgement of the step just consumed
          seen,     \* relational mismatch codes already reported for this trace
          alt       \* 0, or the index of the alternative taken after the last step
tvars == <<M, S, D, hist, t, l, verdict, seen, alt>>

Tr == Traces[t]
B2I(b) == IF b THEN 1 ELSE 0
RelCodes == {"leq", "geq", "equal"}

(* --- projections compared; Mx, Sx, Dx are the machine's NEXT state --- *)
MapCodes(o, Mx) ==
  UNION {
    LET q == o.R[r]
        pairs == {<<q.it[i][1], q.it[i][2]>> : i \in DOMAIN q.it}
        want == Bindings(Mx[r])
    IN (IF q.b # B2I(Mx[r].bot) THEN {"is_bottom"} ELSE {})
       \cup (IF q.t # B2I(IsTop(Mx[r])) THEN {"is_top"} ELSE {})
       \cup (IF \E k \in Key : q.at[k] # At(Mx[r], k) THEN {"at"} ELSE {})
       \cup (IF \E p \in pairs \ want : p[2] = VTop THEN {"iter-lists-top-binding"} ELSE {})
       \cup (IF \E p \in pairs \ want : p[2] # VTop THEN {"iter-wrong-binding"} ELSE {})
       \cup (IF want \ pairs # {} THEN {"iter-misses-binding"} ELSE {})
       \cup (IF Len(q.it) # Cardinality(pairs) THEN {"iter-duplicate"} ELSE {})
    : r \in Reg}
  \cup (IF \E a, b \in Reg : o.leq[a][b] # B2I(MLeq(Mx[a], Mx[b])) THEN {"leq"} ELSE {})

PSetCodes(o, Sx) ==
  UNION {
    LET q == o.R[r]
        els == {q.el[i] : i \in DOMAIN q.el}
    IN (IF els # Sx[r] THEN {"elements"} ELSE {})
       \cup (IF Len(q.el) # Cardinality(els) THEN {"iter-duplicate"} ELSE {})
       \cup (IF \E k \in Key : q.mem[k] # B2I(k \in Sx[r]) THEN {"membership"} ELSE {})
       \cup (IF q.n # Cardinality(Sx[r]) THEN {"size"} ELSE {})
       \cup (IF q.e # B2I(Sx[r] = {}) THEN {"empty"} ELSE {})
    : r \in Reg}
  \cup (IF \E a, b \in Reg : o.leq[a][b] # B2I(Sx[a] \subseteq Sx[b]) THEN {"leq"} ELSE {})
  \cup (IF \E a, b \in Reg : o.geq[a][b] # B2I(Sx[b] \subseteq Sx[a]) THEN {"geq"} ELSE {})
  \cup (IF \E a, b \in Reg : o.eq[a][b] # B2I(Sx[a] = Sx[b]) THEN {"equal"} ELSE {})

DSetCodes(o, Dx) ==
  UNION {
    LET q == o.R[r]
        els == {q.el[i] : i \in DOMAIN q.el}
    IN (IF q.t # B2I(Dx[r].top) THEN {"is_top"} ELSE {})
       \cup (IF q.b # B2I(~Dx[r].top /\ Dx[r].els = {}) THEN {"is_bottom"} ELSE {})
       \cup (IF els # Dx[r].els THEN {"elements"} ELSE {})
       \cup (IF Len(q.el) # Cardinality(els) THEN {"iter-duplicate"} ELSE {})
       \cup (IF \E k \in Key : q.mem[k] # B2I(DHas(Dx[r], k)) THEN {"membership"} ELSE {})
       \cup (IF q.n # (IF Dx[r].top THEN -1 ELSE Cardinality(Dx[r].els)) THEN {"size"} ELSE {})
    : r \in Reg}
  \cup (IF \E a, b \in Reg : o.leq[a][b] # B2I(DLeq(Dx[a], Dx[b])) THEN {"leq"} ELSE {})
  \cup (IF \E a, b \in Reg : o.eq[a][b] # B2I(Dx[a] = Dx[b]) THEN {"equal"} ELSE {})

(* --- known findings: {"engine":"map_runner","fam":<"map"|"pset"|"dset"|"">,"op":<event op or "">,"code":<code or "">} --- *)
SigMatches(sig, e, code) ==
  /\ sig.engine = "map_runner"
  /\ (sig.fam = "" \/ sig.fam = Fam(e[1]))
  /\ (sig.op = "" \/ sig.op = e[1])
  /\ (sig.code = "" \/ sig.code = code)
KnownFor(e, code) == {k \in DOMAIN KnownSigs : SigMatches(KnownSigs[k].sig, e, code)}

Expected(fam) == IF fam = "map" THEN ToJson(M') ELSE IF fam = "pset" THEN ToJson(S') ELSE ToJson(D')

Judge(e, o) ==
  LET fam == Fam(e[1])
      all == IF fam = "map" THEN MapCodes(o, M') ELSE IF fam = "pset" THEN PSetCodes(o, S') ELSE DSetCodes(o, D')
      codes == all \ seen                       \* a relational mismatch is reported once per trace
      known == {c \in codes : KnownFor(e, c) # {}}
      bad == codes \ known
  IN IF codes = {} THEN "ok"
     ELSE IF bad # {}
       THEN IF /\ \A c \in bad : PrintT(<<"FAIL", ToJson(<<Tr.id, l + 1, alt', e[1], c>>)>>)
               /\ PrintT(<<"EXPECT", ToJson(<<Tr.id, l + 1, alt', Expected(fam)>>)>>)
            THEN (IF bad \subseteq RelCodes THEN "qfail" ELSE "fail") ELSE "fail"
       ELSE IF \A c \in known : PrintT(<<"KNOWN", ToJson(<<KnownSigs[CHOOSE k \in KnownFor(e, c) : TRUE].id, Tr.id, l + 1, alt', e[1], c>>)>>)
            THEN (IF known \subseteq RelCodes THEN "qknown" ELSE "known") ELSE "known"

TInit == /\ Init
         /\ t \in DOMAIN Traces
         /\ l = 0
         /\ verdict = "ok"
         /\ seen = {}
         /\ alt = 0

Alive == verdict \in {"ok", "qfail", "qknown"} /\ alt = 0
Live == Alive /\ l < Len(Tr.steps)
AllCodes(e, o) == IF Fam(e[1]) = "map" THEN MapCodes(o, M') ELSE IF Fam(e[1]) = "pset" THEN PSetCodes(o, S') ELSE DSetCodes(o, D')

(* IsEvent /\ spec action /\ equality of the observed projection with the next state *)
Step ==
  /\ Live
  /\ LET e == Tr.steps[l + 1]
     IN /\ Do(e)
        /\ l' = l + 1
        /\ t' = t
        /\ alt' = 0
        /\ verdict' = IF l + 1 < Tr.lf THEN "ok" ELSE Judge(e, Tr.obs[l + 2 - Tr.lf])
        /\ seen' = IF l + 1 < Tr.lf THEN seen ELSE seen \cup (RelCodes \cap AllCodes(e, Tr.obs[l + 2 - Tr.lf]))

(* one of the recorded alternative next events, applied to (a copy of) the state reached by Tr.steps *)
AltStep ==
  /\ Alive /\ l = Len(Tr.steps)
  /\ \E i \in DOMAIN Tr.alts :
       LET e == Tr.alts[i]
       IN /\ Do(e)
          /\ l' = l + 1
          /\ t' = t
          /\ alt' = i
          /\ verdict' = Judge(e, Tr.aobs[i])
          /\ seen' = seen

(* a recorded event that the machine cannot take: the history is not a behaviour of EnvMap *)
Stuck ==
  /\ Live
  /\ ~Pre(Tr.steps[l + 1])
  /\ PrintT(<<"STUCK", ToJson(<<Tr.id, l + 1, Tr.steps[l + 1][1]>>)>>)
  /\ verdict' = "stuck"
  /\ UNCHANGED <<M, S, D, hist, t, l, seen, alt>>
StuckAlt ==
  /\ Alive /\ l = Len(Tr.steps)
  /\ \E i \in DOMAIN Tr.alts :
       /\ ~Pre(Tr.alts[i])
       /\ PrintT(<<"STUCK", ToJson(<<Tr.id, l + 1, Tr.alts[i][1]>>)>>)
       /\ verdict' = "stuck"
       /\ alt' = i
       /\ UNCHANGED <<M, S, D, hist, t, l, seen>>

TNext == Step \/ AltStep \/ Stuck \/ StuckAlt
TSpec == TInit /\ [][TNext]_tvars

Compact == [trace |-> Tr.id, step |-> l, alt |-> alt, verdict |-> verdict]

(* THE contract.  Every mismatch is printed as a FAIL record (the check reports each kind after re-running it
   alone, where the limiter below cannot hide it).  In a bulk run with -continue TLC reconstructs an error trace
   for every violating state, which costs tens of milliseconds each; MaxFlagged bounds, per worker, how many
   violating states are handed to TLC as invariant violations (register 1 is initialised by the ASSUME). *)
MaxFlagged == 25
ASSUME TLCSet(1, 0)
Good == verdict \in {"ok", "known", "qknown"}
Conform == Good \/ (IF TLCGet(1) < MaxFlagged THEN ~TLCSet(1, TLCGet(1) + 1) ELSE TRUE)
============================================================================
