// Names for the abstract domains that build in this sandbox (no apron/elina/ldd/pplite).
#pragma once
#include "crabir.hpp"
namespace vh {
using ikos::z_number;
}
#define VH_DBM_GRAPH crab::domains::DBM_impl::DefaultParams<ikos::z_number, crab::domains::DBM_impl::GraphRep::adapt_ss>
