SPECIFICATION Spec
CONSTANTS N = 4
          Orders = "asc"
INVARIANT ModelWellFormed
CHECK_DEADLOCK FALSE
