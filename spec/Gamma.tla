----------------------------- MODULE Gamma -----------------------------
(* Meaning of an observation obs(a) of an abstract value a (DESIGN.md 2.1):
     o.bot, o.top     0/1
     o.itv[i]         <<haslb, lb, hasub, ub>> for variable i
     o.csts           sequence of linear constraints (conjunction)
     o.disj           sequence of conjunctions (disjunction); <<<<>>>> = true
   InGamma(s, o) is the UPPER concretisation: every state described by a
   satisfies it; the exporter may only have weakened what a says. *)
EXTENDS CrabIR

InItv(n, i) == (i[1] = 1 => i[2] <= n) /\ (i[3] = 1 => n <= i[4])
AllHold(cs, s) == \A k \in DOMAIN cs : Holds(cs[k], s)

InGamma(s, o) ==
  /\ o.bot = 0
  /\ \A i \in DOMAIN o.itv : InItv(s[i], o.itv[i])
  /\ AllHold(o.csts, s)
  /\ \E d \in DOMAIN o.disj : AllHold(o.disj[d], s)

Covers(o, S) == \A s \in S : InGamma(s, o)
=========================================================================
