---------------------------- MODULE Transform ----------------------------
(* C17: CFG transformations (cfg::simplify, dead_code_elimination, lower_safe_assertions and their
   compositions) preserve behaviour.

   For every pair (original CFG, transformed CFG) -- both exported from the real cfg objects -- and every
   initial valuation of the box, the sets of EXIT-REACHING BEHAVIOURS must coincide.  A behaviour is
        << sequence of evaluated conditions (assume/assert constraints, all true), final values of the outputs >>
   of an execution from the entry that reaches the end of the exit block; a failing assertion, a false
   assume and `unreachable` end an execution without a behaviour.  Executions are explored breadth first by
   configurations <<block, index, valuation, events>> for a bounded number of small steps: Sub steps for the
   program whose behaviours must be matched, Sup >= 6*Sub+10 steps for the program that must offer the
   counterpart (transformations remove statements and merge blocks, never add; the generated programs use only
   statements that change magnitudes by a constant, so no execution leaves the universe within Sup steps).
   Also checked: the transformed CFG is well formed (edges symmetric, entry kept, an exit present).          *)
EXTENDS Gamma, TLC, Json, IOUtils

Pairs == ndJsonDeserialize(IOEnv.PAIRS)
B == atoi(IOEnv.BOX)
U == atoi(IOEnv.UNIV)
Sub == atoi(IOEnv.SUBSTEPS)
Sup == atoi(IOEnv.SUPSTEPS)
EvCap == atoi(IOEnv.EVCAP)

VARIABLES i, s0
(* initial valuations: integers -B..B; an array variable (pr.kinds[k] = "arr", programs of proggen.array_live_program)
   starts with every tuple of pr.ncells integer cells *)
RangeOf(pr, k) == IF "kinds" \in DOMAIN pr /\ pr.kinds[k] = "arr" THEN [1..pr.ncells -> (-B)..B]
                  ELSE IF "kinds" \in DOMAIN pr /\ pr.kinds[k] = "bool" THEN 0..1 ELSE (-B)..B
RECURSIVE StatesN(_, _)
StatesN(pr, m) == IF m = 0 THEN {<<>>} ELSE {Append(q, w) : q \in StatesN(pr, m - 1), w \in RangeOf(pr, m)}
StatesOf(pr) == IF "kinds" \in DOMAIN pr THEN StatesN(pr, pr.nv) ELSE [1..pr.nv -> (-B)..B]
Init == /\ i \in DOMAIN Pairs
        /\ s0 \in {q \in StatesOf(Pairs[i]) : AllHold(Pairs[i].init, q)}
Next == UNCHANGED <<i, s0>>
Spec == Init /\ [][Next]_<<i, s0>>

P == Pairs[i]
Hv(x) == RangeOf(P, x)
Outs(s) == [k \in DOMAIN P.outs |-> s[P.outs[k]]]
IsEvent(st) == st.op \in {"assume", "assert", "bassume", "bassert"}
(* outcome of an evaluated condition, and what a behaviour records of it *)
CondHolds(st, s) == IF st.op \in {"assume", "assert"} THEN Holds(st.c, s)
                    ELSE IF st.op = "bassume" THEN s[st.x] = (IF st.neg = 1 THEN 0 ELSE 1) ELSE s[st.x] = 1
EventOf(st) == IF st.op \in {"assume", "assert"} THEN st.c ELSE [bx |-> st.x, neg |-> IF st.op = "bassume" THEN st.neg ELSE 0]

(* one small step of configuration c = [b, i, s, ev] in cfg g *)
StepCfg(g, c) ==
  LET stmts == g.blocks[c.b].stmts
  IN IF c.i <= Len(stmts)
       THEN LET st == stmts[c.i]
            IN IF IsEvent(st)
                 THEN IF CondHolds(st, c.s) /\ Len(c.ev) < EvCap
                        THEN {[c EXCEPT !.i = c.i + 1, !.ev = Append(c.ev, EventOf(st))]} ELSE {}
                 ELSE {[c EXCEPT !.i = c.i + 1, !.s = q] : q \in Succ(st, c.s, U, Hv)}
       ELSE {[c EXCEPT !.b = g.blocks[c.b].succ[k], !.i = 1] : k \in DOMAIN g.blocks[c.b].succ}
AtExitEnd(g, c) == c.b = g.exit /\ c.i = Len(g.blocks[c.b].stmts) + 1

RECURSIVE Explore(_, _, _, _)
Explore(g, frontier, acc, n) ==
  LET acc2 == acc \cup {<<c.ev, Outs(c.s)>> : c \in {d \in frontier : AtExitEnd(g, d)}}
  IN IF n = 0 \/ frontier = {} THEN acc2
     ELSE Explore(g, UNION {StepCfg(g, c) : c \in frontier}, acc2, n - 1)
Beh(g, n) == IF g.entry = 0 \/ g.exit = 0 THEN {} ELSE Explore(g, {[b |-> g.entry, i |-> 1, s |-> s0, ev |-> <<>>]}, {}, n)

Judged == P.err = 0
(* every behaviour of the original has a counterpart in the transformed CFG ... *)
Preserved == Judged => Beh(P.orig, Sub) \subseteq Beh(P.xf, Sup)
(* ... and the transformed CFG has no other exit-reaching behaviours *)
NothingNew == Judged => Beh(P.xf, Sub) \subseteq Beh(P.orig, Sup)

SeqSet(q) == {q[k] : k \in DOMAIN q}
WellFormed ==
  Judged =>
    LET g == P.xf  N == DOMAIN g.blocks
    IN /\ g.entry \in N /\ g.exit \in N
       /\ g.labels[g.entry] = P.orig.labels[P.orig.entry]            \* entry kept
       /\ \A u \in N : SeqSet(g.blocks[u].succ) \subseteq N /\ SeqSet(g.blocks[u].pred) \subseteq N
       /\ \A u, v \in N : (v \in SeqSet(g.blocks[u].succ)) <=> (u \in SeqSet(g.blocks[v].pred))

Compact == [pair |-> P.id, init |-> s0, transforms |-> P.xfnames,
            lost |-> IF Judged THEN Beh(P.orig, Sub) \ Beh(P.xf, Sup) ELSE {},
            new |-> IF Judged THEN Beh(P.xf, Sub) \ Beh(P.orig, Sup) ELSE {}]
===========================================================================
