#include "domreg.hpp"
#include "domtypes.hpp"
#include <crab/domains/sparse_dbm.hpp>
#include <crab/domains/split_dbm.hpp>
using namespace crab::domains;
using namespace vh;
typedef sparse_dbm_domain<z_number, varname_t, VH_DBM_GRAPH> sparse_dbm_t;
typedef split_dbm_domain<z_number, varname_t, VH_DBM_GRAPH> split_dbm_t;
VH_DOMREG(sparse_dbm, sparse_dbm_t)
VH_DOMREG(split_dbm, split_dbm_t)
