"""C14 Array domains never lose a value that a cell can hold (array smashing / array adaptive over several base domains,
all array_adaptive parameter settings), checked on every concrete execution of array programs (spec/ProgSound.tla with the
array statements of spec/CrabIR.tla)."""
import json
import vlib, arraygen
from vlib import Check, build
from checks import progsound

DOMS = ["as_int", "as_dis_int", "as_sdbm", "as_bool_int", "aa_int", "aa_sdbm", "aa_bool_int", "aa_dis_int"]
AA_PARAMS = [None, {"array_adaptive.is_smashable": "false"}, {"array_adaptive.smash_at_nonzero_offset": "false"},
             {"array_adaptive.max_smashable_cells": "0", "array_adaptive.max_array_size": "64"},
             {"array_adaptive.max_smashable_cells": "1", "array_adaptive.max_array_size": "1"},
             {"array_adaptive.max_smashable_cells": "2", "array_adaptive.max_array_size": "2"},
             {"array_adaptive.max_smashable_cells": "2", "array_adaptive.max_array_size": "64"}]


def run(tier, seed):
    ck = Check("C14", tier, seed + 9000)
    build("prog_runner")
    n = 150 if tier == "quick" else 3000
    done = k = 0
    loads = 0
    while done < n:
        m = min(250, n - done)
        ps = []
        for i in range(m):
            p = arraygen.program(ck.rng, done + i + 1)
            runs = []
            for d in DOMS:
                c = {"dom": d, "wd": ck.rng.choice([0, 1, 2]), "desc": ck.rng.choice([0, 1, 2]), "th": ck.rng.choice([0, 0, 5]), "live": 0}
                pr = ck.rng.choice(AA_PARAMS) if d.startswith("aa_") else None
                if pr:
                    c["params"] = pr
                runs.append(c)
            p["runs"] = runs
            loads += sum(1 for b in p["blocks"] for s in b["stmts"] if s["op"] == "aload")
            ps.append(p)
        if k == 0:      # fixed regression programs (minimised replays of earlier findings, with their own configurations)
            import os
            rd = os.path.join(vlib.ROOT, "tools", "regress")
            for j, f in enumerate(sorted(os.listdir(rd))):
                if f.startswith("c14_"):
                    q = dict(json.load(open(os.path.join(rd, f)))["case"]["program"])
                    q["id"] = 900000 + j
                    ps.append(q)
        viols, merged, _ = progsound.explore(ck, "b%d" % k, ps, box=2, univ=12)
        ck.cov["distinct_nontrivial"] += sum(1 for p in merged for r in p["runs"] if r["err"] == 0 and
                                             any(o["bot"] == 0 and o["top"] == 0 for o in r["post"]))
        if k == 0:
            ck.sample({"program": {x: ps[0][x] for x in ("shape", "es", "blocks")}, "run_configs": ps[0]["runs"][:3]})
        for v in viols:
            for run_, dom in v["bad_invariant"][:3]:
                cfg = v["program"]["runs"][run_ - 1]
                prog = dict(v["program"])
                prog["runs"] = [cfg]
                ck.violation("C14: array domain %s (config %s): invariant at block b%d idx %d does not contain the reachable state %s "
                             "(scalars, then array cells; 99 = never written); execution %s" %
                             (dom, json.dumps(cfg), v["block"], v["idx"], v["state"], v["execution"][-10:]),
                             {"program": prog, "execution": v["execution"], "state": v["state"]})
        done += m
        k += 1
    ck.cov["array_loads_in_programs"] = loads
    ck.cov["rule"] = ("seeded array programs (2 arrays of 4 cells, element size 1 or 4, init / strong and weak stores at constant and "
                      "symbolic indices / range stores / array copies / loads; straight-line, diamond, loops, fill loops) x 8 array "
                      "domains x array_adaptive parameter settings; every concrete execution explored; the scalar receiving a load "
                      "must lie in its reported interval/constraints at every block boundary, and no reachable state is bottom. "
                      "non-trivial = (program, run) with a non-top non-bottom post-invariant")
    ck.assumptions += ["every array is written in the entry block before it is read; except in the `lostcopy` shape (where the first write may be a store at a symbolic index) it is initialised, at least partly, by array_init first: arrays whose content is unknown at their first use on some path only are not generated (DESIGN.md 9.5a)",
                       "reads of never-written cells, misaligned or out-of-range accesses are outside the model (execution not followed)",
                       "one uniform element size per program (documented word-level assumption)"]
    return ck.finish()


def replay(path):
    case = json.load(open(path))["case"]
    ck = Check("C14", "quick", 0)
    build("prog_runner")
    viols, _, _ = progsound.explore(ck, "replay", [case["program"]])
    for v in viols:
        ck.violation("replayed: %s" % v["violated"], case)
    return ck.finish()
