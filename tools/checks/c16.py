"""C16 Value semantics and representation-independent meaning: copies, stuttering queries/normalize/minimize,
in-place observation ("#s") vs observation on copies, type-erased wrappers (ref_*) vs the plain domain."""
from checks import c03, domops

PID = "C16"


def run(tier, seed):
    base = ["intervals", "split_dbm", "split_oct", "sparse_dbm", "term_int", "term_sdbm", "pow_int", "dis_intervals",
            "bool_int", "aa_int", "num_product", "ric"]
    doms = base + [d + "#s" for d in base] + ["ref_intervals", "ref_split_dbm", "ref_split_oct"]
    return c03.run_generic(PID, "c16", tier, seed + 2000, domains=doms, n_quick=300, n_thorough=4000,
                           rule=c03.RULE + "; C16 profile: 30% copies/joins/meets, 20% stuttering steps; every history is replayed "
                           "with observation on copies and in place (#s) and through abstract_domain_ref (ref_*), paired meanings compared")


def replay(path):
    return c03.replay(path)
