"""C06 The fixpoint engine computes the least solution when nothing is extrapolated.
spec/Fixpoint.tla: state-machine model of wto_iterator::visit, least fixpoint of the flow equations, and the
judgement of what the REAL interleaved_fwd_fixpoint_iterator (client subclass over a finite powerset value type,
harness/fixpo_runner.cpp) returned for the same configuration, incl. the hook events (kind, head, iteration)."""
import itertools, json, os
import vlib
from vlib import Check, build, tlc, workdir

S = 3


def transformers():
    allst = list(range(S))
    t = {"id": [[s] for s in allst], "inc": [[s + 1] if s + 1 < S else [] for s in allst],
         "incsat": [[min(s + 1, S - 1)] for s in allst], "reset": [[0] for _ in allst],
         "havoc": [allst for _ in allst], "empty": [[] for _ in allst]}
    for k in allst:
        t["eq%d" % k] = [[s] if s == k else [] for s in allst]
        t["ne%d" % k] = [[s] if s != k else [] for s in allst]
    return t


TR = transformers()


def in_loop(succ, v):
    seen, todo = set(), list(succ[v - 1])
    while todo:
        u = todo.pop()
        if u == v:
            return True
        if u not in seen:
            seen.add(u)
            todo += succ[u - 1]
    return False


def graph_from_mask(n, m, order="asc"):
    succ = []
    for u in range(n):
        s = [v + 1 for v in range(n) if m >> (u * n + v) & 1]
        if order == "desc":
            s.reverse()
        succ.append(s)
    return succ


def config(cid, n, succ, entry, start, trs, init, asm, wd, desc, plain=0):
    return {"id": cid, "n": n, "succ": succ, "entry": entry, "start": start, "S": S, "img": [TR[t] for t in trs], "trs": trs,
            "init": init, "asm": asm, "wd": wd, "desc": desc, "plainrun": plain}


def gen_configs(rng, tier):
    cs = []
    names = sorted(TR)
    # exhaustive part: all graphs on 1..2 nodes x every entry x every transformer assignment x parameters
    for n in (1, 2):
        for m in range(1 << (n * n)):
            succ = graph_from_mask(n, m)
            for entry in range(1, n + 1):
                for trs in itertools.product(names, repeat=n):
                    wd, desc = rng.choice([0, 1, 2]), rng.choice([0, 1, 2])
                    init = rng.choice([[0], [0], [1], [0, 2], [0, 1, 2]])
                    cs.append(config(0, n, succ, entry, entry, list(trs), init, [], wd, desc, plain=rng.randint(0, 1)))
    # sampled part: 3 and 4 node graphs, other start blocks, assumption maps
    nsample = 6000 if tier == "quick" else 150000
    for _ in range(nsample):
        n = rng.choice([3, 3, 3, 4])
        dens = rng.choice([0.2, 0.35, 0.5])
        succ = []
        for u in range(n):
            s = [v + 1 for v in range(n) if rng.random() < dens]
            rng.shuffle(s)
            succ.append(s)
        entry = rng.randint(1, n)
        start = entry
        if rng.random() < 0.25:
            reach, todo = {entry}, [entry]
            while todo:
                for w in succ[todo.pop() - 1]:
                    if w not in reach:
                        reach.add(w)
                        todo.append(w)
            # admissible start blocks: reachable from the CFG entry and outside every loop
            cand = [v for v in sorted(reach) if not in_loop(succ, v)]
            if cand:
                start = rng.choice(cand)
        trs = [rng.choice(names) for _ in range(n)]
        init = sorted(rng.sample(range(S), rng.randint(1, S)))
        asm = []
        if rng.random() < 0.3:
            for v in rng.sample(range(1, n + 1), rng.randint(1, 2)):
                asm.append([v, sorted(rng.sample(range(S), rng.randint(1, S)))])
        cs.append(config(0, n, succ, entry, start, trs, init, asm, rng.choice([0, 1, 2, 3]), rng.choice([0, 1, 2])))
    for i, c in enumerate(cs):
        c["id"] = i + 1
    return cs


def run_configs(ck, label, cs, liveness=False):
    wd = workdir("c06-" + label)
    cp, op_, mp = [os.path.join(wd, x) for x in ("c.ndjson", "o.ndjson", "m.ndjson")]
    vlib.write_ndjson(cp, cs)
    rc, out = vlib.sh([os.path.join(vlib.BUILD, "bin", "fixpo_runner"), cp, op_], timeout=1800)
    if rc != 0:
        raise vlib.Broken("fixpo_runner failed: " + out[-2000:])
    res = {r["id"]: r for r in vlib.read_ndjson(op_)}
    merged = []
    for c in cs:
        r = res.get(c["id"], {"err": "missing"})
        m = dict(c)
        if "err" in r:
            m.update({"err": 1, "pre": [], "post": [], "events": []})
        else:
            m.update({"err": 0, "pre": r["pre"], "post": r["post"], "events": r["events"]})
        merged.append(m)
    vlib.write_ndjson(mp, merged)
    r = tlc("Fixpoint", "Fixpoint", "c06-" + label, env={"FIXPO_CONFIGS": mp}, cont=True, timeout=2400)
    ck.add_tlc(r, "Fixpoint/" + label)
    ok = [m for m in merged if m["err"] == 0]
    ck.cov["traces_validated_against_impl"] += len(ok)
    ck.cov["evaluations"] += len(ok)
    ck.cov["distinct_nontrivial"] += len({json.dumps([m[k] for k in ("n", "succ", "entry", "start", "trs", "init", "asm", "wd", "desc")])
                                          for m in ok if any(e[0] in ("join", "widen") for e in m["events"])})
    ck.cov["no_claim_crash"] = ck.cov.get("no_claim_crash", 0) + len(merged) - len(ok)
    ck.cov["model_drift"] = ck.cov.get("model_drift", 0) + len({t[0] for t in r.tuples("MODEL-DRIFT")})
    ck.cov["hook_events"] = ck.cov.get("hook_events", 0) + sum(len(m["events"]) for m in ok)
    bad = {}
    if r.is_violation:
        import re
        for inv, cfgid in re.findall(r"Error: Invariant (\w+) is violated.*?/\\ config = (\d+)", r.out, re.S):
            bad.setdefault(int(cfgid), set()).add(inv)
    if liveness:
        r2 = tlc("Fixpoint", "FixpointLive", "c06-live-" + label, env={"FIXPO_CONFIGS": mp}, timeout=2400)
        ck.add_tlc(r2, "FixpointLive/" + label)
        if r2.is_violation:
            ck.violation("model of the iterator does not terminate (liveness): " + r2.out[-1500:], {"label": label})
    return bad, merged


def report(ck, bad, merged):
    byid = {m["id"]: m for m in merged}
    n = 0
    for cid, invs in sorted(bad.items()):
        if n >= 6:
            break
        m = byid[cid]
        cfg = {k: m[k] for k in ("n", "succ", "entry", "start", "S", "img", "trs", "init", "asm", "wd", "desc", "plainrun")}
        cfg["id"] = 1
        sub = Check("C06", ck.tier, ck.seed)
        bad1, merged1 = run_configs(sub, "confirm", [cfg])
        if not bad1:
            continue
        what = sorted(bad1[1])
        side = "the real iterator" if ("ImplIsLfp" in what or "ImplDelay" in what) else "the reference model (spec)"
        ck.violation("%s violates %s on configuration %s; implementation pre=%s post=%s events=%s" %
                     (side, what, json.dumps(cfg), merged1[0]["pre"], merged1[0]["post"], merged1[0]["events"]), cfg)
        n += 1


def run(tier, seed):
    ck = Check("C06", tier, seed)
    build("fixpo_runner")
    cs = gen_configs(ck.rng, tier)
    chunk = 40000
    k = 0
    for i in range(0, len(cs), chunk):
        bad, merged = run_configs(ck, "b%d" % k, cs[i:i + chunk], liveness=(k == 0 and tier == "thorough"))
        if k == 0:
            ck.sample({x: merged[len(merged) // 2][x] for x in ("n", "succ", "entry", "start", "trs", "init", "asm", "wd", "desc", "pre", "post", "events")})
        report(ck, bad, merged)
        k += 1
    ck.cov["rule"] = ("all digraphs on 1-2 nodes x every entry x every assignment of 12 block transformers (id, inc, saturating inc, reset, "
                      "havoc, empty, guard =k, guard !=k over 3 concrete states) with random delay/descending parameters; seeded random "
                      "3-4 node graphs with random successor orders, admissible start blocks (entry, or a block outside every loop) and "
                      "assumption maps. non-trivial = distinct configuration in which the engine extrapolated at least once")
    ck.assumptions += ["finite concrete state space of 3 states; graphs with more than 2 nodes are sampled",
                       "configurations on which the real code calls CRAB_ERROR (a predecessor of a loop head is unreachable from the entry) give no claim"]
    return ck.finish()


def replay(path):
    cfg = json.load(open(path))["case"]
    ck = Check("C06", "quick", 0)
    build("fixpo_runner")
    bad, merged = run_configs(ck, "replay", [cfg])
    report(ck, bad, merged)
    return ck.finish()
