--------------------------- MODULE WidenChain ---------------------------
(* C05 (chains): a chain  acc_0, acc_{i+1} = acc_i WIDEN (acc_i JOIN x_{i+1})  built on a real domain
   from arbitrary values x_i becomes stationary w.r.t. the domain's own inclusion test.
   The histories (tools/hist.py chain_history) are validated for soundness by DomainOps; here
   the recorded answers of the "chain" inclusion tests  acc_{i+1} <= acc_i  are judged:
     - the number of STRICT increases (answer no) is at most Cap, a bound that depends only on the
       number of variables and thresholds, not on how far the values x_i grow;
     - the chain is stationary at its end: the last TailLen tests all answer yes.
   One TLC state per (history, domain). *)
EXTENDS Integers, Sequences, FiniteSets, TLC, Json, IOUtils

Traces == ndJsonDeserialize(IOEnv.DOM_TRACES)
Cap == atoi(IOEnv.CHAIN_CAP)
TailLen == atoi(IOEnv.CHAIN_TAIL)

VARIABLES t, d
Init == t \in DOMAIN Traces /\ d \in DOMAIN Traces[t].obs
Next == UNCHANGED <<t, d>>
Spec == Init /\ [][Next]_<<t, d>>

Tr == Traces[t]
ChainSteps == {k \in DOMAIN Tr.steps : Tr.steps[k].op = "leq" /\ "chain" \in DOMAIN Tr.steps[k]}
Ans(k) == Tr.obs[d].steps[k].ans
Increases == {k \in ChainSteps : Ans(k) = 0}
LastK == {k \in ChainSteps : Cardinality({j \in ChainSteps : j > k}) < TailLen}

Stabilises ==
  Tr.obs[d].err = 0 =>
     \/ /\ Cardinality(Increases) <= Cap
        /\ \A k \in LastK : Ans(k) = 1
     \/ ~PrintT(<<"CHAIN", Tr.id, Tr.obs[d].dom, Cardinality(Increases), Cardinality(ChainSteps)>>)

Longest == TRUE \/ PrintT(<<"LEN", Tr.id, Tr.obs[d].dom, Cardinality(Increases)>>)
=========================================================================
