// Zones / octagons over the OTHER graph representations and weight types of graph_config.hpp
// (the default registered in dom_replay__zones.cpp is adapt_ss / int64_t).
#include "dom_replay.hpp"
#include "domtypes.hpp"
#include <crab/domains/sparse_dbm.hpp>
#include <crab/domains/split_dbm.hpp>
#include <crab/domains/split_oct.hpp>
using namespace crab::domains;
using namespace vh;
typedef DBM_impl::DefaultParams<z_number, DBM_impl::GraphRep::ss> ss_i64_t;
typedef DBM_impl::DefaultParams<z_number, DBM_impl::GraphRep::pt> pt_i64_t;
typedef DBM_impl::DefaultParams<z_number, DBM_impl::GraphRep::ht> ht_i64_t;
typedef DBM_impl::SafeInt64DefaultParams<z_number, DBM_impl::GraphRep::adapt_ss> adapt_safe_t;
typedef DBM_impl::BigNumDefaultParams<z_number, DBM_impl::GraphRep::ss> ss_big_t;
typedef split_dbm_domain<z_number, varname_t, ss_i64_t> sdbm_ss_t;
typedef split_dbm_domain<z_number, varname_t, pt_i64_t> sdbm_pt_t;
typedef split_dbm_domain<z_number, varname_t, ht_i64_t> sdbm_ht_t;
typedef split_dbm_domain<z_number, varname_t, adapt_safe_t> sdbm_safe_t;
typedef split_dbm_domain<z_number, varname_t, ss_big_t> sdbm_big_t;
typedef sparse_dbm_domain<z_number, varname_t, adapt_safe_t> spdbm_safe_t;
typedef split_oct_domain<z_number, varname_t, adapt_safe_t> soct_safe_t;
// (split_oct does not compile over bignum weights: integer_tightening casts the weight to float)
VH_REGISTER_DOMAIN(sdbm_ss, sdbm_ss_t)
VH_REGISTER_DOMAIN(sdbm_pt, sdbm_pt_t)
VH_REGISTER_DOMAIN(sdbm_ht, sdbm_ht_t)
VH_REGISTER_DOMAIN(sdbm_safe, sdbm_safe_t)
VH_REGISTER_DOMAIN(sdbm_big, sdbm_big_t)
VH_REGISTER_DOMAIN(spdbm_safe, spdbm_safe_t)
VH_REGISTER_DOMAIN(soct_safe, soct_safe_t)
