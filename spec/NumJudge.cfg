SPECIFICATION Spec
INVARIANT Contract
CHECK_DEADLOCK FALSE
