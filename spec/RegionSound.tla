---------------------------- MODULE RegionSound ----------------------------
(* C15: the region/reference domain is sound for loads and reference queries.

   The transition system is ProgSound's (every concrete execution of a CrabIR program, module CrabIR gives the
   region/reference statements).  Loads are covered by InvariantsSound: the scalar that received a loaded value must
   lie in at(lhs) / satisfy the reported constraints at every block boundary.  This module adds the reference QUERIES
   that the real domain answered on the invariant at the entry (rq_pre / tq_pre) and exit (rq_post / tq_post) of every
   block:
     rq[b][j] = <<n, ok, sites>> for the j-th reference variable P.refs[j]:
        n = is_null_ref: 1 definitely null, 0 definitely not null, 2 don't know, 3 bottom
        ok = 1 iff get_allocation_sites returned true, sites = the reported allocation sites
     tq[b][j] = <<ok, tags>> for the j-th region variable P.rgns[j] (get_tags)
   and the verdicts of assert_ref statements. *)
EXTENDS ProgSound

RefAnsOK(v, ans) ==
  LET a == s[v]
  IN a # UND =>
       /\ ans[1] # 3
       /\ (ans[1] = 1 => a = 0)
       /\ (ans[1] = 0 => a # 0)
       /\ (ans[2] = 1 /\ a # 0 => \E k \in DOMAIN ans[3] : ans[3][k] = HeapOf(s)[2][a])

(* the content of a cell of region variable rv that some reference variable points to has only reported tags *)
HasTag(ts, t) == \E k \in DOMAIN ts : ts[k] = t
TagAnsOK(rv, ans) ==
  ans[1] = 1 =>
    \A j \in DOMAIN P.refs :
      LET a == s[P.refs[j]]
      IN (a # UND /\ a # 0 /\ HeapOf(s)[3][a] = 1 /\ s[rv][a] # UNW) =>
           /\ (s[rv][NADDR + a] % 2 = 1 => HasTag(ans[2], 1))
           /\ ((s[rv][NADDR + a] \div 2) % 2 = 1 => HasTag(ans[2], 2))

AnswersOK(rq, tq) == /\ \A j \in DOMAIN P.refs : RefAnsOK(P.refs[j], rq[j])
                     /\ \A j \in DOMAIN P.rgns : TagAnsOK(P.rgns[j], tq[j])
QueryOK(r) ==
  /\ (i = 1 => AnswersOK(P.runs[r].rq_pre[b], P.runs[r].tq_pre[b]))
  /\ (AtExit => AnswersOK(P.runs[r].rq_post[b], P.runs[r].tq_post[b]))

RCheckOK(r) ==
  IF AtExit THEN TRUE
  ELSE IF Stmts[i].op # "rassert" THEN TRUE
  ELSE IF ~RefDefined(Stmts[i].c, s) THEN TRUE
  ELSE LET v == Verdicts(r, Stmts[i].id)
       IN /\ "unreach" \notin v
          /\ ("safe" \in v => HoldsRef(Stmts[i].c, s))

FailingQuery == {r \in Judged : ~QueryOK(r)}
FailingRCheck == {r \in Judged : ~RCheckOK(r)}
RefQueriesSound == FailingQuery = {}
RefVerdictsSound == FailingRCheck = {}

CompactR == [prog |-> P.id, block |-> b, idx |-> i, state |-> s,
             bad_invariant |-> {<<r, P.runs[r].dom>> : r \in FailingInv},
             bad_verdict |-> {<<r, P.runs[r].dom>> : r \in FailingCheck \cup FailingRCheck},
             bad_query |-> {<<r, P.runs[r].dom>> : r \in FailingQuery}]
=============================================================================
