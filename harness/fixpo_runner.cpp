// C06 adaptor: drives the real ikos::interleaved_fwd_fixpoint_iterator with a
// client-defined value type of finite height ("PowVal": a set of concrete
// states, widening = join, narrowing = meet, block transformer = exact image),
// exactly as the property prescribes (a client subclass of the iterator).
// Exports pre/post at every block, the (kind, head, iteration) events of the
// CRAB_VERIF hook and the sequence of lattice operations the engine performed.
//
// usage: fixpo_runner <configs.ndjson> <out.ndjson>
// config: {"id":k,"n":N,"succ":[[..],..],"entry":e,"start":s,"S":S,
//          "img":[[[succ states] per state] per node],"init":[states],
//          "asm":[[node,[states]],...],"wd":w,"desc":d}
#include "crabir.hpp"
#include <crab/cfg/cfg_bgl.hpp>
#include <crab/fixpoint/interleaved_fixpoint_iterator.hpp>
#include <crab/support/verif_hooks.hpp>

#include <csignal>
#include <sys/wait.h>
#include <unistd.h>

using namespace vh;

static std::vector<std::string> *g_ops = nullptr; // lattice-operation log

struct PowVal {
  unsigned mask;
  bool top; // only make_top() produces it (never used by the engine on reachable paths)
  PowVal() : mask(0), top(false) {}
  explicit PowVal(unsigned m) : mask(m), top(false) {}
  static void log(const char *s) {
    if (g_ops) g_ops->push_back(s);
  }
  PowVal make_top() const {
    PowVal r;
    r.top = true;
    r.mask = ~0u;
    return r;
  }
  PowVal make_bottom() const { return PowVal(0); }
  bool is_bottom() const { return !top && mask == 0; }
  bool is_top() const { return top; }
  bool operator<=(const PowVal &o) const {
    log("leq");
    return (mask & ~o.mask) == 0;
  }
  void operator|=(const PowVal &o) {
    log("join");
    mask |= o.mask;
    top = top || o.top;
  }
  PowVal operator|(const PowVal &o) const {
    log("join");
    PowVal r(mask | o.mask);
    r.top = top || o.top;
    return r;
  }
  PowVal operator&(const PowVal &o) const {
    log("meet");
    PowVal r(mask & o.mask);
    r.top = top && o.top;
    return r;
  }
  PowVal operator||(const PowVal &o) const {
    log("widen");
    PowVal r(mask | o.mask);
    r.top = top || o.top;
    return r;
  }
  PowVal operator&&(const PowVal &o) const {
    log("narrow");
    PowVal r(mask & o.mask);
    r.top = top && o.top;
    return r;
  }
  PowVal widening_thresholds(const PowVal &o, const crab::thresholds<z_number> &) const {
    log("widen_thresholds");
    PowVal r(mask | o.mask);
    r.top = top || o.top;
    return r;
  }
  void write(crab::crab_os &o) const { o << "{" << mask << "}"; }
  friend crab::crab_os &operator<<(crab::crab_os &o, const PowVal &v) {
    v.write(o);
    return o;
  }
};

typedef ikos::interleaved_fwd_fixpoint_iterator<z_cfg_ref_t, PowVal> base_iterator_t;

class client_iterator : public base_iterator_t {
  const vj::Value &img;
  unsigned S;

public:
  client_iterator(z_cfg_ref_t cfg, const crab::fixpoint_parameters &p, const vj::Value &img_, unsigned S_)
      : base_iterator_t(cfg, PowVal(), p), img(img_), S(S_) {}
  PowVal analyze(const std::string &node, PowVal &&pre) override {
    PowVal::log("analyze");
    long b = std::atol(node.c_str() + 1);
    unsigned out = 0;
    for (unsigned s = 0; s < S; ++s)
      if (pre.mask >> s & 1) {
        const vj::Value &t = img[(size_t)(b - 1)][(size_t)s];
        for (size_t k = 0; k < t.size(); ++k) out |= 1u << t[k].i();
      }
    return PowVal(out);
  }
  void process_pre(const std::string &, PowVal) override {}
  void process_post(const std::string &, PowVal) override {}
  using base_iterator_t::get_post;
  using base_iterator_t::get_pre;
  using base_iterator_t::run;
};

static std::vector<std::string> g_events;
static void on_event(const char *kind, const std::string &node, unsigned iteration) {
  g_events.push_back("[\"" + std::string(kind) + "\"," + std::to_string(std::atol(node.c_str() + 1)) + "," +
                     std::to_string(iteration) + "]");
}

static unsigned mask_of(const vj::Value &a) {
  unsigned m = 0;
  for (size_t k = 0; k < a.size(); ++k) m |= 1u << a[k].i();
  return m;
}
static std::string states_of(unsigned m, unsigned S) {
  std::string r = "[";
  bool first = true;
  for (unsigned s = 0; s < S; ++s)
    if (m >> s & 1) {
      r += (first ? "" : ",") + std::to_string(s);
      first = false;
    }
  return r + "]";
}

static void run_one(const vj::Value &c, std::ostream &o) {
  int n = c["n"].i();
  unsigned S = c["S"].i();
  z_cfg_t cfg("b" + std::to_string(c["entry"].i()));
  for (int i = 1; i <= n; ++i) cfg.insert("b" + std::to_string(i));
  for (int i = 1; i <= n; ++i)
    for (size_t k = 0; k < c["succ"][i - 1].size(); ++k)
      cfg.get_node("b" + std::to_string(i)) >> cfg.get_node("b" + std::to_string(c["succ"][i - 1][k].i()));
  crab::fixpoint_parameters fp;
  fp.get_widening_delay() = c["wd"].i();
  fp.get_descending_iterations() = c["desc"].i();
  fp.get_max_thresholds() = c.geti("th", 0);
  z_cfg_ref_t ref(cfg);
  client_iterator it(ref, fp, c["img"], S);
  std::vector<std::string> ops;
  g_ops = &ops;
  g_events.clear();
  crab::verif_hooks::fixpo_event_callback() = on_event;
  base_iterator_t::assumption_map_t assumptions;
  for (size_t k = 0; k < c["asm"].size(); ++k)
    assumptions.insert({"b" + std::to_string(c["asm"][k][0].i()), PowVal(mask_of(c["asm"][k][1]))});
  std::string start = "b" + std::to_string(c["start"].i());
  if (c.geti("plainrun", 0))
    it.run(PowVal(mask_of(c["init"])));
  else
    it.run(start, PowVal(mask_of(c["init"])), assumptions);
  g_ops = nullptr;
  o << "{\"id\":" << c["id"].i() << ",\"pre\":[";
  for (int i = 1; i <= n; ++i) o << (i > 1 ? "," : "") << states_of(it.get_pre("b" + std::to_string(i)).mask, S);
  o << "],\"post\":[";
  for (int i = 1; i <= n; ++i) o << (i > 1 ? "," : "") << states_of(it.get_post("b" + std::to_string(i)).mask, S);
  o << "],\"events\":[";
  for (size_t k = 0; k < g_events.size(); ++k) o << (k ? "," : "") << g_events[k];
  o << "],\"nops\":" << ops.size() << "}\n";
}

int main(int argc, char **argv) {
  if (argc < 3) return 2;
  std::vector<vj::Value> cs;
  {
    std::ifstream in(argv[1]);
    std::string line;
    while (std::getline(in, line))
      if (!line.empty()) cs.push_back(vj::parse(line));
  }
  FILE *out = fopen(argv[2], "w");
  if (!out) return 2;
  size_t next = 0;
  while (next < cs.size()) {
    int pfd[2];
    if (pipe(pfd) != 0) return 2;
    fflush(out);
    pid_t pid = fork();
    if (pid == 0) {
      close(pfd[0]);
      for (size_t j = next; j < cs.size(); ++j) {
        alarm(10);
        std::ostringstream s;
        run_one(cs[j], s);
        alarm(0);
        fputs(s.str().c_str(), out);
        fflush(out);
        char ch = 1;
        if (write(pfd[1], &ch, 1) != 1) _exit(5);
      }
      _exit(0);
    }
    close(pfd[1]);
    size_t done = 0;
    char buf[4096];
    ssize_t k;
    while ((k = read(pfd[0], buf, sizeof buf)) > 0) done += k;
    close(pfd[0]);
    int status = 0;
    waitpid(pid, &status, 0);
    next += done;
    if (next < cs.size()) {
      const char *why = (WIFSIGNALED(status) && WTERMSIG(status) == SIGALRM) ? "timeout" : "crash";
      fprintf(out, "{\"id\":%lld,\"err\":\"%s\"}\n", cs[next]["id"].i(), why);
      ++next;
    }
  }
  fclose(out);
  return 0;
}
