"""C09 Top-down inter-procedural analysis is sound for every configuration (invariants, summaries; verdicts -> C02)."""
import json
import vlib, intergen
from vlib import Check, build
from checks import intersound

PID = "C09"


def td_config(rng, dom):
    return {"kind": "td", "dom": dom, "max_cc": rng.choice([-1, -1, 1, 2]), "exact": rng.choice([0, 1]), "rec": rng.choice([0, 1]),
            "wd": rng.choice([0, 1, 2]), "desc": rng.choice([0, 1, 2]), "th": rng.choice([0, 0, 5])}


def bu_config(rng, dom, budom):
    return {"kind": "bu", "dom": dom, "budom": budom, "wd": rng.choice([0, 1, 2]), "desc": rng.choice([0, 1, 2]), "th": rng.choice([0, 0, 5])}


def describe(pid, v, kind):
    runs = {"inv": v["bad_invariant"], "summ": v["bad_summary"], "verdict": v["bad_verdict"]}[kind]
    return runs


def run_generic(pid, tier, seed, mk_runs, which, nq, nt, rule):
    ck = Check(pid, tier, seed)
    build("inter_runner")
    n = nq if tier == "quick" else nt
    chunk = 200
    done = k = 0
    while done < n:
        m = min(chunk, n - done)
        ps = []
        for i in range(m):
            p = intergen.program(ck.rng, done + i + 1)
            if pid == "C10":
                p["recursive"] = p["recursive"]
            p["runs"] = mk_runs(ck.rng)
            intergen.bound_contexts(ck.rng, p)
            ps.append(p)
        if k == 0 and pid == "C09":   # fixed regression cases (replays of earlier findings)
            import os
            rd = os.path.join(vlib.ROOT, "tools", "regress")
            for f in sorted(os.listdir(rd)):
                if f.startswith("c09_"):
                    q = json.load(open(os.path.join(rd, f)))
                    if not q.get("keep_runs"):      # (a regression file may carry the configuration it failed with)
                        q["runs"] = [{"kind": "td", "dom": d, "max_cc": mcc, "exact": ex, "rec": 0, "wd": 1, "desc": 1, "th": 0}
                                     for d in ("intervals", "split_dbm") for mcc in (-1, 1, 2) for ex in (0, 1)]
                    ps.append(q)
        viols, merged, timeouts = intersound.explore(ck, "b%d" % k, ps)
        ck.cov["distinct_nontrivial"] += sum(1 for p in merged for r in p["runs"] if r["err"] == 0 and
                                             any(o["bot"] == 0 and o["top"] == 0 for f in r["funcs"][1:] for o in f["pre"]))
        if k == 0:
            ck.sample({"funcs": ps[0]["funcs"], "run_configs": ps[0]["runs"][:3]})
        for v in viols:
            kinds = [("inv", v["bad_invariant"]), ("summ", v["bad_summary"]), ("verdict", v["bad_verdict"])]
            for kind, runs in kinds:
                if kind not in which:
                    if runs:
                        vlib.log("NOTE: program %d: %s failure for %s belongs to another property's check" % (v["prog"], kind, runs))
                    continue
                for run, dom in runs[:2]:
                    cfg = v["program"]["runs"][run - 1]
                    prog = dict(v["program"])
                    prog["runs"] = [cfg]
                    fname = v["program"]["funcs"][v["fn"] - 1]["name"]
                    ck.violation("%s (%s): analyzer config %s: %s at function %s block b%d idx %d; concrete state %s (activation started "
                                 "with %s, call depth %d, execution from main: %s)" %
                                 (pid, kind, json.dumps(cfg), {"inv": "invariant does not contain a reachable state",
                                                              "summ": "stored summary does not relate inputs and outputs of a concrete call",
                                                              "verdict": "assertion verdict contradicted"}[kind],
                                  fname, v["block"], v["idx"], v["state"], v["entry_state"], v["depth"], v["frommain"]),
                                 {"program": prog, "violation": {x: v[x] for x in v if x != "program"}})
        done += m
        k += 1
    ck.cov["programs"] = n
    ck.cov["rule"] = rule
    ck.assumptions += ["integer variables range over -1..1 initially / after havoc; values leaving -10..10 are not followed; call depth <= 3",
                       "callee locals start as all-0 or all-(-1) (two samples of 'arbitrary')",
                       "summary preconditions are used as antecedents only for domains with faithful projection (intervals, zones, octagons)"]
    return ck.finish()


RULE = ("seeded call graphs: main + 1..3 functions over 4 shared variable names (DAG calls, direct/mutual recursion in 30%, repeated "
        "calls, arguments named like the callee's formals, permuted; outputs overwriting arguments) x domains x random "
        "inter_analyzer_parameters (max_call_contexts in {1,2,inf}, exact_summary_reuse, analyze_recursive_functions, widening "
        "delay, descending iterations, thresholds). non-trivial = (program, run) with a callee invariant that is neither top nor bottom")


def run(tier, seed):
    return run_generic(PID, tier, seed + 4000, lambda rng: [td_config(rng, d) for d in intersound.DOMS], ("inv", "summ"), 100, 2000, RULE)


def replay(path):
    case = json.load(open(path))["case"]
    ck = Check(PID, "quick", 0)
    build("inter_runner")
    viols, _, _ = intersound.explore(ck, "replay", [case["program"]])
    for v in viols:
        ck.violation("replayed: %s" % v["violated"], case)
    return ck.finish()
