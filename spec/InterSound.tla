---------------------------- MODULE InterSound ----------------------------
(* C09 / C10 (and the inter-procedural part of C02): concrete semantics of a
   CrabIR call graph with a call stack, against which the results of the REAL
   inter-procedural analyzers (top-down; bottom-up + top-down) are checked.

   Frames are separate storage: all functions share the variable NAMES of the
   program (so caller and callee may use the same names) but every activation
   has its own valuation.  A call  lhs := f(args)  starts f with its formal
   inputs bound to the values of the actuals and every other variable of the
   new frame arbitrary (two samples of "arbitrary" are explored: all 0 and all
   -B); at the end of f's exit block the outputs are copied to lhs of the
   caller's frame, nothing else of the caller changes.  Input formals are never
   re-assigned by the generated programs (crab's convention).

   Executions start at main (states satisfying the explicit initial
   constraints) and -- for the summary contract of the bottom-up analysis,
   "whatever the inputs" -- also directly at the entry of every other function
   with arbitrary box inputs (frommain = FALSE: only summaries are judged). *)
EXTENDS Gamma, TLC, Json, IOUtils

Progs == ndJsonDeserialize(IOEnv.PROGRAMS)
Excluded == JsonDeserialize(IOEnv.EXCLUDED)
B == atoi(IOEnv.BOX)
U == atoi(IOEnv.UNIV)
MaxDepth == atoi(IOEnv.MAXDEPTH)

VARIABLES p,        \* program index
          frommain, \* the execution started at main
          cur,      \* current frame [f, b, i, s, s0]  (s0 = valuation at the activation's start)
          stk       \* suspended caller frames, innermost last
vars == <<p, frommain, cur, stk>>

P == Progs[p]
F == P.funcs[cur.f]
Stmts == F.blocks[cur.b].stmts
AtExit == cur.i = Len(Stmts) + 1
NV == Len(P.kinds)

Range1(k) == IF k = "bool" THEN 0..1 ELSE IF k = "arr" THEN {<<UNW, UNW, UNW, UNW>>} ELSE IF k = "arr1" THEN {<<UNW>>} ELSE (-B)..B
RECURSIVE BoxN(_, _)
BoxN(kinds, n) == IF n = 0 THEN {<<>>} ELSE {Append(q, v) : q \in BoxN(kinds, n - 1), v \in Range1(kinds[n])}
Hv(x) == Range1(P.kinds[x])
FunIndex(name) == CHOOSE g \in DOMAIN P.funcs : P.funcs[g].name = name
Frame(f, s) == [f |-> f, b |-> P.funcs[f].entry, i |-> 1, s |-> s, s0 |-> s]
PosIn(q, x) == CHOOSE k \in DOMAIN q : q[k] = x
Others(fill) == [v \in 1..NV |-> IF P.kinds[v] = "bool" THEN 0 ELSE fill]

Init == /\ p \in DOMAIN Progs
        /\ \/ /\ frommain = TRUE
              /\ stk = <<>>
              /\ \E q \in {z \in BoxN(Progs[p].kinds, Len(Progs[p].kinds)) : AllHold(Progs[p].init, z)} :
                    cur = [f |-> 1, b |-> Progs[p].funcs[1].entry, i |-> 1, s |-> q, s0 |-> q]
           \/ /\ frommain = FALSE
              /\ stk = <<>>
              /\ \E g \in (DOMAIN Progs[p].funcs) \ {1} :
                   \E q \in {z \in BoxN(Progs[p].kinds, Len(Progs[p].kinds)) :
                                \A v \in DOMAIN z : (\E k \in DOMAIN Progs[p].funcs[g]["in"] : Progs[p].funcs[g]["in"][k] = v) \/ z[v] = 0} :
                      cur = [f |-> g, b |-> Progs[p].funcs[g].entry, i |-> 1, s |-> q, s0 |-> q]

ExecStmt == /\ ~AtExit /\ Stmts[cur.i].op # "call"
            /\ \E q \in Succ(Stmts[cur.i], cur.s, U, Hv) : cur' = [cur EXCEPT !.s = q, !.i = cur.i + 1]
            /\ UNCHANGED <<p, frommain, stk>>
Call == /\ ~AtExit /\ Stmts[cur.i].op = "call" /\ Len(stk) < MaxDepth
        /\ LET st == Stmts[cur.i]
               g == FunIndex(st.fn)
               ins == P.funcs[g]["in"]
           IN \E fill \in {0, -B} :
                cur' = Frame(g, [v \in 1..NV |-> IF \E k \in DOMAIN ins : ins[k] = v
                                                   THEN cur.s[st.args[PosIn(ins, v)]] ELSE Others(fill)[v]])
        /\ stk' = Append(stk, cur)
        /\ UNCHANGED <<p, frommain>>
Return == /\ AtExit /\ cur.b = F.exit /\ stk # <<>>
          /\ LET c == stk[Len(stk)]
                 st == P.funcs[c.f].blocks[c.b].stmts[c.i]
                 outs == F.out
             IN cur' = [c EXCEPT !.i = c.i + 1,
                                 !.s = [v \in 1..NV |-> IF \E k \in DOMAIN st.lhs : st.lhs[k] = v
                                                          THEN cur.s[outs[PosIn(st.lhs, v)]] ELSE c.s[v]]]
          /\ stk' = SubSeq(stk, 1, Len(stk) - 1)
          /\ UNCHANGED <<p, frommain>>
Goto == /\ AtExit
        /\ \E k \in DOMAIN F.blocks[cur.b].succ : cur' = [cur EXCEPT !.b = F.blocks[cur.b].succ[k], !.i = 1]
        /\ UNCHANGED <<p, frommain, stk>>
Next == ExecStmt \/ Call \/ Return \/ Goto
Spec == Init /\ [][Next]_vars

---------------------------------------------------------------------------
IsExcluded(r) == \E k \in DOMAIN Excluded : Excluded[k][1] = P.id /\ Excluded[k][2] = r
Judged == {r \in DOMAIN P.runs : P.runs[r].err = 0 /\ ~IsExcluded(r)}
RF(r) == P.runs[r].funcs[cur.f]

(* C09/C10: context-insensitive invariants contain every state of an execution from main *)
InvOK(r) ==
  frommain =>
    /\ (cur.i = 1 => InGamma(cur.s, RF(r).pre[cur.b]))
    /\ (AtExit => InGamma(cur.s, RF(r).post[cur.b]))

(* summaries: an activation that ends (at the end of the exit block) with inputs satisfying a
   stored precondition satisfies the postcondition.  The precondition is an ANTECEDENT: it is only
   used when the domain's projection is faithful (exact = 1, nothing dropped by the exporter). *)
InputsIn(o, s) ==
  /\ o.bot = 0
  /\ \A v \in {F["in"][k] : k \in DOMAIN F["in"]} : InItv(s[v], o.itv[v])
  /\ AllHold(o.csts, s)
SummOK(r) ==
  (AtExit /\ cur.b = F.exit /\ cur.f # 1) =>
     \A k \in DOMAIN RF(r).summ :
        LET sm == RF(r).summ[k]
        IN (P.runs[r].exact = 1 /\ sm.pre.dropped = 0 /\ InputsIn(sm.pre, cur.s0)) => InGamma(cur.s, sm.post)

(* C02: verdicts of the interleaved checker *)
Verdicts(r, id) == {P.runs[r].checks[k].res : k \in {q \in DOMAIN P.runs[r].checks : P.runs[r].checks[q].id = id}}
CondHolds(st) == IF st.op = "assert" THEN Holds(st.c, cur.s) ELSE cur.s[st.x] = 1
CheckOK(r) ==
  IF ~frommain \/ AtExit \/ Stmts[cur.i].op \notin {"assert", "bassert"} THEN TRUE
  ELSE LET v == Verdicts(r, Stmts[cur.i].id)
       IN /\ "unreach" \notin v
          /\ ("safe" \in v => CondHolds(Stmts[cur.i]))

FailingInv == {r \in Judged : ~InvOK(r)}
FailingSumm == {r \in Judged : ~SummOK(r)}
FailingCheck == {r \in Judged : ~CheckOK(r)}
InvariantsSound == FailingInv = {}
SummariesSound == FailingSumm = {}
VerdictsSound == FailingCheck = {}

Compact == [prog |-> P.id, fn |-> cur.f, block |-> cur.b, idx |-> cur.i, state |-> cur.s, entry_state |-> cur.s0,
            depth |-> Len(stk), frommain |-> frommain,
            bad_invariant |-> {<<r, P.runs[r].dom>> : r \in FailingInv},
            bad_summary |-> {<<r, P.runs[r].dom>> : r \in FailingSumm},
            bad_verdict |-> {<<r, P.runs[r].dom>> : r \in FailingCheck}]
===========================================================================
