--------------------------- MODULE WtoJudge ---------------------------
(* C07, implementation level: every record written by harness/wto_runner
   (a graph and the WTO that the real ikos::wto computed for it) is judged
   against the contract predicates of WtoDefs.  One initial state per record,
   so TLC's workers share the records. *)
EXTENDS WtoDefs, TLC, Json, IOUtils

Recs == ndJsonDeserialize(IOEnv.WTO_RECORDS)

VARIABLE i
Init == i \in DOMAIN Recs
Next == UNCHANGED i
Spec == Init /\ [][Next]_i

Contract == WellFormed(Recs[i])

(* algorithm-level comparison: another valid WTO is not a violation, so a
   difference is only printed (MODEL-DRIFT), never an invariant failure *)
SameAsModel(r) ==
  LET m == ModelRecord(r) IN m.order = r.order /\ Rng(m.comps) = Rng(r.comps)
Drift == SameAsModel(Recs[i]) \/ PrintT(<<"MODEL-DRIFT", Recs[i].id>>)
=======================================================================
