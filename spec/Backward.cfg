SPECIFICATION Spec
INVARIANT PreconditionsNecessary
CHECK_DEADLOCK FALSE
ALIAS Compact
