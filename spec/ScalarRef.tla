----------------------------- MODULE ScalarRef -----------------------------
(* C08, design level: the closed-form reference of Scalars.tla for integer
   interval +, -, unary -, *, join, meet (the formulas against which the
   implementation is judged for TIGHTNESS) is itself checked by TLC against
   brute force, independently of any implementation:
     finite operands   : Ref = hull of {x op y} by enumeration
     infinite bounds   : the hull is computed by enumeration for two finite
                         cuts K < K+1 of the infinite bounds; with every finite
                         bound in -R..R and K > R*R, a bound of the true hull is
                         finite iff both cuts give the same value (which must be
                         the reference's), infinite iff it moves outwards.
   All pairs of intervals with bounds in -R..R and +-oo, incl. bottom.       *)
EXTENDS Scalars

R == atoi(IOEnv.C08_R)
K == atoi(IOEnv.C08_K)
ASSUME K > R * R

Lo == {<<-1, 0>>} \cup {<<0, n>> : n \in -R..R}
Hi == {<<1, 0>>} \cup {<<0, n>> : n \in -R..R}
AllNI == {<<>>} \cup {<<p[1], p[2]>> : p \in {q \in Lo \X Hi : ELe(q[1], q[2])}}

VARIABLES ph, A, B
vars == <<ph, A, B>>
Init == ph = 0 /\ A = <<>> /\ B = <<>>
Next == \/ ph = 0 /\ ph' = 1 /\ A' \in AllNI /\ B' = B
        \/ ph = 1 /\ ph' = 2 /\ B' \in AllNI /\ A' = A
Spec == Init /\ [][Next]_vars

OpOk(op) ==
  IF IsFin(A) /\ IsFin(B) THEN Ref(op, A, B) = Brute(op, A, B)
  ELSE LimitOk(Ref(op, A, B), Brute(op, Cut(A, K), Cut(B, K)), Brute(op, Cut(A, K + 1), Cut(B, K + 1)))
NegOk ==
  IF IsFin(A) THEN RefNeg(A) = BruteNeg(A)
  ELSE LimitOk(RefNeg(A), BruteNeg(Cut(A, K)), BruteNeg(Cut(A, K + 1)))
RefOk == ph = 2 => (NegOk /\ \A op \in TightOps : OpOk(op) \/ (PrintT(<<"REFBAD", op, A, B>>) /\ FALSE))
=============================================================================
