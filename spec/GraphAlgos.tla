--------------------------- MODULE GraphAlgos ---------------------------
(* Graph algorithms of crab (include/crab/analysis/graphs/): dominator tree and dominance frontiers
   (dominance.hpp), post-dominance frontiers and the control-dependence graph (cdg.hpp), the graph of
   strongly connected components (sccg.hpp, sccg_bgl.hpp) and the (weak) topological orders
   (topo_order.hpp).  They underpin liveness and the assertion crawler (kill-gen iterator order, control
   dependences) and the bottom-up inter-procedural analyses (order of the call-graph components).

   This module holds
     1. the mathematical definitions over a finite digraph: nodes 1..n, successor function
        S \in [1..n -> SUBSET (1..n)], an entry node (and, for post-dominance, an exit node);
     2. a design-level check (ModelSpec, GraphAlgosModel*.cfg): over ALL digraphs with MinN..MaxN nodes TLC
        checks textbook facts that validate the definitions against each other (path definition of dominance
        against the data-flow definition, idom against the comment of dominance.hpp, frontiers against Cytron
        et al.'s DF_local/DF_up formulation, control dependence against Ferrante et al.'s path formulation,
        SCCs against forward/backward reachability, existence of an order that meets the order contracts);
     3. the implementation-level judge (JudgeSpec, GraphAlgosJudge.cfg): one TLC initial state per record
        written by harness/graph_runner (the graph as the real CFG / call graph reports it, plus what the REAL
        crab code answered); the invariant Contract says that the answer EQUALS the definition (dominators,
        frontiers, control dependences, components, component graph) or, for orders, MEETS the promise.

   Which inputs are judged (decided from the comments of the code and from its uses):
     * dominance.hpp defines "u dominates v if all paths from entry to v pass through u": this only has a
       meaning for nodes reachable from the entry.  crab CFGs routinely contain blocks that are unreachable
       from the entry, and blocks from which the exit cannot be reached (infinite loops, blocks ending in
       `unreachable`), and the code is run on them (assertion crawler, forward-backward analyser).  So every
       graph is judged, but the claim is restricted to the meaningful part:
         - idom[v] and DF[v] are judged for every v reachable from the entry (dominators, predecessors and
           frontier members all range over reachable nodes: an unreachable predecessor carries no path from
           the entry); for an unreachable v the implementation must answer "no immediate dominator"
           (boost::lengauer_tarjan_dominator_tree's documented answer, logged by crab as "is not dominated by
           anyone") and nothing is claimed about its frontier.
         - post-dominance is dominance of the reversed graph from the exit: judged for the nodes from which
           the exit is reachable; control dependence "y depends on x" is judged for pairs x, y that both
           reach the exit.  Independently of reachability cdg must be the inverse relation of the
           post-dominance frontiers (that is what cdg.hpp computes).  Without an exit block
           (post_dominance: `if (!g.has_exit()) return`) everything must be empty.
         - when every node is reachable from the entry and reaches the exit the claim is the classical
           total one.
     * A node can be in its own frontier (loop head, self loop): DF(x) = {y : x dominates a predecessor of y
       and x does not STRICTLY dominate y} (Cytron et al.; commit 177ef1b of /repo).
     * scc_graph works on all vertices of the graph (no entry involved): judged on every graph.
     * topo_sort / rev_topo_sort: "pre: g is a DAG" -- judged on the cfg itself only when it is acyclic, and
       always on SCC graphs.  weak_topo_sort / weak_rev_topo_sort ("the topological order of g with possibly
       cycles", "not Bourdoncle's WTO"): they expand a (reverse) topological order of the SCC graph by the
       members of each component, so what is promised -- and all that is checked -- is: every vertex occurs
       exactly once, the members of a component are consecutive, and every edge between two DIFFERENT
       components goes forward (weak_topo_sort) resp. backward (weak_rev_topo_sort).  Nothing is promised
       about the order inside a component ("pre-order"/"post-order" of an unspecified depth-first search) and
       nothing about which node comes first (see FwdFirstIsEntry below: a use-site expectation, not judged). *)
EXTENDS Integers, Sequences, FiniteSets, SequencesExt, TLC, Json, IOUtils

CONSTANTS MinN, MaxN,   \* ModelSpec: digraphs with MinN..MaxN nodes
          Entries        \* "all": every entry node; "first": entry 1 (w.l.o.g. when all graphs are enumerated)

Rng(s) == {s[k] : k \in DOMAIN s}
NoDup(s) == \A p, q \in DOMAIN s : s[p] = s[q] => p = q
Pos(s, v) == CHOOSE p \in DOMAIN s : s[p] = v

-----------------------------------------------------------------------------
(* 1. DEFINITIONS.  S is a function from 1..n to sets of successors. *)

Rev(n, S) == TLCEval([v \in 1..n |-> {u \in 1..n : v \in S[u]}])

(* nodes reachable from the set X (X included) along paths none of whose nodes after the start is in Avoid *)
RECURSIVE Closure(_, _, _)
Closure(S, X, Avoid) ==
  LET X2 == X \cup (UNION {S[u] : u \in X} \ Avoid)
  IN IF X2 = X THEN X ELSE Closure(S, X2, Avoid)
Reach(S, X) == Closure(S, X, {})
(* reachable from e by paths that do not contain d *)
ReachAvoid(S, e, d) == IF e = d THEN {} ELSE Closure(S, {e}, {d})
(* reachable from v by at least one edge *)
ReachPlus(S, v) == Reach(S, S[v])

(* Dominance w.r.t. entry e.  The result is a record of functions over R = nodes reachable from e:
     dom[v]   the dominators of v: d such that every path from e to v contains d
     idom[v]  the set of immediate dominators of v ({} for e, a singleton otherwise: IdomUnique)
     df[x]    the dominance frontier of x *)
DomInfo(n, S, e) ==
  LET R == Reach(S, {e})
      A == TLCEval([d \in R |-> ReachAvoid(S, e, d)])
      D == TLCEval([v \in R |-> {d \in R : v \notin A[d]}])
      I == TLCEval([v \in R |-> {d \in D[v] \ {v} : \A d2 \in D[v] \ {v} : d2 \in D[d]}])
      F == TLCEval([x \in R |-> {y \in R : /\ \E p \in R : y \in S[p] /\ x \in D[p]
                                          /\ ~(x \in D[y] /\ x # y)}])
  IN [reach |-> R, dom |-> D, idom |-> I, df |-> F]

(* Control dependence (Cytron et al. 1991, section 6; Ferrante et al. 1987): y is control dependent on x iff
   x is in the dominance frontier of y in the REVERSED graph w.r.t. the exit.  CD[x] = nodes that are control
   dependent on x (the shape of crab's cdg map), for x among the nodes that reach the exit. *)
ControlDeps(n, S, exit) ==
  LET P == DomInfo(n, Rev(n, S), exit)
  IN [x \in P.reach |-> {y \in P.reach : x \in P.df[y]}]

(* Strongly connected components: classes of mutual reachability, over ALL nodes *)
SccOf(S, v) == {w \in Reach(S, {v}) : v \in Reach(S, {w})}
Sccs(n, S) == {SccOf(S, v) : v \in 1..n}
(* component graph: edge between two DISTINCT components iff some edge of the graph crosses *)
SccEdges(n, S) ==
  LET Cs == Sccs(n, S)
  IN {e \in Cs \X Cs : e[1] # e[2] /\ \E u \in e[1] : S[u] \cap e[2] # {}}

(* the three of them evaluated once: of[v] = component of v, all = set of components, edges = component graph *)
SccInfo(n, S) ==
  [of |-> TLCEval([v \in 1..n |-> SccOf(S, v)]), all |-> Sccs(n, S), edges |-> SccEdges(n, S)]

IsDag(n, S) == \A v \in 1..n : v \notin ReachPlus(S, v)

(* --- contracts of the orders (sequences of nodes); sc = SccInfo(n, S) --- *)
IsPerm(ord, V) == NoDup(ord) /\ Rng(ord) = V
(* topological order of a DAG: every edge goes forward *)
TopoOK(n, S, ord) ==
  /\ IsPerm(ord, 1..n)
  /\ \A u \in 1..n : \A v \in S[u] : Pos(ord, u) < Pos(ord, v)
RevTopoOK(n, S, ord) ==
  /\ IsPerm(ord, 1..n)
  /\ \A u \in 1..n : \A v \in S[u] : Pos(ord, v) < Pos(ord, u)
(* an order of the SCC graph, given by one representative node per component *)
RepsOK(n, sc, reps) ==
  /\ NoDup(reps)
  /\ Rng(reps) \subseteq 1..n
  /\ \A p, q \in DOMAIN reps : sc.of[reps[p]] = sc.of[reps[q]] => p = q
  /\ {sc.of[v] : v \in Rng(reps)} = sc.all
RepPos(reps, C) == CHOOSE p \in DOMAIN reps : reps[p] \in C
SccTopoOK(n, sc, reps) ==
  /\ RepsOK(n, sc, reps)
  /\ \A e \in sc.edges : RepPos(reps, e[1]) < RepPos(reps, e[2])
SccRevTopoOK(n, sc, reps) ==
  /\ RepsOK(n, sc, reps)
  /\ \A e \in sc.edges : RepPos(reps, e[2]) < RepPos(reps, e[1])
(* weak orders of a graph with cycles *)
Contiguous(sc, ord) ==   \* the members of a component are consecutive
  \A C \in sc.all : LET ps == {Pos(ord, w) : w \in C}
                    IN \A p \in ps : \A q \in ps : \A k \in p..q : ord[k] \in C
WeakTopoOK(n, S, sc, ord) ==
  /\ IsPerm(ord, 1..n)
  /\ Contiguous(sc, ord)
  /\ \A u \in 1..n : \A v \in S[u] : sc.of[u] # sc.of[v] => Pos(ord, u) < Pos(ord, v)
WeakRevTopoOK(n, S, sc, ord) ==
  /\ IsPerm(ord, 1..n)
  /\ Contiguous(sc, ord)
  /\ \A u \in 1..n : \A v \in S[u] : sc.of[u] # sc.of[v] => Pos(ord, v) < Pos(ord, u)

-----------------------------------------------------------------------------
(* 2. DESIGN LEVEL: the definitions validated against each other on all small digraphs *)
VARIABLES g,   \* ModelSpec: the graph [n, entry, exit, S];  JudgeSpec: <<>>
          i    \* JudgeSpec: index of the record;             ModelSpec: 0

(* TLC evaluates invariants of initial states in one thread; the successors of different states are evaluated by
   different workers.  So a graph is produced in two steps: an initial state fixes n, entry, exit and the successors
   of node 1, the step completes the graph.  The facts are stated for complete graphs. *)
ModelInit ==
  /\ i = 0
  /\ \E n \in MinN..MaxN :
       \E s1 \in SUBSET (1..n), e \in (IF Entries = "all" THEN 1..n ELSE {1}), x \in 1..n :
          g = [n |-> n, entry |-> e, exit |-> x, full |-> FALSE, S |-> <<s1>>]
ModelNext ==
  /\ ~g.full
  /\ \E T \in [2..g.n -> SUBSET (1..g.n)] :
        LET S == TLCEval([u \in 1..g.n |-> IF u = 1 THEN g.S[1] ELSE T[u]])
        IN g' = [n |-> g.n, entry |-> g.entry, exit |-> g.exit, full |-> TRUE, S |-> S,
                 d |-> DomInfo(g.n, S, g.entry),              \* dominance, computed once per graph
                 P |-> DomInfo(g.n, Rev(g.n, S), g.exit)]     \* post-dominance
  /\ UNCHANGED i
ModelSpec == ModelInit /\ [][ModelNext]_<<g, i>>

(* -- dominance -- *)
DomBasics ==     \* the entry and the node itself dominate; dominance is a partial order; the dominators of a node form a chain
  LET d == g.d  R == d.reach  D == d.dom
  IN /\ \A v \in R : g.entry \in D[v] /\ v \in D[v]
     /\ D[g.entry] = {g.entry}
     /\ \A v \in R : \A a \in D[v] : D[a] \subseteq D[v]                   \* transitive
     /\ \A v \in R : \A a \in D[v] : v \in D[a] => a = v                   \* antisymmetric
     /\ \A v \in R : \A a \in D[v] : \A b \in D[v] : a \in D[b] \/ b \in D[a]

(* the data-flow formulation (Cooper/Harvey/Kennedy): greatest solution of
   Dom(e) = {e},  Dom(v) = {v} \cup INTERSECTION of Dom(p) over the reachable predecessors p *)
RECURSIVE DomIter(_, _, _)
DomIter(G, R, X) ==
  LET Step(v) == IF v = G.entry THEN {v}
                 ELSE {v} \cup {d \in R : \A p \in R : v \in G.S[p] => d \in X[p]}
      X2 == TLCEval([v \in R |-> Step(v)])
  IN IF X2 = X THEN X ELSE DomIter(G, R, X2)
DomIsDataflowSolution ==
  LET d == g.d  R == d.reach
  IN DomIter(g, R, [v \in R |-> R]) = d.dom

IdomUnique ==    \* exactly one immediate dominator for every reachable node but the entry
  LET d == g.d
  IN /\ d.idom[g.entry] = {}
     /\ \A v \in d.reach \ {g.entry} : Cardinality(d.idom[v]) = 1
IdomAsInHeader ==   \* dominance.hpp: "the unique node that strictly dominates v but does not strictly dominate any other node that strictly dominates v"
  LET d == g.d  D == d.dom
      SD(v) == D[v] \ {v}
  IN \A v \in d.reach : d.idom[v] = {u \in SD(v) : \A w \in SD(v) \ {u} : u \notin SD(w)}
DomTreeAncestors ==   \* the dominators of v are v and the dominators of idom(v)
  LET d == g.d
  IN \A v \in d.reach \ {g.entry} : \A u \in d.idom[v] : d.dom[v] = {v} \cup d.dom[u]

(* Cytron et al.: DF(x) = DF_local(x) \cup UNION of DF_up(z) over the children z of x in the dominator tree,
   DF_local(x) = {y \in succ(x) : idom(y) # x},  DF_up(z) = {y \in DF(z) : idom(y) # idom(z)} *)
RECURSIVE CytronDF(_, _, _)
CytronDF(G, d, x) ==
  LET Local == {y \in G.S[x] : d.idom[y] # {x}}
      Children == {z \in d.reach : d.idom[z] = {x}}
      Up(z) == LET Fz == CytronDF(G, d, z) IN {y \in Fz : d.idom[y] # {x}}
  IN Local \cup UNION {Up(z) : z \in Children}
FrontierIsCytron ==
  LET d == g.d
  IN \A x \in d.reach : d.df[x] = CytronDF(g, d, x)
FrontierFacts ==
  LET d == g.d
  IN /\ \A x \in d.reach : (x \in g.S[x]) => x \in d.df[x]              \* a self loop is in its own frontier
     /\ \A x \in d.reach : (x \in d.df[x]) <=> \E p \in d.reach : x \in g.S[p] /\ x \in d.dom[p]   \* loop heads
     /\ \A x \in d.reach : \A y \in d.df[x] : Cardinality({p \in d.reach : y \in g.S[p]}) >= 2 \/ y = g.entry \/ y = x
        \* frontier members are join points (or the entry / the node itself when a back edge reaches them)

(* -- post-dominance / control dependence on the reversed graph -- *)
(* Ferrante et al.: y is control dependent on x iff there is a non-empty path x = p0 -> p1 ... -> pk = y whose
   inner nodes p1..pk-1 are all (strictly) post-dominated by y, and y does not strictly post-dominate x *)
FerranteCD(G, P, x) ==
  LET PD == P.dom  \* post-dominators
  IN {y \in P.reach :
        /\ ~(y \in PD[x] /\ y # x)
        /\ LET Inner == {m \in P.reach : y \in PD[m] /\ m # y}     \* nodes strictly post-dominated by y
               Sin == [u \in 1..G.n |-> G.S[u] \cap Inner]
               From == Reach(Sin, G.S[x] \cap Inner)                 \* inner nodes reachable from x through inner nodes
           IN y \in G.S[x] \/ \E m \in From : y \in G.S[m]}
ControlDepIsFerrante ==
  LET P == g.P
      CD == ControlDeps(g.n, g.S, g.exit)
  IN \A x \in P.reach : CD[x] = FerranteCD(g, P, x)
PostDomIsPathBased ==   \* y post-dominates v iff every path from v to the exit contains y
  LET P == g.P
  IN \A v \in P.reach : \A y \in P.reach :
        (y \in P.dom[v]) <=> (y = v \/ g.exit \notin ReachAvoid(g.S, v, y))

(* -- strongly connected components -- *)
SccFacts ==
  LET Cs == Sccs(g.n, g.S)
      RS == Rev(g.n, g.S)
  IN /\ UNION Cs = 1..g.n /\ {} \notin Cs
     /\ \A C \in Cs : \A D \in Cs : C # D => C \cap D = {}                                       \* partition
     /\ \A v \in 1..g.n : SccOf(g.S, v) = Reach(g.S, {v}) \cap Reach(RS, {v})                     \* forward /\ backward
     /\ \A C \in Cs : \A u \in C : C \subseteq Reach(TLCEval([w \in 1..g.n |-> g.S[w] \cap C]), {u})      \* strongly connected inside C
     /\ \A C \in Cs : \A w \in (1..g.n) \ C : \E u \in C : ~(w \in Reach(g.S, {u}) /\ u \in Reach(g.S, {w}))   \* maximal
     /\ Sccs(g.n, RS) = Cs
     /\ SccEdges(g.n, RS) = {<<e[2], e[1]>> : e \in SccEdges(g.n, g.S)}
SccGraphAcyclic ==
  LET Cs == Sccs(g.n, g.S)  E == SccEdges(g.n, g.S)
      Sc == [C \in Cs |-> {D \in Cs : <<C, D>> \in E}]
      RECURSIVE Cl(_)
      Cl(X) == LET X2 == X \cup UNION {Sc[C] : C \in X} IN IF X2 = X THEN X ELSE Cl(X2)
  IN \A C \in Cs : C \notin Cl(Sc[C])
(* -- orders: the contracts are satisfiable (an order is constructed) and consistent with each other -- *)
MinOf(X) == CHOOSE m \in X : \A k \in X : m <= k
RefOrder(n, S, sc) ==   \* components with more reachable components first; ties by smallest member; then by node
  LET K == TLCEval([v \in 1..n |-> <<0 - Cardinality({sc.of[w] : w \in Reach(S, {v})}), MinOf(sc.of[v]), v>>])
  IN SetToSortSeq(1..n, LAMBDA a, b :
        \/ K[a][1] < K[b][1]
        \/ K[a][1] = K[b][1] /\ K[a][2] < K[b][2]
        \/ K[a][1] = K[b][1] /\ K[a][2] = K[b][2] /\ K[a][3] < K[b][3])
OrdersExist ==
  LET sc == SccInfo(g.n, g.S)
      RS == Rev(g.n, g.S)
      o == RefOrder(g.n, g.S, sc)
      r == Reverse(o)
      reps == SelectSeq(o, LAMBDA v : v = MinOf(sc.of[v]))
  IN /\ WeakTopoOK(g.n, g.S, sc, o)
     /\ WeakRevTopoOK(g.n, g.S, sc, r)
     /\ WeakTopoOK(g.n, RS, SccInfo(g.n, RS), r)
     /\ SccTopoOK(g.n, sc, reps)
     /\ SccRevTopoOK(g.n, sc, Reverse(reps))
     /\ IsDag(g.n, g.S) => (TopoOK(g.n, g.S, o) /\ RevTopoOK(g.n, g.S, r))
     /\ IsDag(g.n, g.S) <=> (\A v \in 1..g.n : sc.of[v] = {v} /\ v \notin g.S[v])
     /\ ~IsDag(g.n, g.S) => ~TopoOK(g.n, g.S, o)          \* a cyclic graph has no topological order

(* the invariants of the Model configurations: the facts, for complete graphs *)
M_DomBasics == g.full => DomBasics
M_DomIsDataflowSolution == g.full => DomIsDataflowSolution
M_IdomUnique == g.full => IdomUnique
M_IdomAsInHeader == g.full => IdomAsInHeader
M_DomTreeAncestors == g.full => DomTreeAncestors
M_FrontierIsCytron == g.full => FrontierIsCytron
M_FrontierFacts == g.full => FrontierFacts
M_ControlDepIsFerrante == g.full => ControlDepIsFerrante
M_PostDomIsPathBased == g.full => PostDomIsPathBased
M_SccFacts == g.full => SccFacts
M_SccGraphAcyclic == g.full => SccGraphAcyclic
M_OrdersExist == g.full => OrdersExist

-----------------------------------------------------------------------------
(* 3. IMPLEMENTATION LEVEL: judge of the records of harness/graph_runner *)
Recs == IF "GRAPH_RECORDS" \in DOMAIN IOEnv THEN ndJsonDeserialize(IOEnv.GRAPH_RECORDS) ELSE <<>>

(* same two-step scheme: an initial state picks a class of record indices modulo Chunks (i = -c), the step picks
   a record of the class, so that the workers share the records *)
Chunks == 64
JudgeInit == g = <<>> /\ i \in {0 - c : c \in 1..Chunks}
JudgeNext ==
  /\ i < 0
  /\ i' \in {(0 - i) + Chunks * j : j \in 0..((Len(Recs) + i) \div Chunks)}
  /\ UNCHANGED g
JudgeSpec == JudgeInit /\ [][JudgeNext]_<<g, i>>

SuccOf(r) == TLCEval([u \in 1..r.n |-> Rng(r.succ[u])])

(* The contract of a record is a list of named clauses <<name, holds>>: the record is accepted iff all hold; the
   names of the failing ones are printed (tag WHY) so that the check can tell the failure classes apart. *)

(* part "dom": dominator_tree(cfg, entry) and dominance(cfg) *)
DomClauses(r) ==
  LET S == SuccOf(r)
      d == DomInfo(r.n, S, r.entry)
  IN << <<"dom.idom",      \* 0 = null_vertex = "no immediate dominator"
          /\ Len(r.idom) = r.n
          /\ \A v \in 1..r.n : IF v \in d.reach THEN {r.idom[v]} \ {0} = d.idom[v] ELSE r.idom[v] = 0>>,
        <<"dom.df",
          /\ Len(r.df) = r.n
          /\ \A v \in d.reach : NoDup(r.df[v]) /\ Rng(r.df[v]) = d.df[v]>> >>

(* part "cdg": dominator_tree(cfg_rev, exit), post_dominance(cfg), control_dep_graph(cfg) *)
CdgClauses(r) ==
  LET S == SuccOf(r)
      P == IF r.exit = 0 THEN [reach |-> {}] ELSE DomInfo(r.n, Rev(r.n, S), r.exit)
      CD == IF r.exit = 0 THEN <<>> ELSE ControlDeps(r.n, S, r.exit)
      Shape == Len(r.ridom) = r.n /\ Len(r.pdf) = r.n /\ Len(r.cdg) = r.n
  IN << <<"cdg.inverse",   \* cdg is the inverse relation of the post-dominance frontiers, whatever the graph
          /\ Shape
          /\ \A x \in 1..r.n : NoDup(r.cdg[x]) /\ NoDup(r.pdf[x])
          /\ \A x \in 1..r.n : \A y \in 1..r.n : (y \in Rng(r.cdg[x])) <=> (x \in Rng(r.pdf[y]))>>,
        <<"cdg.noexit",    \* post_dominance: `if (!g.has_exit()) return`
          Shape /\ (r.exit = 0 => \A v \in 1..r.n : r.ridom[v] = 0 /\ r.pdf[v] = <<>> /\ r.cdg[v] = <<>>)>>,
        <<"cdg.ridom",     \* immediate post-dominators
          Shape /\ (r.exit # 0 => \A v \in 1..r.n : IF v \in P.reach THEN {r.ridom[v]} \ {0} = P.idom[v]
                                                                      ELSE r.ridom[v] = 0)>>,
        <<"cdg.pdf",       \* post-dominance frontiers
          Shape /\ (r.exit # 0 => \A v \in P.reach : Rng(r.pdf[v]) = P.df[v])>>,
        <<"cdg.deps",      \* control dependences among the nodes that reach the exit
          Shape /\ (r.exit # 0 => \A x \in P.reach : Rng(r.cdg[x]) \cap P.reach = CD[x])>> >>

(* parts "scc" (cfg) and "cg" (call graph): the structure of scc_graph *)
EdgeSet(sc, es) == {<<sc.of[e[1]], sc.of[e[2]]>> : e \in Rng(es)}
SccClauses(r) ==
  LET S == SuccOf(r)
      sc == SccInfo(r.n, S)
      InRange(es) == \A e \in Rng(es) : e[1] \in Rng(r.reprs) /\ e[2] \in Rng(r.reprs)   \* edges join representatives
  IN << <<"scc.members",   \* get_component_members(v) = the component of v, in post-order and in pre-order mode
          /\ Len(r.members) = r.n /\ Len(r.members_pre) = r.n
          /\ \A v \in 1..r.n : /\ NoDup(r.members[v]) /\ Rng(r.members[v]) = sc.of[v]
                               /\ NoDup(r.members_pre[v]) /\ Rng(r.members_pre[v]) = sc.of[v]>>,
        <<"scc.nodes",     \* nodes(): one representative per component
          r.nnodes = Cardinality(sc.all) /\ Len(r.reprs) = r.nnodes /\ RepsOK(r.n, sc, r.reprs)>>,
        <<"scc.succs",     \* succs(): exactly the crossing edges, once each (no parallel edges), in the direction of the graph
          InRange(r.sedges) /\ NoDup(r.sedges) /\ EdgeSet(sc, r.sedges) = sc.edges>>,
        <<"scc.preds",     \* preds(): the same relation seen from the targets
          InRange(r.pedges) /\ NoDup(r.pedges) /\ EdgeSet(sc, r.pedges) = sc.edges>> >>

(* (reverse) topological order of the component graph, as a sequence of representatives (parts "topo" and "cgo") *)
SccOrderClauses(r, sc) ==
  << <<"sccorder.rev",     \* rev_topo_sort(scc_graph): successors (callees) first -- the bottom-up analyses rely on it
       SccRevTopoOK(r.n, sc, r.srtopo)>>,
     <<"sccorder.fwd", SccTopoOK(r.n, sc, r.stopo)>> >>
CgoClauses(r) == SccOrderClauses(r, SccInfo(r.n, SuccOf(r)))

(* part "topo": orders of topo_order.hpp on the cfg, on the reversed cfg and on the SCC graph of the cfg;
   part "cgo": on the SCC graph of a call graph *)
TopoClauses(r) ==
  LET S == SuccOf(r)
      sc == SccInfo(r.n, S)
      RS == Rev(r.n, S)
  IN << <<"topo.dag",      \* pre: g is a DAG -- no claim for cyclic graphs
          IsDag(r.n, S) => (r.dag_err = 0 /\ TopoOK(r.n, S, r.topo) /\ RevTopoOK(r.n, S, r.rtopo))>>,
        <<"topo.weak", WeakTopoOK(r.n, S, sc, r.wtopo)>>,
        <<"topo.weakrev", WeakRevTopoOK(r.n, S, sc, r.wrtopo)>>,
        <<"topo.revgraph", \* the same on cfg_rev (not run by the adaptor without an exit block)
          IF r.exit = 0 THEN r.wtopo_rev = <<>> /\ r.wrtopo_rev = <<>>
          ELSE LET rsc == SccInfo(r.n, RS)
               IN WeakTopoOK(r.n, RS, rsc, r.wtopo_rev) /\ WeakRevTopoOK(r.n, RS, rsc, r.wrtopo_rev)>> >>
     \o SccOrderClauses(r, sc)

Clauses(r) ==
  CASE r.part = "dom" -> DomClauses(r)
    [] r.part = "cdg" -> CdgClauses(r)
    [] r.part = "scc" -> SccClauses(r)
    [] r.part = "cg" -> SccClauses(r)
    [] r.part = "cgo" -> CgoClauses(r)
    [] r.part = "topo" -> TopoClauses(r)

Failing(cs) == LET f == SelectSeq(cs, LAMBDA c : ~c[2]) IN [k \in DOMAIN f |-> f[k][1]]
Contract ==
  i > 0 => LET cs == Clauses(Recs[i])
           IN (\A k \in DOMAIN cs : cs[k][2]) \/ (PrintT(<<"WHY", i, Failing(cs)>>) /\ FALSE)

(* Not a contract of topo_order.hpp but an expectation of one of its users: killgen_fixpoint_iterator::
   run_fwd_fixpo gives the initial value to order[0] of weak_topo_sort(cfg).  That is the entry only if ...
   Reported (tag FWD-FIRST), never an invariant failure. *)
FwdFirstIsEntry(r) ==
  r.part = "topo" /\ Reach(SuccOf(r), {r.entry}) = 1..r.n => r.wtopo[1] = r.entry
UseSiteNote == i <= 0 \/ FwdFirstIsEntry(Recs[i]) \/ PrintT(<<"FWD-FIRST", Recs[i].id>>)
=============================================================================
