"""C10 Summary-based (bottom-up + top-down) analysis and its summaries are sound, also when the summary domain and the
invariant domain differ."""
from checks import c09, intersound

PID = "C10"
PAIRS = [("intervals", "intervals"), ("intervals", "split_dbm"), ("split_dbm", "intervals"), ("split_dbm", "split_dbm"),
         ("term_int", "split_dbm"), ("split_oct", "intervals"), ("intervals", "split_oct"), ("dis_intervals", "split_dbm"),
         ("num_product", "intervals"), ("ric", "split_dbm"), ("bool_int", "split_dbm"), ("split_dbm", "term_int")]


def run(tier, seed):
    return c09.run_generic(PID, tier, seed + 5000, lambda rng: [c09.bu_config(rng, td, bu) for td, bu in PAIRS], ("inv", "summ"),
                           100, 2000, c09.RULE.replace("inter_analyzer_parameters (max_call_contexts in {1,2,inf}, exact_summary_reuse, "
                                                     "analyze_recursive_functions, widening delay", "(forward domain, summary domain) pairs x (widening delay"))


def replay(path):
    return c09.replay(path)
