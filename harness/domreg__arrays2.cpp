#include "domreg.hpp"
#include "domtypes.hpp"
#include <crab/domains/intervals.hpp>
#include <crab/domains/dis_intervals.hpp>
#include <crab/domains/split_dbm.hpp>
#include <crab/domains/flat_boolean_domain.hpp>
#include <crab/domains/array_smashing.hpp>
#include <crab/domains/array_adaptive.hpp>
using namespace crab::domains;
using namespace vh;
typedef ikos::interval_domain<z_number, varname_t> intervals_t;
typedef dis_interval_domain<z_number, varname_t> dis_intervals_t;
typedef split_dbm_domain<z_number, varname_t, VH_DBM_GRAPH> split_dbm_t;
typedef flat_boolean_numerical_domain<intervals_t> bool_int_t;
typedef array_smashing<intervals_t> as_int_t;
typedef array_smashing<dis_intervals_t> as_dis_int_t;
typedef array_smashing<bool_int_t> as_bool_int_t;
typedef array_adaptive_domain<split_dbm_t> aa_sdbm_t;
typedef array_adaptive_domain<bool_int_t> aa_bool_int_t;
typedef array_adaptive_domain<dis_intervals_t> aa_dis_int_t;
VH_DOMREG(as_int, as_int_t)
VH_DOMREG(as_dis_int, as_dis_int_t)
VH_DOMREG(as_bool_int, as_bool_int_t)
VH_DOMREG(aa_sdbm, aa_sdbm_t)
VH_DOMREG(aa_bool_int, aa_bool_int_t)
VH_DOMREG(aa_dis_int, aa_dis_int_t)
