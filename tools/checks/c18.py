"""C18 Liveness and assertion-crawler facts over-approximate real dependences.
Liveness: self-composition (spec/NonInterf.tla) from the end of every block for every variable reported dead there.
Assertion crawler: self-composition (spec/Crawler.tla) from the ENTRY of every block b (assertion_crawler::get_results(b)
is the IN fact of the backward analysis) for every listed assertion a and every variable NOT listed for (b, a); plus
single-copy reachability: every assertion at which an execution from the entry of b stands must be listed for b."""
import json, os, re, collections, random
import vlib, proggen, hist
from vlib import Check, build, tlc, workdir

BOX, UNIV, MAXSTEPS = 1, 400, 24
CMAXSTEPS = 30   # crawler half: the two copies run one after the other between a branch and its re-join block

CRAWL_WHAT = {
    "DataFlow": "both copies took the same branches, yet the value of the assertion's condition differs: the variable flows "
                "into the condition (data dependence) but is not listed",
    "ControlDep": "the outcome of a branch differs between the copies and one copy executes the assertion before the re-join "
                  "block of the branch: whether the assertion is executed depends on the variable (control dependence), "
                  "but it is not listed",
    "ImplicitFlow": "the copies took different branches, re-joined, and the value of the assertion's condition differs: the "
                    "variable decides through the branch taken which definitions reach the condition, but it is not listed",
    "ReachedListed": "an execution from the entry of the block stands at an assertion that is not listed for the block",
}


def gen(ck, n):
    ps = []
    for i in range(n):
        p = proggen.program(ck.rng, i + 1, asserts=True, nints=3, nbools=0, profile="c17", nstmts=(0, 3))
        outs = sorted(ck.rng.sample([1, 2, 3], ck.rng.randint(0, 2)))
        p["fn"] = {"name": "f", "in": [], "out": outs}
        p["outs"] = outs
        # `unreachable` in the middle of blocks, after statements that use variables
        if ck.rng.random() < 0.3:
            b = ck.rng.choice(p["blocks"])
            b["stmts"].insert(ck.rng.randint(0, len(b["stmts"])), {"op": "unreach"})
        ps.append(p)
    for i in range(max(20, n // 10)):       # loops with two back edges (both insertion orders)
        p = proggen.program(ck.rng, n + i + 1, shape="twolatch", asserts=True, nints=3, nbools=0, profile="c17", nstmts=(0, 2))
        outs = sorted(ck.rng.sample([1, 2, 3], ck.rng.randint(0, 2)))
        p["fn"] = {"name": "f", "in": [], "out": outs}
        p["outs"] = outs
        ps.append(p)
    return ps


def gen_directed(seed, n, first_id):
    """crawler half only: shapes with guarded branches and loops, and an assertion at the end of the exit block (behind the
    re-join blocks of the branches) and of one more block, so that control dependences and flows through the branch taken
    are exercised often.  Own generator: the liveness half sees exactly the programs it saw before."""
    rng = random.Random(seed)
    ps = []
    for i in range(n):
        shape = rng.choice(["diamond", "diamond", "loop", "loop", "nested", "twoloops", "entryloop", "irreducible", "selfloop", "twolatch"])
        p = proggen.program(rng, first_id + i, shape=shape, asserts=True, nints=3, nbools=0, profile="c17", nstmts=(0, 2))
        nid = 1 + max([s["id"] for b in p["blocks"] for s in b["stmts"] if s["op"] == "assert"] or [0])
        for blk in [p["exit"], rng.randint(1, len(p["blocks"]))]:
            c = hist.cst(rng, [1, 2, 3], rels=("le", "le", "lt", "eq", "ne"), maxterms=1, kmax=1)
            p["blocks"][blk - 1]["stmts"].append({"op": "assert", "c": c, "id": nid})
            nid += 1
        outs = sorted(rng.sample([1, 2, 3], rng.randint(0, 2)))
        p["fn"] = {"name": "f", "in": [], "out": outs}
        p["outs"] = outs
        p["directed"] = 1
        ps.append(p)
    for i in range(max(10, n // 10)):       # nested branches with a definition in the innermost arm only
        p = proggen.nested_branch_program(rng, first_id + n + i)
        p["fn"] = {"name": "f", "in": [], "out": []}
        p["outs"] = []
        p["directed"] = 1
        ps.append(p)
    return ps


def observe(label, ps):
    """run the real analyses (harness/dataflow_runner) on the programs; returns the work dir and both kinds of records"""
    wd = workdir("c18-" + label)
    pp, op_ = os.path.join(wd, "p.ndjson"), os.path.join(wd, "o.ndjson")
    vlib.write_ndjson(pp, ps)
    rc, out = vlib.sh([os.path.join(vlib.BUILD, "bin", "dataflow_runner"), pp, op_], timeout=1800)
    if rc != 0:
        raise vlib.Broken("dataflow_runner failed: " + out[-2000:])
    recs = vlib.read_ndjson(op_)
    live = {r["id"]: r for r in recs if r.get("k") != "crawl"}
    crawl = {r["id"]: r for r in recs if r.get("k") == "crawl"}
    return wd, live, crawl


def explore(ck, label, ps, obs=None):
    """liveness half"""
    wd, res, _ = obs or observe(label, ps)
    tp = os.path.join(wd, "progs.ndjson")
    merged = []
    for p in ps:
        r = res.get(p["id"], {"err": 1})
        q = {k: p[k] for k in ("id", "nv", "entry", "exit", "blocks", "outs")}
        if "ncells" in p or "bool" in p.get("kinds", []):      # array / boolean programs: kinds of the variables (and cells per array)
            q["kinds"] = p["kinds"]
            if "ncells" in p:
                q["ncells"] = p["ncells"]
        if "err" in r:
            q.update({"err": 1, "live": [], "dead": [[] for _ in p["blocks"]]})
        else:
            # "reported dead at the end of block b" = dead_exit(b), and every variable that is not in the live set
            # liveness_analysis::get(b) ("variables that might be used in the future"), which is what DCE consumes
            allv = set(range(1, p["nv"] + 1))
            q.update({"err": 0, "live": r["live"], "dead_exit": r["dead"],
                      "dead": [sorted(set(d) | (allv - set(l))) for d, l in zip(r["dead"], r["live"])]})
        merged.append(q)
    vlib.write_ndjson(tp, merged)
    ok = [q for q in merged if q["err"] == 0]
    ck.cov["traces_validated_against_impl"] += len(ok)
    ck.cov["evaluations"] += len(ok)
    ck.cov["dead_facts"] = ck.cov.get("dead_facts", 0) + sum(len(d) for q in ok for d in q["dead"])
    ck.cov["distinct_nontrivial"] += sum(1 for q in ok if any(q["dead"]))
    r = tlc("NonInterf", "NonInterf", "c18-" + label, env={"PROGRAMS": tp, "BOX": BOX, "UNIV": UNIV, "MAXSTEPS": MAXSTEPS}, timeout=2400)
    ck.add_tlc(r, "NonInterf/" + label)
    v = None
    if r.is_violation:
        m = re.findall(r"/\\ prog = (\d+)\n/\\ dead_at_end_of = (\d+)\n/\\ variable = (\d+)\n/\\ block = (\d+)\n/\\ idx = (\d+)\n/\\ state1 = (.*?)\n/\\ state2 = (.*?)\n",
                       r.out, re.S)
        if not m:
            raise vlib.Broken("cannot parse violation:\n" + r.out[-2000:])
        prog, ob, var, blk, idx, s1, s2 = m[-1]
        v = {"prog": int(prog), "dead_at_end_of_block": int(ob), "variable": int(var), "block": int(blk), "idx": int(idx), "state1": s1,
             "state2": s2, "violated": sorted(set(r.violated)),
             "execution": [[int(a), int(b), c, d] for a, b, c, d in re.findall(r"/\\ block = (\d+)\n/\\ idx = (\d+)\n/\\ state1 = (.*?)\n/\\ state2 = (.*?)\n", r.out, re.S)]}
    return v, merged


# ---------------------------------------------------------------------------------------------- assertion crawler
def crawl_records(ps, crawl):
    merged = []
    for p in ps:
        r = crawl.get(p["id"], {"err": 1})
        q = {k: p[k] for k in ("id", "nv", "entry", "exit", "blocks")}
        if "err" in r:   # CRAB_ERROR / crash of the analysis: no claim
            q.update({"err": 1, "ctop": [1 for _ in p["blocks"]], "crawl": [[] for _ in p["blocks"]]})
        else:
            q.update({"err": 0, "ctop": r["ctop"], "crawl": r["crawl"]})
        merged.append(q)
    return merged


def parse_states(out):
    """the states of the error trace printed by TLC (ALIAS Compact; TLC prints record fields in its own order)"""
    sts = []
    for blk in re.split(r"\nState \d+: |is violated by the initial state:\n", out)[1:]:
        d = {}
        for k, val in re.findall(r"/\\ (\w+) = (.*)", blk):
            d[k] = val.strip()
        if "prog" in d:
            sts.append(d)
    return sts


def explore_crawl(ck, label, ps, obs=None, count=True):
    wd, _, crawl = obs or observe(label, ps)
    tp = os.path.join(wd, "cprogs.ndjson")
    merged = crawl_records(ps, crawl)
    vlib.write_ndjson(tp, merged)
    ok = [q for q in merged if q["err"] == 0]
    r = tlc("Crawler", "Crawler", "c18c-" + label, env={"PROGRAMS": tp, "BOX": BOX, "UNIV": UNIV, "MAXSTEPS": CMAXSTEPS}, timeout=2400)
    if count:
        c = ck.cov

        def add(k, n):
            c[k] = c.get(k, 0) + n
        ck.add_tlc(r, "Crawler/" + label)
        add("crawler_programs", len(ok))
        add("crawler_no_claim_crash", len(merged) - len(ok))
        add("crawler_block_assertion_facts", sum(len(f) for q in ok for f in q["crawl"]))
        add("crawler_listed_variables", sum(len(x["vs"]) for q in ok for f in q["crawl"] for x in f))
        add("crawler_unlisted_variable_facts_attacked", sum(q["nv"] - len(x["vs"]) for q in ok for f, t in zip(q["crawl"], q["ctop"]) if not t for x in f))
        add("crawler_top_blocks", sum(sum(q["ctop"]) for q in ok))
        add("crawler_programs_with_facts", sum(1 for q in ok if any(q["crawl"])))
        # measured by TLC (PrintT counters of spec/Crawler.tla): what the executions really did
        ra = set(tuple(x) for x in r.tuples("RA"))
        pa = set(tuple(x) for x in r.tuples("PA"))
        add("crawler_reached_block_assertion_pairs", len(ra))
        add("crawler_programs_with_reached_assertion", len(set(x[0] for x in ra)))
        add("crawler_unlisted_variable_facts_with_both_copies_at_assertion", len(set((x[0],) + tuple(x[2:]) for x in pa)))
        add("crawler_pairs_at_assertion_after_different_branches", len(set(x for x in pa if x[1] == 1)))
        ck.cov["traces_validated_against_impl"] += len(ok)
        ck.cov["evaluations"] += len(ok)
        ck.cov["distinct_nontrivial"] += len(set(x[0] for x in ra))
    v = None
    if r.is_violation:
        sts = parse_states(r.out)
        if not sts:
            raise vlib.Broken("cannot parse crawler violation:\n" + r.out[-2000:])
        last = sts[-1]
        v = {"prog": int(last["prog"]), "from_entry_of_block": int(last["from_block"]), "assertion": int(last["assertion"]),
             "variable": int(last["variable"]), "violated": sorted(set(r.violated)), "mode": last["md"].strip('"'),
             "diverged": int(last["diverged"]),
             "execution": [{k: s[k] for k in ("md", "blk1", "idx1", "state1", "blk2", "idx2", "state2", "rejoin")} for s in sts]}
    return v, merged, r


def report_crawl(ck, prog, facts, v1, kinds):
    kind = v1["violated"][0]
    kinds[kind] += 1
    last = v1["execution"][-1]
    aid = v1["assertion"]
    if kind == "ReachedListed":   # reporting only: the id of the assertion the execution stands at
        aid = prog["blocks"][int(last["blk1"]) - 1]["stmts"][int(last["idx1"]) - 1]["id"]
        v1["reached_assertion"] = aid
    ck.violation("C18: assertion crawler, program %d, facts at the ENTRY of block b%d, assertion id %d, variable %d: %s [%s]; last "
                 "states %s (copy 1 at b%s idx %s) / %s (copy 2 at b%s idx %s)" %
                 (v1["prog"], v1["from_entry_of_block"], aid, v1["variable"], CRAWL_WHAT[kind], ",".join(v1["violated"]),
                  last["state1"], last["blk1"], last["idx1"], last["state2"], last["blk2"], last["idx2"]),
                 {"half": "crawler", "program": prog, "crawler_facts_at_block_entry": facts, "violation": v1})


def crawl_half(ck, label, ps, kinds, max_viol, sample=False, individually=False):
    """runs spec/Crawler.tla on the programs; every violation is confirmed on the single program and reported"""
    if individually:   # few programs (regression cases): one TLC run each
        obs = observe(label, ps)
        for i, p in enumerate(ps):
            v, m1, _ = explore_crawl(ck, "%s_%d" % (label, i), [p], obs)
            if v:
                report_crawl(ck, p, m1[0]["crawl"], v, kinds)
        return
    remaining = ps
    for attempt in range(max_viol + 1):
        v, cmerged, _ = explore_crawl(ck, "%s_%d" % (label, attempt), remaining, None, count=(attempt == 0))
        if sample and attempt == 0:
            q = next((x for x in cmerged if any(any(len(f["vs"]) > 0 for f in fs) for fs in x["crawl"])), cmerged[0])
            ck.sample({"blocks": q["blocks"], "crawler_facts_at_block_entry": q["crawl"]}, limit=6)
        if v is None:
            return
        if attempt == max_viol:
            ck.assumptions.append("crawler half, batch %s: stopped after %d reported violations; further programs may violate" % (label, max_viol))
            return
        prog = next(p for p in remaining if p["id"] == v["prog"])
        v1, m1, _ = explore_crawl(ck, label + "_confirm", [prog], None, count=False)   # the single failing case
        if v1 is None:
            raise vlib.Broken("crawler violation on program %d not reproduced in isolation" % v["prog"])
        report_crawl(ck, prog, m1[0]["crawl"], v1, kinds)
        remaining = [p for p in remaining if p["id"] != v["prog"]]


def run(tier, seed):
    ck = Check("C18", tier, seed + 8000)
    build("dataflow_runner")
    n = 300 if tier == "quick" else 5000
    ndir = 150 if tier == "quick" else 200      # crawler-directed programs per batch
    done = k = 0
    kinds = collections.Counter()
    rd = os.path.join(vlib.ROOT, "tools", "regress")
    regress = [json.load(open(os.path.join(rd, f))) for f in sorted(os.listdir(rd)) if f.startswith("c18_")]
    while done < n and len(ck.violations) < 12:
        m = min(500, n - done)
        ps = gen(ck, m)
        for p in ps:
            p["id"] += done
        gen_ps = list(ps)
        if k == 0:   # fixed regression cases (replays of earlier findings)
            ps += regress
        obs = observe("b%d" % k, ps)
        # ---- liveness half
        remaining = ps
        for attempt in range(5):
            v, merged = explore(ck, "b%d_%d" % (k, attempt), remaining, obs if attempt == 0 else None)
            if k == 0 and attempt == 0:
                q = next((x for x in merged if any(x["dead"])), merged[0])
                ck.sample({"blocks": q["blocks"], "outs": q["outs"], "dead_at_block_end": q["dead"], "live_at_block_end": q["live"]})
            if v is None:
                break
            prog = next(p for p in remaining if p["id"] == v["prog"])
            ck.violation("C18: liveness reports variable %d dead at the end of block b%d, but changing it there changes the execution: %s at "
                         "block b%d idx %d with states %s / %s" % (v["variable"], v["dead_at_end_of_block"], v["violated"], v["block"],
                                                                  v["idx"], v["state1"], v["state2"]), {"program": prog, "violation": v})
            remaining = [p for p in remaining if p["id"] != v["prog"]]
        # ---- assertion-crawler half: the regression cases on their own (cheap, every one is reported), then the
        #      generated programs together with crawler-directed ones
        if k == 0 and regress:
            crawl_half(ck, "reg", regress, kinds, 0, individually=True)
        cps = gen_ps + gen_directed(ck.seed * 1000 + k, ndir, 700001 + k * 1000)
        crawl_half(ck, "c%d" % k, cps, kinds, 2 if tier == "quick" else 3, sample=(k == 0))
        done += m
        k += 1
    # ---- liveness of ARRAY variables (own small batch: the state space of a program has two 2-cell arrays)
    na = 60 if tier == "quick" else 600
    aps = [proggen.array_live_program(ck.rng, 800000 + i) for i in range(na)]
    remaining = aps
    for attempt in range(4):
        v, merged = explore(ck, "arr_%d" % attempt, remaining)
        if v is None:
            break
        prog = next(p for p in remaining if p["id"] == v["prog"])
        ck.violation("C18: liveness reports variable %d (%s) dead at the end of block b%d, but changing it there changes the execution: %s at "
                     "block b%d idx %d with states %s / %s" % (v["variable"], prog["vars"][v["variable"] - 1]["n"], v["dead_at_end_of_block"],
                                                              v["violated"], v["block"], v["idx"], v["state1"], v["state2"]),
                     {"program": prog, "violation": v})
        remaining = [p for p in remaining if p["id"] != v["prog"]]
    ck.cov["array_liveness_programs"] = na
    # ---- liveness with boolean statements, conversions and external calls (2 integers, 2 booleans)
    nb = 80 if tier == "quick" else 800
    bps = []
    for i in range(nb):
        p = proggen.program(ck.rng, 810000 + i, asserts=True, nints=2, nbools=2, profile="c17b", nstmts=(1, 3))
        outs = sorted(ck.rng.sample([1, 2, 3, 4], ck.rng.randint(0, 2)))
        p["fn"] = {"name": "f", "in": [], "out": outs}
        p["outs"] = outs
        bps.append(p)
    remaining = bps
    for attempt in range(4):
        v, merged = explore(ck, "bool_%d" % attempt, remaining)
        if v is None:
            break
        prog = next(p for p in remaining if p["id"] == v["prog"])
        ck.violation("C18: liveness reports variable %d (%s) dead at the end of block b%d, but changing it there changes the execution: %s at "
                     "block b%d idx %d with states %s / %s" % (v["variable"], prog["vars"][v["variable"] - 1]["n"], v["dead_at_end_of_block"],
                                                              v["violated"], v["block"], v["idx"], v["state1"], v["state2"]),
                     {"program": prog, "violation": v})
        remaining = [p for p in remaining if p["id"] != v["prog"]]
    ck.cov["boolean_liveness_programs"] = nb
    ck.cov["crawler_violation_kinds"] = dict(kinds)
    ck.cov["rule"] = ("seeded CFGs with assertions, `unreachable` statements in the middle of blocks and a function declaration with 0-2 "
                      "outputs. Liveness: for EVERY block and EVERY variable reported dead at its end, every pair of box states differing "
                      "only in that variable is run in lock-step for up to %d steps; dead_facts = such facts. Crawler (the same programs "
                      "plus crawler-directed ones with guarded branches/loops and assertions behind the joins): for EVERY block b, every "
                      "assertion a listed at the entry of b and EVERY variable not listed for (b, a), every pair of box states differing "
                      "only in that variable is run (lock-step; separate runs between a branch whose outcome differs and its re-join "
                      "block; lock-step again) for up to %d steps; plus every single execution from the entry of every block (reached "
                      "assertions must be listed). crawler_* counters: *_facts* from the exported facts, reached/both_copies/pairs_at_assertion_"
                      "after_different_branches measured by TLC. distinct_nontrivial = liveness programs with a dead fact + crawler "
                      "programs in which an execution reaches an assertion" % (MAXSTEPS, CMAXSTEPS))
    ck.assumptions += ["statement alphabet without division (constant-magnitude changes)",
                       "crawler: intra-procedural use (no call sites, empty summary table), integer variables only",
                       "crawler: termination-insensitive contract: a copy that fails an assume/assert that is not a branch guard (leading "
                       "assumes of a block entered by a goto) stops and nothing more is claimed for that pair; a branch whose outcomes "
                       "are not mutually exclusive for the pair, or whose block cannot reach the exit block: no claim",
                       "values -%d..%d at the start and for havoc" % (BOX, BOX)]
    # (3) the graph algorithms underneath: dominance / post-dominance / control dependence graph (crawler), SCC graph and
    # (weak) topological orders (kill-gen iterator): spec/GraphAlgos.tla, exhaustive for n <= 3 (<= 4 thorough) + random graphs
    from checks import graphs
    graphs.phase(ck, tier)
    return ck.finish()


def replay(path):
    case = json.load(open(path))["case"]
    ck = Check("C18", "quick", 0)
    if str(case.get("kind", "")).startswith("graphs"):
        from checks import graphs
        if graphs.replay(case):
            ck.violation("replayed: graph algorithm differs from spec/GraphAlgos.tla", case)
        return ck.finish()
    build("dataflow_runner")
    if case.get("half") == "crawler":
        v, _, _ = explore_crawl(ck, "replay", [case["program"]])
        if v:
            ck.violation("replayed: %s" % v["violated"], case)
        return ck.finish()
    v, _ = explore(ck, "replay", [case["program"]])
    if v:
        ck.violation("replayed: %s" % v["violated"], case)
    return ck.finish()
