SPECIFICATION Spec
INVARIANT Stabilises
CHECK_DEADLOCK FALSE
