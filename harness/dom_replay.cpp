// dom_replay <histories.ndjson> <out.ndjson> <domain> [<domain> ...]
// Each history is replayed on each named domain in a forked child (CRAB_ERROR
// exits the process; a hang is cut by alarm()). A history that kills the child
// is recorded as {"id":..,"dom":..,"err":"crash"|"timeout"} -- no claim.
#include "dom_replay.hpp"
#include <csignal>
#include <sys/wait.h>
#include <unistd.h>

namespace vh {
bool &stutter_flag() {
  static bool f = false;
  return f;
}
std::map<std::string, runner_t> &registry() {
  static std::map<std::string, runner_t> r;
  return r;
}
} // namespace vh

int main(int argc, char **argv) {
  if (argc == 2 && std::string(argv[1]) == "--list") {
    for (auto &kv : vh::registry()) std::cout << kv.first << "\n";
    return 0;
  }
  if (argc < 4) return 2;
  std::vector<vj::Value> hs;
  {
    std::ifstream in(argv[1]);
    std::string line;
    while (std::getline(in, line))
      if (!line.empty()) hs.push_back(vj::parse(line));
  }
  FILE *out = fopen(argv[2], "w");
  if (!out) return 2;
  long per_history_s = getenv("VH_STEP_TIMEOUT") ? atol(getenv("VH_STEP_TIMEOUT")) : 20;
  for (int a = 3; a < argc; ++a) {
    std::string dom = argv[a];
    vh::stutter_flag() = false;
    if (dom.size() > 2 && dom.substr(dom.size() - 2) == "#s") {
      dom = dom.substr(0, dom.size() - 2);
      vh::stutter_flag() = true;
    }
    auto it = vh::registry().find(dom);
    if (it == vh::registry().end()) {
      std::cerr << "unknown domain " << dom << "\n";
      return 2;
    }
    size_t next = 0;
    while (next < hs.size()) {
      int pfd[2];
      if (pipe(pfd) != 0) return 2;
      fflush(out);
      pid_t pid = fork();
      if (pid == 0) {
        close(pfd[0]);
        for (size_t k = next; k < hs.size(); ++k) {
          alarm(per_history_s);
          std::ostringstream s;
          it->second(hs[k], s);
          alarm(0);
          fputs(s.str().c_str(), out);
          fflush(out);
          char c = 1;
          if (write(pfd[1], &c, 1) != 1) _exit(5);
        }
        _exit(0);
      }
      close(pfd[1]);
      size_t done = 0;
      char buf[256];
      ssize_t n;
      while ((n = read(pfd[0], buf, sizeof buf)) > 0) done += n;
      close(pfd[0]);
      int status = 0;
      waitpid(pid, &status, 0);
      next += done;
      if (next < hs.size()) { // the child died on history `next`
        const char *why = (WIFSIGNALED(status) && WTERMSIG(status) == SIGALRM) ? "timeout" : "crash";
        fprintf(out, "{\"id\":%lld,\"dom\":\"%s\",\"err\":\"%s\",\"status\":%d}\n", hs[next]["id"].i(), (dom + (vh::stutter_flag() ? "#s" : "")).c_str(), why,
                WIFSIGNALED(status) ? 1000 + WTERMSIG(status) : WEXITSTATUS(status));
        ++next;
      }
    }
  }
  fclose(out);
  return 0;
}
