#include "domreg.hpp"
namespace vh {
std::map<std::string, factory_t> &domreg() {
  static std::map<std::string, factory_t> r;
  return r;
}
} // namespace vh
