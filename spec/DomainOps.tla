--------------------------- MODULE DomainOps ---------------------------
(* Collecting semantics of abstract-domain operation histories, and validation
   of histories replayed on the real domains (C03, C04, C05-chains, C16).

   A history operates on registers 1..nregs holding abstract values.  The
   specification carries, per register r, a WITNESS SET W[r]: concrete states
   that are certainly described by the value in r, obtained by applying the
   concrete counterpart of every operation point-wise (rule R1 of DESIGN.md).
   The contract of a sound implementation is then, after every step,
        W[r] \subseteq UpperGamma(obs(value in r))
   together with the soundness of the answers of queries.

   One TLC behaviour = one recorded history: Init picks the trace, every Step
   consumes one recorded step, computes W' from the CONCRETE semantics only
   (module CrabIR) and judges the recorded observations of every domain. *)
EXTENDS Gamma, TLC, Json, IOUtils

Traces == ndJsonDeserialize(IOEnv.DOM_TRACES)
KnownSigs == JsonDeserialize(IOEnv.KNOWN_FINDINGS)   \* sequence of open known-finding records
B == atoi(IOEnv.BOX)     \* radius of the sample of top
U == atoi(IOEnv.UNIV)    \* witnesses leaving -U..U are not followed

VARIABLES t,      \* index of the trace being validated
          l,      \* number of steps consumed
          W,      \* W[r] : witness set of register r
          bad,    \* set of <<domain index, register>> whose value is poisoned by a KNOWN finding
          verdict \* verdict[d] for the step just consumed: "ok", "skip", "known", or a failure code
vars == <<t, l, W, bad, verdict>>

Tr == Traces[t]
Regs == 1..Tr.nregs
Doms == DOMAIN Tr.obs

(* The sample of "top" for an integer variable is -B..B, or - for the LARGE-MAGNITUDE histories (tools/hist.py
   large_history) - the explicit sample tr.samp (0, +-1 and values around +-M with 2^25 <= M < 2^27: weights beyond the
   precision of a float, sums still inside TLC's 32-bit integers).  Such a trace also carries its own universe bound. *)
RangeT(tr, k) == IF k = "bool" THEN 0..1
                 ELSE IF "samp" \in DOMAIN tr THEN {tr.samp[j] : j \in DOMAIN tr.samp} ELSE (-B)..B
Range1(k) == RangeT(Tr, k)
UT == IF "univ" \in DOMAIN Tr THEN Tr.univ ELSE U
Hv(i) == Range1(Tr.kinds[i])
RECURSIVE BoxOf(_)
BoxOf(n) == IF n = 0 THEN {<<>>} ELSE {Append(s, v) : s \in BoxOf(n - 1), v \in Hv(n)}
Box == BoxOf(Tr.nv)
RECURSIVE BoxInitN(_, _)
BoxInitN(tr, n) == IF n = 0 THEN {<<>>} ELSE {Append(s, v) : s \in BoxInitN(tr, n - 1), v \in RangeT(tr, tr.kinds[n])}
BoxInit(tr) == BoxInitN(tr, Len(tr.kinds))

Forget(S, vs) ==      \* vs : set of variable indices
  {[i \in 1..Tr.nv |-> IF i \in vs THEN f[i] ELSE s[i]] : s \in S, f \in Box}
SeqSet(q) == {q[k] : k \in DOMAIN q}

(* the concrete counterpart of one history step, as a function on W *)
Target(st) ==
  CASE st.op = "stmt" -> UNION {Succ(st.s, s, UT, Hv) : s \in W[st.r]}
    [] st.op = "forget" -> Forget(W[st.r], SeqSet(st.vs))
    [] st.op = "project" -> Forget(W[st.r], (1..Tr.nv) \ SeqSet(st.vs))
    [] st.op = "rename" ->   \* to[k] := from[k]; from[k] becomes unconstrained
         Forget({[i \in 1..Tr.nv |-> IF \E k \in DOMAIN st.to : st.to[k] = i
                                       THEN s[st.from[CHOOSE k \in DOMAIN st.to : st.to[k] = i]] ELSE s[i]]
                 : s \in W[st.r]}, SeqSet(st.from))
    [] st.op = "expand" ->   \* y := a copy of x: any value x can take together with the other variables
         UNION {{[s EXCEPT ![st.y] = s2[st.x]] :
                   s2 \in {q \in W[st.r] : \A i \in 1..Tr.nv : i \in {st.x, st.y} \/ q[i] = s[i]}}
                : s \in W[st.r]}
    [] st.op \in {"join", "widen", "widenjoin"} -> W[st.a] \cup W[st.b]
    [] st.op \in {"meet", "narrow"} -> W[st.a] \cap W[st.b]
    [] st.op = "copy" -> W[st.a]
    [] st.op = "top" -> Box
    [] st.op = "bottom" -> {}
    [] OTHER -> IF st.r = 0 THEN {} ELSE W[st.r]   \* normalize, minimize, query, leq, entails, isbot, istop

Sources(st) ==
  CASE st.op \in {"join", "widen", "widenjoin", "meet", "narrow"} -> {st.a, st.b}
    [] st.op = "copy" -> {st.a}
    [] st.op \in {"top", "bottom"} -> {}
    [] st.op = "leq" -> {st.a, st.b}
    [] OTHER -> IF st.r = 0 THEN {} ELSE {st.r}

IsQuery(st) == st.op \in {"leq", "entails", "isbot", "istop"}

SameMeaning(o1, o2) == o1 = o2 \/ \A s \in Box : InGamma(s, o1) = InGamma(s, o2)

(* judgement of a domain's recorded outcome `rec` for step st, given the new witness sets Wn.
   exact = 1 when the domain's projection is a faithful image of its meaning (tools/hist.py):
   only then may two projections be compared for EQUALITY (C16 judgements). *)
Judge(st, rec, Wn, exact) ==
  IF st.op = "leq" THEN
       \* yes  =>  everything described by a is described by b
       IF rec.ans = 1 /\ ~Covers(rec.ob, Wn[st.a]) THEN "leq-yes-but-not-included"
       ELSE IF rec.ans = 0 /\ st.a = st.b THEN "leq-not-reflexive"
       \* C16 (value semantics): a value and its copy to which the SAME operations were applied since the copy
       \* (tools/hist.py twin_history marks the comparison step with "twin") describe the same thing
       ELSE IF exact = 1 /\ "twin" \in DOMAIN st /\ ~SameMeaning(rec.o, rec.ob) THEN "twin-copies-differ"
       ELSE "ok"
  ELSE IF st.op = "entails" THEN
       IF rec.ans = 1 /\ \E s \in Wn[st.r] : ~Holds(st.c, s) THEN "entails-yes-but-false" ELSE "ok"
  ELSE IF st.op = "isbot" THEN
       IF rec.ans = 1 /\ Wn[st.r] # {} THEN "is_bottom-but-states-exist" ELSE "ok"
  ELSE IF st.op = "istop" THEN
       IF rec.ans = 1 /\ ~Covers(rec.o, Box) THEN "is_top-but-projection-not-top" ELSE "ok"
  ELSE IF rec.o.bot = 1 /\ Wn[st.r] # {} THEN "bottom-but-states-exist"
  ELSE IF ~Covers(rec.o, Wn[st.r]) THEN "state-not-described"
  ELSE IF st.op = "top" /\ rec.o.top = 0 THEN "make_top-not-is_top"
  ELSE IF st.op = "bottom" /\ rec.o.bot = 0 THEN "make_bottom-not-is_bottom"
  \* C16: the step must not change what any OTHER register describes (compared on the box)
  ELSE IF exact = 1 /\ \E q \in DOMAIN rec.oth : \E s \in Box : InGamma(s, rec.oth[q].p) # InGamma(s, rec.oth[q].o)
       THEN "other-register-changed"
  \* C16: stuttering steps must not change the meaning of the register itself
  ELSE IF exact = 1 /\ st.op \in {"normalize", "minimize", "query"} /\ \E s \in Box : InGamma(s, rec.p) # InGamma(s, rec.o)
       THEN "stutter-changed-meaning"
  ELSE "ok"

(* a concrete state that is certainly reachable but not described (for the replay artefact) *)
WitnessOf(st, rec, Wn) ==
  IF st.op = "leq" THEN (IF \E s \in Wn[st.a] : ~InGamma(s, rec.ob) THEN CHOOSE s \in Wn[st.a] : ~InGamma(s, rec.ob) ELSE <<>>)
  ELSE IF st.r # 0 /\ "o" \in DOMAIN rec /\ \E s \in Wn[st.r] : ~InGamma(s, rec.o)
       THEN CHOOSE s \in Wn[st.r] : ~InGamma(s, rec.o) ELSE <<>>

----------------------------------------------------------------------------
(* Known findings (DESIGN.md 2.4): a failing step that matches the signature of
   an OPEN entry of known_findings.json poisons the register instead of
   failing the invariant.  Signatures are predicates on the step, not on ids. *)
NonUnit(e) == \E k \in DOMAIN e.t : Abs(e.t[k][1]) >= 2
SigMatches(sig, dom, st) ==
  /\ sig.engine = "dom_replay"
  /\ (sig.doms = <<>> \/ \E k \in DOMAIN sig.doms : sig.doms[k] = dom)
  /\ CASE sig.kind = "stmt-op" ->      \* statement with a given op (and sub-operation)
            st.op = "stmt" /\ st.s.op = sig.op /\ (sig.f = "" \/ st.s.f = sig.f)
       [] sig.kind = "assume-nonunit" ->  \* assume whose relation is listed and has a non-unit coefficient
            st.op = "stmt" /\ st.s.op \in {"assume", "assert"} /\ NonUnit(st.s.c.e)
              /\ \E k \in DOMAIN sig.rels : sig.rels[k] = st.s.c.r
       [] sig.kind = "assign-nonunit-or-multi" ->
            st.op = "stmt" /\ st.s.op = "assign" /\ (NonUnit(st.s.e) \/ Len(st.s.e.t) >= 2)
       [] sig.kind = "history-op" -> st.op = sig.op
       [] OTHER -> FALSE
KnownFor(dom, st) == {k \in DOMAIN KnownSigs : SigMatches(KnownSigs[k].sig, dom, st)}

----------------------------------------------------------------------------
(* C16(iii): paired replays of the SAME history -- a domain and the same domain observed in place
   ("#s": every projection is taken on the register itself, never on a copy), or a domain and its
   type-erased wrapper -- must describe the same thing after every step.  Widening may legitimately
   depend on whether its left operand was normalised by a query, so equality is not demanded from
   the first extrapolation step of a history on (DESIGN.md, C16). *)
Extrapolates(st) == st.op \in {"widen", "widenjoin", "narrow"}
NoExtrapolationUpTo(k) == \A q \in 1..k : ~Extrapolates(Tr.steps[q])
PairJudge(st, k) ==
  IF IsQuery(st) \/ ~NoExtrapolationUpTo(k) THEN {}
  ELSE {p \in {q \in DOMAIN Tr.pairs : <<Tr.pairs[q][1], st.r>> \notin bad /\ <<Tr.pairs[q][2], st.r>> \notin bad
                                         /\ \A z \in Sources(st) : <<Tr.pairs[q][1], z>> \notin bad /\ <<Tr.pairs[q][2], z>> \notin bad} :
          LET a == Tr.obs[Tr.pairs[p][1]].steps[k]  b == Tr.obs[Tr.pairs[p][2]].steps[k]
          IN ~SameMeaning(a.o, b.o)}

Init == /\ t \in DOMAIN Traces
        /\ l = 0
        /\ W = [r \in 1..Traces[t].nregs |-> BoxInit(Traces[t])]
        /\ bad = {}
        /\ verdict = [d \in DOMAIN Traces[t].obs |-> "ok"]

Step ==
  /\ l < Len(Tr.steps)
  /\ LET st == Tr.steps[l + 1]
         Wn == IF IsQuery(st) THEN W ELSE [W EXCEPT ![st.r] = Target(st)]
         tainted(d) == \E q \in Sources(st) : <<d, q>> \in bad
         pj == PairJudge(st, l + 1)     \* evaluated once per step (C16 paired replays)
         v == [d \in Doms |->
                 IF Tr.obs[d].err # 0 THEN "skip"
                 ELSE IF tainted(d) THEN "skip"
                 ELSE LET j0 == Judge(st, Tr.obs[d].steps[l + 1], Wn, Tr.obs[d].exact)
                          j == IF j0 = "ok" /\ \E p \in pj : Tr.pairs[p][2] = d
                                 THEN "differs-from-paired-replay" ELSE j0
                      IN IF j = "ok" THEN "ok"
                         ELSE IF KnownFor(Tr.obs[d].dom, st) # {}
                           THEN IF PrintT(<<"KNOWN", KnownSigs[CHOOSE k \in KnownFor(Tr.obs[d].dom, st) : TRUE].id,
                                            Tr.id, l + 1, Tr.obs[d].dom, j>>) THEN "known" ELSE "known"
                           ELSE IF PrintT(<<"FAIL", Tr.id, l + 1, Tr.obs[d].dom, j, WitnessOf(st, Tr.obs[d].steps[l + 1], Wn)>>) THEN j ELSE j]
     IN /\ W' = Wn
        /\ verdict' = v
        /\ bad' = IF IsQuery(st) THEN bad
                  ELSE (bad \ {<<d, st.r>> : d \in Doms})
                       \cup {<<d, st.r>> : d \in {e \in Doms : tainted(e) \/ verdict'[e] \notin {"ok", "skip"}}}
  /\ l' = l + 1
  /\ UNCHANGED t

Spec == Init /\ [][Step]_vars

(* error traces print this instead of the (large) witness sets *)
Compact == [trace |-> Tr.id, step |-> l, verdict |-> [d \in Doms |-> <<Tr.obs[d].dom, verdict[d]>>],
            op |-> IF l = 0 THEN "init" ELSE Tr.steps[l]]

(* THE contract: no step of any domain is judged unsound unless it is a listed known finding *)
Sound == \A d \in Doms : verdict[d] \in {"ok", "skip", "known"}
============================================================================
