#include "domreg.hpp"
#include "domtypes.hpp"
#include <crab/domains/intervals.hpp>
#include <crab/domains/sparse_dbm.hpp>
#include <crab/domains/flat_boolean_domain.hpp>
using namespace crab::domains;
using namespace vh;
typedef ikos::interval_domain<z_number, varname_t> intervals_t;
typedef sparse_dbm_domain<z_number, varname_t, VH_DBM_GRAPH> sparse_dbm_t;
typedef flat_boolean_numerical_domain<intervals_t> bool_int_t;
typedef flat_boolean_numerical_domain<sparse_dbm_t> bool_dbm_t;
VH_DOMREG(bool_int, bool_int_t)
VH_DOMREG(bool_dbm, bool_dbm_t)
