---- MODULE RegionDebugTmp ----
EXTENDS RegionSound
Stuck == ~AtExit /\ Succ(Stmts[i], s, U, Hv) = {}
NoStuck == Stuck => PrintT(<<"STUCK", P.id, b, i, Stmts[i].op>>)
====
