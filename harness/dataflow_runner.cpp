// dataflow_runner <programs.ndjson> <out.ndjson>      (C18)
// Pass 1 (liveness): runs the real live_and_dead_analysis on every program and exports, per block, the variables live
// at the end of the block (liveness_analysis::get) and the variables reported dead at the end of the block (dead_exit).
//   {"id":k,"live":[[vars]...],"dead":[[vars]...]}
// Pass 2 (assertion crawler): runs the real crab::analyzer::assertion_crawler (control dependencies enabled, the
// default) on every program and exports, per block b, what assertion_crawler::get_results(b) contains:
//   {"id":k,"k":"crawl","ctop":[0/1 per block],"crawl":[[{"a":assert id,"vs":[sorted variable indices]},...] per block]}
// get_results(b) is the fact at the ENTRY of b: exec() copies killgen_fixpoint_iterator::m_in_map, and for a backward
// analysis (assertion_crawler_operations::is_forward() == false) run_bwd_fixpo computes m_in_map[b] = analyze(b, OUT)
// where analyze visits the statements of b in reverse, OUT = merge of m_in_map of the successors
// (killgen_fixpoint_iterator.hpp: run_bwd_fixpo; assertion_crawler.hpp: exec(), get_results()).
// An assertion is identified by the debug_info id that progbuild.hpp attaches to it.
// The two passes run in separate child processes so that a CRAB_ERROR (exit) in one does not lose the other.
#include "progbuild.hpp"
#include <crab/analysis/dataflow/assertion_crawler.hpp>
#include <crab/analysis/dataflow/liveness.hpp>
#include <algorithm>
#include <csignal>
#include <sys/wait.h>
#include <unistd.h>

using namespace vh;
typedef crab::analyzer::live_and_dead_analysis<z_cfg_ref_t> live_t;
typedef crab::analyzer::assertion_crawler<z_cfg_ref_t> crawler_t;

static void put_set(std::ostream &o, const live_t::set_t &s, const VarTab &vt) {
  o << "[";
  bool first = true;
  if (!s.is_bottom() && !s.is_top())
    for (auto it = s.begin(); it != s.end(); ++it) {
      o << (first ? "" : ",") << vt.find(*it);
      first = false;
    }
  o << "]";
}

static void run_live(const vj::Value &p, std::ostream &o) {
  variable_factory_t vfac;
  VarTab vt(vfac);
  vt.declare(p["vars"]);
  std::unique_ptr<z_cfg_t> cfg = build_cfg(p, vt);
  z_cfg_ref_t ref(*cfg);
  live_t live(ref);
  live.exec();
  size_t nb = p["blocks"].size();
  o << "{\"id\":" << p["id"].i() << ",\"live\":[";
  for (size_t b = 1; b <= nb; ++b) {
    o << (b > 1 ? "," : "");
    put_set(o, live.get(blabel(b)), vt);
  }
  o << "],\"dead\":[";
  for (size_t b = 1; b <= nb; ++b) {
    o << (b > 1 ? "," : "");
    put_set(o, live.dead_exit(blabel(b)), vt);
  }
  o << "]}\n";
}

static void run_crawl(const vj::Value &p, std::ostream &o) {
  variable_factory_t vfac;
  VarTab vt(vfac);
  vt.declare(p["vars"]);
  std::unique_ptr<z_cfg_t> cfg = build_cfg(p, vt);
  z_cfg_ref_t ref(*cfg);
  crawler_t::assert_map_t assert_map;
  crawler_t::summary_map_t summaries;
  crawler_t crawler(ref, assert_map, summaries); // only_data = false: data and control dependencies
  crawler.exec();
  size_t nb = p["blocks"].size();
  std::ostringstream tops, facts;
  for (size_t b = 1; b <= nb; ++b) {
    crawler_t::assert_map_domain_t r = crawler.get_results(blabel(b));
    tops << (b > 1 ? "," : "") << (r.is_top() ? 1 : 0);
    facts << (b > 1 ? "," : "") << "[";
    if (!r.is_top() && !r.is_bottom()) {
      std::vector<std::pair<long, std::vector<int>>> fs;
      for (auto it = r.begin(); it != r.end(); ++it) {
        auto key = it->first;   // assert_wrapper
        auto vars = it->second; // discrete_domain<variable>
        std::vector<int> vs;
        if (vars.is_top()) {
          for (size_t i = 1; i <= vt.n(); ++i) vs.push_back((int)i);
        } else if (!vars.is_bottom()) {
          for (auto vi = vars.begin(); vi != vars.end(); ++vi) vs.push_back(vt.find(*vi));
        }
        std::sort(vs.begin(), vs.end());
        fs.push_back(std::make_pair((long)key.get().get_debug_info().get_id(), vs));
      }
      std::sort(fs.begin(), fs.end());
      for (size_t k = 0; k < fs.size(); ++k) {
        facts << (k ? "," : "") << "{\"a\":" << fs[k].first << ",\"vs\":[";
        for (size_t j = 0; j < fs[k].second.size(); ++j) facts << (j ? "," : "") << fs[k].second[j];
        facts << "]}";
      }
    }
    facts << "]";
  }
  o << "{\"id\":" << p["id"].i() << ",\"k\":\"crawl\",\"ctop\":[" << tops.str() << "],\"crawl\":[" << facts.str() << "]}\n";
}

static void run_pass(const std::vector<vj::Value> &ps, FILE *out, int pass) {
  size_t next = 0;
  while (next < ps.size()) {
    int pfd[2];
    if (pipe(pfd) != 0) exit(2);
    fflush(out);
    pid_t pid = fork();
    if (pid == 0) {
      close(pfd[0]);
      for (size_t j = next; j < ps.size(); ++j) {
        alarm(20);
        std::ostringstream s;
        if (pass == 1) run_live(ps[j], s);
        else run_crawl(ps[j], s);
        alarm(0);
        fputs(s.str().c_str(), out);
        fflush(out);
        char c = 1;
        if (write(pfd[1], &c, 1) != 1) _exit(5);
      }
      _exit(0);
    }
    close(pfd[1]);
    size_t done = 0;
    char buf[256];
    ssize_t n;
    while ((n = read(pfd[0], buf, sizeof buf)) > 0) done += n;
    close(pfd[0]);
    int status = 0;
    waitpid(pid, &status, 0);
    next += done;
    if (next < ps.size()) {
      if (pass == 1) fprintf(out, "{\"id\":%lld,\"err\":\"crash\"}\n", ps[next]["id"].i());
      else fprintf(out, "{\"id\":%lld,\"k\":\"crawl\",\"err\":\"crash\"}\n", ps[next]["id"].i());
      ++next;
    }
  }
}

int main(int argc, char **argv) {
  if (argc < 3) return 2;
  std::vector<vj::Value> ps;
  {
    std::ifstream in(argv[1]);
    std::string line;
    while (std::getline(in, line))
      if (!line.empty()) ps.push_back(vj::parse(line));
  }
  FILE *out = fopen(argv[2], "w");
  if (!out) return 2;
  run_pass(ps, out, 1);
  run_pass(ps, out, 2);
  fclose(out);
  return 0;
}
