"""C11 Backward analysis returns necessary preconditions (error mode and good-final-states mode, with and without
supplied forward invariants); spec/Backward.tla explores executions from every (block, state) origin."""
import json, os, re, collections
import vlib, proggen, hist
from vlib import Check, build, tlc, workdir

DOMS = ["intervals", "split_dbm", "sparse_dbm", "split_oct", "bool_int", "dis_intervals", "term_int", "ric", "as_sdbm", "aa_int",
        "num_product", "constant", "sign", "pow_int"]


def gen(ck, n):
    ps = []
    for i in range(n):
        p = proggen.program(ck.rng, i + 1, asserts=True, nints=3, nbools=0, profile=ck.rng.choice(["full", "linear", "bwd", "bwd"]))
        ints = [1, 2, 3]
        fwdinv = []
        if ck.rng.random() < 0.4:
            for b in ck.rng.sample(range(1, len(p["blocks"]) + 1), ck.rng.randint(1, 2)):
                fwdinv.append([b, [hist.cst(ck.rng, ints, rels=("le", "le", "eq"), maxterms=1)]])
        p["fwdinv"] = fwdinv
        final = [hist.cst(ck.rng, ints, rels=("le", "le", "eq", "ne", "lt")) for _ in range(ck.rng.randint(0, 2))]
        runs = []
        for d in DOMS:
            mode = ck.rng.choice(["err", "err", "good"])
            r = {"dom": d, "mode": mode, "wd": ck.rng.choice([0, 1, 2]), "desc": ck.rng.choice([0, 1, 2]), "th": 0}
            if mode == "good":
                r["final"] = final
            if fwdinv and ck.rng.random() < 0.7:
                r["fwdinv"] = {str(b): cs for b, cs in fwdinv}
            runs.append(r)
        p["runs"] = runs
        ps.append(p)
    for i in range(max(20, n // 8)):     # directed: one defining statement of every kind, assertion in a dominated block
        p = proggen.backward_pattern_program(ck.rng, n + i + 1)
        p["fwdinv"] = []
        p["runs"] = [{"dom": d, "mode": "err", "wd": 1, "desc": 1, "th": 0} for d in DOMS]
        ps.append(p)
    return ps


def merge(programs, recs):
    by = {}
    for r in recs:
        by.setdefault(r["id"], {})[r["run"]] = r
    out = []
    for p in programs:
        q = {k: v for k, v in p.items() if k != "runs"}
        runs = []
        for k, cfg in enumerate(p["runs"]):
            r = by.get(p["id"], {}).get(k + 1)
            base = {"dom": cfg["dom"], "mode": cfg["mode"], "final": cfg.get("final", [])}
            if r is None or "err" in r:
                base.update({"err": 1, "precond": []})
            else:
                base.update({"err": 0, "precond": r["precond"], "cfg": cfg})
            runs.append(base)
        q["runs"] = runs
        out.append(q)
    return out


def parse(r):
    m = re.findall(r"/\\ prog = (\d+)\n/\\ origin_block = (\d+)\n/\\ origin_state = (<<.*?>>)\n/\\ block = (\d+)\n/\\ idx = (\d+)\n/\\ state = (<<.*?>>)\n"
                   r"/\\ bad_precondition = (\{.*?\})", r.out, re.S)
    if not m:
        return None
    prog, ob, os_, blk, idx, st, bad = m[-1]
    trace = [[int(a), int(b), c] for a, b, c in re.findall(r"/\\ block = (\d+)\n/\\ idx = (\d+)\n/\\ state = (<<.*?>>)", r.out, re.S)]
    return {"prog": int(prog), "origin_block": int(ob), "origin_state": os_, "block": int(blk), "idx": int(idx), "state": st,
            "bad": [(int(a), b) for a, b in re.findall(r'<<(\d+), "([^"]+)">>', bad)], "execution": trace}


def explore(ck, label, ps, box=2, univ=8, max_iter=8):
    wd = workdir("c11-" + label)
    pp, op_, tp, xp = [os.path.join(wd, x) for x in ("p.ndjson", "o.ndjson", "progs.ndjson", "excl.json")]
    vlib.write_ndjson(pp, ps)
    rc, out = vlib.sh([os.path.join(vlib.BUILD, "bin", "bwd_runner"), pp, op_], timeout=3000)
    if rc != 0:
        raise vlib.Broken("bwd_runner failed: " + out[-2000:])
    recs = vlib.read_ndjson(op_)
    merged = merge(ps, recs)
    vlib.write_ndjson(tp, merged)
    ok = [x for x in recs if "err" not in x]
    ck.cov["traces_validated_against_impl"] += len(ok)
    ck.cov["evaluations"] += len(ok)
    ck.cov.setdefault("harness_no_claim", {})
    for (d, e), n in collections.Counter((x["dom"], x["err"]) for x in recs if "err" in x).items():
        ck.cov["harness_no_claim"]["%s:%s" % (d, e)] = ck.cov["harness_no_claim"].get("%s:%s" % (d, e), 0) + n
    ck.cov["distinct_nontrivial"] += sum(1 for x in ok if any(o["bot"] == 0 and o["top"] == 0 for o in x["precond"]))
    ck.cov["bottom_preconditions_at_entry"] = ck.cov.get("bottom_preconditions_at_entry", 0) + sum(
        1 for p in merged for r in p["runs"] if r["err"] == 0 and r["precond"][p["entry"] - 1]["bot"] == 1)
    excluded, viols = [], []
    for it in range(max_iter):
        json.dump(excluded, open(xp, "w"))
        kp = os.path.join(wd, "known.json")
        vlib.write_known_for_spec(kp)
        r = tlc("Backward", "Backward", "c11-" + label, env={"PROGRAMS": tp, "EXCLUDED": xp, "BOX": box, "UNIV": univ, "KNOWN_FINDINGS": kp},
                timeout=2400)
        if it == 0:
            ck.add_tlc(r, "Backward/" + label)
            for kf in {tuple(x) for x in r.tuples("KNOWN")}:
                ck.known("KF-backward-ignores-blocks-that-cannot-reach-exit", {"program": kf[1], "run": kf[2], "domain": kf[3]})
        if not r.is_violation:
            break
        v = parse(r)
        if v is None:
            raise vlib.Broken("cannot parse TLC violation:\n" + r.out[-3000:])
        v["program"] = next(p for p in ps if p["id"] == v["prog"])
        viols.append(v)
        for run, dom in v["bad"]:
            excluded.append([v["prog"], run])
    return viols


def run(tier, seed):
    ck = Check("C11", tier, seed + 6000)
    build("bwd_runner")
    n = 60 if tier == "quick" else 1200
    done = k = 0
    while done < n:
        m = min(100, n - done)
        ps = gen(ck, m)
        for p in ps:
            p["id"] += done
        viols = explore(ck, "b%d" % k, ps)
        if k == 0:
            ck.sample({"program": {x: ps[0][x] for x in ("entry", "exit", "blocks", "fwdinv")}, "run_configs": ps[0]["runs"][:3]})
        for v in viols:
            for run_, dom in v["bad"][:2]:
                cfg = v["program"]["runs"][run_ - 1]
                prog = dict(v["program"])
                prog["runs"] = [cfg]
                ck.violation("C11: %s precondition of domain %s (config %s) at block b%d does not contain state %s from which the execution "
                             "%s %s" % (cfg["mode"], dom, json.dumps(cfg), v["origin_block"], v["origin_state"], v["execution"][-10:],
                                        "violates an assertion" if cfg["mode"] == "err" else "reaches the exit in a good final state"),
                             {"program": prog, "violation": {x: v[x] for x in v if x != "program"}})
        done += m
        k += 1
    ck.cov["rule"] = ("seeded CrabIR programs with assertions (3 integer variables, all shapes of tools/proggen) x 14 domains x mode (error / "
                      "good final states with random final constraints) x optional supplied forward invariants (explicit constraints on 1-2 "
                      "blocks); TLC starts an execution at EVERY block entry with EVERY box valuation. non-trivial = run with a "
                      "precondition that is neither top nor bottom")
    ck.assumptions += ["origins range over -2..2 per variable; values leaving -8..8 are not followed",
                       "supplied forward invariants are explicit constraints; only executions satisfying them at block entries are followed"]
    return ck.finish()


def replay(path):
    case = json.load(open(path))["case"]
    ck = Check("C11", "quick", 0)
    build("bwd_runner")
    for v in explore(ck, "replay", [case["program"]]):
        ck.violation("replayed", case)
    return ck.finish()
