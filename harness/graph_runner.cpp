// Adaptor of the graph-algorithm engine (spec/GraphAlgos.tla): builds digraphs as real crab CFGs (empty basic
// blocks, block k is labelled "b<k>") or call graphs, runs the REAL code of include/crab/analysis/graphs/
//   dominance.hpp  dominator_tree, dominance (frontiers), post_dominance (frontiers of cfg_rev)
//   cdg.hpp        control_dep_graph
//   sccg.hpp       scc_graph (+ sccg_bgl.hpp)
//   topo_order.hpp rev_topo_sort, topo_sort, weak_rev_topo_sort, weak_topo_sort
// and writes what it observed as flat JSON, one record per (graph, part). There is no oracle in here: what the
// answers have to be is written in TLA+ and evaluated by TLC.
//
// usage: graph_runner <graphs.ndjson> <out.ndjson> [parts]        parts: comma separated subset of dom,cdg,scc,topo,cg,cgo
//   graphs.ndjson: one {"id":k,"n":N,"entry":e,"exit":x|0,"succ":[[..],..]} per line, nodes 1..N
// Every record carries the graph as the real graph interface reports it ("succ": out_edges of the cfg / call graph).
// The units (graph, part) run in a forked child; a unit that kills the child (CRAB_ERROR exits the process, abort,
// uncaught exception, timeout) is recorded as {"id","part","err"} = no claim, and the run goes on.
#include "crabir.hpp"

#include <crab/analysis/graphs/cdg.hpp>
#include <crab/analysis/graphs/dominance.hpp>
#include <crab/analysis/graphs/sccg.hpp>
#include <crab/analysis/graphs/sccg_bgl.hpp>
#include <crab/analysis/graphs/topo_order.hpp>
#include <crab/cfg/cfg_bgl.hpp>
#include <crab/cg/cg_bgl.hpp>

#include <csignal>
#include <sys/wait.h>
#include <unistd.h>

namespace crab {
template <> class basic_block_traits<cfg::basic_block_rev<cfg_impl::z_basic_block_t>> {
public:
  static std::string to_string(const std::string &bbl) { return bbl; }
};
} // namespace crab

using namespace crab::cfg_impl;
using namespace crab::cg_impl;
namespace ga = crab::analyzer::graph_algo;

typedef std::vector<std::vector<int>> succ_t;
typedef std::unordered_map<std::string, std::vector<std::string>> vecmap_t;
typedef std::unordered_map<std::string, std::string> idom_t;

static std::string lab(int i) { return "b" + std::to_string(i); }
static int num(const std::string &s) { return s.empty() ? 0 : std::atoi(s.c_str() + 1); } // "" = null_vertex = 0

struct Graph {
  long long id;
  int n, entry, exit;
  succ_t succ; // 1-based, as requested
};

// ---- JSON output ---------------------------------------------------------
static void jlist(std::ostream &o, const std::vector<int> &v) {
  o << "[";
  for (size_t i = 0; i < v.size(); ++i) o << (i ? "," : "") << v[i];
  o << "]";
}
static void jlists(std::ostream &o, const std::vector<std::vector<int>> &v) {
  o << "[";
  for (size_t i = 0; i < v.size(); ++i) {
    o << (i ? "," : "");
    jlist(o, v[i]);
  }
  o << "]";
}
static std::vector<int> nums(const std::vector<std::string> &v) {
  std::vector<int> r;
  for (auto &s : v) r.push_back(num(s));
  return r;
}
// a node -> vector map as a list indexed by node (absent key = empty list)
static std::vector<std::vector<int>> per_node(int n, const vecmap_t &m) {
  std::vector<std::vector<int>> r;
  for (int k = 1; k <= n; ++k) {
    auto it = m.find(lab(k));
    r.push_back(it == m.end() ? std::vector<int>() : nums(it->second));
  }
  return r;
}
static std::vector<int> per_node(int n, const idom_t &m) {
  std::vector<int> r;
  for (int k = 1; k <= n; ++k) {
    auto it = m.find(lab(k));
    r.push_back(it == m.end() ? 0 : num(it->second));
  }
  return r;
}

static std::unique_ptr<z_cfg_t> make_cfg(const Graph &g) {
  std::unique_ptr<z_cfg_t> cfg(g.exit ? new z_cfg_t(lab(g.entry), lab(g.exit)) : new z_cfg_t(lab(g.entry)));
  for (int k = 1; k <= g.n; ++k) cfg->insert(lab(k));
  for (int k = 1; k <= g.n; ++k)
    for (int j : g.succ[k]) cfg->get_node(lab(k)) >> cfg->get_node(lab(j));
  return cfg;
}

// the graph as the algorithms see it: out_edges through the BGL interface
template <typename G, typename NodeOf, typename IdOf>
static void head(std::ostream &o, const Graph &g, const char *part, G &gr, NodeOf node_of, IdOf id_of) {
  o << "{\"id\":" << g.id << ",\"part\":\"" << part << "\",\"n\":" << g.n << ",\"entry\":" << g.entry
    << ",\"exit\":" << g.exit << ",\"succ\":";
  std::vector<std::vector<int>> s;
  for (int k = 1; k <= g.n; ++k) {
    std::vector<int> out;
    auto es = out_edges(node_of(k), gr);
    for (auto it = es.first; it != es.second; ++it) out.push_back(id_of(target(*it, gr)));
    s.push_back(out);
  }
  jlists(o, s);
}

static void cfg_head(std::ostream &o, const Graph &g, const char *part, z_cfg_ref_t &ref) {
  head(o, g, part, ref, [](int k) { return lab(k); }, [](const std::string &l) { return num(l); });
}

// ---- dom: dominator tree and dominance frontiers of the cfg -------------------------------------------------
static void part_dom(std::ostream &o, const Graph &g) {
  auto cfg = make_cfg(g);
  z_cfg_ref_t ref(*cfg);
  idom_t idom;
  ga::dominator_tree(ref, ref.entry(), idom);
  vecmap_t df;
  ga::dominance(ref, df);
  cfg_head(o, g, "dom", ref);
  o << ",\"idom\":";
  jlist(o, per_node(g.n, idom));
  o << ",\"df\":";
  jlists(o, per_node(g.n, df));
  o << "}\n";
}

// ---- cdg: post-dominator tree (dominator tree of cfg_rev from the exit, as dominance.hpp does internally),
//      post-dominance frontiers, control-dependence graph ------------------------------------------------------
static void part_cdg(std::ostream &o, const Graph &g) {
  auto cfg = make_cfg(g);
  z_cfg_ref_t ref(*cfg);
  idom_t ridom;
  if (ref.has_exit()) {
    z_cfg_rev_t rev(ref);
    ga::dominator_tree(rev, rev.entry(), ridom);
  }
  vecmap_t pdf, cdg;
  ga::post_dominance(ref, pdf);
  ga::control_dep_graph(ref, cdg);
  cfg_head(o, g, "cdg", ref);
  o << ",\"ridom\":";
  jlist(o, per_node(g.n, ridom));
  o << ",\"pdf\":";
  jlists(o, per_node(g.n, pdf));
  o << ",\"cdg\":";
  jlists(o, per_node(g.n, cdg));
  o << "}\n";
}

// ---- scc: component members per node, nodes (representatives) and edges of the SCC graph -------------------
template <typename G, typename NodeOf, typename IdOf>
static void scc_fields(std::ostream &o, int n, G gr, NodeOf node_of, IdOf id_of) {
  ga::scc_graph<G> post(gr, false), pre(gr, true);
  std::vector<std::vector<int>> mem, mem_pre, se, pe;
  for (int k = 1; k <= n; ++k) {
    std::vector<int> a, b;
    for (auto &m : post.get_component_members(node_of(k))) a.push_back(id_of(m));
    for (auto &m : pre.get_component_members(node_of(k))) b.push_back(id_of(m));
    mem.push_back(a);
    mem_pre.push_back(b);
  }
  std::vector<int> reprs;
  for (auto v : boost::make_iterator_range(post.nodes())) reprs.push_back(id_of(v));
  for (auto v : boost::make_iterator_range(post.nodes())) {
    for (auto e : boost::make_iterator_range(post.succs(v))) se.push_back({id_of(e.Src()), id_of(e.Dest())});
    for (auto e : boost::make_iterator_range(post.preds(v))) pe.push_back({id_of(e.Src()), id_of(e.Dest())});
  }
  o << ",\"members\":";
  jlists(o, mem);
  o << ",\"members_pre\":";
  jlists(o, mem_pre);
  o << ",\"nnodes\":" << post.num_nodes() << ",\"reprs\":";
  jlist(o, reprs);
  o << ",\"sedges\":";
  jlists(o, se);
  o << ",\"pedges\":";
  jlists(o, pe);
}

// the (reverse) topological order of the component graph: rev_topo_sort(scc_graph) is the order in which the
// bottom-up inter-procedural analyses walk the call graph (callees first). Kept apart from scc_fields so that an
// exception of boost::topological_sort does not take the structure of the component graph with it.
template <typename G, typename IdOf> static void scc_order_fields(std::ostream &o, G gr, IdOf id_of) {
  ga::scc_graph<G> scc(gr, false);
  std::vector<typename G::node_t> rt, t;
  ga::rev_topo_sort(scc, rt);
  ga::topo_sort(scc, t);
  std::vector<int> a, b;
  for (auto &v : rt) a.push_back(id_of(v));
  for (auto &v : t) b.push_back(id_of(v));
  o << ",\"srtopo\":";
  jlist(o, a);
  o << ",\"stopo\":";
  jlist(o, b);
}

static void part_scc(std::ostream &o, const Graph &g) {
  auto cfg = make_cfg(g);
  z_cfg_ref_t ref(*cfg);
  cfg_head(o, g, "scc", ref);
  scc_fields(o, g.n, ref, [](int k) { return lab(k); }, [](const std::string &l) { return num(l); });
  o << "}\n";
}

// ---- topo: (reverse) topological order of the cfg itself when it is a DAG, weak (reverse) topological orders
//      of the cfg (kill-gen iterator) and of the reversed cfg (tests/cfg/cfg.cc) -----------------------------
static void part_topo(std::ostream &o, const Graph &g) {
  auto cfg = make_cfg(g);
  z_cfg_ref_t ref(*cfg);
  std::vector<std::string> t, rt;
  int dag_err = 0;
  try {
    ga::topo_sort(ref, t);
    ga::rev_topo_sort(ref, rt);
  } catch (const boost::not_a_dag &) { // boost::topological_sort's answer to a cyclic graph
    dag_err = 1;
    t.clear();
    rt.clear();
  }
  std::vector<std::string> wt = ga::weak_topo_sort(ref), wrt = ga::weak_rev_topo_sort(ref), wt_rev, wrt_rev;
  if (ref.has_exit()) {
    z_cfg_rev_t rev(ref);
    wt_rev = ga::weak_topo_sort(rev);
    wrt_rev = ga::weak_rev_topo_sort(rev);
  }
  cfg_head(o, g, "topo", ref);
  o << ",\"dag_err\":" << dag_err << ",\"topo\":";
  jlist(o, nums(t));
  o << ",\"rtopo\":";
  jlist(o, nums(rt));
  o << ",\"wtopo\":";
  jlist(o, nums(wt));
  o << ",\"wrtopo\":";
  jlist(o, nums(wrt));
  o << ",\"wtopo_rev\":";
  jlist(o, nums(wt_rev));
  o << ",\"wrtopo_rev\":";
  jlist(o, nums(wrt_rev));
  scc_order_fields(o, ref, [](const std::string &l) { return num(l); });
  o << "}\n";
}

// ---- cg / cgo: the same digraph as a call graph (function k calls the functions succ[k]); SCC graph (cg) and the
//      reverse topological order used by the bottom-up analyses (cgo) ------------------------------------------------
static void part_cg(std::ostream &o, const Graph &g, bool order) {
  variable_factory_t vfac;
  std::vector<std::unique_ptr<z_cfg_t>> cfgs;
  std::vector<z_cfg_ref_t> refs;
  for (int i = 1; i <= g.n; ++i) {
    z_var x(vfac["x" + std::to_string(i)], crab::INT_TYPE, 32);
    z_var y(vfac["y" + std::to_string(i)], crab::INT_TYPE, 32);
    crab::cfg::function_decl<ikos::z_number, varname_t> decl(lab(i), {x}, {y});
    std::unique_ptr<z_cfg_t> c(new z_cfg_t("entry", "exit", decl));
    z_basic_block_t &en = c->insert("entry");
    z_basic_block_t &ex = c->insert("exit");
    en >> ex;
    int k = 0;
    for (int j : g.succ[i]) {
      z_var r(vfac["r" + std::to_string(i) + "_" + std::to_string(k++)], crab::INT_TYPE, 32);
      en.callsite(lab(j), {r}, {x});
    }
    ex.assign(y, x);
    cfgs.push_back(std::move(c));
  }
  for (auto &c : cfgs) refs.push_back(*c);
  z_cg_t cg(refs);
  z_cg_ref_t cgr(cg);
  std::map<int, z_cg_ref_t::node_t> nodes;
  for (auto v : boost::make_iterator_range(vertices(cgr))) nodes.insert({num(v.name()), v});
  auto node_of = [&](int k) { return nodes.at(k); };
  auto id_of = [](const z_cg_ref_t::node_t &v) { return num(v.name()); };
  head(o, g, order ? "cgo" : "cg", cgr, node_of, id_of);
  if (order) scc_order_fields(o, cgr, id_of);
  else scc_fields(o, g.n, cgr, node_of, id_of);
  o << "}\n";
}

static void run_unit(std::ostream &o, const Graph &g, const std::string &part) {
  if (part == "dom") part_dom(o, g);
  else if (part == "cdg") part_cdg(o, g);
  else if (part == "scc") part_scc(o, g);
  else if (part == "topo") part_topo(o, g);
  else if (part == "cg") part_cg(o, g, false);
  else if (part == "cgo") part_cg(o, g, true);
  else {
    std::cerr << "unknown part " << part << "\n";
    std::exit(2);
  }
}

int main(int argc, char **argv) {
  if (argc < 3) return 2;
  std::vector<std::string> parts;
  {
    std::string p = argc > 3 ? argv[3] : "dom,cdg,scc,topo";
    std::stringstream ss(p);
    std::string tok;
    while (std::getline(ss, tok, ','))
      if (!tok.empty()) parts.push_back(tok);
  }
  std::vector<Graph> gs;
  {
    std::ifstream in(argv[1]);
    std::string line;
    while (std::getline(in, line)) {
      if (line.empty()) continue;
      vj::Value j = vj::parse(line);
      Graph g;
      g.id = j["id"].i();
      g.n = j["n"].i();
      g.entry = j["entry"].i();
      g.exit = j.geti("exit", 0);
      g.succ.assign(g.n + 1, std::vector<int>());
      for (int u = 1; u <= g.n; ++u)
        for (size_t q = 0; q < j["succ"][u - 1].size(); ++q) g.succ[u].push_back(j["succ"][u - 1][q].i());
      gs.push_back(g);
    }
  }
  FILE *out = fopen(argv[2], "w");
  if (!out) return 2;
  long unit_timeout_s = getenv("VH_STEP_TIMEOUT") ? atol(getenv("VH_STEP_TIMEOUT")) : 20;
  size_t total = gs.size() * parts.size(), next = 0; // unit u = (graph u / |parts|, part u % |parts|)
  while (next < total) {
    int pfd[2];
    if (pipe(pfd) != 0) return 2;
    fflush(out);
    pid_t pid = fork();
    if (pid == 0) {
      close(pfd[0]);
      for (size_t u = next; u < total; ++u) {
        alarm(unit_timeout_s);
        std::ostringstream s;
        run_unit(s, gs[u / parts.size()], parts[u % parts.size()]);
        alarm(0);
        fputs(s.str().c_str(), out);
        fflush(out);
        char c = 1;
        if (write(pfd[1], &c, 1) != 1) _exit(5);
      }
      _exit(0);
    }
    close(pfd[1]);
    size_t done = 0;
    char buf[4096];
    ssize_t k;
    while ((k = read(pfd[0], buf, sizeof buf)) > 0) done += k;
    close(pfd[0]);
    int status = 0;
    waitpid(pid, &status, 0);
    next += done;
    if (next < total) { // the child died on unit `next`
      const char *why = (WIFSIGNALED(status) && WTERMSIG(status) == SIGALRM) ? "timeout" : "crash";
      fprintf(out, "{\"id\":%lld,\"part\":\"%s\",\"err\":\"%s\",\"status\":%d}\n", gs[next / parts.size()].id,
              parts[next % parts.size()].c_str(), why, WIFSIGNALED(status) ? 1000 + WTERMSIG(status) : WEXITSTATUS(status));
      ++next;
    }
  }
  fclose(out);
  return 0;
}
