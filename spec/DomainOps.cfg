SPECIFICATION Spec
INVARIANT Sound
CHECK_DEADLOCK FALSE
ALIAS Compact
