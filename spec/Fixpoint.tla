----------------------------- MODULE Fixpoint -----------------------------
(* The interleaved forward fixpoint iterator of
   include/crab/fixpoint/interleaved_fixpoint_iterator.hpp as a state machine
   (one action per step of wto_iterator::visit), over a value type of finite
   height: sets of concrete states 0..S-1, join = widening = union, meet =
   narrowing = intersection, block transformer = exact image (C06).

   A configuration (graph, successor order, entry, start block, per-block image
   relation, initial set, assumption map, widening delay, descending
   iterations) is read from a file; the same file carries what the REAL
   iterator computed for that configuration (pre/post per block, the
   (kind, head, iteration) events of the CRAB_VERIF hook).

   Checked by TLC for every configuration:
     ModelIsLfp   the algorithm model ends with exactly the least solution of
                  the flow equations (design level);
     ImplIsLfp    the real iterator's result equals that least solution (C06,
                  first sentence; contract);
     ImplDelay    the real iterator joins while iteration <= delay and only
                  extrapolates afterwards (C06, second sentence; contract);
     ModelDelay   same for the model; Drift: the real event sequence equals the
                  model's behaviour (algorithm level: printed, not failed);
     Termination  <>done (FixpointLive.cfg).                                   *)
EXTENDS WtoDefs, TLC, Json, IOUtils

Cfgs == ndJsonDeserialize(IOEnv.FIXPO_CONFIGS)

VARIABLES c,      \* configuration index
          pre, post,  \* invariant tables  [node -> set of states]
          skip,   \* m_skip: analysis not yet started (start block not reached)
          stk,    \* control stack of wto_iterator::visit frames
          log,    \* hook events produced so far
          done
vars == <<c, pre, post, skip, stk, log, done>>

C == Cfgs[c]
G == [n |-> C.n, entry |-> C.entry, succ |-> C.succ]
Nodes == 1..C.n
SeqSet(q) == {q[k] : k \in DOMAIN q}
Img(b, X) == UNION {SeqSet(C.img[b][s + 1]) : s \in X}
Preds(b) == {u \in Nodes : b \in SeqSet(C.succ[u])}
HasAsm(b) == \E k \in DOMAIN C.asm : C.asm[k][1] = b
AsmOf(b) == SeqSet(C.asm[CHOOSE k \in DOMAIN C.asm : C.asm[k][1] = b][2])
Strengthen(b, X) == IF HasAsm(b) THEN X \cap AsmOf(b) ELSE X
InitSet == SeqSet(C.init)

(* ---- the contract: least solution of the flow equations from the start block ---- *)
FlowStep(pr) ==
  [b \in Nodes |-> Strengthen(b, (IF b = C.start THEN InitSet ELSE {})
                                   \cup UNION {Img(p, pr[p]) : p \in Preds(b)})]
RECURSIVE LfpFrom(_)
LfpFrom(pr) == LET nx == FlowStep(pr) IN IF nx = pr THEN pr ELSE LfpFrom(nx)
LfpPre == LfpFrom([b \in Nodes |-> {}])
LfpPost == [b \in Nodes |-> Img(b, LfpPre[b])]

(* ---- the WTO the iterator walks over (reference model of WtoDefs) ---- *)
Wto == ModelWto(G)
WRec == ModelRecord(G)
InWto(b) == \E k \in DOMAIN WRec.nest : WRec.nest[k].node = b
Nest(b) == WRec.nest[CHOOSE k \in DOMAIN WRec.nest : WRec.nest[k].node = b].heads
StrictlyDeeper(a, b) == Len(a) > Len(b) /\ SubSeq(a, 1, Len(b)) = b   \* wto_nesting operator>
RECURSIVE Member(_, _)
Member(comp, b) == comp.h = b \/ (comp.cyc /\ \E k \in DOMAIN comp.body : Member(comp.body[k], b))
(* the real code raises CRAB_ERROR when a predecessor of a cycle head is not in the WTO *)
RECURSIVE Heads(_)
Heads(part) == UNION {IF part[k].cyc THEN {part[k].h} \cup Heads(part[k].body) ELSE {} : k \in DOMAIN part}
Aborts == \E h \in Heads(Wto) : \E p \in Preds(h) : ~InWto(p)

NoCyc == [h |-> 0, cyc |-> FALSE, body |-> <<>>]
ListFrame(comps) == [k |-> "list", comps |-> comps, i |-> 1, cy |-> NoCyc, phase |-> "", iter |-> 0, pv |-> {}, ep |-> {}]
CycFrame(cy, phase, iter, pv, ep) == [k |-> "cyc", comps |-> <<>>, i |-> 0, cy |-> cy, phase |-> phase, iter |-> iter, pv |-> pv, ep |-> ep]
Top == stk[Len(stk)]
Pop(n) == SubSeq(stk, 1, Len(stk) - n)
SetTop(s, f) == [s EXCEPT ![Len(s)] = f]

Init == /\ c \in DOMAIN Cfgs
        /\ pre = [b \in 1..Cfgs[c].n |-> IF b = Cfgs[c].start THEN {Cfgs[c].init[k] : k \in DOMAIN Cfgs[c].init} ELSE {}]
        /\ post = [b \in 1..Cfgs[c].n |-> {}]
        /\ skip = TRUE
        /\ stk = <<[k |-> "list", comps |-> ModelWto([n |-> Cfgs[c].n, entry |-> Cfgs[c].entry, succ |-> Cfgs[c].succ]),
                    i |-> 1, cy |-> NoCyc, phase |-> "", iter |-> 0, pv |-> {}, ep |-> {}]>>
        /\ log = <<>>
        /\ done = FALSE

(* wto_iterator::visit(wto_vertex_t&) *)
VisitVertex ==
  /\ ~done /\ Top.k = "list" /\ Top.i <= Len(Top.comps) /\ ~Top.comps[Top.i].cyc
  /\ LET b == Top.comps[Top.i].h
         sk == skip /\ b # C.start
         np == IF b = C.start THEN Strengthen(b, pre[b])
                              ELSE Strengthen(b, UNION {post[p] : p \in Preds(b)})
     IN /\ skip' = sk
        /\ pre' = IF sk THEN pre ELSE [pre EXCEPT ![b] = np]
        /\ post' = IF sk THEN post ELSE [post EXCEPT ![b] = Img(b, np)]
        /\ stk' = SetTop(stk, [Top EXCEPT !.i = Top.i + 1])
  /\ UNCHANGED <<c, log, done>>

(* wto_iterator::visit(wto_cycle_t&): skip decision, initial value, first increasing iteration *)
EnterCycle ==
  /\ ~done /\ Top.k = "list" /\ Top.i <= Len(Top.comps) /\ Top.comps[Top.i].cyc
  /\ LET cy == Top.comps[Top.i]
         h == cy.h
         inthis == skip /\ Member(cy, C.start)
         sk == skip /\ ~inthis
         pre0 == IF inthis THEN pre[C.start]
                 ELSE UNION {post[p] : p \in {q \in Preds(h) : ~StrictlyDeeper(Nest(q), Nest(h))}}
         pv == Strengthen(h, pre0)
         ep == IF inthis /\ h = C.start THEN pv ELSE {}
         adv == SetTop(stk, [Top EXCEPT !.i = Top.i + 1])
     IN /\ skip' = sk
        /\ IF sk
             THEN /\ stk' = adv
                  /\ UNCHANGED <<pre, post, log>>
             ELSE /\ pre' = [pre EXCEPT ![h] = pv]
                  /\ post' = [post EXCEPT ![h] = Img(h, pv)]
                  /\ stk' = adv \o <<CycFrame(cy, "inc", 1, pv, ep), ListFrame(cy.body)>>
                  /\ log' = Append(log, <<"iter", h, 1>>)
  /\ UNCHANGED <<c, done>>

(* the body of a cycle has been visited: stabilisation test, extrapolation / refinement *)
BodyDone ==
  /\ ~done /\ Top.k = "list" /\ Top.i > Len(Top.comps) /\ Len(stk) >= 2
  /\ LET f == stk[Len(stk) - 1]
         h == f.cy.h
         np == Strengthen(h, UNION {post[p] : p \in Preds(h)} \cup f.ep)
         again(fr, v) == /\ stk' = Pop(2) \o <<fr, ListFrame(f.cy.body)>>
                         /\ post' = [post EXCEPT ![h] = Img(h, v)]
     IN IF f.phase = "inc"
          THEN IF np \subseteq f.pv
                 THEN \* post-fixpoint reached
                      /\ pre' = [pre EXCEPT ![h] = np]
                      /\ IF C.desc = 0
                           THEN /\ stk' = Pop(2)
                                /\ log' = Append(log, <<"stable", h, f.iter>>)
                                /\ UNCHANGED post
                           ELSE /\ again(CycFrame(f.cy, "dec", 1, np, f.ep), np)
                                /\ log' = log \o << <<"stable", h, f.iter>>, <<"dec_iter", h, 1>> >>
                 ELSE \* extrapolate: join while iteration <= delay, widening afterwards (both are union here)
                      LET v == f.pv \cup np
                      IN /\ pre' = [pre EXCEPT ![h] = v]
                         /\ again(CycFrame(f.cy, "inc", f.iter + 1, v, f.ep), v)
                         /\ log' = log \o << <<IF f.iter <= C.wd THEN "join" ELSE "widen", h, f.iter>>,
                                             <<"iter", h, f.iter + 1>> >>
          ELSE IF f.pv \subseteq np
                 THEN /\ stk' = Pop(2)
                      /\ log' = Append(log, <<"dec_stable", h, f.iter>>)
                      /\ UNCHANGED <<pre, post>>
                 ELSE IF f.iter > C.desc
                        THEN /\ stk' = Pop(2)
                             /\ log' = Append(log, <<"dec_limit", h, f.iter>>)
                             /\ UNCHANGED <<pre, post>>
                        ELSE LET v == f.pv \cap np
                             IN /\ pre' = [pre EXCEPT ![h] = v]
                                /\ again(CycFrame(f.cy, "dec", f.iter + 1, v, f.ep), v)
                                /\ log' = log \o << <<IF f.iter = 1 THEN "meet" ELSE "narrow", h, f.iter>>,
                                                    <<"dec_iter", h, f.iter + 1>> >>
  /\ UNCHANGED <<c, skip, done>>

Finish == /\ ~done /\ Len(stk) = 1 /\ Top.i > Len(Top.comps)
          /\ done' = TRUE
          /\ UNCHANGED <<c, pre, post, skip, stk, log>>

(* the real code stops with CRAB_ERROR("WTO nesting: node not found"): no result, no claim *)
Abort == /\ ~done /\ done' = TRUE /\ UNCHANGED <<c, pre, post, skip, stk, log>>
Next == IF Aborts THEN Abort ELSE (VisitVertex \/ EnterCycle \/ BodyDone \/ Finish)
Spec == Init /\ [][Next]_vars
FairSpec == Spec /\ WF_vars(Next)
Termination == <>done

---------------------------------------------------------------------------
ToSets(q) == [b \in Nodes |-> SeqSet(q[b])]
Judged == C.err = 0 /\ ~Aborts

(* the judgements of the implementation do not depend on the model's state: they are evaluated in the
   initial state of each configuration (so that a violation has a one-state error trace) *)
AtStart == ~done /\ Len(stk) = 1 /\ stk[1].i = 1
ModelIsLfp == (done /\ ~Aborts) => (pre = LfpPre /\ post = LfpPost)
ImplIsLfp == (AtStart /\ Judged) => (ToSets(C.pre) = LfpPre /\ ToSets(C.post) = LfpPost)
ImplDelay == (AtStart /\ C.err = 0) =>
   \A k \in DOMAIN C.events :
      /\ (C.events[k][1] \in {"widen", "widen_thresholds"} => C.events[k][3] > C.wd)
      /\ (C.events[k][1] = "join" => C.events[k][3] <= C.wd)
ModelDelay == \A k \in DOMAIN log : log[k][1] = "widen" => log[k][3] > C.wd
Drift == (done /\ Judged) => (log = C.events \/ PrintT(<<"MODEL-DRIFT", C.id>>))

Compact == [config |-> C.id, done |-> done, model_pre |-> pre, lfp |-> LfpPre, impl_pre |-> IF C.err = 0 THEN C.pre ELSE <<>>,
            model_post |-> post, impl_post |-> IF C.err = 0 THEN C.post ELSE <<>>]
===========================================================================
