"""C02 A 'safe' or 'unreachable' assertion verdict is never wrong (intra-procedural forward analysis + checker part)."""
from checks import c01

PID = "C02"


def run(tier, seed):
    return c01.run_generic(PID, tier, seed + 500, asserts=True, which="verdict")


def replay(path):
    return c01.replay(path)
