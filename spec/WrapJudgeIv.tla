--------------------------- MODULE WrapJudgeIv ---------------------------
(* C13, scalar level, part 2: every record written by harness/wrap_runner for
   the real crab::domains::wrapped_interval<z_number> is judged against the
   soundness contract of module WrappedInterval.  One TLC initial state per
   record.  Record kinds:

   "ib"  operands a, b; r = [operation |-> observed result interval],
         p = [leq, geq, eq, ne |-> BOOLEAN], nc = operations without result.
         full = TRUE  (w <= 15): TLC enumerates gamma(a) x gamma(b) itself;
         full = FALSE: xs, ys are concrete sample values (chosen by the input
         generator); a sample only counts if TLC finds it in gamma(a)/gamma(b);
         wit = witnesses of the real wrapint for division/shift of wide words
         (validated by their defining relation before use).
   "iu"  operand a; r = [neg, lhl_s, lhl_u, uhl_s, uhl_u |-> interval],
         ext = <<[e, s, z]>>, tr = <<[t, r]>>, at = at(x) for x = 0..2^w-1 (full)
         or for the samples xs, single = is_singleton(). *)
EXTENDS WrappedInterval, TLC, Json, IOUtils

Recs == ndJsonDeserialize(IOEnv.WRAP_RECORDS)

VARIABLE i
Init == i \in DOMAIN Recs
Next == UNCHANGED i
Spec == Init /\ [][Next]_i

Rng(s) == {s[k] : k \in DOMAIN s}

JoinLike == {"join", "widen", "widen_th"}
MeetLike == {"meet", "narrow"}

(* the flags reported for a constructed operand agree with (start, end) *)
InputFlagsBad(w, I) ==
  CASE I.c = 1 -> ~I.t \/ I.b
    [] I.c = 2 -> ~I.b \/ I.t
    [] OTHER -> I.b \/ ~ValidRaw(w, I.s) \/ ~ValidRaw(w, I.e)
                \/ (I.t # (Sub(w, Val(w, I.e), Val(w, I.s)) = UMax(w)))

(* ------------------------- full enumeration, w <= 15 ------------------------- *)
IbFullFailing(r) ==
  LET w == r.w  A == NI(w, r.a)  B == NI(w, r.b)
      GA == GammaN(w, A)  GB == GammaN(w, B)
      Sound(op) ==
        LET R == NI(w, r.r[op]) IN
        R.t \/ CASE op \in BinArith -> \A x \in GA, y \in GB : DefinedN(op, w, x, y) => InN(w, ConcN(op, w, x, y), R)
                 [] op \in JoinLike -> \A x \in GA \cup GB : InN(w, x, R)
                 [] op \in MeetLike -> \A x \in GA \cap GB : InN(w, x, R)
                 [] op = "trim" -> \A x \in GA : (\E y \in GB : y # x) => InN(w, x, R)
  IN   {op \in DOMAIN r.r : ~(ValidIv(w, r.r[op]) /\ Sound(op))}
  \cup (IF "leq" \in DOMAIN r.p /\ r.p.leq /\ ~(GA \subseteq GB) THEN {"leq"} ELSE {})
  \cup (IF "geq" \in DOMAIN r.p /\ r.p.geq /\ ~(GB \subseteq GA) THEN {"leq"} ELSE {})
  \cup (IF "eq" \in DOMAIN r.p /\ r.p.eq /\ GA # GB THEN {"eq"} ELSE {})
  \cup (IF {"eq", "ne"} \subseteq DOMAIN r.p /\ r.p.eq = r.p.ne THEN {"ne"} ELSE {})

(* number of values of the smallest wrapped interval that covers the set U (w <= 15) *)
MinCover(w, U) ==
  IF U = {} THEN 0
  ELSE LET sizes == {d + 1 : d \in {SubN(w, e, s) : s \in U, e \in U}}
           Covers(n) == \E s \in U : \A x \in U : SubN(w, x, s) < n
       IN CHOOSE n \in sizes : Covers(n) /\ \A k \in sizes : k < n => ~Covers(k)
SizeN(w, J) == IF J.b THEN 0 ELSE IF J.t THEN Pow2(w) ELSE J.d + 1

IbFullDrift(r) ==
  LET w == r.w  GA == GammaN(w, NI(w, r.a))  GB == GammaN(w, NI(w, r.b)) IN
       (IF "leq" \in DOMAIN r.p /\ ~r.p.leq /\ GA \subseteq GB THEN {"leq-incomplete"} ELSE {})
  \cup (IF "eq" \in DOMAIN r.p /\ ~r.p.eq /\ GA = GB THEN {"eq-incomplete"} ELSE {})
  \cup (IF w <= 3 /\ "join" \in DOMAIN r.r /\ ValidIv(w, r.r.join)
           /\ SizeN(w, NI(w, r.r.join)) > MinCover(w, GA \cup GB) THEN {"join-not-smallest"} ELSE {})

(* ------------------------------ sampled operands ------------------------------ *)
IbSampFailing(r) ==
  LET w == r.w  nx == Len(r.xs)  ny == Len(r.ys)
      X(p) == Val(w, r.xs[p])
      Y(q) == Val(w, r.ys[q])
      Wt(op, p, q) == IF NeedsWitness(op, w) THEN r.wit[WitnessFamily(op)][(p - 1) * ny + q] ELSE <<>>
      (* the pairs on which the contract makes a claim *)
      PA == {p \in 1..nx : In(w, X(p), r.a)}        \* the samples that TLC finds in gamma(a) / gamma(b)
      PB == {q \in 1..ny : In(w, Y(q), r.b)}
      Claim(op, p, q) == p \in PA /\ q \in PB /\ DefinedW(op, w, X(p), Y(q))
                         /\ (NeedsWitness(op, w) => Wt(op, p, q) # <<>>)
      BadWitness(op) == NeedsWitness(op, w) /\ \E p \in 1..nx, q \in 1..ny :
                          Claim(op, p, q) /\ ~WitnessOk(op, w, X(p), Y(q), Wt(op, p, q))
      InA(v) == In(w, v, r.a)
      InB(v) == In(w, v, r.b)
      S == {X(p) : p \in 1..nx} \cup {Y(q) : q \in 1..ny}
      Sound(op) ==
        LET R == r.r[op] IN
        R.t \/ CASE op \in BinArith -> \A p \in 1..nx, q \in 1..ny :
                                         (Claim(op, p, q) /\ (NeedsWitness(op, w) => WitnessOk(op, w, X(p), Y(q), Wt(op, p, q))))
                                         => In(w, Conc(op, w, X(p), Y(q), Wt(op, p, q)), R)
                 [] op \in JoinLike -> \A v \in S : (InA(v) \/ InB(v)) => In(w, v, R)
                 [] op \in MeetLike -> \A v \in S : (InA(v) /\ InB(v)) => In(w, v, R)
                 [] op = "trim" -> \A v \in S : (InA(v) /\ \E y \in S : InB(y) /\ y # v) => In(w, v, R)
  IN   {op \in DOMAIN r.r : ~(ValidIv(w, r.r[op]) /\ Sound(op))}
  \cup {"witness-" \o op : op \in {o \in DOMAIN r.r \cap BinArith : BadWitness(o)}}
  \cup (IF "leq" \in DOMAIN r.p /\ r.p.leq /\ (\E v \in S : InA(v) /\ ~InB(v)) THEN {"leq"} ELSE {})
  \cup (IF "geq" \in DOMAIN r.p /\ r.p.geq /\ (\E v \in S : InB(v) /\ ~InA(v)) THEN {"leq"} ELSE {})
  \cup (IF "eq" \in DOMAIN r.p /\ r.p.eq /\ (\E v \in S : InA(v) # InB(v)) THEN {"eq"} ELSE {})
  \cup (IF {"eq", "ne"} \subseteq DOMAIN r.p /\ r.p.eq = r.p.ne THEN {"ne"} ELSE {})

IbFailing(r) ==
  IF ~(r.w \in 1..64) \/ (r.full /\ r.w > 15) \/ (\E v \in Rng(r.xs) \cup Rng(r.ys) : ~ValidRaw(r.w, v)) THEN {"bad-input"}
  ELSE (IF InputFlagsBad(r.w, r.a) \/ InputFlagsBad(r.w, r.b) THEN {"is_top/is_bottom"} ELSE {})
       \cup (IF r.full THEN IbFullFailing(r) ELSE IbSampFailing(r))

(* ------------------------------ unary operations ------------------------------ *)
IuFailing(r) ==
  LET w == r.w
      XS == IF r.full THEN 0..(Pow2(w) - 1) ELSE {Val(w, r.xs[p]) : p \in 1..Len(r.xs)}
      GA == {x \in XS : In(w, x, r.a)}          \* (the sampled part of) gamma(a)
      Sound(op) ==
        LET R == r.r[op] IN
        R.t \/ CASE op = "neg" -> \A x \in GA : In(w, Neg(w, x), R)
                 [] op = "lhl_s" -> \A x \in GA, v \in XS : ~Slt(w, x, v) => In(w, v, R)
                 [] op = "lhl_u" -> \A x \in GA, v \in XS : Ule(w, v, x) => In(w, v, R)
                 [] op = "uhl_s" -> \A x \in GA, v \in XS : ~Slt(w, v, x) => In(w, v, R)
                 [] op = "uhl_u" -> \A x \in GA, v \in XS : Ule(w, x, v) => In(w, v, R)
      AtBad == IF r.full THEN Len(r.at) # Pow2(w) \/ \E x \in XS : r.at[x + 1] # In(w, x, r.a)
               ELSE Len(r.at) # Len(r.xs) \/ \E p \in 1..Len(r.xs) : r.at[p] # In(w, Val(w, r.xs[p]), r.a)
  IN IF ~(w \in 1..64) \/ (r.full /\ w > 15) \/ (\E v \in Rng(r.xs) : ~ValidRaw(w, v)) THEN {"bad-input"}
     ELSE (IF InputFlagsBad(w, r.a) THEN {"is_top/is_bottom"} ELSE {})
     \cup {op \in DOMAIN r.r : ~(ValidIv(w, r.r[op]) /\ Sound(op))}
     \cup (IF AtBad THEN {"at"} ELSE {})
     \cup (IF "single" \in DOMAIN r /\ r.full /\ r.single # (Cardinality(GA) = 1) THEN {"is_singleton"} ELSE {})
     \cup {"sext" : z \in {y \in Rng(r.ext) : "s" \in DOMAIN y /\
             ~(ValidIv(w + y.e, y.s) /\ \A x \in GA : In(w + y.e, SExt(w, y.e, x), y.s))}}
     \cup {"zext" : z \in {y \in Rng(r.ext) : "z" \in DOMAIN y /\
             ~(ValidIv(w + y.e, y.z) /\ \A x \in GA : In(w + y.e, ZExt(w, y.e, x), y.z))}}
     \cup {"trunc" : z \in {y \in Rng(r.tr) : "r" \in DOMAIN y /\
             ~(ValidIv(y.t, y.r) /\ \A x \in GA : In(y.t, Trunc(w, y.t, x), y.r))}}

Failing(r) == IF r.k = "ib" THEN IbFailing(r) ELSE IuFailing(r)

Contract ==
  LET F == Failing(Recs[i]) IN
  F = {} \/ ((\A f \in F : PrintT(<<"FAIL", Recs[i].id, f>>)) /\ FALSE)

(* precision of the order (not a soundness matter): only printed *)
Drift ==
  LET r == Recs[i]
      D == IF r.k = "ib" /\ r.full /\ r.w <= 15 THEN IbFullDrift(r) ELSE {}
  IN \A f \in D : PrintT(<<"DRIFT", r.id, f>>)
=============================================================================
