"""Graph-algorithm engine: crab's dominator tree / dominance frontiers (dominance.hpp), control-dependence graph
(cdg.hpp), SCC graph (sccg.hpp, sccg_bgl.hpp) and (weak) topological orders (topo_order.hpp) against
spec/GraphAlgos.tla.

  design level          spec/GraphAlgosModel.cfg (all digraphs with 1..3 nodes x entry x exit) and, in the thorough tier,
                        GraphAlgosModel4.cfg (all 65536 digraphs with 4 nodes): the definitions validated against each
                        other (textbook facts)
  implementation level  harness/graph_runner runs the REAL crab code on CFGs (and call graphs) built from digraphs;
                        every record (graph, part) is judged by TLC against GraphAlgos!Contract (GraphAlgosJudge.cfg)

Use from a check:   graphs.phase(ck, tier, parts=("dom","cdg","scc","topo"));   graphs.replay(case)
Development:        python3 /verif/tools/checks/graphs.py quick|thorough [parts]   (writes no evidence, no replays/)
Python only generates inputs, moves files and parses TLC output; what an answer has to be is in the TLA+ module."""
import json, os, re, sys, time

sys.path.insert(0, os.path.dirname(os.path.dirname(os.path.abspath(__file__))))
import vlib
from vlib import build, tlc, workdir, read_ndjson, write_ndjson, log

RUNNER = "graph_runner"
ALL_PARTS = ("dom", "cdg", "scc", "topo")
# the component graph and its reverse topological order are also exercised on call graphs (bottom-up analyses)
RUNNER_PARTS = {"dom": ["dom"], "cdg": ["cdg"], "scc": ["scc", "cg"], "topo": ["topo", "cgo"]}
TLC_BATCH = 60000       # records per TLC run
MAX_CLASSES = 5


# ---------------------------------------------------------------------------------------------------------------
# input generation (no judgement here)
def exhaustive(nmax=3):
    """all digraphs (self loops included) with 1..nmax nodes x every entry x every exit (0 = cfg without exit block)"""
    gs = []
    for n in range(1, nmax + 1):
        for m in range(1 << (n * n)):
            succ = [[v for v in range(1, n + 1) if m >> ((u - 1) * n + (v - 1)) & 1] for u in range(1, n + 1)]
            for e in range(1, n + 1):
                for x in range(0, n + 1):
                    gs.append({"n": n, "entry": e, "exit": x, "succ": succ, "fam": "all%d" % n})
    return gs


def all4():
    """thorough tier: all 65536 digraphs with 4 nodes, entry 1, exit 4"""
    gs = []
    for m in range(1 << 16):
        succ = [[v for v in range(1, 5) if m >> ((u - 1) * 4 + (v - 1)) & 1] for u in range(1, 5)]
        gs.append({"n": 4, "entry": 1, "exit": 4, "succ": succ, "fam": "all4"})
    return gs


def _relabel(rng, n, entry, exit_, edges):
    perm = list(range(1, n + 1))
    rng.shuffle(perm)
    f = lambda v: perm[v - 1] if v else 0
    succ = [[] for _ in range(n)]
    es = list(edges)
    rng.shuffle(es)
    for (u, v) in es:
        succ[f(u) - 1].append(f(v))
    return {"n": n, "entry": f(entry), "exit": f(exit_), "succ": succ}


def fam_dense(rng):
    """plain random digraph: unreachable nodes, nodes that cannot reach the exit, exit with successors, no exit"""
    n = rng.randint(4, 8)
    p = rng.choice([0.12, 0.2, 0.3, 0.45])
    edges = {(u, v) for u in range(1, n + 1) for v in range(1, n + 1) if rng.random() < p}
    return _relabel(rng, n, rng.randint(1, n), rng.choice([0] + list(range(1, n + 1))), edges)


def _reach(n, edges, src, back=False):
    adj = {}
    for (u, v) in edges:
        if back:
            u, v = v, u
        adj.setdefault(u, set()).add(v)
    seen, todo = {src}, [src]
    while todo:
        u = todo.pop()
        for v in adj.get(u, ()):
            if v not in seen:
                seen.add(v)
                todo.append(v)
    return seen


def _join_exits(rng, n, edges, total):
    """adds the exit node n+1: every node without successor gets an edge to it ('multiple exits joined into one'); with
    total=True nodes that cannot reach the exit (infinite loops) get a way out, so that post-dominance is total"""
    x = n + 1
    sinks = [u for u in range(1, n + 1) if not any(a == u for (a, b) in edges)]
    if not sinks:
        sinks = [rng.randint(1, n)]
    for u in sinks:
        edges.add((u, x))
    if total:
        while True:
            bad = sorted(set(range(1, n + 1)) - _reach(x, edges, x, back=True))
            if not bad:
                break
            edges.add((rng.choice(bad), x))
    return x


def fam_connected(rng, core=None):
    """every node reachable from the entry (random spanning tree + extra edges: back edges, self loops, cross edges),
    sinks joined into one exit; mostly every node reaches the exit"""
    n = rng.randint(3, 7)
    edges = set(core or ())
    first = 1 + max([max(e) for e in edges] or [1])
    for k in range(max(first, 2), n + 1):
        edges.add((rng.randint(1, k - 1), k))
    n = max(n, first - 1)
    for _ in range(rng.randint(0, n + 1)):
        u, v = rng.randint(1, n), rng.randint(1, n)
        if rng.random() < 0.15:
            v = u
        edges.add((u, v))
    x = _join_exits(rng, n, edges, total=rng.random() < 0.8)
    return _relabel(rng, x, 1, x, edges)


def fam_irreducible(rng):
    """loops with two entries: the classic 1->2, 1->3, 2<->3 core, grown like fam_connected"""
    core = {(1, 2), (1, 3), (2, 3), (3, 2)}
    if rng.random() < 0.4:
        core |= {(3, 4), (4, 2)}
    return fam_connected(rng, core)


def fam_structured(rng):
    """CFG of a structured program: sequences, if-diamonds, while / do-while loops (nested), self loops, with
    break/return edges to the single exit; optionally one goto into a region (irreducible)"""
    edges, cnt = set(), [0]

    def new():
        cnt[0] += 1
        return cnt[0]

    def region(budget):  # -> (entry node, exit node) of a single-entry single-exit region
        kind = rng.choice(["block", "seq", "seq", "if", "if", "while", "while", "dowhile", "self"]) if budget >= 3 else "block"
        if kind == "block":
            v = new()
            return v, v
        if kind == "self":
            v = new()
            edges.add((v, v))
            return v, v
        if kind == "seq":
            a = region(budget // 2)
            b = region(budget - budget // 2)
            edges.add((a[1], b[0]))
            return a[0], b[1]
        if kind == "if":
            c = new()
            t = region((budget - 2) // 2)
            j = None
            if rng.random() < 0.6 and budget >= 5:
                f = region((budget - 2) - (budget - 2) // 2)
                j = new()
                edges.update({(c, t[0]), (c, f[0]), (t[1], j), (f[1], j)})
            else:
                j = new()
                edges.update({(c, t[0]), (c, j), (t[1], j)})
            return c, j
        if kind == "while":
            h = new()
            b = region(budget - 2)
            a = new()
            edges.update({(h, b[0]), (b[1], h), (h, a)})
            return h, a
        # dowhile
        b = region(budget - 1)
        a = new()
        edges.update({(b[1], b[0]), (b[1], a)})
        return b[0], a

    ent, last = region(rng.randint(3, 7))
    n = cnt[0]
    if n > 7:
        return None
    x = last
    if rng.random() < 0.5 and n < 8:  # early returns joined into a fresh exit
        x = n + 1
        edges.add((last, x))
        for _ in range(rng.randint(1, 2)):
            edges.add((rng.randint(1, n), x))
        n += 1
    if rng.random() < 0.25:  # goto
        edges.add((rng.randint(1, n), rng.randint(1, n)))
    return _relabel(rng, n, ent, x, edges)


FAMILIES = (("dense", fam_dense, 3), ("connected", fam_connected, 3), ("irreducible", fam_irreducible, 2),
            ("structured", fam_structured, 3))


def random_graphs(rng, count):
    gs, seen = [], set()
    names = [f for f in FAMILIES for _ in range(f[2])]
    tries = 0
    while len(gs) < count and tries < 50 * count:
        tries += 1
        name, fn, _ = rng.choice(names)
        g = fn(rng)
        if g is None or not (4 <= g["n"] <= 8):
            continue
        if rng.random() < 0.05:  # the same successor twice (two call sites of one callee; `>>` twice)
            u = rng.randrange(g["n"])
            if g["succ"][u]:
                g["succ"][u].append(g["succ"][u][0])
        key = json.dumps([g["n"], g["entry"], g["exit"], g["succ"]])
        if key in seen:
            continue
        seen.add(key)
        g["fam"] = name
        gs.append(g)
    return gs


# ---------------------------------------------------------------------------------------------------------------
def run_runner(wd, label, graphs, rparts):
    gp, op = os.path.join(wd, label + ".graphs.ndjson"), os.path.join(wd, label + ".out.ndjson")
    write_ndjson(gp, [{"id": g["id"], "n": g["n"], "entry": g["entry"], "exit": g["exit"], "succ": g["succ"]} for g in graphs])
    t0 = time.time()
    rc, out = vlib.sh([os.path.join(vlib.BUILD, "bin", RUNNER), gp, op, ",".join(rparts)], timeout=3600)
    if rc != 0:
        raise vlib.Broken("%s failed (%d): %s" % (RUNNER, rc, out[-2000:]))
    return read_ndjson(op), time.time() - t0


def judge_records(wd, label, recs, workers=None, timeout=1500):
    """TLC on GraphAlgosJudge; returns (TlcResult, {record index (0-based) -> failing clause names})"""
    rp = os.path.join(wd, label + ".recs.ndjson")
    write_ndjson(rp, recs)
    r = tlc("GraphAlgos", "GraphAlgosJudge", "graphs-" + label, env={"GRAPH_RECORDS": rp}, cont=True, workers=workers,
            timeout=timeout)
    # <<"WHY", index, <<"clause", ...>>>> lines; TLC wraps long tuples over several lines, so they are read from the raw output
    why = {}
    for m in re.finditer(r'<<\s*"WHY",\s*(\d+),\s*<<([^<>]*)>>\s*>>', r.out):
        why[int(m.group(1)) - 1] = " ".join(re.findall(r'"([^"]*)"', m.group(2)))
    nviol = len([v for v in r.violated if v == "Contract"])
    if nviol != len(why) or (r.is_violation and not why):
        raise vlib.Broken("GraphAlgosJudge: %d Contract violations but %d WHY lines:\n%s" % (nviol, len(why), r.out[-3000:]))
    if not r.is_violation and r.distinct < len(recs):
        raise vlib.Broken("GraphAlgosJudge visited %d states for %d records:\n%s" % (r.distinct, len(recs), r.out[-3000:]))
    return r, why


def _graph_of(rec):
    return {"id": rec["id"], "n": rec["n"], "entry": rec["entry"], "exit": rec["exit"], "succ": rec["succ"]}


def confirm(wd, graph, part):
    """re-runs one graph / one part in isolation; returns (record, failing clauses or None)"""
    recs, _ = run_runner(wd, "confirm", [graph], [part])
    if not recs or "err" in recs[0]:
        return (recs[0] if recs else None), None
    r, why = judge_records(wd, "confirm", recs, workers=1, timeout=300)
    return recs[0], why.get(0)


def phase(ck, tier, parts=ALL_PARTS, wd=None, graphs=None):
    """generates the graphs, runs the real code, lets TLC judge; fills ck.cov / ck.violation. Returns a summary dict."""
    t_start = time.time()
    build(RUNNER)
    wd = wd or workdir("graphs-" + ck.pid.lower())
    parts = [p for p in ALL_PARTS if p in parts]
    rparts = [q for p in parts for q in RUNNER_PARTS[p]]
    summary = {"tlc": [], "classes": {}, "no_claim": {}, "records": {}, "graphs": 0}
    cov = ck.cov.setdefault("graph_algos", {"records_judged": {}, "graphs_by_family": {}, "model_runs": [],
                                            "fwd_first_not_entry": 0, "total_case_graphs": 0})
    # ---- design level
    for cfg in (["GraphAlgosModel"] if tier == "quick" else ["GraphAlgosModel", "GraphAlgosModel4"]):
        r = tlc("GraphAlgos", cfg, "graphs-" + cfg, timeout=1500)
        ck.add_tlc(r, cfg)
        cov["model_runs"].append({"cfg": cfg, "distinct_states": r.distinct, "wall_s": round(r.wall, 1)})
        summary["tlc"].append((cfg, r.distinct, round(r.wall, 1)))
        if r.is_violation:
            ck.violation("GraphAlgos definitions contradict each other (design level, %s): %s" %
                         (cfg, ",".join(sorted(set(r.violated)))), {"kind": "graphs-model", "cfg": cfg, "tlc_tail": r.out[-3000:]})
    # ---- implementation level
    if graphs is None:
        graphs = exhaustive(3) + random_graphs(ck.rng, 2000 if tier == "quick" else 20000)
        if tier != "quick":
            graphs += all4()
    for k, g in enumerate(graphs):
        g["id"] = k + 1
    by_id = {g["id"]: g for g in graphs}
    summary["graphs"] = len(graphs)
    for g in graphs:
        cov["graphs_by_family"][g.get("fam", "given")] = cov["graphs_by_family"].get(g.get("fam", "given"), 0) + 1
    recs, t_run = run_runner(wd, "impl", graphs, rparts)
    summary["runner_s"] = round(t_run, 1)
    if len(recs) != len(graphs) * len(rparts):
        raise vlib.Broken("%s wrote %d records for %d units" % (RUNNER, len(recs), len(graphs) * len(rparts)))
    good = []
    for x in recs:
        if "err" in x:  # the real code exited / aborted / timed out: no claim, never silent
            nc = ck.cov.setdefault("harness_no_claim", {})
            key = "graphs.%s.%s" % (x["part"], x["err"])
            nc[key] = nc.get(key, 0) + 1
            summary["no_claim"][key] = summary["no_claim"].get(key, 0) + 1
            if len(summary["no_claim"]) <= 3:
                summary.setdefault("no_claim_examples", []).append({"graph": by_id[x["id"]], "part": x["part"], "status": x.get("status")})
        else:
            good.append(x)
    failing = []  # (record, clause names)
    for b in range(0, len(good), TLC_BATCH):
        chunk = good[b:b + TLC_BATCH]
        label = "impl%d" % (b // TLC_BATCH)
        r, why = judge_records(wd, label, chunk)
        ck.add_tlc(r, "GraphAlgosJudge/" + label)
        summary["tlc"].append(("GraphAlgosJudge/" + label, len(chunk), round(r.wall, 1)))
        cov["fwd_first_not_entry"] += len(r.tuples("FWD-FIRST"))
        for idx, names in sorted(why.items()):
            failing.append((chunk[idx], names))
    ck.cov["traces_validated_against_impl"] += len(good)
    ck.cov["evaluations"] += len(good)
    for x in good:
        cov["records_judged"][x["part"]] = cov["records_judged"].get(x["part"], 0) + 1
    summary["records"] = dict(cov["records_judged"])
    # measured non-triviality: distinct graphs (as the cfg reports them) that have a cycle or a join, from the records
    nontrivial = {json.dumps([x["n"], x["entry"], x["exit"], x["succ"]]) for x in good
                  if x["part"] in ("scc", "dom", "cdg", "topo") and
                  (any(len(m) > 1 for m in x.get("members", [])) or any(x.get("df", [])) or any(x.get("cdg", [])) or x.get("dag_err"))}
    ck.cov["distinct_nontrivial"] += len(nontrivial)
    for x in good[len(good) // 2: len(good) // 2 + 2]:
        ck.sample(x)
    # ---- failure classes: (part, failing clauses); at most MAX_CLASSES, each confirmed in isolation
    classes = {}
    for rec, names in failing:
        classes.setdefault((rec["part"], names), []).append(rec)
    summary["classes"] = {"%s %s" % k: len(v) for k, v in classes.items()}
    # at most MAX_CLASSES: the biggest class of every part first, then the remaining ones by size
    by_size = sorted(classes.items(), key=lambda kv: (-len(kv[1]), kv[0]))
    picked, parts_seen = [], set()
    for kv in by_size:
        if kv[0][0] not in parts_seen:
            parts_seen.add(kv[0][0])
            picked.append(kv)
    picked = (picked + [kv for kv in by_size if kv not in picked])[:MAX_CLASSES]
    for (part, names), members in picked:
        members.sort(key=lambda x: (x["n"], sum(len(s) for s in x["succ"])))  # smallest graph of the class
        for rec in members[:3]:
            one, again = confirm(wd, _graph_of(rec), part)
            if again:
                ck.violation("crab graph algorithms (%s) disagree with spec/GraphAlgos.tla: failing clauses %s on graph n=%d "
                             "entry=%d exit=%d succ=%s; %d record(s) in this class; implementation answered %s" %
                             (part, again, rec["n"], rec["entry"], rec["exit"], json.dumps(rec["succ"]), len(members),
                              json.dumps({k: v for k, v in one.items() if k not in ("id", "part", "n", "entry", "exit", "succ")})),
                             {"kind": "graphs", "part": part, "graph": _graph_of(rec), "clauses": again, "record": one})
                break
        else:
            log("NOTE: graphs: failing class %s %s not confirmed in isolation (%d records)" % (part, names, len(members)))
    summary["wall_s"] = round(time.time() - t_start, 1)
    rule = ("graphs: all digraphs on 1..3 nodes x every entry x every exit (incl. none) + (thorough) all 4-node digraphs with entry 1 "
            "and exit 4 + seeded random 4-8 node graphs (dense, "
            "connected with joined exits, irreducible, structured-program CFGs), each as CFG (dominators, frontiers, cdg, SCC graph, "
            "orders) and as call graph (SCC graph, bottom-up order); non-trivial = distinct graphs with a cycle, a frontier or a control dependence")
    ck.cov["rule"] = (ck.cov["rule"] + " | " if ck.cov["rule"] else "") + rule
    for a in ("graph algorithms: graphs beyond 3 nodes (thorough: 4 nodes with entry 1 / exit 4) are sampled (4-8 nodes), the design-level facts are checked up to 3 (thorough: 4) nodes",
              "graph algorithms: dominance is judged for nodes reachable from the entry, post-dominance / control dependence for "
              "nodes that reach the exit (see the header of spec/GraphAlgos.tla); the order inside a component is not judged"):
        if a not in ck.assumptions:
            ck.assumptions.append(a)
    return summary


def replay(case):
    """case: the 'case' object of a replay file written by phase() (kind 'graphs'). Returns 1 if the failure reproduces."""
    build(RUNNER)
    wd = workdir("graphs-replay")
    if case.get("kind") == "graphs-model":
        r = tlc("GraphAlgos", case["cfg"], "graphs-replay-model", timeout=1500)
        log("design level %s: %s" % (case["cfg"], "VIOLATED " + ",".join(sorted(set(r.violated))) if r.is_violation else "ok"))
        return 1 if r.is_violation else 0
    rec, why = confirm(wd, case["graph"], case["part"])
    log("graph %s part %s -> %s" % (json.dumps(case["graph"]), case["part"], json.dumps(rec)))
    log("failing clauses: %s" % (why or "none"))
    return 1 if why else 0


# ---------------------------------------------------------------------------------------------------------------
class DevCheck(vlib.Check):
    """for development: replays go to build/work, finish() is never called (no evidence is written)"""

    def violation(self, desc, replay_obj):
        d = os.path.join(vlib.BUILD, "work", "graphs-dev-replays")
        os.makedirs(d, exist_ok=True)
        path = os.path.join(d, "graphs-%s-%d.json" % (self.tier, len(self.violations)))
        with open(path, "w") as f:
            json.dump({"property": self.pid, "description": desc, "case": replay_obj}, f, indent=1)
        self.violations.append((desc, path))


def main(argv):
    tier = argv[1] if len(argv) > 1 else "quick"
    if tier == "replay":
        return replay(json.load(open(argv[2]))["case"])
    parts = tuple(argv[2].split(",")) if len(argv) > 2 else ALL_PARTS
    if tier == "thorough":
        os.environ["VERIF_TIER"] = "thorough"
    ck = DevCheck("C18", tier, 1)
    try:
        s = phase(ck, tier, parts, wd=workdir("graphs-dev"))
    except vlib.Broken as e:
        log("BROKEN: " + str(e))
        return 2
    log("graphs=%d runner=%.1fs wall=%.1fs" % (s["graphs"], s["runner_s"], s["wall_s"]))
    log("records judged: " + json.dumps(s["records"]))
    log("families: " + json.dumps(ck.cov["graph_algos"]["graphs_by_family"]))
    for t in s["tlc"]:
        log("  TLC %-28s states/records=%-7d wall=%.1fs" % t)
    log("no claim: " + json.dumps(s["no_claim"]) + " " + json.dumps(s.get("no_claim_examples", []))[:600])
    log("distinct non-trivial graphs: %d; weak_topo_sort(cfg)[0] != entry on %d fully reachable graphs (use-site note)" %
        (ck.cov["distinct_nontrivial"], ck.cov["graph_algos"]["fwd_first_not_entry"]))
    log("failure classes: " + json.dumps(s["classes"]))
    for desc, path in ck.violations:
        log("VIOLATION (dev) replay=%s\n  %s" % (path, desc[:900]))
    log("%s: %d violation(s)" % ("FAIL" if ck.violations else "OK", len(ck.violations)))
    return 1 if ck.violations else 0


if __name__ == "__main__":
    sys.exit(main(sys.argv))
