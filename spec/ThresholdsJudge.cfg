SPECIFICATION JSpec
INVARIANT Judge
CHECK_DEADLOCK FALSE
