SPECIFICATION Spec
INVARIANT Preserved
INVARIANT NothingNew
INVARIANT WellFormed
CHECK_DEADLOCK FALSE
ALIAS Compact
