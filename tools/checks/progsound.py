"""Shared driver of the program-level checks (C01, C02, later C13/C14/C15):
programs -> real analyzer (harness/prog_runner) -> invariants/verdicts -> TLC explores every
concrete execution of every program (spec/ProgSound.tla) with the results as invariants."""
import json, os, re, collections
import vlib, proggen
from vlib import tlc, workdir

_DOMS = None


def all_domains():
    global _DOMS
    if _DOMS is None:
        rc, out = vlib.sh([os.path.join(vlib.BUILD, "bin", "prog_runner"), "--list"], check=True)
        _DOMS = out.split()
    return _DOMS


DOM_PARAMS = [None, None, None,
              {"zones.chrome_dijkstra": "false", "oct.chrome_dijkstra": "false"},
              {"zones.widen_restabilize": "false", "oct.widen_restabilize": "false"},
              {"zones.special_assign": "false", "oct.special_assign": "false"},
              {"zones.close_bounds_inline": "true", "oct.close_bounds_inline": "true"},
              {"powerset.max_disjuncts": "2"}, {"array_adaptive.is_smashable": "false"}]


def run_config(rng, dom):
    c = {"dom": dom, "wd": rng.choice([0, 1, 2, 2, 3, 5]), "desc": rng.choice([0, 1, 1, 2]), "th": rng.choice([0, 0, 5]),
         "live": rng.choice([0, 0, 1])}
    pr = rng.choice(DOM_PARAMS)
    if pr:
        c["params"] = pr
    return c


def parse_violation(r):
    """last state of TLC's error trace under ALIAS Compact"""
    m = re.findall(r"/\\ prog = (\d+)\n/\\ block = (\d+)\n/\\ idx = (\d+)\n/\\ state = (<<.*?>>)\n/\\ bad_invariant = (\{.*?\})\n/\\ bad_verdict = (\{.*?\})",
                   r.out, re.S)
    if not m:
        return None
    prog, blk, idx, state, bi, bv = m[-1]
    runs_i = [(int(a), b) for a, b in re.findall(r'<<(\d+), "([^"]+)">>', bi)]
    runs_v = [(int(a), b) for a, b in re.findall(r'<<(\d+), "([^"]+)">>', bv)]
    mq = re.findall(r"/\\ bad_query = (\{.*?\})", r.out, re.S)  # spec/RegionSound.tla (ALIAS CompactR)
    runs_q = [(int(a), b) for a, b in re.findall(r'<<(\d+), "([^"]+)">>', mq[-1])] if mq else []
    trace = re.findall(r"/\\ prog = \d+\n/\\ block = (\d+)\n/\\ idx = (\d+)\n/\\ state = (<<.*?>>)\n/\\ bad_invariant", r.out, re.S)
    return {"prog": int(prog), "block": int(blk), "idx": int(idx), "state": state, "bad_invariant": runs_i,
            "bad_verdict": runs_v, "bad_query": runs_q, "execution": [[int(a), int(b), c] for a, b, c in trace]}


def explore(ck, label, programs, box=2, univ=12, timeout=1500, spec="ProgSound", max_iter=6, runner="prog_runner"):
    """runs the analyzer on programs (each with 'runs'), then TLC; returns list of violations (dicts)"""
    wd = workdir(ck.pid.lower() + "-" + label)
    pp, op_, tp, xp = [os.path.join(wd, x) for x in ("p.ndjson", "o.ndjson", "progs.ndjson", "excl.json")]
    vlib.write_ndjson(pp, programs)
    rc, out = vlib.sh([os.path.join(vlib.BUILD, "bin", runner), pp, op_], timeout=3000, env={"VH_STEP_TIMEOUT": 30})
    if rc != 0:
        raise vlib.Broken("%s failed (%d): %s" % (runner, rc, out[-2000:]))
    recs = vlib.read_ndjson(op_)
    merged = proggen.merge(programs, recs)
    vlib.write_ndjson(tp, merged)
    errs = collections.Counter((x["dom"], x["err"]) for x in recs if "err" in x)
    ck.cov.setdefault("harness_no_claim", {})
    for (d, e), n in errs.items():
        key = "%s:%s" % (d, e)
        ck.cov["harness_no_claim"][key] = ck.cov["harness_no_claim"].get(key, 0) + n
    ok = [x for x in recs if "err" not in x]
    ck.cov["traces_validated_against_impl"] += len(ok)
    ck.cov["evaluations"] += len(ok)
    timeouts = [x for x in recs if x.get("err") == "timeout"]
    excluded, viols = [], []
    for it in range(max_iter):
        json.dump(excluded, open(xp, "w"))
        kp = os.path.join(wd, "known.json")
        vlib.write_known_for_spec(kp)
        r = tlc(spec, spec, ck.pid.lower() + "-" + label, env={"PROGRAMS": tp, "EXCLUDED": xp, "BOX": box, "UNIV": univ, "KNOWN_FINDINGS": kp},
                timeout=timeout)
        if it == 0:
            ck.add_tlc(r, spec + "/" + label)
            for kf in {tuple(x) for x in r.tuples("KNOWN")}:
                ck.known("KF-fwdbwd-refined-invariants-unreachable-verdict" if kf[0] == "refined-unreach" else kf[0],
                         {"program": kf[1], "run": kf[2], "domain": kf[3]})
        if not r.is_violation:
            break
        v = parse_violation(r)
        if v is None:
            raise vlib.Broken("cannot parse TLC violation:\n" + r.out[-3000:])
        v["violated"] = sorted(set(r.violated))
        v["program"] = next(p for p in programs if p["id"] == v["prog"])
        viols.append(v)
        for run, dom in v["bad_invariant"] + v["bad_verdict"] + v["bad_query"]:
            excluded.append([v["prog"], run])
    return viols, merged, timeouts
