# Builds libCrab.a from /repo's CURRENT working tree and the harness adaptors.
# Nothing from /repo/_build is used. Header dependencies (-MMD) make an edited
# header recompile exactly the translation units that include it.
REPO    ?= /repo
B       ?= build
override B := $(abspath $(B))
CCACHE  := $(shell command -v ccache 2>/dev/null)
CXX     := $(if $(CCACHE),CCACHE_DIR=$(CURDIR)/build/ccache ccache g++,g++)
# CRAB_VERIF is the guard for instrumentation hooks in /repo (see MANIFEST.hooks)
CXXFLAGS := -std=c++11 -O1 -DNDEBUG -DCRAB_VERIF -w -I$(B)/include -I$(REPO)/include -Iharness
LDLIBS  := -lgmp

LIBSRC  := $(wildcard $(REPO)/lib/*.cpp)
LIBOBJ  := $(patsubst $(REPO)/lib/%.cpp,$(B)/libcrab/%.o,$(LIBSRC))

HSRC    := $(wildcard harness/*.cpp)
HOBJ    := $(patsubst harness/%.cpp,$(B)/obj/%.o,$(HSRC))

# runner -> objects (one TU per domain family so that 16 cores compile in parallel)
RUNNERS := $(filter-out domreg,$(sort $(foreach s,$(HSRC),$(firstword $(subst __, ,$(basename $(notdir $(s))))))))
# runners that analyse programs use every domain behind the type-erased wrapper (harness/domreg*)
DOMREG_USERS := prog_runner inter_runner bwd_runner
DOMREG_OBJS  := $(filter $(B)/obj/domreg.o $(B)/obj/domreg__%.o,$(HOBJ))

all: $(addprefix $(B)/bin/,$(RUNNERS))

$(B)/include/crab/config.h: $(REPO)/include/crab/config.h.cmake
	@mkdir -p $(dir $@)
	@printf '#ifndef _CRAB_CONFIG_H_\n#define _CRAB_CONFIG_H_\n#define CRAB_STATS TRUE\n#endif\n' > $@

$(LIBOBJ): $(B)/libcrab/%.o: $(REPO)/lib/%.cpp $(B)/include/crab/config.h
	@mkdir -p $(dir $@)
	$(CXX) $(CXXFLAGS) -MMD -MP -c $< -o $@

$(B)/libCrab.a: $(LIBOBJ)
	@rm -f $@
	ar rcs $@ $^

$(HOBJ): $(B)/obj/%.o: harness/%.cpp $(B)/include/crab/config.h
	@mkdir -p $(dir $@)
	$(CXX) $(CXXFLAGS) -MMD -MP -c $< -o $@

PCT := %
# a runner "foo" links harness/foo.cpp and every harness/foo__*.cpp
.SECONDEXPANSION:
$(B)/bin/%: $$(filter $(B)/obj/$$*.o $(B)/obj/$$*__$$(PCT).o,$(HOBJ)) $$(if $$(filter $$*,$(DOMREG_USERS)),$(DOMREG_OBJS)) $(B)/libCrab.a
	@mkdir -p $(dir $@)
	g++ -o $@ $(filter %.o,$^) $(B)/libCrab.a $(LDLIBS)

-include $(wildcard $(B)/libcrab/*.d) $(wildcard $(B)/obj/*.d)

clean:
	rm -rf $(B)/obj $(B)/libcrab $(B)/bin $(B)/libCrab.a
.PHONY: all clean
