#include "domreg.hpp"
#include "domtypes.hpp"
#include <crab/domains/intervals.hpp>
#include <crab/domains/split_dbm.hpp>
#include <crab/domains/split_oct.hpp>
#include <crab/domains/lookahead_widening_domain.hpp>
#include <crab/domains/numerical_packing.hpp>
#include <crab/domains/powerset_domain.hpp>
#include <crab/domains/value_partitioning_domain.hpp>
using namespace crab::domains;
using namespace vh;
typedef ikos::interval_domain<z_number, varname_t> intervals_t;
typedef split_dbm_domain<z_number, varname_t, VH_DBM_GRAPH> split_dbm_t;
typedef split_oct_domain<z_number, varname_t, VH_DBM_GRAPH> split_oct_t;
typedef lookahead_widening_domain<split_oct_t> lw_soct_t;
typedef numerical_packing_domain<split_dbm_t> pack_sdbm_t;
typedef powerset_domain<intervals_t> pow_int_t;
typedef powerset_domain<split_dbm_t> pow_sdbm_t;
typedef value_partitioning_domain<intervals_t> vp_int_t;
VH_DOMREG(lw_soct, lw_soct_t)
VH_DOMREG(pack_sdbm, pack_sdbm_t)
VH_DOMREG(pow_int, pow_int_t)
VH_DOMREG(pow_sdbm, pow_sdbm_t)
VH_DOMREG(vp_int, vp_int_t)
