// Registry of abstract domains behind the type-erased wrapper abstract_domain_ref
// (so that analyzers are instantiated once). name -> factory of a top value.
#pragma once
#include "crabir.hpp"
#include "domtypes.hpp"
#include <crab/domains/generic_abstract_domain.hpp>
#include <functional>
#include <map>

namespace vh {
typedef crab::domains::abstract_domain_ref<z_var> ref_t;
typedef std::function<ref_t()> factory_t;
std::map<std::string, factory_t> &domreg();
struct DomRegistrar {
  DomRegistrar(const std::string &name, factory_t f) { domreg()[name] = f; }
};
#define VH_DOMREG(NAME, TYPE) static vh::DomRegistrar domreg_##NAME(#NAME, []() { return vh::ref_t(TYPE()); });
} // namespace vh
