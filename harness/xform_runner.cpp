// xform_runner <programs.ndjson> <out.ndjson>     (C17; also serves C18)
// Applies the real CFG transformations to a program and exports the transformed CFG:
//   "simplify" = cfg::simplify(), "dce" = transforms::dead_code_elimination,
//   "lsa" = transforms::lower_safe_assertions with the safe set of an interval analysis + assertion checker.
// program["xf"] = list of transformation names applied in order.
#include "cfgexport.hpp"
#include <crab/analysis/fwd_analyzer.hpp>
#include <crab/checkers/assertion.hpp>
#include <crab/checkers/base_property.hpp>
#include <crab/checkers/checker.hpp>
#include <crab/domains/intervals.hpp>
#include <crab/transforms/dce.hpp>
#include <crab/transforms/lower_safe_assertions.hpp>
#include <csignal>
#include <sys/wait.h>
#include <unistd.h>

using namespace vh;
typedef ikos::interval_domain<z_number, varname_t> intervals_t;
typedef crab::analyzer::intra_fwd_analyzer<z_cfg_ref_t, intervals_t> analyzer_t;
typedef crab::checker::intra_checker<analyzer_t> checker_t;
typedef crab::checker::assert_property_checker<analyzer_t> assert_checker_t;

static void run_one(const vj::Value &p, std::ostream &o) {
  variable_factory_t vfac;
  VarTab vt(vfac);
  vt.declare(p["vars"]);
  std::unique_ptr<z_cfg_t> cfg = build_cfg(p, vt);
  o << "{\"id\":" << p["id"].i() << ",\"orig\":";
  put_cfg(o, *cfg, vt);
  o << ",\"applied\":[";
  const vj::Value &xf = p["xf"];
  for (size_t k = 0; k < xf.size(); ++k) {
    const std::string &t = xf[k].str();
    bool changed = false;
    if (t == "simplify") {
      cfg->simplify();
      changed = true;
    } else if (t == "dce") {
      z_cfg_ref_t ref(*cfg);
      crab::transforms::dead_code_elimination<z_cfg_ref_t> dce;
      changed = dce.run(ref);
    } else if (t == "lsa") {
      z_cfg_ref_t ref(*cfg);
      intervals_t top;
      intervals_t init;
      if (p.has("init")) {
        z_lin_cst_sys_t sys;
        for (size_t i = 0; i < p["init"].size(); ++i) sys += lin_cst(p["init"][i], vt);
        init += sys;
      }
      crab::fixpoint_parameters fp;
      analyzer_t a(ref, top, nullptr, fp);
      a.run(init);
      std::shared_ptr<assert_checker_t> prop(new assert_checker_t(0));
      checker_t checker(a, {prop});
      checker.run();
      std::set<const z_cfg_ref_t::statement_t *> safe(prop->get_safe_checks().begin(), prop->get_safe_checks().end());
      crab::transforms::lower_safe_assertions<z_cfg_ref_t> lsa(safe);
      changed = lsa.run(ref);
    }
    o << (k ? "," : "") << (changed ? 1 : 0);
  }
  o << "],\"cfg\":";
  put_cfg(o, *cfg, vt);
  o << "}\n";
}

int main(int argc, char **argv) {
  if (argc < 3) return 2;
  std::vector<vj::Value> ps;
  {
    std::ifstream in(argv[1]);
    std::string line;
    while (std::getline(in, line))
      if (!line.empty()) ps.push_back(vj::parse(line));
  }
  FILE *out = fopen(argv[2], "w");
  if (!out) return 2;
  size_t next = 0;
  while (next < ps.size()) {
    int pfd[2];
    if (pipe(pfd) != 0) return 2;
    fflush(out);
    pid_t pid = fork();
    if (pid == 0) {
      close(pfd[0]);
      for (size_t j = next; j < ps.size(); ++j) {
        alarm(20);
        std::ostringstream s;
        run_one(ps[j], s);
        alarm(0);
        fputs(s.str().c_str(), out);
        fflush(out);
        char c = 1;
        if (write(pfd[1], &c, 1) != 1) _exit(5);
      }
      _exit(0);
    }
    close(pfd[1]);
    size_t done = 0;
    char buf[256];
    ssize_t n;
    while ((n = read(pfd[0], buf, sizeof buf)) > 0) done += n;
    close(pfd[0]);
    int status = 0;
    waitpid(pid, &status, 0);
    next += done;
    if (next < ps.size()) {
      const char *why = (WIFSIGNALED(status) && WTERMSIG(status) == SIGALRM) ? "timeout" : "crash";
      fprintf(out, "{\"id\":%lld,\"err\":\"%s\"}\n", ps[next]["id"].i(), why);
      ++next;
    }
  }
  fclose(out);
  return 0;
}
