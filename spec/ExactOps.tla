--------------------------- MODULE ExactOps ---------------------------
(* C12: intervals, zones and octagons are EXACT on their own constraint language.

   DomainOps.tla carries witness sets (subsets of the meaning, contract = inclusion).
   Here every history stays inside the constraint language of the judged domain and
   inside the box -R..R, so that the meaning of every register is a finite set of
   integer points that TLC can compute EXACTLY; the contract is then made of
   EQUALITIES.  Language L of a domain = the linear forms f it can bound:
        itv   : +x, -x
        zone  : itv  + x - y
        oct   : zone + x + y, -x - y
   Spec-level steps of a history (tools/checks/c12.py expands them into primitive
   dom_replay steps and transports the observation made after the last one):
        box r            r := { -R <= v <= R for every v }
        assume r c       r := r /\ c           c in the language (unit coefficients, le/lt/eq)
        meet r a b       r := a /\ b
        join r a b       r := Hull_L(a \/ b)   the least value of the LANGUAGE above both operands:
                                               all points satisfying every constraint f <= k of L
                                               that holds on a \/ b   (computed by enumeration)
        forgetbox r v    forget v in r, then -R <= v <= R   (projection, cylinder in the box)
        copy r a         r := a
        entails r c / leq a b / isbot r          queries
   As the hull depends on L, the exact state is kept per language:  S[L][r].  A history of
   language H is judged on every domain whose language contains H.

   Second sentence of C12 (mode "lift"): straight-line numerical statements are replayed on a
   lifting/product and on its base domain; after every step at_lifted(v) \subseteq at_base(v).
   No exact set is needed for that: both sides are recorded observations.

   One TLC behaviour = one recorded history.  *)
EXTENDS Gamma, TLC, Json, IOUtils

Traces == ndJsonDeserialize(IOEnv.EXACT_TRACES)
KnownSigs == JsonDeserialize(IOEnv.KNOWN_FINDINGS)   \* sequence of open known-finding records
SeenSigs == JsonDeserialize(IOEnv.SEEN_SIGS)         \* failure classes [dom, op, why] ALREADY REPORTED by an earlier TLC run of this check

VARIABLES t,       \* index of the trace being validated
          l,       \* number of spec-level steps consumed
          S,       \* S[L][r] : exact meaning of register r for a domain of language L
          bad,     \* <<domain index, register>> poisoned by a KNOWN finding
          verdict  \* verdict[d] of the step just consumed
vars == <<t, l, S, bad, verdict>>

Tr == Traces[t]
R == atoi(IOEnv.EXACT_R)  \* radius of the box the histories live in (every trace carries the same value: WellFormed)
B == R + 2                \* radius of the box on which the exported meaning is compared with S
NV == Tr.nv
Regs == 1..Tr.nregs
Doms == DOMAIN Tr.obs
SeqSet(q) == {q[k] : k \in DOMAIN q}
Langs == SeqSet(Tr.langs)       \* languages of the domains judged on this history
AllLangs == {"itv", "zone", "oct"}

RECURSIVE BoxOf(_, _)
BoxOf(n, rad) == IF n = 0 THEN {<<>>} ELSE {Append(s, v) : s \in BoxOf(n - 1, rad), v \in (-rad)..rad}
\* constant-level definitions: TLC evaluates them once
BoxR1 == BoxOf(1, R)  BoxR2 == BoxOf(2, R)  BoxR3 == BoxOf(3, R)  BoxR4 == BoxOf(4, R)
BoxB1 == BoxOf(1, B)  BoxB2 == BoxOf(2, B)  BoxB3 == BoxOf(3, B)  BoxB4 == BoxOf(4, B)
BoxRn(n) == CASE n = 1 -> BoxR1 [] n = 2 -> BoxR2 [] n = 3 -> BoxR3 [] n = 4 -> BoxR4 [] OTHER -> BoxOf(n, R)
BoxBn(n) == CASE n = 1 -> BoxB1 [] n = 2 -> BoxB2 [] n = 3 -> BoxB3 [] n = 4 -> BoxB4 [] OTHER -> BoxOf(n, B)
BoxR == BoxRn(NV)
BoxB == BoxBn(NV)

----------------------------------------------------------------------------
(* the constraint languages.  A linear form is <<a, i, b, j>> meaning a*v_i + b*v_j  (b = 0: unary) *)
Ev(f, s) == f[1] * s[f[2]] + f[3] * s[f[4]]
Unary == {<<a, i, 0, i>> : a \in {-1, 1}, i \in 1..NV}
Diffs == {f \in {<<1, i, -1, j>> : i \in 1..NV, j \in 1..NV} : f[2] # f[4]}
Sums  == {f \in {<<a, i, a, j>> : a \in {-1, 1}, i \in 1..NV, j \in 1..NV} : f[2] < f[4]}
Forms(L) == CASE L = "itv" -> Unary [] L = "zone" -> Unary \cup Diffs [] OTHER -> Unary \cup Diffs \cup Sums

MaxOf(X) == CHOOSE m \in X : \A n \in X : n <= m
MinOf(X) == CHOOSE m \in X : \A n \in X : m <= n

(* least set expressible in L that contains X: f <= k holds on X  <=>  k >= max_X f *)
Hull(L, X) ==
  IF X = {} THEN {}
  ELSE LET bounds == {<<f, MaxOf({Ev(f, s) : s \in X})>> : f \in Forms(L)}   \* eager: one maximum per form
       IN {p \in BoxR : \A fb \in bounds : Ev(fb[1], p) <= fb[2]}

(* is the linear constraint c (CrabIR.tla: e r 0) a constraint of language L ? *)
InLang(L, c) ==
  LET ts == c.e.t IN
  /\ c.r \in {"le", "lt", "eq"}
  /\ Len(ts) \in {1, 2}
  /\ \A k \in DOMAIN ts : ts[k][1] \in {-1, 1} /\ ts[k][2] \in 1..NV
  /\ Len(ts) = 2 => /\ ts[1][2] # ts[2][2]
                    /\ L # "itv"
                    /\ (L = "zone" => ts[1][1] # ts[2][1])
LangLeq(H, L) == H = L \/ H = "itv" \/ L = "oct"

(* every history must really be inside its language: checked, not assumed *)
WellFormed ==
  /\ Tr.R = R
  /\ \A L \in Langs : LangLeq(Tr.lang, L)
  /\ \A k \in DOMAIN Tr.steps :
       LET st == Tr.steps[k] IN
       /\ (st.op \in {"assume", "entails"} /\ Tr.mode = "exact") => InLang(Tr.lang, st.c)
       /\ st.op = "forgetbox" => st.v \in 1..NV
       /\ Tr.mode = "exact" => st.op \in {"box", "assume", "meet", "join", "forgetbox", "copy", "entails", "leq", "isbot"}
       /\ Tr.mode = "lift" => st.op \in {"box", "stmt", "copy"}
  /\ \A d \in Doms : Tr.mode = "exact" => (Tr.obs[d].lang \in Langs)

----------------------------------------------------------------------------
(* exact semantics of one spec-level step on the sets of language L *)
Target(L, st) ==
  LET Z == S[L] IN
  CASE st.op = "box"       -> BoxR
    [] st.op = "assume"    -> {s \in Z[st.r] : Holds(st.c, s)}
    [] st.op = "meet"      -> Z[st.a] \cap Z[st.b]
    [] st.op = "join"      -> Hull(L, Z[st.a] \cup Z[st.b])
    [] st.op = "copy"      -> Z[st.a]
    [] st.op = "forgetbox" -> {[s EXCEPT ![st.v] = n] : s \in Z[st.r], n \in (-R)..R}
    [] OTHER               -> Z[st.r]

IsQuery(st) == st.op \in {"leq", "entails", "isbot"}
Sources(st) ==
  CASE st.op \in {"join", "meet", "leq"} -> {st.a, st.b}
    [] st.op = "copy" -> {st.a}
    [] st.op = "box" -> {}
    [] OTHER -> {st.r}

EmptyItv(i) == i[1] = 1 /\ i[3] = 1 /\ i[2] > i[4]
ItvSub(a, b) ==      \* interval a is included in interval b
  \/ EmptyItv(a)
  \/ /\ ~EmptyItv(b)
     /\ (b[1] = 1 => (a[1] = 1 /\ a[2] >= b[2]))
     /\ (b[3] = 1 => (a[3] = 1 /\ a[4] <= b[4]))

(* UpperGamma(o) restricted to the comparison box:  {p \in BoxB : InGamma(p, o)}  (module Gamma), enumerated
   cheaply: the interval part of InGamma selects a product of ranges, the constraints filter it.
   (c12.py transports o.disj = <<<<>>>>, i.e. true: intervals/zones/octagons export no disjunctions.) *)
Lo(i) == IF i[1] = 1 /\ i[2] > -B THEN i[2] ELSE -B
Hi(i) == IF i[3] = 1 /\ i[4] < B THEN i[4] ELSE B
Cand(o) ==
  CASE NV = 1 -> {<<a>> : a \in Lo(o.itv[1])..Hi(o.itv[1])}
    [] NV = 2 -> {<<a, b>> : a \in Lo(o.itv[1])..Hi(o.itv[1]), b \in Lo(o.itv[2])..Hi(o.itv[2])}
    [] NV = 3 -> {<<a, b, c>> : a \in Lo(o.itv[1])..Hi(o.itv[1]), b \in Lo(o.itv[2])..Hi(o.itv[2]), c \in Lo(o.itv[3])..Hi(o.itv[3])}
    [] OTHER  -> {p \in BoxB : \A i \in 1..NV : InItv(p[i], o.itv[i])}
Meaning(o) == IF o.bot = 1 THEN {} ELSE {p \in Cand(o) : AllHold(o.csts, p)}

(* exact-mode judgement of a domain of language L: rec = its recorded outcome, Z = S'[L] *)
Judge(st, rec, Z) ==
  IF st.op = "leq" THEN
       IF rec.ans = 1 /\ ~(Z[st.a] \subseteq Z[st.b]) THEN "leq-yes-but-not-included"
       ELSE IF rec.ans = 0 /\ Z[st.a] \subseteq Z[st.b] THEN "leq-no-but-included"
       ELSE "ok"
  ELSE IF st.op = "entails" THEN
       LET holds == \A s \in Z[st.r] : Holds(st.c, s) IN
       IF rec.ans = 1 /\ ~holds THEN "entails-yes-but-false"
       ELSE IF rec.ans = 0 /\ holds THEN "entails-no-but-implied"
       ELSE "ok"
  ELSE IF st.op = "isbot" THEN
       IF rec.ans = 1 /\ Z[st.r] # {} THEN "is_bottom-but-satisfiable"
       ELSE IF rec.ans = 0 /\ Z[st.r] = {} THEN "not-is_bottom-but-unsatisfiable"
       ELSE "ok"
  ELSE LET X == Z[st.r]  o == rec.o IN
       IF o.bot = 1 /\ X # {} THEN "bottom-but-satisfiable"
       ELSE IF o.bot = 0 /\ X = {} THEN "unsatisfiable-but-not-bottom"
       ELSE IF Meaning(o) # X THEN (IF \E s \in X : ~InGamma(s, o) THEN "state-not-described" ELSE "meaning-not-exact")
       ELSE IF X # {} /\ \E i \in 1..NV :
                 LET vals == {s[i] : s \in X} IN o.itv[i] # <<1, MinOf(vals), 1, MaxOf(vals)>>
            THEN "at-not-tightest-bounds"
       ELSE "ok"

(* a point on which the recorded outcome and the exact set disagree (for the replay artefact) *)
WitnessOf(st, rec, Z) ==
  IF st.op = "leq" THEN (IF \E s \in Z[st.a] : s \notin Z[st.b] THEN CHOOSE s \in Z[st.a] : s \notin Z[st.b] ELSE <<>>)
  ELSE IF st.op = "entails" THEN (IF \E s \in Z[st.r] : ~Holds(st.c, s) THEN CHOOSE s \in Z[st.r] : ~Holds(st.c, s) ELSE <<>>)
  ELSE IF st.op = "isbot" THEN (IF Z[st.r] # {} THEN CHOOSE s \in Z[st.r] : TRUE ELSE <<>>)
  ELSE IF \E s \in Z[st.r] : ~InGamma(s, rec.o) THEN CHOOSE s \in Z[st.r] : ~InGamma(s, rec.o)
  ELSE IF \E p \in Meaning(rec.o) : p \notin Z[st.r] THEN CHOOSE p \in Meaning(rec.o) : p \notin Z[st.r]
  ELSE <<>>

(* lift-mode judgement of domain d (a lifting): never looser than its base domain(s) *)
BasesOf(d) == {Tr.pairs[q][2] : q \in {z \in DOMAIN Tr.pairs : Tr.pairs[z][1] = d}}
LiftJudge(d, k) ==
  LET lo == Tr.obs[d].steps[k].o
      loose == {b \in BasesOf(d) : Tr.obs[b].err = 0 /\ \E i \in 1..NV : ~ItvSub(lo.itv[i], Tr.obs[b].steps[k].o.itv[i])}
  IN IF loose = {} THEN "ok" ELSE "looser-than-" \o Tr.obs[CHOOSE b \in loose : TRUE].dom
LiftWitness(d, k) ==
  LET lo == Tr.obs[d].steps[k].o
      b == CHOOSE b \in BasesOf(d) : Tr.obs[b].err = 0 /\ \E i \in 1..NV : ~ItvSub(lo.itv[i], Tr.obs[b].steps[k].o.itv[i])
      i == CHOOSE i \in 1..NV : ~ItvSub(lo.itv[i], Tr.obs[b].steps[k].o.itv[i])
  IN <<i, lo.itv[i], Tr.obs[b].steps[k].o.itv[i]>>

----------------------------------------------------------------------------
(* known findings: a failing step matching an OPEN entry of known_findings.json (engine "exact_replay")
   poisons the register instead of failing the invariant *)
SigMatches(sig, dom, st, why) ==
  /\ sig.engine = "exact_replay"
  /\ (sig.doms = <<>> \/ \E k \in DOMAIN sig.doms : sig.doms[k] = dom)
  /\ (sig.op = "" \/ sig.op = st.op)
  /\ (sig.why = "" \/ sig.why = why)
  /\ ("hist" \notin DOMAIN sig \/ sig.hist = Tr.id)        \* a finding identified by ONE specific history
KnownFor(dom, st, why) == {k \in DOMAIN KnownSigs : SigMatches(KnownSigs[k].sig, dom, st, why)}
(* TLC stops at the first violation (no -continue for these deep behaviours).  So that ONE frequent failure does not hide
   the others, c12.py re-runs TLC with the classes (domain, operation, judgement) it has already collected: further
   instances of such a class are printed as SEEN (and counted by c12.py as cases of that VIOLATION), poison the
   register and do not stop TLC; every class not yet reported still violates the invariant. *)
AlreadySeen(dom, st, why) == \E k \in DOMAIN SeenSigs : SeenSigs[k].dom = dom /\ SeenSigs[k].op = st.op /\ SeenSigs[k].why = why

Init == /\ t \in DOMAIN Traces
        /\ l = 0
        /\ S = [L \in AllLangs |-> [r \in 1..Traces[t].nregs |-> BoxRn(Traces[t].nv)]]
        /\ bad = {}
        /\ verdict = [d \in DOMAIN Traces[t].obs |-> "ok"]

Step ==
  /\ l < Len(Tr.steps)
  /\ LET st == Tr.steps[l + 1]
         Sn == S'      \* S' is assigned first (below): an explicit value, not a lazily re-evaluated function
         tainted(d) == \E q \in Sources(st) : <<d, q>> \in bad
         raw(d) == IF Tr.mode = "exact" THEN Judge(st, Tr.obs[d].steps[l + 1], Sn[Tr.obs[d].lang])
                   ELSE IF BasesOf(d) = {} THEN "ok" ELSE LiftJudge(d, l + 1)
         wit(d) == IF Tr.mode = "exact" THEN WitnessOf(st, Tr.obs[d].steps[l + 1], Sn[Tr.obs[d].lang])
                   ELSE LiftWitness(d, l + 1)
         v == [d \in Doms |->
                 IF Tr.obs[d].err # 0 \/ Tr.obs[d].judged = 0 THEN "skip"
                 ELSE IF tainted(d) \/ (Tr.mode = "lift" /\ \E b \in BasesOf(d) : \E q \in Sources(st) \cup {st.r} : <<b, q>> \in bad) THEN "skip"
                 ELSE LET j == raw(d)
                      IN IF j = "ok" THEN "ok"
                         ELSE IF KnownFor(Tr.obs[d].dom, st, j) # {}
                           THEN IF PrintT(<<"KNOWN", KnownSigs[CHOOSE k \in KnownFor(Tr.obs[d].dom, st, j) : TRUE].id,
                                            Tr.id, l + 1, Tr.obs[d].dom, j>>) THEN "known" ELSE "known"
                           ELSE IF AlreadySeen(Tr.obs[d].dom, st, j)
                             THEN IF PrintT(<<"SEEN", Tr.id, l + 1, Tr.obs[d].dom, j>>) THEN "seen" ELSE "seen"
                           ELSE IF PrintT(<<"FAIL", Tr.id, l + 1, Tr.obs[d].dom, j, wit(d)>>) THEN j ELSE j]
     IN /\ S' = IF Tr.mode # "exact" \/ IsQuery(st) THEN S
                 \* EXCEPT is evaluated eagerly by TLC (a function constructor would be re-evaluated at every use);
                 \* languages that are not judged for this history are not followed
                 ELSE [S EXCEPT !["itv"][st.r]  = IF "itv"  \in Langs THEN Target("itv", st)  ELSE {},
                                !["zone"][st.r] = IF "zone" \in Langs THEN Target("zone", st) ELSE {},
                                !["oct"][st.r]  = IF "oct"  \in Langs THEN Target("oct", st)  ELSE {}]
        /\ verdict' = v
        /\ bad' = IF IsQuery(st) THEN bad
                  ELSE (bad \ {<<d, st.r>> : d \in Doms})
                       \cup {<<d, st.r>> : d \in {e \in Doms : tainted(e) \/ verdict'[e] \notin {"ok", "skip"}}}
  /\ l' = l + 1
  /\ UNCHANGED t

Spec == Init /\ [][Step]_vars

(* error traces print this instead of the (large) exact sets *)
Compact == [trace |-> Tr.id, step |-> l, verdict |-> [d \in Doms |-> <<Tr.obs[d].dom, verdict[d]>>],
            op |-> IF l = 0 THEN "init" ELSE Tr.steps[l]]

(* THE contract *)
Exact == \A d \in Doms : verdict[d] \in {"ok", "skip", "known", "seen"}
(* the generator kept its promise (otherwise the check is broken, not the code) *)
InLanguage == l = 0 => WellFormed
============================================================================
