#!/bin/bash
# usage: tools/seed_intake.sh <ID> <workdir with patch.diff demo.cpp meta.json> <check ids...>
# Confirms a seeded change (demo passes on the pristine tree, fails with the change), runs the named checks against it in a
# scratch worktree, and stores everything under /verif/seeded/<ID>/ (never touches /repo).
ID=$1; SRC=$2; shift 2
WT=/tmp/wt_seed; BD=/tmp/build_seed; OUT=/verif/seeded/$ID
git -C /repo worktree remove --force $WT >/dev/null 2>&1
git -C /repo worktree add -q --detach $WT HEAD || exit 2
trap 'git -C /repo worktree remove --force '$WT' >/dev/null 2>&1' EXIT
mkdir -p $OUT; cp $SRC/patch.diff $SRC/demo.cpp $SRC/meta.json $OUT/ 2>/dev/null
if ! git -C $WT apply $OUT/patch.diff; then echo "PATCH DOES NOT APPLY on HEAD"; exit 3; fi
CFG=/verif/build/include
# pristine and patched libs (lib/ may be touched)
make -s -C /verif -j16 REPO=/repo B=/verif/build /verif/build/libCrab.a >/dev/null 2>&1
make -s -C /verif -j16 REPO=$WT B=$BD $BD/libCrab.a >/dev/null 2>&1 || { echo "patched lib does not build"; exit 3; }
g++ -std=c++11 -O1 -DNDEBUG -w -I$CFG -I/repo/include -I/repo/tests $OUT/demo.cpp /verif/build/libCrab.a -lgmp -o /tmp/demo_clean 2>/tmp/demo_clean.err || { echo "demo does not compile (pristine)"; head -5 /tmp/demo_clean.err; }
g++ -std=c++11 -O1 -DNDEBUG -w -I$CFG -I$WT/include -I$WT/tests $OUT/demo.cpp $BD/libCrab.a -lgmp -o /tmp/demo_mut 2>/tmp/demo_mut.err || { echo "demo does not compile (patched)"; head -5 /tmp/demo_mut.err; }
timeout 120 /tmp/demo_clean >/tmp/demo_clean.out 2>&1; RC0=$?
timeout 120 /tmp/demo_mut >/tmp/demo_mut.out 2>&1; RC1=$?
echo "demo: pristine exit=$RC0 patched exit=$RC1"
RES=""
for c in "$@"; do
  L=$(VERIF_REPO=$WT VERIF_BUILD=$BD VERIF_TIER=${VERIF_TIER:-quick} timeout 3000 /verif/tools/check $c 2>&1 | grep -E "^VIOLATION|^OK|^BROKEN" | head -1 | cut -c1-120)
  echo "check $c: $L"
  RES="$RES$c: $L; "
done
python3 - "$OUT" "$RC0" "$RC1" "$RES" <<'PY'
import json,sys
out,rc0,rc1,res=sys.argv[1:5]
try: m=json.load(open(out+'/meta.json'))
except Exception: m={}
m["confirmed"]={"demo_exit_pristine":int(rc0),"demo_exit_with_change":int(rc1),
  "how":"tools/seed_intake.sh: patch applied to a scratch worktree of /repo HEAD; demo compiled against pristine and patched headers/lib; checks run with VERIF_REPO/VERIF_BUILD pointing at the scratch worktree",
  "checks":res}
json.dump(m,open(out+'/meta.json','w'),indent=1)
PY
rm -f $OUT/../../replays/*-quick-*-*.json 2>/dev/null
