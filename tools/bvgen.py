"""Seeded generator of CrabIR programs under machine-integer semantics (C13, wrapped-interval domain): w-bit variables,
wrap-around arithmetic, overflow-crossing loops; conditions are single-variable comparisons with constants."""
from proggen import negate


def program(rng, pid, w):
    half = 1 << (w - 1)
    lo, hi = -half, half - 1
    ints = [1, 2, 3]
    vars_ = [{"n": n, "t": "int", "w": w} for n in ("x", "y", "z")]
    blocks = []

    def blk(st=None):
        blocks.append({"succ": [], "stmts": st or []})
        return len(blocks)

    def edge(a, b):
        blocks[a - 1]["succ"].append(b)

    def k():
        return rng.choice([lo, lo + 1, -1, 0, 1, 2, hi - 1, hi, rng.randint(lo, hi)])

    def cond():
        v = rng.choice(ints)
        c = k()
        r = rng.choice(["le", "le", "lt", "eq", "ne"])
        sgn = rng.choice([1, -1])
        return {"e": {"k": -sgn * c, "t": [[sgn, v]]}, "r": r}     # sgn*(v - c) r 0

    def stmt():
        t = rng.choice(["assignk", "assignv", "add", "add", "sub", "mul", "havoc", "select"])
        x = rng.choice(ints)
        if t == "assignk":
            return {"op": "assign", "x": x, "e": {"k": k(), "t": []}}
        if t == "assignv":
            return {"op": "assign", "x": x, "e": {"k": rng.choice([0, 1, -1, hi]), "t": [[rng.choice([1, 1, -1, 2]), rng.choice(ints)]]}}
        if t in ("add", "sub", "mul"):
            d = {"op": "arith", "f": t, "x": x, "y": rng.choice(ints)}
            if rng.random() < 0.6:
                d.update({"zk": 1, "z": rng.choice([1, 1, 2, 3, hi, -1])})
            else:
                d.update({"zk": 0, "z": rng.choice(ints)})
            return d
        if t == "havoc":
            return {"op": "havoc", "x": x}
        return {"op": "select", "x": x, "c": cond(), "e1": {"k": k(), "t": []}, "e2": {"k": 0, "t": [[1, rng.choice(ints)]]}}

    def some(n):
        return [stmt() for _ in range(n)]

    nassert = [0]

    def asrt():
        nassert[0] += 1
        return {"op": "assert", "c": cond(), "id": nassert[0]}

    shape = rng.choice(["line", "diamond", "loop", "loop", "loop"])
    e = blk(some(rng.randint(1, 3)))
    if shape == "line":
        x = blk(some(rng.randint(1, 3)) + [asrt()])
        edge(e, x)
    elif shape == "diamond":
        g = cond()
        t = blk([{"op": "assume", "c": g}] + some(rng.randint(1, 2)))
        f = blk([{"op": "assume", "c": negate(g)}] + some(rng.randint(1, 2)))
        x = blk(some(rng.randint(0, 1)) + [asrt()])
        edge(e, t); edge(e, f); edge(t, x); edge(f, x)
    else:
        # loop whose counter may cross the signed overflow boundary
        v = rng.choice(ints)
        h = blk([])
        g = cond()
        body = blk([{"op": "assume", "c": g}] + some(rng.randint(0, 2)) +
                   [{"op": "arith", "f": rng.choice(["add", "add", "sub"]), "x": v, "y": v, "zk": 1, "z": rng.choice([1, 1, 2, 3])}])
        x = blk([{"op": "assume", "c": negate(g)}] + some(rng.randint(0, 1)) + [asrt()])
        edge(e, h); edge(h, body); edge(h, x); edge(body, h)
    init = []
    if rng.random() < 0.4:
        init.append(cond())
    return {"id": pid, "shape": "bv-" + shape, "bv": w, "vars": vars_, "kinds": ["int"] * 3, "nv": 3, "entry": 1, "exit": len(blocks),
            "blocks": blocks, "init": init}
